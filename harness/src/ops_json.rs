//! Implementation side of driver op `json` (see /verif/CONTRIBUTING.md, property C05).
//!
//! Wire syntax of values (no spaces), shared with `RsjModel/Json.lean`:
//!   `z` | `t` | `f` | `n<16 hex IEEE bits>:<hex token>;` | `s<hex utf8>;`
//!   | `[` v* `]` | `{` (`v`|`h`) `<hex key>;` v ... `}`   (`h` = hidden field `::`)
//! The implementation uses the bit pattern of a number, the model its token.
//!
//! The value is rebuilt as Jsonnet source whose leaves are external variables
//! (numbers and strings are injected as `Value`s, so neither the Jsonnet lexer nor
//! number parsing is involved), evaluated by the real `Program`, and manifested
//! through the requested entry point.
#![allow(unused_imports, dead_code)]
use crate::ops_eval::{eval_err, load_err, Cb};
use crate::util::*;
use rsjsonnet_lang::arena::Arena;
use rsjsonnet_lang::program::{Program, Value, ValueKind};

enum W {
    Null,
    Bool(bool),
    Num(f64),
    Str(String),
    Arr(Vec<W>),
    Obj(Vec<(bool, String, W)>),
}

fn take_until<'a>(s: &'a [u8], pos: &mut usize, t: u8) -> Option<&'a str> {
    let start = *pos;
    while *pos < s.len() && s[*pos] != t {
        *pos += 1;
    }
    if *pos >= s.len() {
        return None;
    }
    let r = std::str::from_utf8(&s[start..*pos]).ok()?;
    *pos += 1;
    Some(r)
}

fn hex_str(h: &str) -> Option<String> {
    if h.is_empty() {
        return Some(String::new());
    }
    String::from_utf8(hex_dec(h)?).ok()
}

fn read_val(s: &[u8], pos: &mut usize) -> Option<W> {
    let c = *s.get(*pos)?;
    *pos += 1;
    match c {
        b'z' => Some(W::Null),
        b't' => Some(W::Bool(true)),
        b'f' => Some(W::Bool(false)),
        b'n' => {
            let bits = take_until(s, pos, b':')?;
            let _tok = take_until(s, pos, b';')?;
            let bits = u64::from_str_radix(bits, 16).ok()?;
            Some(W::Num(f64::from_bits(bits)))
        }
        b's' => {
            let h = take_until(s, pos, b';')?;
            Some(W::Str(hex_str(h)?))
        }
        b'[' => {
            let mut items = Vec::new();
            loop {
                if *s.get(*pos)? == b']' {
                    *pos += 1;
                    return Some(W::Arr(items));
                }
                items.push(read_val(s, pos)?);
            }
        }
        b'{' => {
            let mut fields = Vec::new();
            loop {
                let c = *s.get(*pos)?;
                *pos += 1;
                match c {
                    b'}' => return Some(W::Obj(fields)),
                    b'v' | b'h' => {
                        let k = hex_str(take_until(s, pos, b';')?)?;
                        let v = read_val(s, pos)?;
                        fields.push((c == b'h', k, v));
                    }
                    _ => return None,
                }
            }
        }
        _ => None,
    }
}

fn decode_val(s: &str) -> Option<W> {
    let b = s.as_bytes();
    let mut pos = 0;
    let v = read_val(b, &mut pos)?;
    if pos == b.len() {
        Some(v)
    } else {
        None
    }
}

struct Src {
    nums: Vec<f64>,
    strs: Vec<String>,
}

impl Src {
    fn str_ref(&mut self, s: &str) -> String {
        let i = match self.strs.iter().position(|x| x == s) {
            Some(i) => i,
            None => {
                self.strs.push(s.to_string());
                self.strs.len() - 1
            }
        };
        format!("std.extVar(\"s{}\")", i)
    }

    fn emit(&mut self, w: &W, out: &mut String) {
        match w {
            W::Null => out.push_str("null"),
            W::Bool(true) => out.push_str("true"),
            W::Bool(false) => out.push_str("false"),
            W::Num(x) => {
                self.nums.push(*x);
                out.push_str(&format!("std.extVar(\"n{}\")", self.nums.len() - 1));
            }
            W::Str(s) => {
                let r = self.str_ref(s);
                out.push_str(&r);
            }
            W::Arr(items) => {
                out.push('[');
                for (i, it) in items.iter().enumerate() {
                    if i != 0 {
                        out.push_str(", ");
                    }
                    self.emit(it, out);
                }
                out.push(']');
            }
            W::Obj(fields) => {
                out.push('{');
                for (i, (hidden, k, v)) in fields.iter().enumerate() {
                    if i != 0 {
                        out.push_str(", ");
                    }
                    let r = self.str_ref(k);
                    out.push('[');
                    out.push_str(&r);
                    out.push(']');
                    out.push_str(if *hidden { ":: " } else { ": " });
                    self.emit(v, out);
                }
                out.push('}');
            }
        }
    }
}

fn show_val(v: &Value<'_>, out: &mut String) {
    match v.kind() {
        ValueKind::Null => out.push('z'),
        ValueKind::Bool(true) => out.push('t'),
        ValueKind::Bool(false) => out.push('f'),
        ValueKind::Number(x) => out.push_str(&format!("n{:016x}:;", x.to_bits())),
        ValueKind::String(s) => {
            out.push('s');
            if !s.is_empty() {
                out.push_str(&hex_enc(s.as_bytes()));
            }
            out.push(';');
        }
        ValueKind::Array(items) => {
            out.push('[');
            for it in items.iter() {
                show_val(it, out);
            }
            out.push(']');
        }
        ValueKind::Object(fields) => {
            out.push('{');
            for (k, it) in fields.iter() {
                out.push('v');
                if !k.value().is_empty() {
                    out.push_str(&hex_enc(k.value().as_bytes()));
                }
                out.push(';');
                show_val(it, out);
            }
            out.push('}');
        }
        ValueKind::Function => out.push('F'),
    }
}

enum Out {
    /// result must be a string; answer `ok <hex>`
    Str,
    /// `Program::manifest_json(value, multiline)`
    Manifest(bool),
    /// answer the value in wire syntax
    Wire,
}

fn run(src: &str, nums: &[f64], strs: &[(String, String)], out: Out) -> String {
    let arena = Arena::new();
    let mut program = Program::new(&arena);
    let mut cb = Cb::new();
    for (i, x) in nums.iter().enumerate() {
        let n = program.intern_str(&format!("n{}", i));
        let t = program.value_to_thunk(&Value::number(*x));
        program.add_ext_var(n, &t);
    }
    for (name, val) in strs.iter() {
        let n = program.intern_str(name);
        let t = program.value_to_thunk(&Value::string(val));
        program.add_ext_var(n, &t);
    }
    let (ctx, _) = program.span_manager_mut().insert_source_context(src.len());
    let thunk = match program.load_source(ctx, src.as_bytes(), true, "<json>") {
        Ok(t) => t,
        Err(e) => return load_err(&e),
    };
    match program.eval_value(&thunk, &mut cb) {
        Err(e) => eval_err(&e),
        Ok(v) => match out {
            Out::Str => match v.to_string() {
                Some(s) => format!("ok {}", hex_enc(s.as_bytes())),
                None => "err mode notstring -".into(),
            },
            Out::Manifest(ml) => match program.manifest_json(&v, ml) {
                Ok(s) => format!("ok {}", hex_enc(s.as_bytes())),
                Err(e) => eval_err(&e),
            },
            Out::Wire => {
                let mut s = String::from("ok ");
                show_val(&v, &mut s);
                s
            }
        },
    }
}

fn bit(c: u8) -> Option<&'static str> {
    match c {
        b'1' => Some("true"),
        b'0' => Some("false"),
        _ => None,
    }
}

/// Map `failed to parse JSON: line L, column C: <kind text>` to the model's kind names.
fn parse_err_kind(msg: &str) -> String {
    let m = match msg.strip_prefix("failed to parse JSON: ") {
        Some(m) => m,
        None => return format!("other:{}", hex_enc(msg.as_bytes())),
    };
    // skip "line L, column C: "
    let m = match m.find(": ") {
        Some(i) => &m[i + 2..],
        None => m,
    };
    let chr = |s: &str| -> u32 { s.chars().next().map(|c| c as u32).unwrap_or(0) };
    if m == "expected value" {
        "expectedValue".into()
    } else if m == "expected end-of-file" {
        "expectedEof".into()
    } else if m == "expected object key" {
        "expectedObjectKey".into()
    } else if m == "invalid number" {
        "invalidNumber".into()
    } else if m == "number overflow" {
        "numberOverflow".into()
    } else if m == "unfinished string" {
        "unfinishedString".into()
    } else if m == "invalid character in string" {
        "invalidChrInString".into()
    } else if m == "invalid string escape" {
        "invalidStringEscape".into()
    } else if let Some(r) = m.strip_prefix("repeated field name ") {
        // `{:?}` of the name: undo the Debug quoting through the JSON-free route is not
        // possible in general; the check only compares the kind for non-trivial names.
        format!("repeatedFieldName:{}", hex_enc(r.as_bytes()))
    } else if let Some(r) = m.strip_prefix("expected `") {
        let parts: Vec<&str> = r.split('`').collect();
        // "X` or `Y`" -> ["X", " or ", "Y", ""] ; "X`" -> ["X", ""]
        if parts.len() >= 3 {
            format!("expected2:{}:{}", chr(parts[0]), chr(parts[2]))
        } else {
            format!("expected1:{}", chr(parts[0]))
        }
    } else {
        format!("other:{}", hex_enc(m.as_bytes()))
    }
}

/// The error outcomes of the YAML-stream / TOML writers under the model's short names.
fn short_err(r: String) -> String {
    let w: Vec<&str> = r.split(' ').collect();
    if w.len() == 4 && w[0] == "err" && w[1] == "eval" {
        let detail = hex_dec(w[3]).and_then(|b| String::from_utf8(b).ok()).unwrap_or_default();
        if w[2] == "Other" && detail == "cannot manifest null in TOML" {
            return "err null".into();
        }
        if w[2] == "InvalidStdFuncArgType" && detail.starts_with("manifestTomlEx/0/") {
            return "err notobject".into();
        }
        if w[2] == "InvalidStdFuncArgType" && detail.starts_with("manifestYamlStream/0/") {
            return "err notarray".into();
        }
    }
    r
}

/// `json manifest <fmt> <value>` | `json parse <hextext>` | `json escape <hexstr>` |
/// `json yamldoc <flags> <value>` | `json yamlstream <flags> <value>` | `json toml <hexindent> <value>` |
/// `json toml0 <value>` |
/// `json yamlplain <hexstr>` | `json tomlplain <hexstr>` | `json tomlkey <hexstr>` |
/// `json reparse <fmt> <value>` (implementation's own parser on its own output)
pub fn handle(args: &[&str]) -> Option<String> {
    match args {
        ["manifest", fmt, val] | ["reparse", fmt, val] => {
            let reparse = args[0] == "reparse";
            let w = decode_val(val)?;
            let mut sb = Src { nums: Vec::new(), strs: Vec::new() };
            let mut v = String::new();
            sb.emit(&w, &mut v);
            let mut strs: Vec<(String, String)> = sb
                .strs
                .iter()
                .enumerate()
                .map(|(i, s)| (format!("s{}", i), s.clone()))
                .collect();
            let f: Vec<&str> = fmt.split(':').collect();
            let (src, out) = match f.as_slice() {
                ["D"] => (v.clone(), Out::Manifest(true)),
                ["T"] => (v.clone(), Out::Manifest(false)),
                ["S"] => (format!("std.toString({})", v), Out::Str),
                ["C"] => (format!("\"\" + {}", v), Out::Str),
                ["M"] => (format!("std.manifestJsonMinified({})", v), Out::Str),
                ["J"] => (format!("std.manifestJson({})", v), Out::Str),
                ["X", i, n, k] => {
                    strs.push(("fi".into(), String::from_utf8(hex_dec(i)?).ok()?));
                    strs.push(("fn".into(), String::from_utf8(hex_dec(n)?).ok()?));
                    strs.push(("fk".into(), String::from_utf8(hex_dec(k)?).ok()?));
                    (
                        format!(
                            "std.manifestJsonEx({}, std.extVar(\"fi\"), std.extVar(\"fn\"), std.extVar(\"fk\"))",
                            v
                        ),
                        Out::Str,
                    )
                }
                ["X1", i] => {
                    // defaults for newline / key_val_sep
                    strs.push(("fi".into(), String::from_utf8(hex_dec(i)?).ok()?));
                    (format!("std.manifestJsonEx({}, std.extVar(\"fi\"))", v), Out::Str)
                }
                ["P"] => (format!("std.manifestPython({})", v), Out::Str),
                ["Y", fl] => {
                    let b = fl.as_bytes();
                    if b.len() != 2 {
                        return None;
                    }
                    (
                        format!("std.manifestYamlDoc({}, {}, {})", v, bit(b[0])?, bit(b[1])?),
                        Out::Str,
                    )
                }
                ["Y0"] => (format!("std.manifestYamlDoc({})", v), Out::Str),
                ["YS", fl] => {
                    let b = fl.as_bytes();
                    if b.len() != 3 {
                        return None;
                    }
                    (
                        format!(
                            "std.manifestYamlStream({}, {}, {}, {})",
                            v,
                            bit(b[0])?,
                            bit(b[1])?,
                            bit(b[2])?
                        ),
                        Out::Str,
                    )
                }
                ["YS0"] => (format!("std.manifestYamlStream({})", v), Out::Str),
                ["O", i] => {
                    strs.push(("fi".into(), String::from_utf8(hex_dec(i)?).ok()?));
                    (format!("std.manifestTomlEx({}, std.extVar(\"fi\"))", v), Out::Str)
                }
                ["O0"] => (format!("std.manifestToml({})", v), Out::Str),
                _ => return None,
            };
            if reparse {
                // implementation's own decoder on its own output, compared with `==`
                let dec = match f[0] {
                    "Y" | "Y0" => "std.parseYaml",
                    _ => "std.parseJson",
                };
                let src = match out {
                    Out::Str => format!("local v = {}; {}({}) == v", v, dec, src),
                    _ => return None,
                };
                return Some(run(&src, &sb.nums, &strs, Out::Wire));
            }
            Some(run(&src, &sb.nums, &strs, out))
        }
        // ---- work package H: the YAML / TOML writers against `RsjModel/Yaml.lean`, `RsjModel/Toml.lean`
        // (model side: ops `yaml yamldoc|yamlstream`, `toml toml|toml0`, same arguments)
        ["yamldoc", flags, val] => {
            // flags = `ab` (indent_array_in_object, quote_keys) or `-` for the defaults
            let fmt = if *flags == "-" { "Y0".to_string() } else { format!("Y:{}", flags) };
            handle(&["manifest", &fmt, val])
        }
        ["yamlstream", flags, val] => {
            // flags = `abc` (indent_array_in_object, c_document_end, quote_keys) or `-` for the defaults
            let fmt = if *flags == "-" { "YS0".to_string() } else { format!("YS:{}", flags) };
            let r = handle(&["manifest", &fmt, val])?;
            Some(short_err(r))
        }
        ["toml", ind, val] => {
            let r = handle(&["manifest", &format!("O:{}", ind), val])?;
            Some(short_err(r))
        }
        ["toml0", val] => {
            let r = handle(&["manifest", "O0", val])?;
            Some(short_err(r))
        }
        ["parse", h] => {
            let text = String::from_utf8(hex_dec(h)?).ok()?;
            let strs = vec![("t".to_string(), text)];
            let r = run("std.parseJson(std.extVar(\"t\"))", &[], &strs, Out::Wire);
            if let Some(rest) = r.strip_prefix("err eval Other ") {
                let msg = String::from_utf8(hex_dec(rest)?).ok()?;
                return Some(format!("err {}", parse_err_kind(&msg)));
            }
            Some(r)
        }
        ["yamlparse", h] => {
            let text = String::from_utf8(hex_dec(h)?).ok()?;
            let strs = vec![("t".to_string(), text)];
            Some(run("std.parseYaml(std.extVar(\"t\"))", &[], &strs, Out::Wire))
        }
        ["escape", h] => {
            // through std.manifestJsonMinified of a string
            let s = String::from_utf8(hex_dec(h)?).ok()?;
            let strs = vec![("t".to_string(), s)];
            let r = run("std.manifestJsonMinified(std.extVar(\"t\"))", &[], &strs, Out::Str);
            Some(r.strip_prefix("ok ").map(|x| x.to_string()).unwrap_or(r))
        }
        ["yamlplain", h] => {
            // observable through std.manifestYamlDoc(.., quote_keys=false): key emitted bare or quoted
            let s = String::from_utf8(hex_dec(h)?).ok()?;
            let strs = vec![("t".to_string(), s.clone())];
            let r = run(
                "std.manifestYamlDoc({[std.extVar(\"t\")]: null}, false, false)",
                &[],
                &strs,
                Out::Str,
            );
            let out = String::from_utf8(hex_dec(r.strip_prefix("ok ")?)?).ok()?;
            let bare = format!("{}: null", s);
            Some(if out == bare && !s.starts_with('"') { "1".into() } else { "0".into() })
        }
        ["tomlplain", h] | ["tomlkey", h] => {
            let s = String::from_utf8(hex_dec(h)?).ok()?;
            let strs = vec![("t".to_string(), s.clone())];
            let r = run(
                "std.manifestTomlEx({[std.extVar(\"t\")]: true}, \"\")",
                &[],
                &strs,
                Out::Str,
            );
            let out = String::from_utf8(hex_dec(r.strip_prefix("ok ")?)?).ok()?;
            let key = out.strip_suffix(" = true")?;
            if args[0] == "tomlkey" {
                Some(hex_enc(key.as_bytes()))
            } else {
                Some(if key == s && !s.starts_with('"') { "1".into() } else { "0".into() })
            }
        }
        _ => None,
    }
}
