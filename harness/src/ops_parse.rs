//! Implementation side of driver op `parse` (property C15, see /verif/CONTRIBUTING.md).
//!
//! `parse src <hexsource>`  : real `Lexer` + real `Parser` ->
//!        `tokens=<tokens> ast=<tree>` | `tokens=<tokens> err=<s>:<e>;<expected,..>;<actual>`
//!        | `tokens=<tokens> fault=<kind>` | `lexerr=<Kind>`
//! `parse toks <tokens>`    : the given token list is rebuilt (`Token { span, kind }`) and handed to the
//!        real `Parser` -> `ast=..` | `err=..` | `fault=..`
//!
//! Token notation: `E` | `S<Name>` | `O<hex>` | `I<hex>` | `N<hexdigits>_<exp>` | `T<hex>` | `B<hex>`, each
//! followed by `:<start>:<end>`; tokens separated by `,` (`-` = empty list).
//! Tree notation: `Label@start:end(child,child,...)`, mirrored by `RsjModel/Ast.lean`.
#![allow(unused_imports, dead_code)]
use crate::util::*;
use rsjsonnet_lang::arena::Arena;
use rsjsonnet_lang::ast;
use rsjsonnet_lang::interner::StrInterner;
use rsjsonnet_lang::lexer::Lexer;
use rsjsonnet_lang::parser::{ActualToken, ExpectedToken, ParseError, Parser};
use rsjsonnet_lang::span::{SpanContextId, SpanId, SpanManager};
use rsjsonnet_lang::token::{Number, STokenKind, Token, TokenKind};

const STOKS: &[STokenKind] = &[
    STokenKind::Assert,
    STokenKind::Else,
    STokenKind::Error,
    STokenKind::False,
    STokenKind::For,
    STokenKind::Function,
    STokenKind::If,
    STokenKind::Import,
    STokenKind::Importstr,
    STokenKind::Importbin,
    STokenKind::In,
    STokenKind::Local,
    STokenKind::Null,
    STokenKind::Tailstrict,
    STokenKind::Then,
    STokenKind::Self_,
    STokenKind::Super,
    STokenKind::True,
    STokenKind::Exclam,
    STokenKind::ExclamEq,
    STokenKind::Dollar,
    STokenKind::Percent,
    STokenKind::Amp,
    STokenKind::AmpAmp,
    STokenKind::LeftParen,
    STokenKind::RightParen,
    STokenKind::Asterisk,
    STokenKind::Plus,
    STokenKind::PlusColon,
    STokenKind::PlusColonColon,
    STokenKind::PlusColonColonColon,
    STokenKind::Comma,
    STokenKind::Minus,
    STokenKind::Dot,
    STokenKind::Slash,
    STokenKind::Colon,
    STokenKind::ColonColon,
    STokenKind::ColonColonColon,
    STokenKind::Semicolon,
    STokenKind::Lt,
    STokenKind::LtLt,
    STokenKind::LtEq,
    STokenKind::Eq,
    STokenKind::EqEq,
    STokenKind::Gt,
    STokenKind::GtEq,
    STokenKind::GtGt,
    STokenKind::LeftBracket,
    STokenKind::RightBracket,
    STokenKind::Hat,
    STokenKind::LeftBrace,
    STokenKind::Pipe,
    STokenKind::PipePipe,
    STokenKind::RightBrace,
    STokenKind::Tilde,
];

fn stok_name(k: STokenKind) -> String {
    format!("{:?}", k)
}

fn stok_of_name(s: &str) -> Option<STokenKind> {
    STOKS.iter().copied().find(|k| stok_name(*k) == s)
}

struct Ser<'m> {
    mgr: &'m SpanManager,
}

fn node(label: String, kids: Vec<String>) -> String {
    if kids.is_empty() {
        label
    } else {
        format!("{}({})", label, kids.join(","))
    }
}

impl Ser<'_> {
    fn span(&self, id: SpanId) -> String {
        let (_, s, e) = self.mgr.get_span(id);
        format!("@{}:{}", s, e)
    }

    fn ident(&self, tag: &str, id: &ast::Ident<'_>) -> String {
        format!("{}.{}{}", tag, hex_enc(id.value.value().as_bytes()), self.span(id.span))
    }

    fn sp_node(&self, id: SpanId) -> String {
        format!("Sp{}", self.span(id))
    }

    fn opt_expr(&self, e: Option<&ast::Expr<'_, '_>>) -> String {
        match e {
            None => "None".into(),
            Some(e) => self.expr(e),
        }
    }

    fn expr(&self, e: &ast::Expr<'_, '_>) -> String {
        use ast::ExprKind as K;
        let sp = self.span(e.span);
        match e.kind {
            K::Null => format!("Null{}", sp),
            K::Bool(b) => format!("{}{}", if b { "True" } else { "False" }, sp),
            K::SelfObj => format!("Self{}", sp),
            K::Dollar => format!("Dollar{}", sp),
            K::String(s) => format!("Str.{}{}", hex_enc(s.as_bytes()), sp),
            K::TextBlock(s) => format!("Tb.{}{}", hex_enc(s.as_bytes()), sp),
            K::Number(ref n) => format!("Num.{}{}", number_payload(n), sp),
            K::Paren(inner) => node(format!("Paren{}", sp), vec![self.expr(inner)]),
            K::Object(ref o) => node(format!("Object{}", sp), vec![self.obj_inside(o)]),
            K::Array(items) => node(format!("Array{}", sp), items.iter().map(|i| self.expr(i)).collect()),
            K::ArrayComp(item, spec) => {
                let mut kids = vec![self.expr(item)];
                kids.extend(spec.iter().map(|p| self.comp_spec(p)));
                node(format!("ArrayComp{}", sp), kids)
            }
            K::Field(lhs, ref name) => node(format!("Field{}", sp), vec![self.expr(lhs), self.ident("Id", name)]),
            K::Index(lhs, idx) => node(format!("Index{}", sp), vec![self.expr(lhs), self.expr(idx)]),
            K::Slice(lhs, a, b, c) => node(
                format!("Slice{}", sp),
                vec![self.expr(lhs), self.opt_expr(a), self.opt_expr(b), self.opt_expr(c)],
            ),
            K::SuperField(ssp, ref name) => {
                node(format!("SuperField{}", sp), vec![self.sp_node(ssp), self.ident("Id", name)])
            }
            K::SuperIndex(ssp, idx) => node(format!("SuperIndex{}", sp), vec![self.sp_node(ssp), self.expr(idx)]),
            K::Call(f, args, ts) => {
                let mut kids = vec![self.expr(f)];
                kids.extend(args.iter().map(|a| self.arg(a)));
                node(format!("{}{}", if ts { "CallTs" } else { "Call" }, sp), kids)
            }
            K::Ident(ref id) => format!("Ident.{}{}", hex_enc(id.value.value().as_bytes()), sp),
            K::Local(binds, body) => node(
                format!("Local{}", sp),
                vec![node("L".into(), binds.iter().map(|b| self.bind(b)).collect()), self.expr(body)],
            ),
            K::If(c, t, e2) => node(format!("If{}", sp), vec![self.expr(c), self.expr(t), self.opt_expr(e2)]),
            K::Binary(l, op, r) => node(format!("Bin.{:?}{}", op, sp), vec![self.expr(l), self.expr(r)]),
            K::Unary(op, x) => node(format!("Un.{:?}{}", op, sp), vec![self.expr(x)]),
            K::ObjExt(lhs, ref o, osp) => {
                node(format!("ObjExt{}", sp), vec![self.expr(lhs), self.obj_inside(o), self.sp_node(osp)])
            }
            K::Func(params, body) => node(
                format!("Func{}", sp),
                vec![node("L".into(), params.iter().map(|p| self.param(p)).collect()), self.expr(body)],
            ),
            K::Assert(a, body) => node(format!("Assert{}", sp), vec![self.assert(a), self.expr(body)]),
            K::Import(x) => node(format!("Import{}", sp), vec![self.expr(x)]),
            K::ImportStr(x) => node(format!("ImportStr{}", sp), vec![self.expr(x)]),
            K::ImportBin(x) => node(format!("ImportBin{}", sp), vec![self.expr(x)]),
            K::Error(x) => node(format!("Error{}", sp), vec![self.expr(x)]),
            K::InSuper(x, ssp) => node(format!("InSuper{}", sp), vec![self.expr(x), self.sp_node(ssp)]),
        }
    }

    fn param(&self, p: &ast::Param<'_, '_>) -> String {
        node("Param".into(), vec![self.ident("Id", &p.name), self.opt_expr(p.default_value.as_ref())])
    }

    fn arg(&self, a: &ast::Arg<'_, '_>) -> String {
        match a {
            ast::Arg::Positional(e) => node("Pos".into(), vec![self.expr(e)]),
            ast::Arg::Named(n, e) => node("Named".into(), vec![self.ident("Id", n), self.expr(e)]),
        }
    }

    fn bind(&self, b: &ast::Bind<'_, '_>) -> String {
        let params = match b.params {
            None => "None".to_string(),
            Some((ps, psp)) => {
                node(format!("Params{}", self.span(psp)), ps.iter().map(|p| self.param(p)).collect())
            }
        };
        node("Bind".into(), vec![self.ident("Id", &b.name), params, self.expr(&b.value)])
    }

    fn assert(&self, a: &ast::Assert<'_, '_>) -> String {
        node(format!("Asrt{}", self.span(a.span)), vec![self.expr(&a.cond), self.opt_expr(a.msg.as_ref())])
    }

    fn comp_spec(&self, p: &ast::CompSpecPart<'_, '_>) -> String {
        match p {
            ast::CompSpecPart::For(f) => node("For".into(), vec![self.ident("Id", &f.var), self.expr(&f.inner)]),
            ast::CompSpecPart::If(i) => node("IfSpec".into(), vec![self.expr(&i.cond)]),
        }
    }

    fn obj_inside(&self, o: &ast::ObjInside<'_, '_>) -> String {
        match *o {
            ast::ObjInside::Members(ms) => node("Members".into(), ms.iter().map(|m| self.member(m)).collect()),
            ast::ObjInside::Comp { locals1, name, plus, body, locals2, comp_spec } => node(
                if plus { "CompPlus".into() } else { "Comp".into() },
                vec![
                    node("L".into(), locals1.iter().map(|l| self.bind(&l.bind)).collect()),
                    self.expr(name),
                    self.expr(body),
                    node("L".into(), locals2.iter().map(|l| self.bind(&l.bind)).collect()),
                    node("L".into(), comp_spec.iter().map(|p| self.comp_spec(p)).collect()),
                ],
            ),
        }
    }

    fn member(&self, m: &ast::Member<'_, '_>) -> String {
        match m {
            ast::Member::Local(l) => self.bind(&l.bind),
            ast::Member::Assert(a) => self.assert(a),
            ast::Member::Field(f) => self.field(f),
        }
    }

    fn vis(v: ast::Visibility) -> &'static str {
        match v {
            ast::Visibility::Default => "d",
            ast::Visibility::Hidden => "h",
            ast::Visibility::ForceVisible => "v",
        }
    }

    fn field(&self, f: &ast::Field<'_, '_>) -> String {
        match f {
            ast::Field::Value(name, plus, vis, e) => node(
                format!("FV.{}{}", Self::vis(*vis), if *plus { "p" } else { "n" }),
                vec![self.field_name(name), self.expr(e)],
            ),
            ast::Field::Func(name, params, psp, vis, e) => node(
                format!("FF.{}", Self::vis(*vis)),
                vec![
                    self.field_name(name),
                    node(format!("Params{}", self.span(*psp)), params.iter().map(|p| self.param(p)).collect()),
                    self.expr(e),
                ],
            ),
        }
    }

    fn field_name(&self, n: &ast::FieldName<'_, '_>) -> String {
        match n {
            ast::FieldName::Ident(id) => self.ident("FnId", id),
            ast::FieldName::String(s, sp) => format!("FnStr.{}{}", hex_enc(s.value().as_bytes()), self.span(*sp)),
            ast::FieldName::Expr(e, sp) => node(format!("FnExpr{}", self.span(*sp)), vec![self.expr(e)]),
        }
    }
}

fn number_payload(n: &Number<'_>) -> String {
    format!("{}_{}", hex_enc(n.digits.as_bytes()), n.exp)
}

fn show_token(mgr: &SpanManager, t: &Token<'_, '_>) -> String {
    let (_, s, e) = mgr.get_span(t.span);
    let k = match t.kind {
        TokenKind::EndOfFile => "E".to_string(),
        TokenKind::Whitespace => "W".to_string(),
        TokenKind::Comment => "C".to_string(),
        TokenKind::Simple(k) => format!("S{}", stok_name(k)),
        TokenKind::OtherOp(op) => format!("O{}", hex_enc(op.as_bytes())),
        TokenKind::Ident(i) => format!("I{}", hex_enc(i.value().as_bytes())),
        TokenKind::Number(ref n) => format!("N{}", number_payload(n)),
        TokenKind::String(s) => format!("T{}", hex_enc(s.as_bytes())),
        TokenKind::TextBlock(s) => format!("B{}", hex_enc(s.as_bytes())),
    };
    format!("{}:{}:{}", k, s, e)
}

fn show_expected(e: &ExpectedToken) -> String {
    match e {
        ExpectedToken::EndOfFile => "Eof".into(),
        ExpectedToken::Simple(k) => format!("S{}", stok_name(*k)),
        ExpectedToken::Ident => "Ident".into(),
        ExpectedToken::Number => "Number".into(),
        ExpectedToken::String => "String".into(),
        ExpectedToken::TextBlock => "TextBlock".into(),
        ExpectedToken::Expr => "Expr".into(),
        ExpectedToken::BinaryOp => "BinaryOp".into(),
    }
}

fn show_actual(a: &ActualToken) -> String {
    match a {
        ActualToken::EndOfFile => "Eof".into(),
        ActualToken::Simple(k) => format!("S{}", stok_name(*k)),
        ActualToken::OtherOp(s) => format!("O{}", hex_enc(s.as_bytes())),
        ActualToken::Ident(s) => format!("I{}", hex_enc(s.as_bytes())),
        ActualToken::Number => "Number".into(),
        ActualToken::String => "String".into(),
        ActualToken::TextBlock => "TextBlock".into(),
    }
}

fn show_result(mgr: &SpanManager, r: &Result<ast::Expr<'_, '_>, ParseError>) -> String {
    match r {
        Ok(e) => {
            let s = Ser { mgr };
            format!("ast={}", s.expr(e))
        }
        Err(ParseError::Expected { span, expected, instead }) => {
            let (_, s, e) = mgr.get_span(*span);
            let ex: Vec<String> = expected.iter().map(show_expected).collect();
            format!(
                "err={}:{};{};{}",
                s,
                e,
                if ex.is_empty() { "-".to_string() } else { ex.join(",") },
                show_actual(instead)
            )
        }
    }
}

fn fault_of_panic(msg: &str) -> String {
    let k = if msg.contains("passed an empty token slice") {
        "emptyTokens".to_string()
    } else if msg.contains("rem_tokens.as_slice().is_empty()") {
        "eofNotLast".to_string()
    } else if msg.contains("parser/mod.rs") && msg.contains("Option::unwrap()") {
        "noNextToken".to_string()
    } else if msg.contains("parser/expr.rs") {
        "unreachable".to_string()
    } else {
        format!("other:{}", hex_enc(msg.as_bytes()))
    };
    format!("fault={}", k)
}

/// Run the real parser over `tokens`; panics become `fault=..`.
fn run_parser<'p>(
    arena: &'p Arena,
    interner: &StrInterner<'p>,
    mgr: &mut SpanManager,
    tokens: Vec<Token<'p, 'p>>,
) -> String {
    let r = std::panic::catch_unwind(std::panic::AssertUnwindSafe(|| {
        let parser = Parser::new(arena, arena, interner, mgr, tokens);
        parser.parse_root_expr()
    }));
    match r {
        Ok(res) => show_result(mgr, &res),
        Err(_) => fault_of_panic(&crate::take_panic_msg()),
    }
}

fn parse_src(src: &[u8]) -> String {
    let arena = Arena::new();
    let interner = StrInterner::new();
    let mut mgr = SpanManager::new();
    let (ctx, _) = mgr.insert_source_context(src.len());
    let lexer = Lexer::new(&arena, &arena, &interner, &mut mgr, ctx, src);
    let tokens = match lexer.lex_to_eof(false) {
        Ok(t) => t,
        Err(e) => return format!("lexerr={}", variant_name(&e)),
    };
    let toks: Vec<String> = tokens.iter().map(|t| show_token(&mgr, t)).collect();
    let res = run_parser(&arena, &interner, &mut mgr, tokens);
    format!("tokens={} {}", if toks.is_empty() { "-".to_string() } else { toks.join(",") }, res)
}

fn parse_toks(spec: &str) -> Option<String> {
    let arena = Arena::new();
    let interner = StrInterner::new();
    let mut mgr = SpanManager::new();
    let mut raw: Vec<(String, usize, usize)> = Vec::new();
    if spec != "-" {
        for t in spec.split(',') {
            let p: Vec<&str> = t.split(':').collect();
            if p.len() != 3 || p[0].is_empty() {
                return None;
            }
            raw.push((p[0].to_string(), p[1].parse().ok()?, p[2].parse().ok()?));
        }
    }
    let len = raw.iter().map(|r| r.1.max(r.2)).max().unwrap_or(0);
    let (ctx, _) = mgr.insert_source_context(len);
    let mut tokens: Vec<Token<'_, '_>> = Vec::new();
    for (k, s, e) in raw.iter() {
        let body = &k[1..];
        let kind = match k.as_bytes()[0] {
            b'E' if body.is_empty() => TokenKind::EndOfFile,
            b'S' => TokenKind::Simple(stok_of_name(body)?),
            b'O' => TokenKind::OtherOp(arena.alloc_str(std::str::from_utf8(&hex_dec(body)?).ok()?)),
            b'I' => TokenKind::Ident(interner.intern(&arena, std::str::from_utf8(&hex_dec(body)?).ok()?)),
            b'N' => {
                let (d, x) = body.split_once('_')?;
                TokenKind::Number(Number {
                    digits: arena.alloc_str(std::str::from_utf8(&hex_dec(d)?).ok()?),
                    exp: x.parse().ok()?,
                })
            }
            b'T' => TokenKind::String(arena.alloc_str(std::str::from_utf8(&hex_dec(body)?).ok()?)),
            b'B' => TokenKind::TextBlock(arena.alloc_str(std::str::from_utf8(&hex_dec(body)?).ok()?)),
            _ => return None,
        };
        if s > e {
            return Some("bad-token-spans".into());
        }
        tokens.push(Token { span: mgr.intern_span(ctx, *s, *e), kind });
    }
    Some(run_parser(&arena, &interner, &mut mgr, tokens))
}

/// `parse <args...>`: one canonical answer line, or `None` for a malformed request.
pub fn handle(args: &[&str]) -> Option<String> {
    match args {
        ["src", hex] => Some(parse_src(&hex_dec(hex)?)),
        ["toks", spec] => parse_toks(spec),
        _ => None,
    }
}
