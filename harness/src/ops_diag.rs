//! `diag <hexsrc> [max_stack=N] [file:<hexpath>=<hexdata> ...]`
//! Loads and evaluates (and manifests) a program and reports, for a failure, every source
//! span carried by the error and by its stack trace, resolved to (context, start, end)
//! together with the length of that context.  Answer:
//!   ok
//!   err <stage> <Kind> <number of spans of the error itself> <ctx>:<start>:<end>:<ctxlen>:<ismain> ...   (first span = primary)
use crate::ops_eval::{Cb, EvalOpts};
use crate::util::*;
use rsjsonnet_lang::arena::Arena;
use rsjsonnet_lang::program::Program;

fn spans_of(debug: &str) -> (Vec<(u64, u64)>, usize) {
    // every `Inline { offset: O, len: L }`; count of `Interned(`
    let mut out = Vec::new();
    let mut rest = debug;
    while let Some(i) = rest.find("Inline { offset: ") {
        rest = &rest[i + "Inline { offset: ".len()..];
        let o: String = rest.chars().take_while(|c| c.is_ascii_digit()).collect();
        let j = match rest.find("len: ") {
            Some(j) => j,
            None => break,
        };
        let l: String = rest[j + 5..].chars().take_while(|c| c.is_ascii_digit()).collect();
        if let (Ok(o), Ok(l)) = (o.parse(), l.parse()) {
            out.push((o, l));
        }
    }
    (out, debug.matches("Interned(").count())
}

pub fn handle(args: &[&str]) -> Option<String> {
    let src = hex_dec(args.first()?)?;
    let o = EvalOpts::parse(&args[1..])?;
    let arena = Arena::new();
    let mut program = Program::new(&arena);
    if let Some(ms) = o.max_stack {
        program.set_max_stack(ms);
    }
    let mut cb = Cb::new();
    cb.files = o.files.clone();
    let stdlib_len = program.get_stdlib_source().1.len();
    let (ctx, _) = program.span_manager_mut().insert_source_context(src.len());
    let (stage, kind, debug) = match program.load_source(ctx, &src, true, "<main>") {
        Err(e) => {
            let (st, k) = match &e {
                rsjsonnet_lang::program::LoadError::Lex(e) => ("lex", variant_name(e)),
                rsjsonnet_lang::program::LoadError::Parse(e) => ("parse", variant_name(e)),
                rsjsonnet_lang::program::LoadError::Analyze(e) => ("analyze", variant_name(e)),
            };
            (st, k, format!("{:?}", e))
        }
        Ok(thunk) => match program.eval_value(&thunk, &mut cb) {
            Err(e) => ("eval", variant_name(&e.kind), format!("{:?} TRACE {:?}", e.kind, e.stack_trace)),
            Ok(v) => match program.manifest_json(&v, true) {
                Err(e) => ("eval", variant_name(&e.kind), format!("{:?} TRACE {:?}", e.kind, e.stack_trace)),
                Ok(_) => return Some("ok".into()),
            },
        },
    };
    // context layout: stdlib, main, then imports in load order
    let mut lens: Vec<usize> = vec![stdlib_len, src.len()];
    for p in cb.loads.iter() {
        lens.push(cb.files.get(p).map(|d| d.len()).unwrap_or(0));
    }
    let mut bases = Vec::new();
    let mut base = 0u64;
    for l in lens.iter() {
        bases.push(base);
        base += *l as u64 + 1;
    }
    let (spans, interned) = spans_of(&debug);
    // number of spans carried by the error itself (the rest belong to the stack trace)
    let own = spans_of(debug.split(" TRACE ").next().unwrap_or("")).0.len();
    let mut out = format!("err {} {} {}", stage, kind, own);
    for (o, l) in spans {
        let mut ci = None;
        for (i, b) in bases.iter().enumerate() {
            if *b <= o && o < *b + lens[i] as u64 + 1 {
                ci = Some(i);
            }
        }
        match ci {
            Some(i) => {
                let s = o - bases[i];
                out.push_str(&format!(" {}:{}:{}:{}:{}", i, s, s + l, lens[i], if i == 1 { 1 } else { 0 }));
            }
            None => out.push_str(&format!(" X:{}:{}:0:0", o, l)),
        }
    }
    for _ in 0..interned {
        out.push_str(" I:0:0:0:0");
    }
    Some(out)
}
