//! Implementation side of driver op `imp` (see /verif/CONTRIBUTING.md).
//!
//! Only the `std::path` helpers that `Session::find_import` relies on are
//! reachable in-process (`find_import` itself is private and needs a real file
//! system; the whole resolution is tied through the real binary by
//! checks/c13.py).  `imp parent <hexpath>` = `Path::parent`, `imp join <hexbase>
//! <hexpath>` = `Path::join`, both displayed exactly as session.rs displays them.
#![allow(unused_imports, dead_code)]
use crate::util::*;
use std::path::Path;

/// `imp <args...>`: one canonical answer line, or `None` for a malformed request.
pub fn handle(args: &[&str]) -> Option<String> {
    match args {
        ["parent", h] => {
            let p = String::from_utf8(hex_dec(h)?).ok()?;
            match Path::new(&p).parent() {
                None => Some("none".into()),
                Some(q) => Some(format!("some {}", hex_enc(q.display().to_string().as_bytes()))),
            }
        }
        ["join", a, b] => {
            let a = String::from_utf8(hex_dec(a)?).ok()?;
            let b = String::from_utf8(hex_dec(b)?).ok()?;
            let j = Path::new(&a).join(Path::new(&b));
            Some(hex_enc(j.display().to_string().as_bytes()))
        }
        _ => None,
    }
}
