//! Implementation side of driver op `sort` (see /verif/CONTRIBUTING.md).
//!
//! Every sub-command builds Jsonnet source and evaluates it through the real
//! `Program` (`ops_eval::eval_source`).  Array elements are pairs `[key, tag]`
//! and the key function is `function(x) x[0]`, so which element was chosen /
//! where it ended up is observable through the tag.  Answers:
//!   sort sort <thr> <keys>          -> tags in output order ("-" = empty); <thr> is for the model only
//!   sort uniq <keys>                -> tags
//!   sort set <thr> <keys>           -> tags
//!   sort union|inter|diff <ka> <kb> -> tokens a<i> / b<j>
//!   sort member <x> <keys>          -> true | false
//!   sort min|max <keys>             -> tag | empty
//! Evaluation errors are passed through as the `err ...` line of `eval`.
#![allow(unused_imports, dead_code)]
use crate::ops_eval::{eval_source, EvalOpts};
use crate::util::*;

fn parse_keys(s: &str) -> Option<Vec<i64>> {
    if s == "-" {
        return Some(Vec::new());
    }
    s.split(',').map(|x| x.parse::<i64>().ok()).collect()
}

/// `[[k0, "<p>0"], [k1, "<p>1"], ...]`
fn arr_src(keys: &[i64], prefix: &str) -> String {
    let items: Vec<String> = keys
        .iter()
        .enumerate()
        .map(|(i, k)| format!("[{}, \"{}{}\"]", k, prefix, i))
        .collect();
    format!("[{}]", items.join(", "))
}

const KEYF: &str = "function(x) x[0]";

fn run(src: &str) -> String {
    let o = EvalOpts::parse(&["mode=str"]).unwrap();
    let out = eval_source(src.as_bytes(), &o);
    match out.strip_prefix("ok ") {
        Some(h) => match hex_dec(h).and_then(|b| String::from_utf8(b).ok()) {
            Some(s) if s.is_empty() => "-".into(),
            Some(s) => s,
            None => out,
        },
        None => out,
    }
}

/// Evaluate an expression yielding an array of `[key, tag]` pairs; answer the tags.
fn run_tags(expr: &str) -> String {
    run(&format!(
        "local r = {};\nstd.join(\",\", [x[1] for x in r])",
        expr
    ))
}

pub fn handle(args: &[&str]) -> Option<String> {
    match args {
        ["sort", thr, ks] => {
            let _: usize = thr.parse().ok()?;
            let ks = parse_keys(ks)?;
            Some(run_tags(&format!("std.sort({}, {})", arr_src(&ks, ""), KEYF)))
        }
        ["uniq", ks] => {
            let ks = parse_keys(ks)?;
            Some(run_tags(&format!("std.uniq({}, {})", arr_src(&ks, ""), KEYF)))
        }
        ["set", thr, ks] => {
            let _: usize = thr.parse().ok()?;
            let ks = parse_keys(ks)?;
            Some(run_tags(&format!("std.set({}, {})", arr_src(&ks, ""), KEYF)))
        }
        [op @ ("union" | "inter" | "diff"), ka, kb] => {
            let ka = parse_keys(ka)?;
            let kb = parse_keys(kb)?;
            let f = match *op {
                "union" => "setUnion",
                "inter" => "setInter",
                _ => "setDiff",
            };
            Some(run_tags(&format!(
                "std.{}({}, {}, {})",
                f,
                arr_src(&ka, "a"),
                arr_src(&kb, "b"),
                KEYF
            )))
        }
        ["member", x, ks] => {
            let x: i64 = x.parse().ok()?;
            let ks = parse_keys(ks)?;
            Some(run(&format!(
                "if std.setMember([{}, \"x\"], {}, {}) then \"true\" else \"false\"",
                x,
                arr_src(&ks, ""),
                KEYF
            )))
        }
        [op @ ("min" | "max"), ks] => {
            let ks = parse_keys(ks)?;
            let f = if *op == "min" { "minArray" } else { "maxArray" };
            Some(run(&format!(
                "std.{}({}, {}, [0, \"empty\"])[1]",
                f,
                arr_src(&ks, ""),
                KEYF
            )))
        }
        _ => None,
    }
}
