//! Implementation side of driver op `cmp` (property C08, see /verif/CONTRIBUTING.md).
//!
//! `cmp all <A> <B>`  ->  nine comma separated results for
//!     A == B, A != B, std.equals(A,B), A < B, A <= B, A > B, A >= B,
//!     std.__compare(A,B), std.__compare_array(A,B)
//! each `true | false | <int> | E<ErrorKind>[:detail]`.
//! `cmp src <A>`      ->  hex of the Jsonnet source the value is rendered to.
//!
//! Value notation (no spaces):
//!   null true false          literals
//!   f                        a function            `(function(x) x)`
//!   E                        a failing thunk       `(error "x")`
//!   n:<int>                  integer valued number (`n:-0` is rendered `(-0)`)
//!   d:<literal>              any decimal literal, rendered verbatim (implementation side only)
//!   s:- | s:<cp>.<cp>...     string given by its code points (decimal)
//!   a[V,V,...]               array (elements are lazy)
//!   o{k=V,k~V,k!V}           object literal; `=` visible `:`, `~` hidden `::`, `!` forced `:::`
//!   p(V,V)                   object inheritance `(V + V)`
use crate::util::*;

struct P<'a> {
    s: &'a [u8],
    i: usize,
}

impl<'a> P<'a> {
    fn peek(&self) -> Option<u8> {
        self.s.get(self.i).copied()
    }
    fn eat(&mut self, lit: &str) -> bool {
        if self.s[self.i..].starts_with(lit.as_bytes()) {
            self.i += lit.len();
            true
        } else {
            false
        }
    }
    fn take_while(&mut self, f: impl Fn(u8) -> bool) -> &'a str {
        let st = self.i;
        while self.i < self.s.len() && f(self.s[self.i]) {
            self.i += 1;
        }
        std::str::from_utf8(&self.s[st..self.i]).unwrap_or("")
    }

    fn list(&mut self, close: u8, out: &mut String, item: fn(&mut P<'a>, &mut String) -> Option<()>) -> Option<()> {
        if self.peek()? == close {
            self.i += 1;
            return Some(());
        }
        loop {
            item(self, out)?;
            match self.peek()? {
                b',' => {
                    self.i += 1;
                    out.push_str(", ");
                }
                c if c == close => {
                    self.i += 1;
                    return Some(());
                }
                _ => return None,
            }
        }
    }

    fn field(&mut self, out: &mut String) -> Option<()> {
        let k = self.take_while(|c| c.is_ascii_lowercase() || c.is_ascii_digit() || c == b'_');
        if k.is_empty() {
            return None;
        }
        let vis = match self.peek()? {
            b'=' => ":",
            b'~' => "::",
            b'!' => ":::",
            _ => return None,
        };
        self.i += 1;
        out.push_str(&format!("\"{}\"{} ", k, vis));
        self.value(out)
    }

    fn value(&mut self, out: &mut String) -> Option<()> {
        if self.eat("null") {
            out.push_str("null");
        } else if self.eat("true") {
            out.push_str("true");
        } else if self.eat("false") {
            out.push_str("false");
        } else if self.eat("f") {
            out.push_str("(function(x) x)");
        } else if self.eat("E") {
            out.push_str("(error \"x\")");
        } else if self.eat("n:") {
            let t = self.take_while(|c| c.is_ascii_digit() || c == b'-');
            let body = t.strip_prefix('-').unwrap_or(t);
            if body.is_empty() || !body.bytes().all(|c| c.is_ascii_digit()) {
                return None;
            }
            out.push_str(&format!("({})", t));
        } else if self.eat("d:") {
            let t = self.take_while(|c| c.is_ascii_digit() || matches!(c, b'-' | b'+' | b'.' | b'e' | b'E'));
            if t.is_empty() {
                return None;
            }
            out.push_str(&format!("({})", t));
        } else if self.eat("s:") {
            out.push('"');
            if !self.eat("-") {
                loop {
                    let t = self.take_while(|c| c.is_ascii_digit());
                    let cp: u32 = t.parse().ok()?;
                    let ch = char::from_u32(cp)?;
                    if ch == '"' || ch == '\\' {
                        out.push('\\');
                        out.push(ch);
                    } else if cp < 0x20 || cp == 0x7f {
                        out.push_str(&format!("\\u{:04x}", cp));
                    } else {
                        out.push(ch);
                    }
                    if self.peek() == Some(b'.') {
                        self.i += 1;
                    } else {
                        break;
                    }
                }
            }
            out.push('"');
        } else if self.eat("a[") {
            out.push('[');
            self.list(b']', out, |p, o| p.value(o))?;
            out.push(']');
        } else if self.eat("o{") {
            out.push('{');
            self.list(b'}', out, |p, o| p.field(o))?;
            out.push('}');
        } else if self.eat("p(") {
            out.push('(');
            self.value(out)?;
            if self.peek()? != b',' {
                return None;
            }
            self.i += 1;
            out.push_str(" + ");
            self.value(out)?;
            if self.peek()? != b')' {
                return None;
            }
            self.i += 1;
            out.push(')');
        } else {
            return None;
        }
        Some(())
    }
}

pub fn render(v: &str) -> Option<String> {
    let mut p = P { s: v.as_bytes(), i: 0 };
    let mut out = String::new();
    p.value(&mut out)?;
    if p.i != v.len() {
        return None;
    }
    Some(out)
}

fn canon(res: &str) -> String {
    let w: Vec<&str> = res.split(' ').collect();
    match w.as_slice() {
        ["ok", h] => match hex_dec(h).and_then(|b| String::from_utf8(b).ok()) {
            Some(t) => {
                let t = t.trim();
                if t == "true" || t == "false" || t.parse::<i64>().is_ok() {
                    t.to_string()
                } else {
                    format!("X{}", h)
                }
            }
            None => "Xbadhex".into(),
        },
        ["err", "eval", kind, detail] => {
            let d = hex_dec(detail)
                .and_then(|b| String::from_utf8(b).ok())
                .unwrap_or_default();
            match *kind {
                "CompareDifferentTypesInequality" => format!("E{}:{}", kind, d),
                // detail is "<func>/<arg index>/<got type>"
                "InvalidStdFuncArgType" => format!("E{}:{}", kind, d),
                _ => format!("E{}", kind),
            }
        }
        _ => format!("X{}", res.replace(' ', "_")),
    }
}

pub fn handle(args: &[&str]) -> Option<String> {
    match args {
        ["src", a] => Some(hex_enc(render(a)?.as_bytes())),
        ["all", a, b] => {
            let a = render(a)?;
            let b = render(b)?;
            let o = crate::ops_eval::EvalOpts::parse(&[])?;
            let progs = [
                format!("{} == {}", a, b),
                format!("{} != {}", a, b),
                format!("std.equals({}, {})", a, b),
                format!("{} < {}", a, b),
                format!("{} <= {}", a, b),
                format!("{} > {}", a, b),
                format!("{} >= {}", a, b),
                format!("std.__compare({}, {})", a, b),
                format!("std.__compare_array({}, {})", a, b),
            ];
            let res: Vec<String> = progs
                .iter()
                .map(|p| canon(&crate::ops_eval::eval_source(p.as_bytes(), &o)))
                .collect();
            Some(res.join(","))
        }
        // the nine operations on operands that were bound to variables and fully evaluated (manifested) before the
        // comparison runs: a comparison must not depend on whether its operands' elements were forced earlier
        ["forced", a, b] => {
            let a = render(a)?;
            let b = render(b)?;
            let o = crate::ops_eval::EvalOpts::parse(&[])?;
            let pre = format!(
                "local a = {}, b = {}; local n = std.length(std.manifestJsonMinified([a, b])) + (if a == b then 1 else 0); if n < 0 then null else ",
                a, b
            );
            let progs = [
                format!("{}(a == b)", pre),
                format!("{}(a != b)", pre),
                format!("{}std.equals(a, b)", pre),
                format!("{}(a < b)", pre),
                format!("{}(a <= b)", pre),
                format!("{}(a > b)", pre),
                format!("{}(a >= b)", pre),
                format!("{}std.__compare(a, b)", pre),
                format!("{}std.__compare_array(a, b)", pre),
            ];
            let res: Vec<String> = progs
                .iter()
                .map(|p| canon(&crate::ops_eval::eval_source(p.as_bytes(), &o)))
                .collect();
            Some(res.join(","))
        }
        // the library's comparison functions called by parameter names (spec: a named argument binds the
        // parameter of that name): same nine-slot layout as `all`, unused slots answer `-`
        ["named", a, b] => {
            let a = render(a)?;
            let b = render(b)?;
            let o = crate::ops_eval::EvalOpts::parse(&[])?;
            let progs = [
                format!("std.equals(b={}, a={})", b, a),
                format!("std.equals({}, b={})", a, b),
                format!("std.__compare(v2={}, v1={})", b, a),
                format!("std.__compare({}, v2={})", a, b),
                format!("std.__compare_array(arr2={}, arr1={})", b, a),
                format!("std.primitiveEquals(b={}, a={})", b, a),
                format!("std.primitiveEquals({}, {})", a, b),
            ];
            let res: Vec<String> = progs
                .iter()
                .map(|p| canon(&crate::ops_eval::eval_source(p.as_bytes(), &o)))
                .collect();
            Some(res.join(","))
        }
        _ => None,
    }
}
