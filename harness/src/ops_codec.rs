//! Implementation side of driver op `codec` (see /verif/CONTRIBUTING.md).
//!
//! Every sub-command evaluates a one-line Jsonnet program through the real
//! `Program` (string arguments are passed as the external variable `s`, so the
//! Jsonnet lexer is not involved) and canonicalises the answer:
//!
//!   codec b64enc  <hexbytes>       std.base64([b0, b1, ...])          -> ok <hexstr>
//!   codec b64encs <hexstr>         std.base64(s)                      -> ok <hexstr> | err codepoint
//!   codec b64dec  <hexstr>         std.base64DecodeBytes(s)           -> ok <hexbytes> | err length | err char <hexchar>
//!   codec b64decs <hexstr>         std.base64Decode(s)                -> ok <hexstr>   | (same errors)
//!   codec radix <8|16> <hexstr>    std.parseOctal(s) / std.parseHex(s)-> ok <f64 bits, 16 hex digits> | err empty | err digit <hexchar> | err overflow
//!   codec parseint <hexstr>        std.parseInt(s)                    -> (same)
//!   codec utf8enc <hexstr>         std.encodeUTF8(s)                  -> ok <hexbytes>
//!   codec utf8dec <hexbytes>       std.decodeUTF8([b0, ...])          -> ok <hexstr>
//!   codec esc <bash|dollars|xml|json|python> <hexstr>  std.escapeString*(s) -> ok <hexstr>
//!   codec hash <md5|sha1|sha256|sha512|sha3> <hexstr>  std.<name>(s)  -> ok <hexstr>   (implementation only)
#![allow(unused_imports, dead_code)]
use crate::ops_eval::Cb;
use crate::util::*;
use rsjsonnet_lang::arena::Arena;
use rsjsonnet_lang::program::{EvalError, EvalErrorKind, Program, Value};

enum Out {
    Num(f64),
    Str(String),
    Bytes(Vec<u8>),
    Err(String),
}

/// Inverse of `format!("{:?}", chr)` for a `char`.
fn undebug_char(s: &str) -> Option<char> {
    let inner = s.strip_prefix('\'')?.strip_suffix('\'')?;
    let mut it = inner.chars();
    let c0 = it.next()?;
    if c0 != '\\' {
        return if it.next().is_none() { Some(c0) } else { None };
    }
    let c1 = it.next()?;
    let rest: String = it.collect();
    match c1 {
        'n' if rest.is_empty() => Some('\n'),
        'r' if rest.is_empty() => Some('\r'),
        't' if rest.is_empty() => Some('\t'),
        '0' if rest.is_empty() => Some('\0'),
        '\\' if rest.is_empty() => Some('\\'),
        '\'' if rest.is_empty() => Some('\''),
        '"' if rest.is_empty() => Some('"'),
        'u' => {
            let h = rest.strip_prefix('{')?.strip_suffix('}')?;
            char::from_u32(u32::from_str_radix(h, 16).ok()?)
        }
        _ => None,
    }
}

fn char_hex(c: char) -> String {
    let mut b = [0u8; 4];
    hex_enc(c.encode_utf8(&mut b).as_bytes())
}

fn canon_err(e: &EvalError) -> String {
    match &e.kind {
        EvalErrorKind::NumberOverflow { .. } => "err overflow".into(),
        EvalErrorKind::Other { message, .. } => {
            let m = message.as_str();
            if m.starts_with("integer without digits")
                || m.starts_with("octal integer without digits")
                || m.starts_with("hexadecimal integer without digits")
            {
                return "err empty".into();
            }
            for p in [
                "invalid base 10: ",
                "invalid octal digit: ",
                "invalid hexadecimal digit: ",
            ] {
                if let Some(r) = m.strip_prefix(p) {
                    return match undebug_char(r) {
                        Some(c) => format!("err digit {}", char_hex(c)),
                        None => format!("err other {}", hex_enc(m.as_bytes())),
                    };
                }
            }
            if let Some(r) = m.strip_prefix("invalid base64 character: ") {
                return match undebug_char(r) {
                    Some(c) => format!("err char {}", char_hex(c)),
                    None => format!("err other {}", hex_enc(m.as_bytes())),
                };
            }
            if m == "length of base64 string is not a multiple of 4" {
                return "err length".into();
            }
            if m == "only codepoints up to 255 can be base64 encoded" {
                return "err codepoint".into();
            }
            format!("err other {}", hex_enc(m.as_bytes()))
        }
        _ => crate::ops_eval::eval_err(e),
    }
}

/// Evaluate `src` with `std.extVar("s")` bound to `s`.
fn eval1(src: &str, s: Option<&str>) -> Out {
    let arena = Arena::new();
    let mut program = Program::new(&arena);
    let mut cb = Cb::new();
    if let Some(s) = s {
        let n = program.intern_str("s");
        let t = program.value_to_thunk(&Value::string(s));
        program.add_ext_var(n, &t);
    }
    let bytes = src.as_bytes();
    let (ctx, _) = program.span_manager_mut().insert_source_context(bytes.len());
    let thunk = match program.load_source(ctx, bytes, true, "<codec>") {
        Ok(t) => t,
        Err(e) => return Out::Err(crate::ops_eval::load_err(&e)),
    };
    match program.eval_value(&thunk, &mut cb) {
        Err(e) => Out::Err(canon_err(&e)),
        Ok(v) => {
            if let Some(n) = v.as_number() {
                Out::Num(n)
            } else if let Some(s) = v.to_string() {
                Out::Str(s)
            } else if let Some(items) = v.to_array() {
                let mut bs = Vec::with_capacity(items.len());
                for it in items {
                    match it.as_number() {
                        Some(n) if n >= 0.0 && n <= 255.0 && n.fract() == 0.0 => bs.push(n as u8),
                        _ => return Out::Err("err other -".into()),
                    }
                }
                Out::Bytes(bs)
            } else {
                Out::Err("err other -".into())
            }
        }
    }
}

fn show(o: Out) -> String {
    match o {
        Out::Num(n) => format!("ok {:016x}", n.to_bits()),
        Out::Str(s) => format!("ok {}", hex_enc(s.as_bytes())),
        Out::Bytes(b) => format!("ok {}", hex_enc(&b)),
        Out::Err(e) => e,
    }
}

fn byte_array_src(bs: &[u8]) -> String {
    let items: Vec<String> = bs.iter().map(|b| b.to_string()).collect();
    format!("[{}]", items.join(","))
}

fn hex_str(a: &str) -> Option<String> {
    String::from_utf8(hex_dec(a)?).ok()
}

/// `codec <args...>`: one canonical answer line, or `None` for a malformed request.
pub fn handle(args: &[&str]) -> Option<String> {
    match args {
        ["b64enc", h] => {
            let bs = hex_dec(h)?;
            Some(show(eval1(&format!("std.base64({})", byte_array_src(&bs)), None)))
        }
        ["b64encs", h] => {
            let s = hex_str(h)?;
            Some(show(eval1("std.base64(std.extVar('s'))", Some(&s))))
        }
        ["b64dec", h] => {
            let s = hex_str(h)?;
            Some(show(eval1("std.base64DecodeBytes(std.extVar('s'))", Some(&s))))
        }
        ["b64decs", h] => {
            let s = hex_str(h)?;
            Some(show(eval1("std.base64Decode(std.extVar('s'))", Some(&s))))
        }
        ["radix", r, h] => {
            let s = hex_str(h)?;
            let f = match *r {
                "8" => "parseOctal",
                "16" => "parseHex",
                _ => return None,
            };
            Some(show(eval1(&format!("std.{}(std.extVar('s'))", f), Some(&s))))
        }
        ["parseint", h] => {
            let s = hex_str(h)?;
            Some(show(eval1("std.parseInt(std.extVar('s'))", Some(&s))))
        }
        ["utf8enc", h] => {
            let s = hex_str(h)?;
            match eval1("std.encodeUTF8(std.extVar('s'))", Some(&s)) {
                // an empty array has no `to_string`/number: it comes back as Bytes([])
                o => Some(show(o)),
            }
        }
        ["utf8dec", h] => {
            let bs = hex_dec(h)?;
            Some(show(eval1(&format!("std.decodeUTF8({})", byte_array_src(&bs)), None)))
        }
        ["esc", kind, h] => {
            let s = hex_str(h)?;
            let f = match *kind {
                "bash" => "escapeStringBash",
                "dollars" => "escapeStringDollars",
                "xml" => "escapeStringXML",
                "json" => "escapeStringJson",
                "python" => "escapeStringPython",
                _ => return None,
            };
            Some(show(eval1(&format!("std.{}(std.extVar('s'))", f), Some(&s))))
        }
        ["hash", kind, h] => {
            let s = hex_str(h)?;
            let f = match *kind {
                "md5" | "sha1" | "sha256" | "sha512" | "sha3" => *kind,
                _ => return None,
            };
            Some(show(eval1(&format!("std.{}(std.extVar('s'))", f), Some(&s))))
        }
        _ => None,
    }
}
