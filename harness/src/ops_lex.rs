//! Implementation side of driver op `lex` (see /verif/CONTRIBUTING.md).
//!
//! `lex <hexbytes> <0|1>`: run the real `Lexer::lex_to_eof(flag)` over the
//! bytes and print every token as `kind:start:end[:payload]` joined by `;`,
//! or the single error as `E<Kind>:start:end[:detail]`.  Spans are decoded
//! with `SpanManager::get_span`.
use crate::util::*;
use rsjsonnet_lang::arena::Arena;
use rsjsonnet_lang::interner::StrInterner;
use rsjsonnet_lang::lexer::{LexError, Lexer};
use rsjsonnet_lang::span::{SpanId, SpanManager};
use rsjsonnet_lang::token::TokenKind;

fn show_err(e: &LexError) -> (&'static str, SpanId, Option<String>) {
    match e {
        LexError::InvalidChar { span, chr } => ("InvalidChar", *span, Some(format!("{}", *chr as u32))),
        LexError::InvalidUtf8 { span, seq } => ("InvalidUtf8", *span, Some(hex_enc(seq))),
        LexError::UnfinishedMultilineComment { span } => ("UnfinishedMultilineComment", *span, None),
        LexError::LeadingZeroInNumber { span } => ("LeadingZeroInNumber", *span, None),
        LexError::MissingFracDigits { span } => ("MissingFracDigits", *span, None),
        LexError::MissingExpDigits { span } => ("MissingExpDigits", *span, None),
        LexError::MissingDigitAfterUnderscore { span } => ("MissingDigitAfterUnderscore", *span, None),
        LexError::ExpOverflow { span } => ("ExpOverflow", *span, None),
        LexError::InvalidEscapeInString { span, chr } => {
            ("InvalidEscapeInString", *span, Some(format!("{}", *chr as u32)))
        }
        LexError::IncompleteUnicodeEscape { span } => ("IncompleteUnicodeEscape", *span, None),
        LexError::InvalidUtf16EscapeSequence { span, cu1, cu2 } => (
            "InvalidUtf16EscapeSequence",
            *span,
            Some(match cu2 {
                Some(c2) => format!("{},{}", cu1, c2),
                None => format!("{},-", cu1),
            }),
        ),
        LexError::UnfinishedString { span } => ("UnfinishedString", *span, None),
        LexError::MissingLineBreakAfterTextBlockStart { span } => {
            ("MissingLineBreakAfterTextBlockStart", *span, None)
        }
        LexError::MissingWhitespaceTextBlockStart { span } => {
            ("MissingWhitespaceTextBlockStart", *span, None)
        }
        LexError::InvalidTextBlockTermination { span } => ("InvalidTextBlockTermination", *span, None),
    }
}

/// `lex <hexbytes> <0|1>`: one canonical answer line, or `None` for a malformed request.
pub fn handle(args: &[&str]) -> Option<String> {
    if args.len() != 2 {
        return None;
    }
    let input = hex_dec(args[0])?;
    let flag = match args[1] {
        "0" => false,
        "1" => true,
        _ => return None,
    };
    let arena = Arena::new();
    let ast_arena = Arena::new();
    let str_interner = StrInterner::new();
    let mut span_mgr = SpanManager::new();
    let (span_ctx, _) = span_mgr.insert_source_context(input.len());
    let lexer = Lexer::new(&arena, &ast_arena, &str_interner, &mut span_mgr, span_ctx, &input);
    let res = lexer.lex_to_eof(flag);
    let sp = |m: &SpanManager, id: SpanId| -> Option<(usize, usize)> {
        let (c, s, e) = m.get_span(id);
        if c == span_ctx { Some((s, e)) } else { None }
    };
    match res {
        Ok(tokens) => {
            let mut out: Vec<String> = Vec::with_capacity(tokens.len());
            for t in tokens.iter() {
                let (s, e) = match sp(&span_mgr, t.span) {
                    Some(x) => x,
                    None => return Some("badspan".into()),
                };
                let item = match t.kind {
                    TokenKind::EndOfFile => format!("EndOfFile:{}:{}", s, e),
                    TokenKind::Whitespace => format!("Whitespace:{}:{}", s, e),
                    TokenKind::Comment => format!("Comment:{}:{}", s, e),
                    TokenKind::Simple(k) => format!("Simple:{}:{}:{:?}", s, e, k),
                    TokenKind::OtherOp(v) => format!("OtherOp:{}:{}:{}", s, e, hex_enc(v.as_bytes())),
                    TokenKind::Ident(v) => format!("Ident:{}:{}:{}", s, e, hex_enc(v.value().as_bytes())),
                    TokenKind::Number(n) => format!("Number:{}:{}:{},{}", s, e, n.digits, n.exp),
                    TokenKind::String(v) => format!("String:{}:{}:{}", s, e, hex_enc(v.as_bytes())),
                    TokenKind::TextBlock(v) => format!("TextBlock:{}:{}:{}", s, e, hex_enc(v.as_bytes())),
                };
                out.push(item);
            }
            Some(out.join(";"))
        }
        Err(err) => {
            let (name, span, detail) = show_err(&err);
            let (s, e) = match sp(&span_mgr, span) {
                Some(x) => x,
                None => return Some("badspan".into()),
            };
            Some(match detail {
                Some(d) => format!("E{}:{}:{}:{}", name, s, e, d),
                None => format!("E{}:{}:{}", name, s, e),
            })
        }
    }
}
