//! Implementation side of driver op `str` (see /verif/CONTRIBUTING.md).
//!
//! Every sub-command builds a small Jsonnet program whose arguments are literals
//! (strings rendered with `\u` escapes, astral characters as surrogate pairs),
//! evaluates it through the real `Program` (`ops_eval::eval_source`) and renders the
//! manifested JSON result in the canonical answer format shared with the Lean model:
//!   `s <hex>`            a string
//!   `n <int>`            a number
//!   `a <n,n,..>|a -`     an array of numbers
//!   `l <hex,hex,..>|l []` an array of strings (`-` = empty string)
//!   `b true|false`
//!   `E <kind> [detail]`  an evaluation error
#![allow(dead_code)]
use crate::ops_eval::{eval_source, EvalOpts};
use crate::util::*;

/// A Jsonnet string literal for `s` (only ASCII in the source text).
pub fn jsonnet_str(s: &str) -> String {
    let mut out = String::from("\"");
    for ch in s.chars() {
        let o = ch as u32;
        if ch == '"' {
            out.push_str("\\\"");
        } else if ch == '\\' {
            out.push_str("\\\\");
        } else if o < 0x20 || o == 0x7F {
            out.push_str(&format!("\\u{:04x}", o));
        } else if o > 0xFFFF {
            let v = o - 0x10000;
            out.push_str(&format!("\\u{:04x}\\u{:04x}", 0xD800 + (v >> 10), 0xDC00 + (v & 0x3FF)));
        } else if o > 0x7E {
            out.push_str(&format!("\\u{:04x}", o));
        } else {
            out.push(ch);
        }
    }
    out.push('"');
    out
}

fn dec_str(h: &str) -> Option<String> {
    String::from_utf8(hex_dec(h)?).ok()
}

fn lit(h: &str) -> Option<String> {
    Some(jsonnet_str(&dec_str(h)?))
}

/// `[-]digits[.digits]` -> the same text as a Jsonnet number expression.
fn num(s: &str) -> Option<String> {
    let body = s.strip_prefix('-').unwrap_or(s);
    let mut parts = body.split('.');
    let i = parts.next()?;
    if i.is_empty() || !i.bytes().all(|b| b.is_ascii_digit()) {
        return None;
    }
    if let Some(f) = parts.next() {
        if f.is_empty() || !f.bytes().all(|b| b.is_ascii_digit()) {
            return None;
        }
    }
    if parts.next().is_some() {
        return None;
    }
    Some(format!("({})", s))
}

fn opt_num(s: &str, null: &str) -> Option<String> {
    if s == "-" { Some(null.into()) } else { num(s) }
}

// ---- minimal JSON reader for the manifested result ----

#[derive(Debug)]
enum J {
    Null,
    Bool(bool),
    Num(String),
    Str(String),
    Arr(Vec<J>),
    Other,
}

struct P<'a> {
    b: &'a [u8],
    i: usize,
}

impl P<'_> {
    fn ws(&mut self) {
        while self.i < self.b.len() && (self.b[self.i] as char).is_ascii_whitespace() {
            self.i += 1;
        }
    }
    fn hex4(&mut self) -> Option<u32> {
        let t = std::str::from_utf8(self.b.get(self.i..self.i + 4)?).ok()?;
        self.i += 4;
        u32::from_str_radix(t, 16).ok()
    }
    fn string(&mut self) -> Option<String> {
        // at opening quote
        self.i += 1;
        let mut out: Vec<u8> = Vec::new();
        loop {
            let c = *self.b.get(self.i)?;
            self.i += 1;
            match c {
                b'"' => break,
                b'\\' => {
                    let e = *self.b.get(self.i)?;
                    self.i += 1;
                    let ch = match e {
                        b'"' => '"',
                        b'\\' => '\\',
                        b'/' => '/',
                        b'b' => '\u{8}',
                        b'f' => '\u{c}',
                        b'n' => '\n',
                        b'r' => '\r',
                        b't' => '\t',
                        b'u' => {
                            let mut cu = self.hex4()?;
                            if (0xD800..0xDC00).contains(&cu) {
                                if self.b.get(self.i) == Some(&b'\\') && self.b.get(self.i + 1) == Some(&b'u') {
                                    self.i += 2;
                                    let lo = self.hex4()?;
                                    cu = 0x10000 + ((cu - 0xD800) << 10) + (lo.wrapping_sub(0xDC00) & 0x3FF);
                                }
                            }
                            char::from_u32(cu)?
                        }
                        _ => return None,
                    };
                    let mut buf = [0u8; 4];
                    out.extend_from_slice(ch.encode_utf8(&mut buf).as_bytes());
                }
                _ => out.push(c),
            }
        }
        String::from_utf8(out).ok()
    }
    fn value(&mut self) -> Option<J> {
        self.ws();
        let c = *self.b.get(self.i)?;
        match c {
            b'"' => Some(J::Str(self.string()?)),
            b'[' => {
                self.i += 1;
                let mut v = Vec::new();
                self.ws();
                if self.b.get(self.i) == Some(&b']') {
                    self.i += 1;
                    return Some(J::Arr(v));
                }
                loop {
                    v.push(self.value()?);
                    self.ws();
                    match *self.b.get(self.i)? {
                        b',' => self.i += 1,
                        b']' => {
                            self.i += 1;
                            break;
                        }
                        _ => return None,
                    }
                }
                Some(J::Arr(v))
            }
            b't' => {
                self.i += 4;
                Some(J::Bool(true))
            }
            b'f' => {
                self.i += 5;
                Some(J::Bool(false))
            }
            b'n' => {
                self.i += 4;
                Some(J::Null)
            }
            b'-' | b'0'..=b'9' => {
                let st = self.i;
                while self.i < self.b.len()
                    && matches!(self.b[self.i], b'-' | b'+' | b'.' | b'e' | b'E' | b'0'..=b'9')
                {
                    self.i += 1;
                }
                Some(J::Num(String::from_utf8_lossy(&self.b[st..self.i]).into_owned()))
            }
            _ => Some(J::Other),
        }
    }
}

fn enc(s: &str) -> String {
    hex_enc(s.as_bytes())
}

fn render(j: &J) -> String {
    match j {
        J::Str(s) => format!("s {}", enc(s)),
        J::Num(n) => format!("n {}", n),
        J::Bool(b) => format!("b {}", b),
        J::Null => "null".into(),
        J::Arr(v) => {
            if v.is_empty() {
                return "empty".into();
            }
            if v.iter().all(|x| matches!(x, J::Str(_))) {
                let items: Vec<String> = v
                    .iter()
                    .map(|x| if let J::Str(s) = x { enc(s) } else { unreachable!() })
                    .collect();
                format!("l {}", items.join(","))
            } else if v.iter().all(|x| matches!(x, J::Num(_))) {
                let items: Vec<String> = v
                    .iter()
                    .map(|x| if let J::Num(s) = x { s.clone() } else { unreachable!() })
                    .collect();
                format!("a {}", items.join(","))
            } else {
                "other".into()
            }
        }
        J::Other => "other".into(),
    }
}

#[derive(Clone, Copy, PartialEq)]
enum Ty {
    S,
    N,
    A,
    L,
    B,
}

fn err_kind(kind: &str, detail: &str) -> String {
    match kind {
        "NumericIndexOutOfRange" => format!("E indexOutOfRange {}", detail),
        "NumericIndexIsNotValid" => "E indexNotValid".into(),
        "Other" => {
            let k = if detail.starts_with("`from` value") {
                "substrFrom"
            } else if detail.starts_with("`len` value") {
                "substrLen"
            } else if detail.starts_with("slice start") {
                "sliceStart"
            } else if detail.starts_with("slice end") {
                "sliceEnd"
            } else if detail.starts_with("slice step") {
                "sliceStep"
            } else if detail == "string is not single-character" {
                "notSingleChar"
            } else if detail.ends_with("is not a valid unicode codepoint") {
                "badCodepoint"
            } else if detail == "split delimiter is empty" {
                "emptyDelim"
            } else if detail.starts_with("`maxsplits` value") && detail.ends_with("is not an integer") {
                "maxsplitsNotInt"
            } else if detail.starts_with("`maxsplits` value") && detail.ends_with("is not -1 or non-negative") {
                "maxsplitsNeg"
            } else {
                return format!("E other Other {}", enc(detail));
            };
            format!("E {}", k)
        }
        _ => format!("E other {} {}", kind, enc(detail)),
    }
}

fn run(src: &str, ty: Ty) -> Option<String> {
    let o = EvalOpts::parse(&[])?;
    let out = eval_source(src.as_bytes(), &o);
    let w: Vec<&str> = out.split(' ').collect();
    match w.first().copied() {
        Some("ok") => {
            let bytes = hex_dec(w.get(1)?)?;
            let mut p = P { b: &bytes, i: 0 };
            let j = p.value()?;
            let r = render(&j);
            // an empty array has no element type: use the expected one
            Some(match (r.as_str(), ty) {
                ("empty", Ty::A) => "a -".into(),
                ("empty", Ty::L) => "l []".into(),
                _ => r,
            })
        }
        Some("err") => {
            if w.get(1) == Some(&"eval") {
                let detail = String::from_utf8_lossy(&hex_dec(w.get(3).unwrap_or(&"-"))?).into_owned();
                Some(err_kind(w.get(2)?, &detail))
            } else {
                Some(format!("E other {}", w[1..].join("_")))
            }
        }
        _ => Some(out),
    }
}

/// `str <sub> <args...>`: one canonical answer line, or `None` for a malformed request.
pub fn handle(args: &[&str]) -> Option<String> {
    match args {
        ["length", s] => run(&format!("std.length({})", lit(s)?), Ty::N),
        ["index", s, i] => run(&format!("{}[{}]", lit(s)?, num(i)?), Ty::S),
        ["slice", s, a, b, c] => run(
            &format!("{}[{}:{}:{}]", lit(s)?, opt_num(a, "")?, opt_num(b, "")?, opt_num(c, "")?),
            Ty::S,
        ),
        ["stdslice", s, a, b, c] => run(
            &format!(
                "std.slice({}, {}, {}, {})",
                lit(s)?,
                opt_num(a, "null")?,
                opt_num(b, "null")?,
                opt_num(c, "null")?
            ),
            Ty::S,
        ),
        ["substr", s, f, l] => run(&format!("std.substr({}, {}, {})", lit(s)?, num(f)?, num(l)?), Ty::S),
        ["find", p, s] => run(&format!("std.findSubstr({}, {})", lit(p)?, lit(s)?), Ty::A),
        ["split", s, c] => run(&format!("std.split({}, {})", lit(s)?, lit(c)?), Ty::L),
        ["splitlimit", s, c, n] => {
            run(&format!("std.splitLimit({}, {}, {})", lit(s)?, lit(c)?, num(n)?), Ty::L)
        }
        ["splitlimitr", s, c, n] => {
            run(&format!("std.splitLimitR({}, {}, {})", lit(s)?, lit(c)?, num(n)?), Ty::L)
        }
        ["strip", s, c] => run(&format!("std.stripChars({}, {})", lit(s)?, lit(c)?), Ty::S),
        ["lstrip", s, c] => run(&format!("std.lstripChars({}, {})", lit(s)?, lit(c)?), Ty::S),
        ["rstrip", s, c] => run(&format!("std.rstripChars({}, {})", lit(s)?, lit(c)?), Ty::S),
        ["replace", s, f, t] => {
            run(&format!("std.strReplace({}, {}, {})", lit(s)?, lit(f)?, lit(t)?), Ty::S)
        }
        ["chars", s] => run(&format!("std.stringChars({})", lit(s)?), Ty::L),
        ["reverse", s] => run(&format!("std.reverse({})", lit(s)?), Ty::L),
        ["codepoint", s] => run(&format!("std.codepoint({})", lit(s)?), Ty::N),
        ["char", n] => run(&format!("std.char({})", num(n)?), Ty::S),
        ["join", c, xs] => {
            let items: Vec<String> = if *xs == "[]" {
                Vec::new()
            } else {
                xs.split(',').map(lit).collect::<Option<Vec<_>>>()?
            };
            run(&format!("std.join({}, [{}])", lit(c)?, items.join(", ")), Ty::S)
        }
        ["startswith", a, b] => run(&format!("std.startsWith({}, {})", lit(a)?, lit(b)?), Ty::B),
        ["endswith", a, b] => run(&format!("std.endsWith({}, {})", lit(a)?, lit(b)?), Ty::B),
        ["upper", s] => run(&format!("std.asciiUpper({})", lit(s)?), Ty::S),
        ["lower", s] => run(&format!("std.asciiLower({})", lit(s)?), Ty::S),
        ["trim", s] => run(&format!("std.trim({})", lit(s)?), Ty::S),
        ["map", s] => run(&format!("std.map(function(c) c + c, {})", lit(s)?), Ty::L),
        ["flatmap", s] => run(&format!("std.flatMap(function(c) c + \"|\" + c, {})", lit(s)?), Ty::S),
        ["pad", s, w, l] => {
            let w: u32 = w.parse().ok()?;
            let flag = if *l == "1" { "-" } else { "" };
            run(&format!("std.format(\"%{}{}s\", [{}])", flag, w, lit(s)?), Ty::S)
        }
        // the object form `%(k)Ns` has its own copy of the padding code (do_std_format_codes_object_2)
        ["padobj", s, w, l] => {
            let w: u32 = w.parse().ok()?;
            let flag = if *l == "1" { "-" } else { "" };
            run(&format!("std.format(\"%(k){}{}s\", {{k: {}}})", flag, w, lit(s)?), Ty::S)
        }
        _ => None,
    }
}
