//! `hist <req> <req> ...` — a sequence of requests against ONE long-lived Program.
//!   load:<hexsrc>          -> thunk #k (k = number of loads so far), answers "t<k>" or load error
//!   eval:<k>               -> evaluate thunk k, manifest (single line) -> ok/err
//!   evalv:<k>              -> evaluate thunk k only (no manifest); answers value type or err
//!   call:<k>:<hexsrc>,...  -> eval_call thunk k with positional args given as sources
//!   gc                     -> explicit collection
//!   maxstack:<n>
//!   objs                   -> number of GC objects (after explicit gc)
use crate::ops_eval::{eval_err, load_err, Cb};
use crate::util::*;
use rsjsonnet_lang::arena::Arena;
use rsjsonnet_lang::program::{Program, Thunk, Value, ValueKind};

fn vtype(v: &Value<'_>) -> &'static str {
    match v.kind() {
        ValueKind::Null => "null",
        ValueKind::Bool(_) => "boolean",
        ValueKind::Number(_) => "number",
        ValueKind::String(_) => "string",
        ValueKind::Array(_) => "array",
        ValueKind::Object(_) => "object",
        ValueKind::Function => "function",
    }
}

pub fn handle(args: &[&str]) -> Option<String> {
    let arena = Arena::new();
    let mut program = Program::new(&arena);
    let mut cb = Cb::new();
    let mut thunks: Vec<Option<Thunk<'_>>> = Vec::new();
    let mut out: Vec<String> = Vec::new();
    for a in args {
        let p: Vec<&str> = a.split(':').collect();
        if let Some(rest) = a.strip_prefix("file:") {
            // file:<hexpath>=<hexdata> : a virtual file for `import`
            let (fp, fd) = rest.split_once('=')?;
            cb.files
                .insert(String::from_utf8(hex_dec(fp)?).ok()?, hex_dec(fd)?);
            continue;
        }
        let r: String = match p[0] {
            "load" => {
                let src = hex_dec(p.get(1)?)?;
                let (ctx, _) = program.span_manager_mut().insert_source_context(src.len());
                match program.load_source(ctx, &src, true, "<hist>") {
                    Ok(t) => {
                        thunks.push(Some(t));
                        format!("t{}", thunks.len() - 1)
                    }
                    Err(e) => {
                        thunks.push(None);
                        load_err(&e).replace(' ', "_")
                    }
                }
            }
            "eval" | "evalv" => {
                let k: usize = p.get(1)?.parse().ok()?;
                match thunks.get(k) {
                    Some(Some(t)) => {
                        let t = t.clone();
                        match program.eval_value(&t, &mut cb) {
                            Ok(v) => {
                                if p[0] == "evalv" {
                                    format!("ok_{}", vtype(&v))
                                } else {
                                    match program.manifest_json(&v, false) {
                                        Ok(s) => format!("ok_{}", hex_enc(s.as_bytes())),
                                        Err(e) => eval_err(&e).replace(' ', "_"),
                                    }
                                }
                            }
                            Err(e) => eval_err(&e).replace(' ', "_"),
                        }
                    }
                    _ => "skip".into(),
                }
            }
            "call" => {
                let k: usize = p.get(1)?.parse().ok()?;
                let mut arg_thunks = Vec::new();
                let mut bad = None;
                if let Some(list) = p.get(2) {
                    for s in list.split(',').filter(|s| !s.is_empty()) {
                        let src = hex_dec(s)?;
                        let (ctx, _) = program.span_manager_mut().insert_source_context(src.len());
                        match program.load_source(ctx, &src, true, "<arg>") {
                            Ok(t) => arg_thunks.push(t),
                            Err(e) => bad = Some(load_err(&e).replace(' ', "_")),
                        }
                    }
                }
                match (bad, thunks.get(k)) {
                    (Some(b), _) => b,
                    (None, Some(Some(t))) => {
                        let t = t.clone();
                        match program.eval_call(&t, &arg_thunks, &[], &mut cb) {
                            Ok(v) => match program.manifest_json(&v, false) {
                                Ok(s) => format!("ok_{}", hex_enc(s.as_bytes())),
                                Err(e) => eval_err(&e).replace(' ', "_"),
                            },
                            Err(e) => eval_err(&e).replace(' ', "_"),
                        }
                    }
                    _ => "skip".into(),
                }
            }
            "gc" => {
                program.gc();
                "gc".into()
            }
            "maxstack" => {
                program.set_max_stack(p.get(1)?.parse().ok()?);
                "ms".into()
            }
            "objs" => {
                program.gc();
                format!("objs{}", program.verif_num_objects())
            }
            "drop" => {
                let k: usize = p.get(1)?.parse().ok()?;
                if k < thunks.len() {
                    thunks[k] = None;
                }
                "drop".into()
            }
            _ => return None,
        };
        out.push(r);
    }
    Some(out.join(";"))
}
