use crate::util::*;
use rsjsonnet_lang::arena::Arena;
use rsjsonnet_lang::interner::InternedStr;
use rsjsonnet_lang::program::{
    Callbacks, EvalError, EvalStackTraceItem, ImportError, LoadError, NativeError, Program, Thunk,
    Value,
};
use rsjsonnet_lang::span::SpanId;
use std::collections::HashMap;

pub struct Cb<'p> {
    pub traces: Vec<String>,
    pub files: HashMap<String, Vec<u8>>,
    pub cache: HashMap<String, Thunk<'p>>,
    pub loads: Vec<String>,
}

impl<'p> Cb<'p> {
    pub fn new() -> Self {
        Cb {
            traces: Vec::new(),
            files: HashMap::new(),
            cache: HashMap::new(),
            loads: Vec::new(),
        }
    }
}

impl<'p> Callbacks<'p> for Cb<'p> {
    fn import(
        &mut self,
        program: &mut Program<'p>,
        _from: SpanId,
        path: &str,
    ) -> Result<Thunk<'p>, ImportError> {
        if let Some(t) = self.cache.get(path) {
            return Ok(t.clone());
        }
        let data = self.files.get(path).ok_or(ImportError)?.clone();
        let (ctx, _) = program.span_manager_mut().insert_source_context(data.len());
        self.loads.push(path.into());
        match program.load_source(ctx, &data, true, path) {
            Ok(t) => {
                self.cache.insert(path.into(), t.clone());
                Ok(t)
            }
            Err(_) => Err(ImportError),
        }
    }
    fn import_str(
        &mut self,
        _program: &mut Program<'p>,
        _from: SpanId,
        path: &str,
    ) -> Result<String, ImportError> {
        let data = self.files.get(path).ok_or(ImportError)?;
        Ok(String::from_utf8_lossy(data).into_owned())
    }
    fn import_bin(
        &mut self,
        _program: &mut Program<'p>,
        _from: SpanId,
        path: &str,
    ) -> Result<Vec<u8>, ImportError> {
        self.files.get(path).cloned().ok_or(ImportError)
    }
    fn trace(&mut self, _program: &mut Program<'p>, message: &str, _stack: &[EvalStackTraceItem]) {
        self.traces.push(message.into());
    }
    fn native_call(
        &mut self,
        _program: &mut Program<'p>,
        _name: InternedStr<'p>,
        _args: &[Value<'p>],
    ) -> Result<Value<'p>, NativeError> {
        Err(NativeError)
    }
}

pub fn load_err(e: &LoadError) -> String {
    match e {
        LoadError::Lex(e) => format!("err lex {} {}", variant_name(e), hex_enc(format!("{:?}", e).as_bytes())),
        LoadError::Parse(e) => format!("err parse {} {}", variant_name(e), hex_enc(format!("{:?}", e).as_bytes())),
        LoadError::Analyze(e) => {
            let name = match e {
                rsjsonnet_lang::program::AnalyzeError::UnknownVariable { name, .. }
                | rsjsonnet_lang::program::AnalyzeError::RepeatedLocalName { name, .. }
                | rsjsonnet_lang::program::AnalyzeError::RepeatedFieldName { name, .. }
                | rsjsonnet_lang::program::AnalyzeError::RepeatedParamName { name, .. } => name.clone(),
                _ => String::new(),
            };
            format!("err analyze {} {}", variant_name(e), hex_enc(name.as_bytes()))
        }
    }
}

/// Canonical, span-free description of an evaluation error.
pub fn eval_err(e: &EvalError) -> String {
    use rsjsonnet_lang::program::EvalErrorKind as K;
    let detail: String = match &e.kind {
        K::ExplicitError { message, .. } => message.clone(),
        K::AssertFailed { message, .. } => message.clone().unwrap_or_default(),
        K::Other { message, .. } => message.clone(),
        K::UnknownObjectField { field_name, .. } => field_name.clone(),
        K::RepeatedFieldName { name, .. } => name.clone(),
        K::UnknownCallParam { param_name, .. }
        | K::RepeatedCallParam { param_name, .. }
        | K::CallParamNotBound { param_name, .. } => param_name.clone(),
        K::TooManyCallArgs { num_params, .. } => format!("{}", num_params),
        K::NumericIndexOutOfRange { index, length, .. } => format!("{}/{}", index, length),
        K::NumericIndexIsNotValid { index, .. } => index.clone(),
        K::InvalidBinaryOpTypes { op, lhs_type, rhs_type, .. } => {
            format!("{:?}/{:?}/{:?}", op, lhs_type, rhs_type)
        }
        K::InvalidUnaryOpType { op, rhs_type, .. } => format!("{:?}/{:?}", op, rhs_type),
        K::InvalidStdFuncArgType { func_name, arg_index, got_type, .. } => {
            format!("{}/{}/{:?}", func_name, arg_index, got_type)
        }
        K::CompareDifferentTypesInequality { lhs_type, rhs_type } => {
            format!("{:?}/{:?}", lhs_type, rhs_type)
        }
        K::PrimitiveEqualsNonPrimitive { got_type } => format!("{:?}", got_type),
        K::AssertEqualFailed { lhs, rhs } => format!("{}/{}", lhs, rhs),
        K::UnknownExtVar { name } => name.clone(),
        K::ImportFailed { path, .. } => path.clone(),
        K::InvalidIndexedType { got_type, .. }
        | K::InvalidSlicedType { got_type, .. }
        | K::SliceIndexOrStepIsNotNumber { got_type, .. }
        | K::StringIndexIsNotNumber { got_type, .. }
        | K::ArrayIndexIsNotNumber { got_type, .. }
        | K::ObjectIndexIsNotString { got_type, .. }
        | K::FieldNameIsNotString { got_type, .. }
        | K::ForSpecValueIsNotArray { got_type, .. }
        | K::CondIsNotBool { got_type, .. }
        | K::CalleeIsNotFunction { got_type, .. } => format!("{:?}", got_type),
        _ => String::new(),
    };
    format!("err eval {} {}", variant_name(&e.kind), hex_enc(detail.as_bytes()))
}

pub struct EvalOpts {
    pub max_stack: Option<usize>,
    pub mode: String, // json | jsonml | str
    pub traces: bool,
    pub gc_period: Option<usize>,
    pub files: HashMap<String, Vec<u8>>,
    pub ext_str: Vec<(String, String)>,
    pub ext_code: Vec<(String, Vec<u8>)>,
    pub trace_depth: bool,
    pub load_only: bool,
}

impl EvalOpts {
    pub fn parse(args: &[&str]) -> Option<Self> {
        let mut o = EvalOpts {
            max_stack: None,
            mode: "json".into(),
            traces: false,
            gc_period: None,
            files: HashMap::new(),
            ext_str: Vec::new(),
            ext_code: Vec::new(),
            trace_depth: false,
            load_only: false,
        };
        for a in args {
            let (k, v) = a.split_once('=')?;
            match k {
                "max_stack" => o.max_stack = Some(v.parse().ok()?),
                "mode" => o.mode = v.into(),
                "traces" => o.traces = v == "1",
                "gc" => o.gc_period = Some(v.parse().ok()?),
                "tracedepth" => o.trace_depth = v == "1",
                "load" => o.load_only = v == "1",
                _ => {
                    if let Some(p) = k.strip_prefix("file:") {
                        let p = String::from_utf8(hex_dec(p)?).ok()?;
                        o.files.insert(p, hex_dec(v)?);
                    } else if let Some(p) = k.strip_prefix("extstr:") {
                        let p = String::from_utf8(hex_dec(p)?).ok()?;
                        o.ext_str.push((p, String::from_utf8(hex_dec(v)?).ok()?));
                    } else if let Some(p) = k.strip_prefix("extcode:") {
                        let p = String::from_utf8(hex_dec(p)?).ok()?;
                        o.ext_code.push((p, hex_dec(v)?));
                    } else {
                        return None;
                    }
                }
            }
        }
        Some(o)
    }
}

pub fn eval_source(src: &[u8], o: &EvalOpts) -> String {
    let arena = Arena::new();
    let mut program = Program::new(&arena);
    if let Some(ms) = o.max_stack {
        program.set_max_stack(ms);
    }
    if let Some(p) = o.gc_period {
        program.verif_set_gc_period(p);
    }
    let mut cb = Cb::new();
    cb.files = o.files.clone();
    for (name, val) in &o.ext_str {
        let n = program.intern_str(name);
        let t = program.value_to_thunk(&Value::string(val));
        program.add_ext_var(n, &t);
    }
    for (name, code) in &o.ext_code {
        let n = program.intern_str(name);
        let (ctx, _) = program.span_manager_mut().insert_source_context(code.len());
        match program.load_source(ctx, code, true, "<extvar>") {
            Ok(t) => program.add_ext_var(n, &t),
            Err(e) => return load_err(&e),
        }
    }
    let (ctx, _) = program.span_manager_mut().insert_source_context(src.len());
    let thunk = match program.load_source(ctx, src, true, "<main>") {
        Ok(t) => t,
        Err(e) => return load_err(&e),
    };
    if o.load_only {
        return "ok".into();
    }
    let res = program.eval_value(&thunk, &mut cb);
    let mut out = match res {
        Err(e) => {
            let mut s = eval_err(&e);
            if o.trace_depth {
                s.push_str(&format!(" D{}", e.stack_trace.len()));
            }
            s
        }
        Ok(v) => match o.mode.as_str() {
            "str" => match v.to_string() {
                Some(s) => format!("ok {}", hex_enc(s.as_bytes())),
                None => "err mode notstring -".into(),
            },
            m => match program.manifest_json(&v, m == "jsonml") {
                Ok(s) => format!("ok {}", hex_enc(s.as_bytes())),
                Err(e) => eval_err(&e),
            },
        },
    };
    if o.traces {
        out.push_str(" T");
        let t: Vec<String> = cb.traces.iter().map(|t| hex_enc(t.as_bytes())).collect();
        out.push_str(&t.join(","));
    }
    out
}

/// `eval <hexsrc> [opts]`
pub fn handle(args: &[&str]) -> Option<String> {
    let src = hex_dec(args.first()?)?;
    let o = EvalOpts::parse(&args[1..])?;
    Some(eval_source(&src, &o))
}

/// the source text of a "big" request: `<hex template> <hex fill> <len>`; the single `@` of the template is replaced
/// by `len` bytes of the repeated fill pattern (sources too large to send as hex)
pub fn big_source(args: &[&str]) -> Option<Vec<u8>> {
    let tmpl = hex_dec(args.first()?)?;
    let fill = hex_dec(args.get(1)?)?;
    let len: usize = args.get(2)?.parse().ok()?;
    if fill.is_empty() || len > (1 << 28) {
        return None;
    }
    let at = tmpl.iter().position(|&b| b == b'@')?;
    let mut src = Vec::with_capacity(tmpl.len() + len);
    src.extend_from_slice(&tmpl[..at]);
    while src.len() < at + len {
        let n = (at + len - src.len()).min(fill.len());
        src.extend_from_slice(&fill[..n]);
    }
    src.extend_from_slice(&tmpl[at + 1..]);
    Some(src)
}

/// `evalbig <hex template> <hex fill> <len> [opts]`: like `eval`; a successful result is reported by its length only
pub fn handle_big(args: &[&str]) -> Option<String> {
    let src = big_source(args)?;
    let o = EvalOpts::parse(&args[3..])?;
    let r = eval_source(&src, &o);
    if let Some(rest) = r.strip_prefix("ok ") {
        let first = rest.split(' ').next().unwrap_or("");
        Some(format!("ok len={}", first.len() / 2))
    } else {
        Some(r)
    }
}
