//! Implementation side of driver op `num` (see /verif/CONTRIBUTING.md), property C06.
//!
//! `num op <name> <bits16>*`   evaluate the operator / builtin `<name>` of the real
//!                             evaluator; the operands travel as IEEE bit patterns and
//!                             enter the program as external variables (no literal, no
//!                             printing involved); answer `ok <bits16>` | `err <Kind>`.
//! `num conv <i>`              an integer-valued conversion site producing `i`.
//! `num lex <hextext>`         first token of the real lexer: `ok <digits> <exp> <hexrest>`.
//! `num lit <hextext>`         evaluate the text as a Jsonnet program (a literal).
//! `num litvalue <hextext>`    same (the model answers from the specification instead).
//! `num dec|parseint|radix|yaml ..`  std.parseJson / parseInt / parseOctal,parseHex / parseYaml.
//! `num show <bits16>`         manifested text of the number: `ok <hextext>`.
//! `num shortest <bits16> <hextext>`  `true` iff `<hextext>` is the manifested text.
//! `num eval <hexsrc>`         evaluate arbitrary source: `ok <bits16>` | `nonnum <type>` | `err <Kind>`.
#![allow(unused_imports, dead_code)]
use crate::ops_eval::{eval_err, load_err, Cb};
use crate::util::*;
use rsjsonnet_lang::arena::Arena;
use rsjsonnet_lang::interner::StrInterner;
use rsjsonnet_lang::lexer::{LexError, Lexer};
use rsjsonnet_lang::program::{EvalErrorKind, Program, Value};
use rsjsonnet_lang::span::SpanManager;
use rsjsonnet_lang::token::TokenKind;

enum Var {
    Num(f64),
    Arr(Vec<f64>),
    Str(String),
}

fn bits(s: &str) -> Option<f64> {
    if s.len() != 16 {
        return None;
    }
    u64::from_str_radix(s, 16).ok().map(f64::from_bits)
}

fn kind_name(e: &rsjsonnet_lang::program::EvalError) -> String {
    match &e.kind {
        EvalErrorKind::Other { message, .. } if message.contains("number overflow") => {
            "NumberOverflow".into()
        }
        k => variant_name(k),
    }
}

enum Res {
    Num(f64),
    NonNum(String),
    Err(String),
}

fn eval_vars(src: &str, vars: &[(&str, Var)], want_text: bool) -> (Res, Option<String>) {
    let arena = Arena::new();
    let mut program = Program::new(&arena);
    let mut cb = Cb::new();
    for (name, v) in vars {
        let n = program.intern_str(name);
        let val = match v {
            Var::Num(x) => Value::number(*x),
            Var::Str(s) => Value::string(s),
            Var::Arr(xs) => {
                let items: Vec<Value> = xs.iter().map(|x| Value::number(*x)).collect();
                program.make_array(&items)
            }
        };
        let t = program.value_to_thunk(&val);
        program.add_ext_var(n, &t);
    }
    let (ctx, _) = program
        .span_manager_mut()
        .insert_source_context(src.len());
    let thunk = match program.load_source(ctx, src.as_bytes(), true, "<num>") {
        Ok(t) => t,
        Err(e) => {
            let s = load_err(&e);
            // "err lex Kind .." -> "lex Kind"
            let w: Vec<&str> = s.split(' ').collect();
            return (Res::Err(format!("{} {}", w[1], w[2])), None);
        }
    };
    match program.eval_value(&thunk, &mut cb) {
        Err(e) => (Res::Err(kind_name(&e)), None),
        Ok(v) => {
            let text = if want_text {
                program.manifest_json(&v, false).ok()
            } else {
                None
            };
            match v.as_number() {
                Some(x) => (Res::Num(x), text),
                None => {
                    let t = if v.is_null() {
                        "null"
                    } else if v.is_bool() {
                        "boolean"
                    } else if v.is_string() {
                        "string"
                    } else if v.is_array() {
                        "array"
                    } else if v.is_object() {
                        "object"
                    } else {
                        "function"
                    };
                    (Res::NonNum(t.into()), text)
                }
            }
        }
    }
}

fn show(r: Res) -> String {
    match r {
        Res::Num(x) => format!("ok {:016x}", x.to_bits()),
        Res::NonNum(_) => "nonnum".to_string(),
        Res::Err(k) => format!("err {}", k),
    }
}

/// Jsonnet source for a producer; operands are `a`, `b`, `c` / the array `xs`.
fn template(name: &str) -> Option<(&'static str, usize)> {
    // (source, arity); arity 99 = array
    Some(match name {
        "add" => ("a + b", 2),
        "sub" => ("a - b", 2),
        "mul" => ("a * b", 2),
        "div" => ("a / b", 2),
        "rem" => ("a % b", 2),
        "shl" => ("a << b", 2),
        "shr" => ("a >> b", 2),
        "band" => ("a & b", 2),
        "bor" => ("a | b", 2),
        "bxor" => ("a ^ b", 2),
        "neg" => ("-a", 1),
        "pos" => ("+a", 1),
        "bnot" => ("~a", 1),
        "modulo" => ("std.modulo(a, b)", 2),
        "mod" => ("std.mod(a, b)", 2),
        "pow" => ("std.pow(a, b)", 2),
        "atan2" => ("std.atan2(a, b)", 2),
        "hypot" => ("std.hypot(a, b)", 2),
        "exp" => ("std.exp(a)", 1),
        "log" => ("std.log(a)", 1),
        "log2" => ("std.log2(a)", 1),
        "log10" => ("std.log10(a)", 1),
        "sqrt" => ("std.sqrt(a)", 1),
        "sin" => ("std.sin(a)", 1),
        "cos" => ("std.cos(a)", 1),
        "tan" => ("std.tan(a)", 1),
        "asin" => ("std.asin(a)", 1),
        "acos" => ("std.acos(a)", 1),
        "atan" => ("std.atan(a)", 1),
        "deg2rad" => ("std.deg2rad(a)", 1),
        "rad2deg" => ("std.rad2deg(a)", 1),
        "floor" => ("std.floor(a)", 1),
        "ceil" => ("std.ceil(a)", 1),
        "mantissa" => ("std.mantissa(a)", 1),
        "exponent" => ("std.exponent(a)", 1),
        "abs" => ("std.abs(a)", 1),
        "sign" => ("std.sign(a)", 1),
        "max" => ("std.max(a, b)", 2),
        "min" => ("std.min(a, b)", 2),
        "clamp" => ("std.clamp(a, b, c)", 3),
        "round" => ("std.round(a)", 1),
        "sum" => ("std.sum(xs)", 99),
        "avg" => ("std.avg(xs)", 99),
        "pi" => ("std.pi", 0),
        _ => return None,
    })
}

fn run_op(name: &str, args: &[&str]) -> Option<String> {
    let (src, arity) = template(name)?;
    let xs: Vec<f64> = args.iter().map(|a| bits(a)).collect::<Option<Vec<_>>>()?;
    let prelude = "local a = std.extVar('a'), b = std.extVar('b'), c = std.extVar('c'), xs = std.extVar('xs'); ";
    let full = format!("{}{}", prelude, src);
    if arity == 99 {
        let (r, _) = eval_vars(&full, &[("xs", Var::Arr(xs))], false);
        return Some(show(r));
    }
    if xs.len() != arity {
        return Some("err arity".into());
    }
    let names = ["a", "b", "c"];
    let vars: Vec<(&str, Var)> = xs.iter().enumerate().map(|(i, x)| (names[i], Var::Num(*x))).collect();
    let (r, _) = eval_vars(&full, &vars, false);
    Some(show(r))
}

fn lex_err_name(e: &LexError) -> String {
    variant_name(e)
}

fn run_lex(text: &[u8]) -> String {
    let arena = Arena::new();
    let ast_arena = Arena::new();
    let str_interner = StrInterner::new();
    let mut span_mgr = SpanManager::new();
    let (span_ctx, _) = span_mgr.insert_source_context(text.len());
    let mut lexer = Lexer::new(&arena, &ast_arena, &str_interner, &mut span_mgr, span_ctx, text);
    let tok = lexer.next_token();
    drop(lexer);
    match tok {
        Err(e) => format!("err {}", lex_err_name(&e)),
        Ok(t) => match t.kind {
            TokenKind::Number(n) => {
                let (_, _, end) = span_mgr.get_span(t.span);
                format!("ok {} {} {}", n.digits, n.exp, hex_enc(&text[end..]))
            }
            _ => "err NotADigit".into(),
        },
    }
}

pub fn handle(args: &[&str]) -> Option<String> {
    match args {
        ["op", name, rest @ ..] => run_op(name, rest),
        ["conv", i] => {
            let i: i64 = i.parse().ok()?;
            // an integer-valued conversion site that can produce `i`
            let (src, vars): (String, Vec<(&str, Var)>) = if (0..=0x10FFFF).contains(&i)
                && !(0xD800..=0xDFFF).contains(&i)
            {
                // do_std_codepoint: f64::from(u32)
                ("std.codepoint(std.extVar('s'))".into(),
                 vec![("s", Var::Str(char::from_u32(i as u32)?.to_string()))])
            } else if i >= i32::MIN as i64 && i <= i32::MAX as i64 {
                // do_std_range: f64::from(i32)
                (format!("std.range(std.extVar('a'), std.extVar('a'))[0]"), vec![("a", Var::Num(i as f64))])
            } else {
                return Some("err outOfType".into());
            };
            let (r, _) = eval_vars(&src, &vars, false);
            Some(show(r))
        }
        ["lex", t] => Some(run_lex(&hex_dec(t)?)),
        ["lit", t] | ["litvalue", t] => {
            let text = String::from_utf8(hex_dec(t)?).ok()?;
            let (r, _) = eval_vars(&text, &[], false);
            Some(show(r))
        }
        ["dec", t] => {
            let text = String::from_utf8(hex_dec(t)?).ok()?;
            let (r, _) = eval_vars("std.parseJson(std.extVar('s'))", &[("s", Var::Str(text))], false);
            Some(show(r))
        }
        ["parseint", t] => {
            let text = String::from_utf8(hex_dec(t)?).ok()?;
            let (r, _) = eval_vars("std.parseInt(std.extVar('s'))", &[("s", Var::Str(text))], false);
            Some(show(r))
        }
        ["radix", r, t] => {
            let text = String::from_utf8(hex_dec(t)?).ok()?;
            let f = match *r {
                "8" => "std.parseOctal(std.extVar('s'))",
                "16" => "std.parseHex(std.extVar('s'))",
                _ => return None,
            };
            let (r, _) = eval_vars(f, &[("s", Var::Str(text))], false);
            Some(show(r))
        }
        ["yaml", t] => {
            let text = String::from_utf8(hex_dec(t)?).ok()?;
            let (r, _) = eval_vars("std.parseYaml(std.extVar('s'))", &[("s", Var::Str(text))], false);
            Some(show(r))
        }
        ["show", b] => {
            let x = bits(b)?;
            let (_, text) = eval_vars("std.extVar('a')", &[("a", Var::Num(x))], true);
            Some(match text {
                Some(t) => format!("ok {}", hex_enc(t.as_bytes())),
                None => "err manifest".into(),
            })
        }
        ["shortest", b, t] => {
            let x = bits(b)?;
            let want = hex_dec(t)?;
            let (_, text) = eval_vars("std.extVar('a')", &[("a", Var::Num(x))], true);
            Some(match text {
                Some(s) => if s.as_bytes() == &want[..] { "true".into() } else { "false".into() },
                None => "err manifest".into(),
            })
        }
        ["eval", src] => {
            let text = String::from_utf8(hex_dec(src)?).ok()?;
            let (r, _) = eval_vars(&text, &[], false);
            Some(match r {
                Res::NonNum(t) => format!("nonnum {}", t),
                other => show(other),
            })
        }
        _ => None,
    }
}
