pub fn hex_enc(bs: &[u8]) -> String {
    if bs.is_empty() {
        return "-".into();
    }
    let mut s = String::with_capacity(bs.len() * 2);
    for b in bs {
        s.push_str(&format!("{:02x}", b));
    }
    s
}

pub fn hex_dec(s: &str) -> Option<Vec<u8>> {
    if s == "-" {
        return Some(Vec::new());
    }
    if s.len() % 2 != 0 {
        return None;
    }
    let b = s.as_bytes();
    let mut out = Vec::with_capacity(b.len() / 2);
    for i in (0..b.len()).step_by(2) {
        let h = (b[i] as char).to_digit(16)?;
        let l = (b[i + 1] as char).to_digit(16)?;
        out.push((h * 16 + l) as u8);
    }
    Some(out)
}

/// First identifier of a `Debug` rendering = enum variant name.
pub fn variant_name<T: std::fmt::Debug>(v: &T) -> String {
    let s = format!("{:?}", v);
    s.chars()
        .take_while(|c| c.is_alphanumeric() || *c == '_')
        .collect()
}
