//! Implementation side of driver op `obj` (see /verif/CONTRIBUTING.md).
#![allow(unused_imports, dead_code)]
use crate::util::*;

/// `obj <args...>`: one canonical answer line, or `None` for a malformed request.
pub fn handle(_args: &[&str]) -> Option<String> {
    None
}
