//! Implementation side of driver op `obj` (property C07, see lean/RsjModel/Object.lean).
//!
//! `obj <prefix object expression> ? <probe names...>`
//!   expr  := `{` field* `}` | `+` expr expr | `rm` name expr
//!   field := name:vis:plus:body   vis = d|h|v, plus = 0|1,
//!            body = l<int> | s<name> (self.name) | S<name> (self['name']) | u<name> (super.name)
//!                 | U<name> (super['name']) | i<name> ('name' in super)
//!
//! The expression is rendered as Jsonnet source and observed through the real
//! evaluator only: std.objectFieldsAll / objectFields / objectHas / objectHasAll /
//! length / `in`, every probe field's value (or error kind) and the manifested JSON.
use crate::ops_eval::{eval_source, EvalOpts};
use crate::util::*;

enum OExpr {
    Layer(Vec<(String, char, bool, String)>),
    Plus(Box<OExpr>, Box<OExpr>),
    Rm(String, Box<OExpr>),
}

fn is_name(s: &str) -> bool {
    !s.is_empty() && s.chars().all(|c| c.is_ascii_alphanumeric() || c == '_')
}

fn parse_body(s: &str) -> Option<String> {
    let (k, r) = s.split_at(1);
    match k {
        "l" => {
            let n: i64 = r.parse().ok()?;
            Some(format!("({})", n))
        }
        "s" if is_name(r) => Some(format!("self.{}", r)),
        "S" if is_name(r) => Some(format!("self['{}']", r)),
        "u" if is_name(r) => Some(format!("super.{}", r)),
        "U" if is_name(r) => Some(format!("super['{}']", r)),
        "i" if is_name(r) => Some(format!("(if '{}' in super then 1 else 0)", r)),
        _ => None,
    }
}

fn parse<'a>(toks: &'a [&'a str]) -> Option<(OExpr, &'a [&'a str])> {
    let (t, rest) = toks.split_first()?;
    match *t {
        "{" => {
            let mut fields = Vec::new();
            let mut rest = rest;
            loop {
                let (t, r) = rest.split_first()?;
                rest = r;
                if *t == "}" {
                    return Some((OExpr::Layer(fields), rest));
                }
                let p: Vec<&str> = t.split(':').collect();
                if p.len() != 4 || !is_name(p[0]) || p[3].is_empty() {
                    return None;
                }
                let vis = match p[1] {
                    "d" => 'd',
                    "h" => 'h',
                    "v" => 'v',
                    _ => return None,
                };
                let plus = match p[2] {
                    "0" => false,
                    "1" => true,
                    _ => return None,
                };
                fields.push((p[0].to_string(), vis, plus, parse_body(p[3])?));
            }
        }
        "+" => {
            let (a, r1) = parse(rest)?;
            let (b, r2) = parse(r1)?;
            Some((OExpr::Plus(Box::new(a), Box::new(b)), r2))
        }
        "rm" => {
            let (k, r0) = rest.split_first()?;
            if !is_name(k) {
                return None;
            }
            let (a, r1) = parse(r0)?;
            Some((OExpr::Rm(k.to_string(), Box::new(a)), r1))
        }
        _ => None,
    }
}

fn render(e: &OExpr, out: &mut String) {
    match e {
        OExpr::Layer(fields) => {
            out.push('{');
            for (n, vis, plus, body) in fields {
                out.push_str(&format!(
                    " '{}'{}{} {},",
                    n,
                    if *plus { "+" } else { "" },
                    match vis {
                        'd' => ":",
                        'h' => "::",
                        _ => ":::",
                    },
                    body
                ));
            }
            out.push_str(" }");
        }
        OExpr::Plus(a, b) => {
            out.push('(');
            render(a, out);
            out.push_str(" + ");
            render(b, out);
            out.push(')');
        }
        OExpr::Rm(k, a) => {
            out.push_str("std.objectRemoveKey(");
            render(a, out);
            out.push_str(&format!(", '{}')", k));
        }
    }
}

fn opts(mode: &str) -> EvalOpts {
    let mut o = EvalOpts::parse(&[]).unwrap();
    o.mode = mode.into();
    o
}

/// `ok <hex>` -> Ok(text); `err eval Kind <hexdetail>` -> Err(short kind)
fn short(res: &str) -> Result<String, String> {
    let w: Vec<&str> = res.split(' ').collect();
    if w[0] == "ok" && w.len() >= 2 {
        return Ok(String::from_utf8_lossy(&hex_dec(w[1]).unwrap_or_default()).into_owned());
    }
    if w[0] == "err" && w.len() >= 3 {
        let detail = w
            .get(3)
            .and_then(|h| hex_dec(h))
            .map(|b| String::from_utf8_lossy(&b).into_owned())
            .unwrap_or_default();
        return Err(match w[2] {
            "UnknownObjectField" => format!("Eunk.{}", detail),
            "SuperWithoutSuperObject" => "Enosuper".into(),
            "InfiniteRecursion" => "Einf".into(),
            k => format!("E{}:{}", w[1], k),
        });
    }
    Err(format!("E?{}", res.replace(' ', "_")))
}

/// Flat JSON object with integer values -> `{a:1,b:2}`
fn canon_json(s: &str) -> String {
    s.chars()
        .filter(|c| !c.is_whitespace() && *c != '"')
        .collect()
}

pub fn handle(args: &[&str]) -> Option<String> {
    let (e, rest) = parse(args)?;
    let (q, probes) = rest.split_first()?;
    if *q != "?" || !probes.iter().all(|p| is_name(p)) {
        return None;
    }
    // Every probe name is made known to the string interner first: for a name that occurs
    // nowhere in the program, `super['x']` / std.objectHasEx take a "not interned" shortcut
    // (UnknownObjectField before the SuperWithoutSuperObject test), which is outside the
    // layer algebra modelled here.
    let mut src = String::from("local __intern = {");
    for p in probes.iter() {
        src.push_str(&format!(" {}: 0,", p));
    }
    src.push_str(" }; ");
    render(&e, &mut src);

    // 1. the existence / visibility views, computed by the evaluator itself
    let plist: Vec<String> = probes.iter().map(|p| format!("'{}'", p)).collect();
    let views_src = format!(
        "local o = {};\n\
         local ps = [{}];\n\
         local b(x) = if x then '1' else '0';\n\
         local vis(n) = if !std.objectHas(o, n) then 'h' else if std.objectHas({{ [n]:: 0 }} + o, n) then 'v' else 'd';\n\
         'F=' + std.join(',', [n + '/' + vis(n) for n in std.objectFieldsAll(o)])\n\
         + '|V=' + std.join(',', std.objectFields(o))\n\
         + '|L=' + std.length(o)\n\
         + '|P=' + std.join(',', [n + ':' + b(std.objectHasAll(o, n)) + b(std.objectHas(o, n)) + b(n in o) for n in ps])",
        src,
        plist.join(",")
    );
    let views = match short(&eval_source(views_src.as_bytes(), &opts("str"))) {
        Ok(s) => s,
        Err(k) => return Some(format!("views-failed {}", k)),
    };
    let (head, pview) = views.split_once("|P=")?;
    let pview: Vec<&str> = if pview.is_empty() { Vec::new() } else { pview.split(',').collect() };
    if pview.len() != probes.len() {
        return Some("views-failed probe-count".into());
    }

    // 2. every probe field's value, each in a fresh program
    let mut pout = Vec::new();
    for (p, pv) in probes.iter().zip(pview.iter()) {
        let fsrc = format!("local o = {};\no['{}']", src, p);
        let val = match short(&eval_source(fsrc.as_bytes(), &opts("json"))) {
            Ok(s) => s.trim().to_string(),
            Err(k) => k,
        };
        pout.push(format!("{}:{}", pv, val));
    }

    // 3. manifestation
    let man = match short(&eval_source(src.as_bytes(), &opts("json"))) {
        Ok(s) => canon_json(&s),
        Err(k) => k,
    };

    Some(format!("{}|P={}|M={}", head, pout.join(","), man))
}
