use rsjsonnet_lang::span::{SpanContextId, SpanId, SpanManager};

fn show(m: &SpanManager, ctxs: &[SpanContextId], id: SpanId) -> String {
    let (c, s, e) = m.get_span(id);
    let ci = ctxs.iter().position(|x| *x == c);
    match ci {
        Some(ci) => format!("{}:{}:{}", ci, s, e),
        None => "EbadContext".into(),
    }
}

fn raw(id: SpanId) -> &'static str {
    // SpanId is opaque; Debug prints "Inline { offset, len }" | "Interned(i)".
    let d = format!("{:?}", id);
    if d.starts_with("Interned(") { "I" } else { "N" }
}

pub fn handle(args: &[&str]) -> Option<String> {
    let mut m = SpanManager::new();
    let mut ctxs: Vec<SpanContextId> = Vec::new();
    let mut ids: Vec<SpanId> = Vec::new();
    let mut out: Vec<String> = Vec::new();
    for a in args {
        let p: Vec<&str> = a.split(':').collect();
        let r = std::panic::catch_unwind(std::panic::AssertUnwindSafe(|| -> Option<String> {
            match p.as_slice() {
                ["c", n] => {
                    let n: usize = n.parse().ok()?;
                    let (c, _) = m.insert_source_context(n);
                    ctxs.push(c);
                    let all: Vec<String> = ids.iter().map(|i| show(&m, &ctxs, *i)).collect();
                    Some(format!("c{}[{}]", ctxs.len() - 1, all.join(" ")))
                }
                ["i", c, s, e] => {
                    let c: usize = c.parse().ok()?;
                    let s: usize = s.parse().ok()?;
                    let e: usize = e.parse().ok()?;
                    if c >= ctxs.len() {
                        return Some("PbadContext".into());
                    }
                    let id = m.intern_span(ctxs[c], s, e);
                    ids.push(id);
                    let all: Vec<String> = ids.iter().map(|i| show(&m, &ctxs, *i)).collect();
                    Some(format!("i{}[{}]", raw(id), all.join(" ")))
                }
                ["s", a, b] => {
                    let a: usize = a.parse().ok()?;
                    let b: usize = b.parse().ok()?;
                    if a >= ids.len() || b >= ids.len() {
                        return Some("skip".into());
                    }
                    // make_surrounding_span is crate-private: reproduce through the public API
                    let (c1, s1, _) = m.get_span(ids[a]);
                    let (c2, _, e2) = m.get_span(ids[b]);
                    if c1 != c2 {
                        return Some("PbadContext".into());
                    }
                    if s1 > e2 {
                        return Some("PstartGtEnd".into());
                    }
                    let id = m.intern_span(c1, s1, e2);
                    ids.push(id);
                    let all: Vec<String> = ids.iter().map(|i| show(&m, &ctxs, *i)).collect();
                    Some(format!("i{}[{}]", raw(id), all.join(" ")))
                }
                _ => None,
            }
        }));
        match r {
            Ok(Some(s)) => out.push(s),
            Ok(None) => return None,
            Err(_) => {
                let msg = crate::take_panic_msg();
                let k = if msg.contains("start_u64 <= end_u64") {
                    "PstartGtEnd"
                } else if msg.contains("start_offset < max_offset") {
                    "PstartOutOfRange"
                } else if msg.contains("end_offset < max_offset") {
                    "PendOutOfRange"
                } else {
                    "Pother"
                };
                out.push(k.into());
            }
        }
    }
    Some(out.join(";"))
}
