mod ops_eval;
mod ops_hist;
mod ops_span;
mod util;

use std::cell::RefCell;
use std::io::{BufRead, Write};

thread_local! {
    static PANIC_MSG: RefCell<String> = RefCell::new(String::new());
}

pub fn take_panic_msg() -> String {
    PANIC_MSG.with(|m| std::mem::take(&mut *m.borrow_mut()))
}

fn dispatch(line: &str) -> String {
    let ws: Vec<&str> = line.split_ascii_whitespace().collect();
    if ws.is_empty() {
        return "bad-op".into();
    }
    let args = &ws[1..];
    let r = std::panic::catch_unwind(|| match ws[0] {
        "span" => ops_span::handle(args),
        "eval" => ops_eval::handle(args),
        "hist" => ops_hist::handle(args),
        "gcscript" => Some(rsjsonnet_lang::verif::run_script(args).join(";")),
        _ => None,
    });
    match r {
        Ok(Some(s)) => s,
        Ok(None) => "bad-op".into(),
        Err(_) => format!("panic {}", util::hex_enc(take_panic_msg().as_bytes())),
    }
}

fn run() {
    std::panic::set_hook(Box::new(|info| {
        let msg = format!("{}", info);
        PANIC_MSG.with(|m| *m.borrow_mut() = msg);
    }));
    let stdin = std::io::stdin();
    let stdout = std::io::stdout();
    let mut out = std::io::BufWriter::new(stdout.lock());
    for line in stdin.lock().lines() {
        let line = match line {
            Ok(l) => l,
            Err(_) => break,
        };
        let r = dispatch(&line);
        writeln!(out, "{}", r).unwrap();
    }
    out.flush().unwrap();
}

fn main() {
    // evaluator recursion (manifest etc.) is explicit-stack, but parser/analyzer
    // are recursive: run on a big stack so deep inputs do not kill the harness.
    let h = std::thread::Builder::new()
        .stack_size(1 << 30)
        .spawn(run)
        .unwrap();
    h.join().unwrap();
}
