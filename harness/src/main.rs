mod ops_diag;
mod ops_eval;
mod ops_sort;
mod ops_lex;
mod ops_parse;
mod ops_json;
mod ops_codec;
mod ops_obj;
mod ops_fmt;
mod ops_str;
mod ops_cmp;
mod ops_core;
mod ops_ana;
mod ops_thunk;
mod ops_tstack;
mod ops_num;
mod ops_cli;
mod ops_imp;
mod ops_hist;
mod ops_span;
mod util;

use std::cell::RefCell;
use std::io::{BufRead, Write};

thread_local! {
    static PANIC_MSG: RefCell<String> = RefCell::new(String::new());
}

pub fn take_panic_msg() -> String {
    PANIC_MSG.with(|m| std::mem::take(&mut *m.borrow_mut()))
}

fn dispatch(line: &str) -> String {
    let ws: Vec<&str> = line.split_ascii_whitespace().collect();
    if ws.is_empty() {
        return "bad-op".into();
    }
    let args = &ws[1..];
    let r = std::panic::catch_unwind(|| match ws[0] {
        "span" => ops_span::handle(args),
        "eval" => ops_eval::handle(args),
        "evalbig" => ops_eval::handle_big(args),
        "diagbig" => ops_eval::big_source(args).and_then(|src| {
            let h = util::hex_enc(&src);
            let mut a: Vec<&str> = vec![&h];
            a.extend_from_slice(&args[3..]);
            ops_diag::handle(&a)
        }),
        "hist" => ops_hist::handle(args),
        "diag" => ops_diag::handle(args),
        "sort" => ops_sort::handle(args),
        "lex" => ops_lex::handle(args),
        "parse" => ops_parse::handle(args),
        "json" => ops_json::handle(args),
        "codec" => ops_codec::handle(args),
        "obj" => ops_obj::handle(args),
        "fmt" => ops_fmt::handle(args),
        "str" => ops_str::handle(args),
        "cmp" => ops_cmp::handle(args),
        "core" => ops_core::handle(args),
        "ana" => ops_ana::handle(args),
        "thunk" => ops_thunk::handle(args),
        "tstack" => ops_tstack::handle(args),
        "num" => ops_num::handle(args),
        "cli" => ops_cli::handle(args),
        "imp" => ops_imp::handle(args),
        "gcscript" => Some(rsjsonnet_lang::verif::run_script(args).join(";")),
        _ => None,
    });
    match r {
        Ok(Some(s)) => s,
        Ok(None) => "bad-op".into(),
        Err(_) => format!("panic {}", util::hex_enc(take_panic_msg().as_bytes())),
    }
}

fn run() {
    std::panic::set_hook(Box::new(|info| {
        let msg = format!("{}", info);
        PANIC_MSG.with(|m| *m.borrow_mut() = msg);
    }));
    let stdin = std::io::stdin();
    let stdout = std::io::stdout();
    let mut out = std::io::BufWriter::new(stdout.lock());
    for line in stdin.lock().lines() {
        let line = match line {
            Ok(l) => l,
            Err(_) => break,
        };
        let r = dispatch(&line);
        writeln!(out, "{}", r).unwrap();
        // flush per answer so that a hang or abort is attributable to one request
        out.flush().unwrap();
    }
    out.flush().unwrap();
}

fn main() {
    // evaluator recursion (manifest etc.) is explicit-stack, but parser/analyzer
    // are recursive: run on a big stack so deep inputs do not kill the harness.
    let h = std::thread::Builder::new()
        .stack_size(1 << 30)
        .spawn(run)
        .unwrap();
    h.join().unwrap();
}
