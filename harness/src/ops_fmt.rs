//! Implementation side of driver op `fmt` (see /verif/CONTRIBUTING.md).
#![allow(unused_imports, dead_code)]
use crate::util::*;

/// `fmt <args...>`: one canonical answer line, or `None` for a malformed request.
pub fn handle(_args: &[&str]) -> Option<String> {
    None
}
