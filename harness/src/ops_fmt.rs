//! Implementation side of driver op `fmt` (property C19, see /verif/CONTRIBUTING.md).
//!
//! Sub-commands
//!   fmt render via=<fmt|pct> f=<val> arr v:<val>... | obj k:<hexkey>=<val>... | one v:<val>  [H:...]
//!       evaluates `std.format(<f>, <vals>)` (or `<f> % <vals>`) through the real evaluator;
//!       `H:` tokens (host digit strings, meant for the model) are ignored here.
//!       answer: `ok <hex utf8>` | `err <kind>[:detail]`
//!   fmt host <bits16> [F:<prec>] [E:<prec>] [D] [L] [S]
//!       plain Rust formatting of |value| — the trusted host digit generator:
//!       F = `{:.p$}`, E = `{:.p$e}`, D = `trunc().to_string()`, L = `log10().floor()`.
//!       answer: the `H:` tokens to append to a model request.
//!   fmt tostr <hexsrc>
//!       `<type> <hex of std.toString(value)>` for a Jsonnet value given as source.
//!
//! <val> ::= n:<16 hex digits IEEE bits> | s:<hex utf8> | o:<type>:<hexsrc>:<hexrendered>
#![allow(dead_code)]
use crate::ops_eval::{eval_source, EvalOpts};
use crate::util::*;

fn jsonnet_str(s: &str) -> String {
    let mut out = String::from("\"");
    for ch in s.chars() {
        let o = ch as u32;
        if ch == '"' {
            out.push_str("\\\"");
        } else if ch == '\\' {
            out.push_str("\\\\");
        } else if o < 0x20 || o > 0x7e {
            if o > 0xffff {
                let o = o - 0x10000;
                out.push_str(&format!("\\u{:04x}\\u{:04x}", 0xd800 + (o >> 10), 0xdc00 + (o & 0x3ff)));
            } else {
                out.push_str(&format!("\\u{:04x}", o));
            }
        } else {
            out.push(ch);
        }
    }
    out.push('"');
    out
}

fn num_src(bits: u64) -> Option<String> {
    let v = f64::from_bits(bits);
    if !v.is_finite() {
        return None;
    }
    let a = format!("{:?}", v.abs());
    if v.is_sign_negative() {
        Some(format!("(-{})", a))
    } else {
        Some(a)
    }
}

fn val_src(tok: &str) -> Option<String> {
    let (k, rest) = tok.split_once(':')?;
    match k {
        "n" => {
            if rest.len() != 16 {
                return None;
            }
            num_src(u64::from_str_radix(rest, 16).ok()?)
        }
        "s" => Some(jsonnet_str(&String::from_utf8(hex_dec(rest)?).ok()?)),
        "o" => {
            let p: Vec<&str> = rest.split(':').collect();
            if p.len() != 3 {
                return None;
            }
            Some(format!("({})", String::from_utf8(hex_dec(p[1])?).ok()?))
        }
        _ => None,
    }
}

/// Undo `{:?}` of a `str` / `char` (without the surrounding quotes).
fn unescape_debug(s: &str) -> String {
    let mut out = String::new();
    let mut it = s.chars().peekable();
    while let Some(c) = it.next() {
        if c != '\\' {
            out.push(c);
            continue;
        }
        match it.next() {
            Some('n') => out.push('\n'),
            Some('r') => out.push('\r'),
            Some('t') => out.push('\t'),
            Some('0') => out.push('\0'),
            Some('u') => {
                let mut h = String::new();
                if it.peek() == Some(&'{') {
                    it.next();
                }
                while let Some(&d) = it.peek() {
                    it.next();
                    if d == '}' {
                        break;
                    }
                    h.push(d);
                }
                if let Some(ch) = u32::from_str_radix(&h, 16).ok().and_then(char::from_u32) {
                    out.push(ch);
                }
            }
            Some(o) => out.push(o),
            None => {}
        }
    }
    out
}

fn between<'a>(s: &'a str, pre: &str, post: &str) -> Option<&'a str> {
    s.strip_prefix(pre)?.strip_suffix(post)
}

fn type_name(debug: &str) -> String {
    match debug {
        "Bool" => "boolean".into(),
        o => o.to_lowercase(),
    }
}

fn canon_other(msg: &str) -> String {
    if msg == "truncated format code" {
        return "truncated".into();
    }
    if msg == "format field width is too large" {
        return "widthTooLarge".into();
    }
    if msg == "format precision is too large" {
        return "precTooLarge".into();
    }
    if msg == "missing format precision digits" {
        return "missingPrecDigits".into();
    }
    if let Some(r) = msg.strip_prefix("invalid format conversion code ") {
        let inner = between(r, "'", "'").unwrap_or(r);
        let u = unescape_debug(inner);
        let cp = u.chars().next().map(|c| c as u32).unwrap_or(0);
        return format!("invalidConv:{}", cp);
    }
    if let Some(r) = msg.strip_prefix("not enough array items for format, got ") {
        return format!("notEnough:{}", r);
    }
    if let Some(r) = msg.strip_prefix("too many array items for format: expected ") {
        if let Some((a, b)) = r.split_once(", got ") {
            return format!("tooMany:{}:{}", a, b);
        }
    }
    if let Some(r) = msg.strip_prefix("format precision must be a number, got ") {
        return format!("precNotNumber:{}", r);
    }
    if msg.starts_with("invalid format precision value: ") {
        return "precInvalid".into();
    }
    if let Some(r) = msg.strip_prefix("format field width must be a number, got ") {
        return format!("widthNotNumber:{}", r);
    }
    if msg.starts_with("invalid format field width value: ") {
        return "widthInvalid".into();
    }
    for (pre, k) in [
        ("'i' / 'd' formatting requires a number, got ", "d"),
        ("'o' formatting requires a number, got ", "o"),
        ("'x' / 'X' formatting requires a number, got ", "x"),
        ("'e' / 'E' formatting requires a number, got ", "e"),
        ("'f' / 'F' formatting requires a number, got ", "f"),
        ("'g' / 'G' formatting requires a number, got ", "g"),
    ] {
        if let Some(r) = msg.strip_prefix(pre) {
            return format!("needNumber:{}:{}", k, r);
        }
    }
    if let Some(r) = msg.strip_prefix("'c' formatting requires a string of length 1, got ") {
        return format!("charLen:{}", r);
    }
    if msg.ends_with(" is not a valid unicode codepoint") {
        return "charBadCodepoint".into();
    }
    if let Some(r) = msg.strip_prefix("'c' formatting requires a string or a number, got ") {
        return format!("charBadType:{}", r);
    }
    if msg == "'*' field width cannot be used with object formatting" {
        return "objStarWidth".into();
    }
    if msg == "'*' precision cannot be used with object formatting" {
        return "objStarPrec".into();
    }
    if msg == "mapping keys are required with object formatting" {
        return "objNeedKey".into();
    }
    if let Some(r) = msg.strip_prefix("missing field ") {
        if let Some(k) = r.strip_suffix(" in object formatting") {
            let inner = between(k, "\"", "\"").unwrap_or(k);
            return format!("objMissingField:{}", hex_enc(unescape_debug(inner).as_bytes()));
        }
    }
    format!("otherMessage:{}", hex_enc(msg.as_bytes()))
}

fn canon(out: &str) -> String {
    let w: Vec<&str> = out.split(' ').collect();
    match w.as_slice() {
        ["ok", h] => format!("ok {}", h),
        ["err", "eval", "Other", h] => {
            let msg = hex_dec(h).and_then(|b| String::from_utf8(b).ok()).unwrap_or_default();
            format!("err {}", canon_other(&msg))
        }
        ["err", "eval", "InvalidStdFuncArgType", h] => {
            let d = hex_dec(h).and_then(|b| String::from_utf8(b).ok()).unwrap_or_default();
            let p: Vec<&str> = d.split('/').collect();
            if p.len() == 3 && p[0] == "format" && p[1] == "0" {
                format!("err fmtNotString:{}", type_name(p[2]))
            } else {
                format!("err other:{}", d)
            }
        }
        ["err", stage, kind, ..] => format!("err other:{}:{}", stage, kind),
        _ => format!("err weird:{}", hex_enc(out.as_bytes())),
    }
}

fn opts() -> EvalOpts {
    EvalOpts::parse(&["mode=str"]).unwrap()
}

fn render(args: &[&str]) -> Option<String> {
    let via = args.first()?.strip_prefix("via=")?;
    let f = val_src(args.get(1)?.strip_prefix("f=")?)?;
    let shape = *args.get(2)?;
    let mut vals: Vec<String> = Vec::new();
    for a in &args[3..] {
        if a.starts_with("H:") {
            continue;
        }
        if let Some(v) = a.strip_prefix("v:") {
            vals.push(val_src(v)?);
        } else if let Some(kv) = a.strip_prefix("k:") {
            let (k, v) = kv.split_once('=')?;
            let k = String::from_utf8(hex_dec(k)?).ok()?;
            vals.push(format!("{}: {}", jsonnet_str(&k), val_src(v)?));
        } else {
            return None;
        }
    }
    let vsrc = match shape {
        "arr" => format!("[{}]", vals.join(", ")),
        "obj" => format!("{{{}}}", vals.join(", ")),
        "one" => {
            if vals.len() != 1 {
                return None;
            }
            vals[0].clone()
        }
        _ => return None,
    };
    let src = match via {
        "fmt" => format!("std.format({}, {})", f, vsrc),
        "pct" => format!("{} % {}", f, vsrc),
        _ => return None,
    };
    Some(canon(&eval_source(src.as_bytes(), &opts())))
}

fn host(args: &[&str]) -> Option<String> {
    let b = *args.first()?;
    if b.len() != 16 {
        return None;
    }
    let bits = u64::from_str_radix(b, 16).ok()?;
    let v = f64::from_bits(bits).abs();
    if !v.is_finite() {
        return None;
    }
    let ab = format!("{:016x}", v.to_bits());
    let mut out: Vec<String> = Vec::new();
    for q in &args[1..] {
        if let Some(p) = q.strip_prefix("F:") {
            let p: usize = p.parse().ok()?;
            out.push(format!("H:F:{}:{}={}", ab, p, hex_enc(format!("{v:.p$}").as_bytes())));
        } else if let Some(p) = q.strip_prefix("E:") {
            let p: usize = p.parse().ok()?;
            out.push(format!("H:E:{}:{}={}", ab, p, hex_enc(format!("{v:.p$e}").as_bytes())));
        } else if *q == "D" {
            out.push(format!("H:D:{}={}", ab, hex_enc(v.trunc().to_string().as_bytes())));
        } else if *q == "S" {
            // the number printer behind `%s` (keyed by the full bit pattern)
            let src = format!("std.toString({})", num_src(bits)?);
            let r = eval_source(src.as_bytes(), &opts());
            let w: Vec<&str> = r.split(' ').collect();
            match w.as_slice() {
                ["ok", h] => out.push(format!("H:S:{}={}", b.to_lowercase(), h)),
                _ => return None,
            }
        } else if *q == "L" {
            if v == 0.0 {
                out.push(format!("H:L:{}=0", ab));
            } else {
                out.push(format!("H:L:{}={}", ab, v.log10().floor() as i64));
            }
        } else {
            return None;
        }
    }
    if out.is_empty() {
        return Some("-".into());
    }
    Some(out.join(" "))
}

fn tostr(args: &[&str]) -> Option<String> {
    let src = String::from_utf8(hex_dec(args.first()?)?).ok()?;
    let t = eval_source(format!("std.type({})", src).as_bytes(), &opts());
    let s = eval_source(format!("std.toString({})", src).as_bytes(), &opts());
    let tw: Vec<&str> = t.split(' ').collect();
    let sw: Vec<&str> = s.split(' ').collect();
    match (tw.as_slice(), sw.as_slice()) {
        (["ok", th], ["ok", sh]) => Some(format!("{} {}", String::from_utf8(hex_dec(th)?).ok()?, sh)),
        _ => Some(format!("err {}", hex_enc(s.as_bytes()))),
    }
}

/// `fmt <sub> <args...>`
pub fn handle(args: &[&str]) -> Option<String> {
    match *args.first()? {
        "render" => render(&args[1..]),
        "host" => host(&args[1..]),
        "tostr" => tostr(&args[1..]),
        _ => None,
    }
}
