import RsjModel.Util
import RsjModel.Span
