/-
  Model module `Thunk` (driver op `thunk`): the abstract call-by-need machine
  of properties C04 and C11.

  It is the small abstraction of the thunk protocol of
  `rsjsonnet-lang/src/program/data.rs` (`ThunkData`, `ThunkState`,
  `switch_state`, `set_done`, `restore_pending`) and of
  `rsjsonnet-lang/src/program/eval/mod.rs` (`State::DoThunk`, `State::GotThunk`,
  `want_thunk_direct`, the error path at the top of `Evaluator::eval`):

  * a store is a list of thunk states `pending | inProgress | done v`
    (`ThunkState::{Pending, InProgress, Done}`); the pending computation of a
    thunk is fixed (`PendingThunk` is immutable: `switch_state` moves it into
    the `GotThunk` frame and `restore_pending` puts the very same value back),
    so it lives outside the mutable store, in `Code`;
  * `force` on `done v` pushes `v` and touches nothing (`switch_state` on
    `Done`, and the fast path of `want_thunk_direct`); on a thunk that is not
    done one more stack-trace item is pushed first (`want_thunk_direct` →
    `push_trace_item`), and the `stack_trace_len > max_stack` test at the bottom
    of the `run` loop fires before the `DoThunk` state is popped: StackOverflow
    has priority over InfiniteRecursion; `InProgress` → InfiniteRecursion;
    `Pending` → `InProgress` + `GotThunk` frame, the computation runs, and
    `GotThunk` performs `set_done` on success; on an error nothing is undone
    inside `run`;
  * a *request* (`Evaluator::eval`) that fails restores every `GotThunk` frame
    still on the state stack, i.e. every thunk still `InProgress`, to `Pending`
    (`restore_pending`), thunks that completed stay `Done`.

  Termination.  The only recursion of the machine is nested forcing, and every
  nested force of a not-yet-done thunk consumes one unit of the depth budget
  (`limit - depth`, called headroom `h`).  The headroom is therefore at the
  same time the *fuel* of the model: "out of fuel" and "StackOverflow" are the
  same outcome, the machine is total by structural recursion on `h`, and fuel
  monotonicity is `more headroom never changes an outcome other than
  StackOverflow` (`RsjProofs/Thunk.lean: force_mono_le`).

  Garbage collection is a no-op request on this abstraction: a collection
  (`Program::gc`, `maybe_gc`) only frees objects unreachable from the roots,
  every thunk a later request can name is reachable from a root (`Thunk`
  handles and the source cache are roots), and a thunk's state is never changed
  by tracing — see the `Gc` model (C10) for that half.

  Import-free apart from RsjModel.* modules.
-/
import RsjModel.Util
namespace Rsj.Thunk

abbrev Val := Nat

inductive Err where
  | infiniteRecursion
  | stackOverflow
  /-- a runtime error raised by the computation itself (`error "..."`, type errors, ...) -/
  | user (code : Nat)
  /-- forcing an index outside the store; unreachable in the implementation
      (a `Gc<ThunkData>` always points to a live thunk), kept as an outcome -/
  | badThunk
deriving DecidableEq, Repr

inductive TState where
  | pending
  | inProgress
  | done (v : Val)
deriving DecidableEq, Repr

/-- The computation of a thunk: it can emit `std.trace` messages, force other
    thunks and continue depending on their values, fail, or return. -/
inductive Prog where
  | ret (v : Val)
  | fail (e : Nat)
  | force (t : Nat) (k : Val → Prog)
  | trace (m : Nat) (k : Prog)

/-- The fixed assignment of pending computations to thunk indices. -/
abbrev Code := Nat → Prog

structure St where
  states : List TState
  /-- how many times the computation of each thunk was started -/
  runs : List Nat
  /-- emitted `std.trace` messages, oldest first -/
  traces : List Nat
deriving DecidableEq, Repr

abbrev Outcome := Except Err Val
abbrev Res := Outcome × St

def St.setState (s : St) (t : Nat) (x : TState) : St := { s with states := s.states.set t x }
def St.bump (s : St) (t : Nat) : St := { s with runs := s.runs.modify t (· + 1) }
def St.emit (s : St) (m : Nat) : St := { s with traces := s.traces ++ [m] }

/-- Run a computation; `forceF` is the machine for nested forcing. -/
def runProg (forceF : Nat → St → Res) : Prog → St → Res
  | .ret v, s => (.ok v, s)
  | .fail e, s => (.error (.user e), s)
  | .trace m k, s => runProg forceF k (s.emit m)
  | .force t k, s =>
    match forceF t s with
    | (.ok v, s1) => runProg forceF (k v) s1
    | (.error e, s1) => (.error e, s1)

/-- `switch_state` on a pending thunk: it is now in progress, and its
    computation is started once more. -/
def mark (s : St) (t : Nat) : St := (s.setState t .inProgress).bump t

/-- `State::GotThunk`: `set_done` when the computation succeeded; an error
    leaves the thunk in progress. -/
def finish (t : Nat) : Res → Res
  | (.ok v, s2) => (.ok v, s2.setState t (.done v))
  | (.error e, s2) => (.error e, s2)

/-- `State::DoThunk` … `State::GotThunk` with `h` levels of nesting left. -/
def force (code : Code) : Nat → Nat → St → Res
  | 0, t, s =>
    match s.states[t]? with
    | none => (.error .badThunk, s)
    | some (.done v) => (.ok v, s)
    | some _ => (.error .stackOverflow, s)
  | h + 1, t, s =>
    match s.states[t]? with
    | none => (.error .badThunk, s)
    | some (.done v) => (.ok v, s)
    | some .inProgress => (.error .infiniteRecursion, s)
    | some .pending =>
      finish t (runProg (force code h) (code t) (mark s t))

/-- The error path of `Evaluator::eval`: every thunk still in progress goes
    back to pending. -/
def unmark : TState → TState
  | .inProgress => .pending
  | x => x

def restore (s : St) : St := { s with states := s.states.map unmark }

/-- The end of `Evaluator::eval`: on failure the `GotThunk` frames are drained. -/
def settle : Res → Res
  | (.ok v, s') => (.ok v, s')
  | (.error e, s') => (.error e, restore s')

/-- `Evaluator::eval` on one root thunk with depth limit `limit`. -/
def evalReq (code : Code) (limit : Nat) (t : Nat) (s : St) : Res :=
  settle (force code limit t s)

inductive Req where
  | eval (t : Nat)
  /-- explicit collection between requests: no effect on thunk states (see header) -/
  | gc
deriving DecidableEq, Repr

/-- One request; `gc` has no outcome. -/
def runReq (code : Code) (limit : Nat) : Req → St → Option Outcome × St
  | .eval t, s => let r := evalReq code limit t s; (some r.1, r.2)
  | .gc, s => (none, s)

/-- A history of requests on one long-lived store. -/
def runHistory (code : Code) (limit : Nat) : List Req → St → List (Option Outcome) × St
  | [], s => ([], s)
  | q :: qs, s =>
    let r := runReq code limit q s
    let rest := runHistory code limit qs r.2
    (r.1 :: rest.1, rest.2)

/-- The pristine store with `n` thunks. -/
def init (n : Nat) : St :=
  { states := List.replicate n .pending, runs := List.replicate n 0, traces := [] }

/-- The outcome of a request on the pristine store. -/
def denot (code : Code) (limit : Nat) (n : Nat) : Req → Option Outcome
  | q => (runReq code limit q (init n)).1

/-! ### Driver: a first-order syntax for computations -/

inductive Expr where
  | const (n : Nat)
  | var (i : Nat)
  | add (a b : Expr)

inductive Syn where
  | ret (e : Expr)
  | fail (e : Nat)
  | force (t : Nat) (k : Syn)
  | trace (m : Nat) (k : Syn)
  | ifz (c : Expr) (a b : Syn)

def Expr.eval (env : List Val) : Expr → Val
  | .const n => n
  | .var i => env.getD i 0   -- the parser rejects out-of-scope variables
  | .add a b => a.eval env + b.eval env

def Syn.compile : Syn → List Val → Prog
  | .ret e, env => .ret (e.eval env)
  | .fail e, _ => .fail e
  | .force t k, env => .force t (fun v => k.compile (env ++ [v]))
  | .trace m k, env => .trace m (k.compile env)
  | .ifz c a b, env => if c.eval env = 0 then a.compile env else b.compile env

def tagNat (tag : Char) (tok : String) : Option Nat :=
  match tok.toList with
  | c :: rest => if c = tag ∧ !rest.isEmpty then (String.ofList rest).toNat? else none
  | [] => none

/-- `c<n>` | `v<i>` (with `i < depth`) | `a` e e -/
def parseExpr : Nat → Nat → List String → Option (Expr × List String)
  | 0, _, _ => none
  | _ + 1, _, [] => none
  | fuel + 1, depth, tok :: rest =>
    if tok = "a" then
      match parseExpr fuel depth rest with
      | some (a, rest1) =>
        match parseExpr fuel depth rest1 with
        | some (b, rest2) => some (.add a b, rest2)
        | none => none
      | none => none
    else match tagNat 'c' tok with
      | some n => some (.const n, rest)
      | none =>
        match tagNat 'v' tok with
        | some i => if i < depth then some (.var i, rest) else none
        | none => none

/-- `r` e | `x<n>` | `f<t>` p | `t<m>` p | `z` e p p -/
def parseSyn : Nat → Nat → List String → Option (Syn × List String)
  | 0, _, _ => none
  | _ + 1, _, [] => none
  | fuel + 1, depth, tok :: rest =>
    if tok = "r" then
      match parseExpr (fuel + 1) depth rest with
      | some (e, rest1) => some (.ret e, rest1)
      | none => none
    else if tok = "z" then
      match parseExpr (fuel + 1) depth rest with
      | some (c, rest1) =>
        match parseSyn fuel depth rest1 with
        | some (a, rest2) =>
          match parseSyn fuel depth rest2 with
          | some (b, rest3) => some (.ifz c a b, rest3)
          | none => none
        | none => none
      | none => none
    else match tagNat 'x' tok with
      | some e => some (.fail e, rest)
      | none =>
        match tagNat 'f' tok with
        | some t =>
          match parseSyn fuel (depth + 1) rest with
          | some (k, rest1) => some (.force t k, rest1)
          | none => none
        | none =>
          match tagNat 't' tok with
          | some m =>
            match parseSyn fuel depth rest with
            | some (k, rest1) => some (.trace m k, rest1)
            | none => none
          | none => none

def parseThunk (s : String) : Option Prog :=
  let toks := s.splitOn ","
  match parseSyn (toks.length + 1) 0 toks with
  | some (p, []) => some (p.compile [])
  | _ => none

def parseReq (s : String) : Option Req :=
  if s = "g" then some .gc else (tagNat 'e' s).map Req.eval

def showErr : Err → String
  | .infiniteRecursion => "InfiniteRecursion"
  | .stackOverflow => "StackOverflow"
  | .user c => s!"User:{c}"
  | .badThunk => "BadThunk"

def showOutcome : Option Outcome → String
  | none => "gc"
  | some (.ok v) => s!"ok:{v}"
  | some (.error e) => "err:" ++ showErr e

def showState : TState → String
  | .pending => "p"
  | .inProgress => "i"
  | .done v => s!"d{v}"

def codeOfList (ps : List Prog) : Code := fun t => ps.getD t (.fail 0)

/-- `thunk <limit> <thunk>/<thunk>/... <req> <req> ...`
    thunk = comma-separated prefix tokens (see `parseSyn`), all thunks start
    pending; req = `e<t>` | `g`.
    Answer: `<outcome>;...;<outcome> R<runs> T<traces> S<states>`. -/
def handle (args : List String) : Option String := do
  match args with
  | lim :: store :: reqs =>
    let limit ← lim.toNat?
    let ps ← (store.splitOn "/").mapM parseThunk
    let qs ← reqs.mapM parseReq
    let (outs, s) := runHistory (codeOfList ps) limit qs (init ps.length)
    pure (";".intercalate (outs.map showOutcome) ++ " R" ++ showNatList s.runs
      ++ " T" ++ showNatList s.traces ++ " S" ++ ",".intercalate (s.states.map showState))
  | _ => none

end Rsj.Thunk
