/-
  Model module `Thunk` (driver op `thunk`). Import-free apart from RsjModel.* modules.
-/
import RsjModel.Util
namespace Rsj.Thunk

/-- `thunk <args...>` : one canonical answer line, or `none` for a malformed request. -/
def handle (_args : List String) : Option String := none

end Rsj.Thunk
