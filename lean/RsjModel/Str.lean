/-
  Model module `Str` (driver op `str`). Import-free apart from RsjModel.* modules.
-/
import RsjModel.Util
namespace Rsj.Str

/-- `str <args...>` : one canonical answer line, or `none` for a malformed request. -/
def handle (_args : List String) : Option String := none

end Rsj.Str
