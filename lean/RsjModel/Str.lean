/-
  Model module `Str` (driver op `str`): the string functions of rsjsonnet
  (`rsjsonnet-lang/src/program/eval/stdlib.rs`, `eval/mod.rs` State::Index,
  `eval/expr.rs` get_slice_range / do_slice_string, `eval/format.rs` field padding).

  A Rust `str` is the list of its Unicode scalar values (`Str = List Nat`);
  `utf8Len` gives the number of bytes of each scalar, so byte offsets (as returned
  by `str::find`, consumed by `split_at` and `&s[n..]`) are sums of `utf8Len`.
  Rust std primitives are modelled from their documented contracts; the glue
  code of the repo is modelled literally, with every panic site explicit.

  Numeric arguments are finite f64 values (Jsonnet numbers are never NaN/inf).
  They are abstracted to `Num` = (sign bit, ⌊|x|⌋, "has a fractional part"):
  every test / cast the modelled code applies (`is_finite`, `trunc() != x`,
  `x < 0.0`, `x as usize`, `-x as usize`, `try_to_usize[_exact]`, `try_to_u32`)
  is a function of this abstraction.
-/
import RsjModel.Util
namespace Rsj.Str

/-- A Rust `str`: its sequence of Unicode scalar values (`chars()`). -/
abbrev Str := List Nat

/-- `char::len_utf8` -/
def utf8Len (c : Nat) : Nat :=
  if c < 0x80 then 1 else if c < 0x800 then 2 else if c < 0x10000 then 3 else 4

/-- `str::len` (bytes) -/
def byteLen : Str → Nat
  | [] => 0
  | c :: cs => utf8Len c + byteLen cs

/-- `char::from_u32(..).is_some()` -/
def isScalar (n : Nat) : Bool := n < 0xD800 || (0xE000 ≤ n && n < 0x110000)

def USIZE_MAX : Nat := 2 ^ 64 - 1
def U32_MAX : Nat := 2 ^ 32 - 1

/-! ### Outcomes -/

inductive Err where
  /-- a Rust panic (site named); must be unreachable -/
  | panic (site : String)
  /-- loop fuel exhausted (model artefact; proved unreachable) -/
  | fuel
  | substrFrom | substrLen
  | sliceStart | sliceEnd | sliceStep
  | indexNotValid
  | indexOutOfRange (index length : Nat)
  | notSingleChar
  | badCodepoint
  | emptyDelim
  | maxsplitsNotInt | maxsplitsNeg
deriving Repr, DecidableEq

/-! ### f64 arguments -/

structure Num where
  /-- sign bit (so `-0.0` is `⟨true, 0, false⟩`) -/
  neg : Bool
  /-- `⌊|x|⌋` -/
  int : Nat
  /-- `|x|` has a non-zero fractional part -/
  frac : Bool
deriving Repr, DecidableEq

namespace Num

def ofNat (n : Nat) : Num := ⟨false, n, false⟩
def ofInt (i : Int) : Num := ⟨decide (i < 0), i.natAbs, false⟩

/-- `x.trunc() != x` -/
def notInt (x : Num) : Bool := x.frac
/-- `x < 0.0` -/
def ltZero (x : Num) : Bool := x.neg && (decide (0 < x.int) || x.frac)
/-- `x < 1.0` -/
def ltOne (x : Num) : Bool := x.neg || x.int == 0
/-- `x as usize` (truncating, saturating; negative → 0) -/
def asUsize (x : Num) : Nat := if x.neg then 0 else min x.int USIZE_MAX
/-- `-x as usize` -/
def negAsUsize (x : Num) : Nat := if x.neg then min x.int USIZE_MAX else 0
/-- `x.trunc()` -/
def trunc (x : Num) : Num := { x with frac := false }

/-- `float::try_to_usize_exact`: `let i = x as usize; (i as f64 == x).then_some(i)`.
    `usize::MAX as f64` rounds to 2^64, so `x = 2^64` yields `Some(usize::MAX)`. -/
def tryToUsizeExact (x : Num) : Option Nat :=
  if x.frac then none
  else if x.neg && decide (0 < x.int) then none
  else if x.int ≤ USIZE_MAX then some x.int
  else if x.int = USIZE_MAX + 1 then some USIZE_MAX
  else none

/-- `float::try_to_usize` (truncates first) -/
def tryToUsize (x : Num) : Option Nat := tryToUsizeExact x.trunc

/-- `float::try_to_u32` (truncates first; `u32 as f64` is exact) -/
def tryToU32 (x : Num) : Option Nat :=
  if x.neg && decide (0 < x.int) then none
  else if x.int ≤ U32_MAX then some x.int
  else none

end Num

/-! ### Rust `str` / iterator primitives (documented contracts) -/

/-- `str::find(&str)`: byte offset of the leftmost match. -/
def find (pat : Str) : Str → Option Nat
  | [] => if pat.isPrefixOf [] then some 0 else none
  | c :: cs =>
    if pat.isPrefixOf (c :: cs) then some 0
    else (find pat cs).map (· + utf8Len c)

/-- `str::split_at(mid)`: `none` = panic (mid past the end or inside a character). -/
def splitAt : Str → Nat → Option (Str × Str)
  | s, 0 => some ([], s)
  | [], _ + 1 => none
  | c :: cs, m + 1 =>
    if utf8Len c ≤ m + 1 then
      (splitAt cs (m + 1 - utf8Len c)).map (fun p => (c :: p.1, p.2))
    else none

/-- `&s[n..]`: `none` = panic. -/
def sliceFrom (s : Str) (n : Nat) : Option Str := (splitAt s n).map (·.2)

/-- `Iterator::step_by(k)` (`k ≥ 1`): first element, then every `k`-th. -/
def stepByAux (k : Nat) : Nat → Str → Str
  | _, [] => []
  | 0, c :: cs => c :: stepByAux k (k - 1) cs
  | n + 1, _ :: cs => stepByAux k n cs

def stepBy (k : Nat) (s : Str) : Str := stepByAux k 0 s

/-- `str::split_once(&str)`: split at the leftmost occurrence. -/
def splitOnce (sep : Str) : Str → Option (Str × Str)
  | [] => if sep.isPrefixOf [] then some ([], []) else none
  | c :: cs =>
    if sep.isPrefixOf (c :: cs) then some ([], (c :: cs).drop sep.length)
    else (splitOnce sep cs).map (fun p => (c :: p.1, p.2))

/-- `str::rsplit_once(&str)`: split at the rightmost occurrence. -/
def rsplitOnce (sep : Str) : Str → Option (Str × Str)
  | [] => if sep.isPrefixOf [] then some ([], []) else none
  | c :: cs =>
    match rsplitOnce sep cs with
    | some p => some (c :: p.1, p.2)
    | none =>
      if sep.isPrefixOf (c :: cs) then some ([], (c :: cs).drop sep.length) else none

/-- `str::splitn(n, &str)`: at most `n` items, the last one is the unsplit remainder. -/
def splitN (sep : Str) : Nat → Str → List Str
  | 0, _ => []
  | 1, s => [s]
  | n + 2, s =>
    match splitOnce sep s with
    | none => [s]
    | some (a, b) => a :: splitN sep (n + 1) b

/-- `str::rsplitn(n, &str)`: the same from the end (items come out last-first). -/
def rsplitN (sep : Str) : Nat → Str → List Str
  | 0, _ => []
  | 1, s => [s]
  | n + 2, s =>
    match rsplitOnce sep s with
    | none => [s]
    | some (a, b) => b :: rsplitN sep (n + 1) a

/-- `str::split(&str)` for a non-empty separator: `splitn` with a limit that cannot be
    reached (a string of `k` characters has at most `k + 1` pieces;
    `RsjProofs.Str.splitN_stable`). -/
def split (sep s : Str) : List Str := splitN sep (s.length + 2) s

/-- `str::replacen(from, to, count)` for a non-empty `from`. -/
def replaceN (frm to : Str) : Nat → Str → Str
  | 0, s => s
  | n + 1, s =>
    match splitOnce frm s with
    | none => s
    | some (a, b) => a ++ to ++ replaceN frm to n b

/-- `str::replace(from, to)`. An empty `from` matches at every character boundary
    (including both ends); otherwise all non-overlapping leftmost matches. -/
def replace (s frm to : Str) : Str :=
  match frm with
  | [] => to ++ s.flatMap (fun c => c :: to)
  | _ :: _ => replaceN frm to (s.length + 1) s

/-- `str::strip_prefix(&[char])`: removes exactly one leading character of the set. -/
def stripPrefixSet (cs : Str) : Str → Option Str
  | [] => none
  | c :: rest => if cs.contains c then some rest else none

/-- `str::strip_suffix(&[char])`: removes exactly one trailing character of the set. -/
def stripSuffixSet (cs : Str) (s : Str) : Option Str :=
  match s.getLast? with
  | some c => if cs.contains c then some s.dropLast else none
  | none => none

/-- `str::trim_matches(pred)` -/
def trimMatches (p : Nat → Bool) (s : Str) : Str :=
  ((s.dropWhile p).reverse.dropWhile p).reverse

/-! ### The repo's functions -/

/-- `do_std_length` on a string: `s.chars().count()` -/
def length (s : Str) : Nat := s.length

/-- `State::Index` on a string -/
def index (s : Str) (i : Num) : Except Err Str :=
  match i.tryToUsizeExact with
  | none => .error .indexNotValid
  | some iu =>
    match s[iu]? with          -- `s.chars().nth(index_usize)`
    | some c => .ok [c]
    | none => .error (.indexOutOfRange iu s.length)

/-- `get_slice_range` -/
def getSliceRange (len : Nat) (start stop step : Option Num) : Except Err (Nat × Nat × Nat) :=
  let start' : Except Err Nat :=
    match start with
    | some st =>
      if st.notInt then .error .sliceStart
      else if st.ltZero then .ok (len - st.negAsUsize)     -- saturating_sub
      else .ok st.asUsize
    | none => .ok 0
  match start' with
  | .error e => .error e
  | .ok a =>
    let stop' : Except Err Nat :=
      match stop with
      | some en =>
        if en.notInt then .error .sliceEnd
        else
          let e := if en.ltZero then len - en.negAsUsize else en.asUsize
          .ok (max e a)
      | none => .ok USIZE_MAX
    match stop' with
    | .error e => .error e
    | .ok b =>
      match step with
      | some sp =>
        if sp.notInt || sp.ltOne then .error .sliceStep
        else .ok (a, b, sp.asUsize)
      | none => .ok (a, b, 1)

/-- `do_slice_string`; `end - start` is a checked `usize` subtraction, `step_by(0)` panics. -/
def sliceString (s : Str) (start stop step : Option Num) : Except Err Str :=
  match getSliceRange s.length start stop step with
  | .error e => .error e
  | .ok (a, b, k) =>
    if b < a then .error (.panic "end - start")
    else if k = 0 then .error (.panic "step_by(0)")
    else .ok (stepBy k ((s.drop a).take (b - a)))

/-- `do_std_substr` -/
def substr (s : Str) (frm len : Num) : Except Err Str :=
  if frm.notInt || frm.ltZero then .error .substrFrom
  else if len.notInt || len.ltZero then .error .substrLen
  else .ok ((s.drop frm.asUsize).take len.asUsize)

/-- The `from_fn` closure of `do_std_find_substr`, iterated until `find` fails.
    `fpl` = `first_pat_chr_len`, `chrIndex` = `chr_index`, `rem` = `rem_str`. -/
def findSubstrLoop (pat : Str) (fpl : Nat) : Nat → Str → Nat → Except Err (List Nat)
  | 0, _, _ => .error .fuel
  | f + 1, rem, chrIndex =>
    match find pat rem with
    | none => .ok []
    | some i =>
      match splitAt rem i with
      | none => .error (.panic "split_at")
      | some (before, after) =>
        let matchPos := chrIndex + before.length
        match sliceFrom after fpl with
        | none => .error (.panic "after[first_pat_chr_len..]")
        | some rem' =>
          match findSubstrLoop pat fpl f rem' (matchPos + 1) with
          | .error e => .error e
          | .ok l => .ok (matchPos :: l)

/-- `do_std_find_substr` -/
def findSubstr (pat s : Str) : Except Err (List Nat) :=
  match pat with
  | [] => .ok []          -- "An empty pattern does not produce any matches."
  | c :: _ => findSubstrLoop pat (utf8Len c) (s.length + 1) s 0

/-- `do_std_starts_with` / `do_std_ends_with` -/
def startsWith (a b : Str) : Bool := b.isPrefixOf a
def endsWith (a b : Str) : Bool := b.reverse.isPrefixOf a.reverse

/-- `while let Some(stripped) = res.strip_prefix(chars) { res = stripped }` -/
def lstripLoop (cs : Str) : Nat → Str → Except Err Str
  | 0, _ => .error .fuel
  | f + 1, res =>
    match stripPrefixSet cs res with
    | some r => lstripLoop cs f r
    | none => .ok res

def rstripLoop (cs : Str) : Nat → Str → Except Err Str
  | 0, _ => .error .fuel
  | f + 1, res =>
    match stripSuffixSet cs res with
    | some r => rstripLoop cs f r
    | none => .ok res

/-- `do_std_lstrip_chars` -/
def lstripChars (s cs : Str) : Except Err Str := lstripLoop cs (s.length + 1) s
/-- `do_std_rstrip_chars` -/
def rstripChars (s cs : Str) : Except Err Str := rstripLoop cs (s.length + 1) s
/-- `do_std_strip_chars`: prefix loop, then suffix loop -/
def stripChars (s cs : Str) : Except Err Str :=
  match lstripLoop cs (s.length + 1) s with
  | .error e => .error e
  | .ok r => rstripLoop cs (r.length + 1) r

/-- `do_std_split` -/
def stdSplit (s sep : Str) : Except Err (List Str) :=
  if sep.isEmpty then .error .emptyDelim else .ok (split sep s)

/-- The `maxsplits` decoding shared by `splitLimit` / `splitLimitR`:
    `none` = unlimited (`-1`, or `maxsplits + 1` not representable). -/
def decodeMaxsplits (n : Num) : Except Err (Option Nat) :=
  if n.notInt then .error .maxsplitsNotInt
  else if n.ltZero then
    if n.int = 1 then .ok none else .error .maxsplitsNeg   -- `maxsplits != -1.0`
  else
    match n.tryToUsize with
    | none => .ok none
    | some v => if v + 1 ≤ USIZE_MAX then .ok (some (v + 1)) else .ok none  -- checked_add(1)

/-- `do_std_split_limit` -/
def splitLimit (s sep : Str) (n : Num) : Except Err (List Str) :=
  if sep.isEmpty then .error .emptyDelim
  else
    match decodeMaxsplits n with
    | .error e => .error e
    | .ok (some m) => .ok (splitN sep m s)
    | .ok none => .ok (split sep s)

/-- The `maxsplits` decoding of `splitLimitR`: a count that does not fit `usize`
    saturates (`unwrap_or(usize::MAX)`), only `-1` selects the forward split. -/
def decodeMaxsplitsR (n : Num) : Except Err (Option Nat) :=
  if n.notInt then .error .maxsplitsNotInt
  else if n.ltZero then
    if n.int = 1 then .ok none else .error .maxsplitsNeg
  else
    match n.tryToUsize with
    | none => .ok (some USIZE_MAX)
    | some v => if v + 1 ≤ USIZE_MAX then .ok (some (v + 1)) else .ok (some USIZE_MAX)

/-- `do_std_split_limit_r` -/
def splitLimitR (s sep : Str) (n : Num) : Except Err (List Str) :=
  if sep.isEmpty then .error .emptyDelim
  else
    match decodeMaxsplitsR n with
    | .error e => .error e
    | .ok (some m) => .ok (rsplitN sep m s).reverse
    | .ok none => .ok (split sep s)

/-- `do_std_str_replace` -/
def strReplace (s frm to : Str) : Str := replace s frm to

def isTrimChar (c : Nat) : Bool :=
  c == 9 || c == 10 || c == 0x0C || c == 13 || c == 32 || c == 0x85 || c == 0xA0

/-- `do_std_trim` -/
def trim (s : Str) : Str := trimMatches isTrimChar s

/-- `do_std_ascii_upper` / `do_std_ascii_lower` -/
def asciiUpper (s : Str) : Str := s.map (fun c => if 97 ≤ c ∧ c ≤ 122 then c - 32 else c)
def asciiLower (s : Str) : Str := s.map (fun c => if 65 ≤ c ∧ c ≤ 90 then c + 32 else c)

/-- `do_std_string_chars` -/
def stringChars (s : Str) : List Str := s.map (fun c => [c])

/-- `do_std_reverse` on a string: array of one-character strings, reversed -/
def reverse (s : Str) : List Str := s.reverse.map (fun c => [c])

/-- `do_std_codepoint` -/
def codepoint (s : Str) : Except Err Nat :=
  match s with
  | [c] => .ok c
  | _ => .error .notSingleChar

/-- `do_std_char` -/
def char (n : Num) : Except Err Str :=
  match n.trunc.tryToU32 with
  | some v => if isScalar v then .ok [v] else .error .badCodepoint
  | none => .error .badCodepoint

/-- `do_std_join` with a string separator over an array of strings
    (`do_std_join_str_item` with its `first` flag, `do_std_join_str_finish`). -/
def joinLoop (sep : Str) : List Str → Bool → Str → Str
  | [], _, acc => acc
  | x :: xs, first, acc => joinLoop sep xs false (if first then acc ++ x else acc ++ sep ++ x)

def join (sep : Str) (xs : List Str) : Str := joinLoop sep xs true []

/-- `do_std_map` over a string: the function applied to each one-character string -/
def mapStr {α : Type} (f : Str → α) (s : Str) : List α := s.map (fun c => f [c])

/-- `do_std_flat_map` over a string (function results concatenated in order) -/
def flatMapStr (f : Str → Str) (s : Str) : Str := (s.map (fun c => f [c])).flatten

/-- Field padding of `std.format` (`do_std_format_codes_array_3`): `fw` = field width. -/
def pad (s : Str) (fw : Nat) (left : Bool) : Str :=
  let sLen := s.length                         -- `s.chars().count()`
  if sLen < fw then
    let padLen := fw - sLen
    if left then s ++ List.replicate padLen 32 else List.replicate padLen 32 ++ s
  else s

/-! ### Driver -/

def utf8Decode : List Nat → Option Str
  | [] => some []
  | b0 :: rest =>
    if b0 < 0x80 then (utf8Decode rest).map (b0 :: ·)
    else if b0 < 0xC0 then none
    else if b0 < 0xE0 then
      match rest with
      | b1 :: r => (utf8Decode r).map (((b0 - 0xC0) * 64 + (b1 - 0x80)) :: ·)
      | _ => none
    else if b0 < 0xF0 then
      match rest with
      | b1 :: b2 :: r =>
        (utf8Decode r).map (((b0 - 0xE0) * 4096 + (b1 - 0x80) * 64 + (b2 - 0x80)) :: ·)
      | _ => none
    else
      match rest with
      | b1 :: b2 :: b3 :: r =>
        (utf8Decode r).map
          (((b0 - 0xF0) * 262144 + (b1 - 0x80) * 4096 + (b2 - 0x80) * 64 + (b3 - 0x80)) :: ·)
      | _ => none

def decStr (h : String) : Option Str := (hexDecode h).bind utf8Decode
def encStr (s : Str) : String := hexEnc (s.flatMap utf8EncodeChar)

/-- Is the natural number exactly representable as an f64? (driver-side guard) -/
def isF64Nat (n : Nat) : Bool :=
  n < 2 ^ 53 || (n < 2 ^ 1024 && n % 2 ^ (n.log2 - 52) == 0)

/-- `[-]digits[.digits]` -/
def parseNum (s : String) : Option Num :=
  let (neg, body) := match s.toList with
    | '-' :: r => (true, String.ofList r)
    | _ => (false, s)
  match body.splitOn "." with
  | [i] => do
    let n ← i.toNat?
    if isF64Nat n then some ⟨neg, n, false⟩ else none
  | [i, f] => do
    let n ← i.toNat?
    let _ ← f.toNat?
    if n < 2 ^ 40 then some ⟨neg, n, f.toList.any (· != '0')⟩ else none
  | _ => none

def parseOptNum (s : String) : Option (Option Num) :=
  if s == "-" then some none else (parseNum s).map some

def showErr : Err → String
  | .panic site => "panic " ++ site
  | .fuel => "E fuel"
  | .substrFrom => "E substrFrom" | .substrLen => "E substrLen"
  | .sliceStart => "E sliceStart" | .sliceEnd => "E sliceEnd" | .sliceStep => "E sliceStep"
  | .indexNotValid => "E indexNotValid"
  | .indexOutOfRange i l => s!"E indexOutOfRange {i}/{l}"
  | .notSingleChar => "E notSingleChar"
  | .badCodepoint => "E badCodepoint"
  | .emptyDelim => "E emptyDelim"
  | .maxsplitsNotInt => "E maxsplitsNotInt" | .maxsplitsNeg => "E maxsplitsNeg"

def showS (s : Str) : String := "s " ++ encStr s
def showL (l : List Str) : String :=
  if l.isEmpty then "l []" else "l " ++ ",".intercalate (l.map encStr)
def showA (l : List Nat) : String := "a " ++ showNatList l
def showB (b : Bool) : String := if b then "b true" else "b false"

def showR {α : Type} (f : α → String) : Except Err α → String
  | .ok a => f a
  | .error e => showErr e

def decStrList (s : String) : Option (List Str) :=
  if s == "[]" then some [] else (s.splitOn ",").mapM decStr

/-- `str <sub> <args...>` -/
def handle (args : List String) : Option String :=
  match args with
  | ["length", s] => do pure s!"n {length (← decStr s)}"
  | ["index", s, i] => do pure (showR showS (index (← decStr s) (← parseNum i)))
  | ["slice", s, a, b, c] => do
    pure (showR showS (sliceString (← decStr s) (← parseOptNum a) (← parseOptNum b) (← parseOptNum c)))
  | ["stdslice", s, a, b, c] => do
    pure (showR showS (sliceString (← decStr s) (← parseOptNum a) (← parseOptNum b) (← parseOptNum c)))
  | ["substr", s, f, l] => do
    pure (showR showS (substr (← decStr s) (← parseNum f) (← parseNum l)))
  | ["find", p, s] => do pure (showR showA (findSubstr (← decStr p) (← decStr s)))
  | ["split", s, c] => do pure (showR showL (stdSplit (← decStr s) (← decStr c)))
  | ["splitlimit", s, c, n] => do
    pure (showR showL (splitLimit (← decStr s) (← decStr c) (← parseNum n)))
  | ["splitlimitr", s, c, n] => do
    pure (showR showL (splitLimitR (← decStr s) (← decStr c) (← parseNum n)))
  | ["strip", s, c] => do pure (showR showS (stripChars (← decStr s) (← decStr c)))
  | ["lstrip", s, c] => do pure (showR showS (lstripChars (← decStr s) (← decStr c)))
  | ["rstrip", s, c] => do pure (showR showS (rstripChars (← decStr s) (← decStr c)))
  | ["replace", s, f, t] => do
    pure (showS (strReplace (← decStr s) (← decStr f) (← decStr t)))
  | ["chars", s] => do pure (showL (stringChars (← decStr s)))
  | ["reverse", s] => do pure (showL (reverse (← decStr s)))
  | ["codepoint", s] => do
    pure (showR (fun n => s!"n {n}") (codepoint (← decStr s)))
  | ["char", n] => do pure (showR showS (char (← parseNum n)))
  | ["join", c, xs] => do pure (showS (join (← decStr c) (← decStrList xs)))
  | ["startswith", a, b] => do pure (showB (startsWith (← decStr a) (← decStr b)))
  | ["endswith", a, b] => do pure (showB (endsWith (← decStr a) (← decStr b)))
  | ["upper", s] => do pure (showS (asciiUpper (← decStr s)))
  | ["lower", s] => do pure (showS (asciiLower (← decStr s)))
  | ["trim", s] => do pure (showS (trim (← decStr s)))
  | ["map", s] => do pure (showL (mapStr (fun c => c ++ c) (← decStr s)))
  | ["flatmap", s] => do pure (showS (flatMapStr (fun c => c ++ [124] ++ c) (← decStr s)))
  | ["pad", s, w, l] => do
    pure (showS (pad (← decStr s) (← w.toNat?) (l == "1")))
  | ["padobj", s, w, l] => do   -- object form: the same padding rule (its own copy in format.rs)
    pure (showS (pad (← decStr s) (← w.toNat?) (l == "1")))
  | _ => none

end Rsj.Str
