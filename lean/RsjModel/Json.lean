/-
  Model of JSON manifestation and JSON parsing of rsjsonnet:

  * `rsjsonnet-lang/src/program/eval/manifest.rs`
      `escape_string_json`, `ManifestJsonFormat`, `do_manifest_json`,
      `do_manifest_python`, `do_manifest_yaml_doc`, `is_safe_yaml_plain`,
      `is_safe_toml_plain`, `escape_key_toml`
  * `rsjsonnet-lang/src/program/eval/parse_json.rs` (`parse_json`, `Lexer`)
  * `ObjectData::get_visible_fields_order` (single-layer objects): `visibleSorted`

  Strings are lists of code points (`Nat`); Rust `char`s are Unicode scalar
  values, and nothing in this module needs that restriction.  Numbers are
  their decimal TEXT token (`JVal.num tok`): the implementation prints with
  `Display for f64` and parses with `str::parse::<f64>`; the only thing the JSON
  parser asks of the double is `is_finite()`, modelled exactly by `overflows`
  (correctly rounded parse is infinite iff |value| >= 2^1024 - 2^970).

  Not modelled: the line/column carried by `ParseError` (only the kind is).
  The evaluator's explicit state stack in `do_manifest_json` is modelled by
  the equivalent structural recursion (`manifest`); the explicit stack of
  `parse_json` is modelled literally (`Frame`, `unwind`, `run`), the outer
  `loop` by fuel `input length + 1` (every iteration consumes a character).
-/
import RsjModel.Util
namespace Rsj.Json

/-- A string: list of code points. -/
abbrev Str := List Nat

/-- JSON-representable values.  `num` carries the number's text token,
    `obj` the ordered field list. -/
inductive JVal where
  | null
  | bool (b : Bool)
  | num (tok : Str)
  | str (s : Str)
  | arr (items : List JVal)
  | obj (fields : List (Str × JVal))
deriving Repr, Inhabited

/-! ## `escape_string_json` -/

/-- lower-case hex digit, as `{:x}` prints it -/
def hexLower (n : Nat) : Nat := if n < 10 then 48 + n else 87 + n

/-- `{:04x}` for a value below 0x10000 -/
def hex4 (c : Nat) : Str :=
  [hexLower (c / 4096 % 16), hexLower (c / 256 % 16), hexLower (c / 16 % 16), hexLower (c % 16)]

/-- One iteration of the `match chr` in `escape_string_json` (arms in source order). -/
def escapeChar (c : Nat) : Str :=
  if c = 8 then [92, 98]            -- \b
  else if c = 9 then [92, 116]      -- \t
  else if c = 10 then [92, 110]     -- \n
  else if c = 12 then [92, 102]     -- \f
  else if c = 13 then [92, 114]     -- \r
  else if c = 34 then [92, 34]      -- \"
  else if c = 92 then [92, 92]      -- \\
  else if c ≤ 0x1f ∨ (0x7f ≤ c ∧ c ≤ 0x9f) then 92 :: 117 :: hex4 c   -- \u00xx
  else [c]

def escapeBody : Str → Str
  | [] => []
  | c :: s => escapeChar c ++ escapeBody s

/-- `escape_string_json` (also `escape_string_python`, `escape_string_toml`). -/
def escape (s : Str) : Str := 34 :: (escapeBody s ++ [34])

/-! ## `ManifestJsonFormat` and `do_manifest_json` -/

structure Fmt where
  indent : Str
  newline : Str
  keyValSep : Str
  itemSep : Str
  emptyArray : Option Str
  emptyObject : Option Str
deriving Repr

/-- `ManifestJsonFormat::default_to_string` -/
def Fmt.toStringFmt : Fmt :=
  { indent := [], newline := [], keyValSep := [58, 32], itemSep := [44, 32],
    emptyArray := some [91, 32, 93], emptyObject := some [123, 32, 125] }

/-- `ManifestJsonFormat::default_manifest` -/
def Fmt.defaultManifest : Fmt :=
  { indent := [32, 32, 32], newline := [10], keyValSep := [58, 32], itemSep := [44],
    emptyArray := some [91, 32, 93], emptyObject := some [123, 32, 125] }

/-- `ManifestJsonFormat::for_std_manifest_ex` -/
def Fmt.ex (indent newline keyValSep : Str) : Fmt :=
  { indent := indent, newline := newline, keyValSep := keyValSep, itemSep := [44],
    emptyArray := none, emptyObject := none }

/-- `std.manifestJsonMinified(v) = std.manifestJsonEx(v, "", "", ":")` (std.libsonnet) -/
def Fmt.minified : Fmt := Fmt.ex [] [] [58]

/-- `std.manifestJson(v) = std.manifestJsonEx(v, "    ")` with the defaults
    `newline = "\n"`, `key_val_sep = ": "` (stdlib.rs) -/
def Fmt.stdManifestJson : Fmt := Fmt.ex [32, 32, 32, 32] [10] [58, 32]

/-- `indent.repeat(n)` / `for _ in 0..n { push_str(indent) }` -/
def rep : Nat → Str → Str
  | 0, _ => []
  | n + 1, s => s ++ rep n s

def sNull : Str := [110, 117, 108, 108]
def sTrue : Str := [116, 114, 117, 101]
def sFalse : Str := [102, 97, 108, 115, 101]

/-- `if i != last { push(item_sep ++ newline) }` -/
def sepAfter {α : Type} (f : Fmt) : List α → Str
  | [] => []
  | _ :: _ => f.itemSep ++ f.newline

mutual
/-- `do_manifest_json` at `depth = d`.  (`if !indent.is_empty() { push
    indent.repeat(d+1) }` equals pushing `rep (d+1) indent` unconditionally.) -/
def manifest (f : Fmt) (d : Nat) : JVal → Str
  | .null => sNull
  | .bool true => sTrue
  | .bool false => sFalse
  | .num t => t
  | .str s => escape s
  | .arr [] =>
    match f.emptyArray with
    | some e => e
    | none => 91 :: (f.newline ++ (f.newline ++ (rep d f.indent ++ [93])))
  | .arr (x :: xs) =>
    91 :: (f.newline ++ (manifestItems f d (x :: xs) ++ (f.newline ++ (rep d f.indent ++ [93]))))
  | .obj [] =>
    match f.emptyObject with
    | some e => e
    | none => 123 :: (f.newline ++ (f.newline ++ (rep d f.indent ++ [125])))
  | .obj (kx :: xs) =>
    123 :: (f.newline ++ (manifestFields f d (kx :: xs) ++ (f.newline ++ (rep d f.indent ++ [125]))))
/-- items of an array, separated by `item_sep ++ newline` -/
def manifestItems (f : Fmt) (d : Nat) : List JVal → Str
  | [] => []
  | x :: xs =>
    rep (d + 1) f.indent ++ (manifest f (d + 1) x ++ (sepAfter f xs ++ manifestItems f d xs))
/-- fields of an object -/
def manifestFields (f : Fmt) (d : Nat) : List (Str × JVal) → Str
  | [] => []
  | (k, x) :: xs =>
    rep (d + 1) f.indent ++ (escape k ++ (f.keyValSep ++ (manifest f (d + 1) x ++
      (sepAfter f xs ++ manifestFields f d xs))))
end

/-- `std.toString` / string coercion (`CoerceToString`): strings as they are,
    everything else through `default_to_string`. -/
def toStringVal : JVal → Str
  | .str s => s
  | v => manifest Fmt.toStringFmt 0 v

/-! ## `get_visible_fields_order` for a single-layer object -/

/-- `str::cmp` = lexicographic on UTF-8 bytes = lexicographic on code points -/
def strLt : Str → Str → Bool
  | [], [] => false
  | [], _ :: _ => true
  | _ :: _, [] => false
  | a :: as, b :: bs => if a < b then true else if b < a then false else strLt as bs

/-- `BTreeMap::insert` on the sorted association list (a later equal key replaces). -/
def btInsert {α : Type} (k : Str) (v : α) : List (Str × α) → List (Str × α)
  | [] => [(k, v)]
  | (k', v') :: rest =>
    if strLt k k' then (k, v) :: (k', v') :: rest
    else if strLt k' k then (k', v') :: btInsert k v rest
    else (k, v) :: rest

def btOfList {α : Type} : List (Str × α) → List (Str × α) → List (Str × α)
  | acc, [] => acc
  | acc, (k, v) :: rest => btOfList (btInsert k v acc) rest

/-- fields as `(name, hidden?, value)` in source order ↦ the list handed to the
    manifester: sorted by name, hidden ones removed. -/
def visibleSorted {α : Type} (fs : List (Str × Bool × α)) : List (Str × α) :=
  (btOfList [] fs).filterMap (fun (k, h, v) => if h then none else some (k, v))

/-! ## `parse_json.rs` -/

inductive Err where
  | expectedValue
  | expectedEof
  | expected1 (c : Nat)
  | expected2 (c1 c2 : Nat)
  | invalidNumber
  | numberOverflow
  | unfinishedString
  | invalidChrInString
  | invalidStringEscape
  | expectedObjectKey
  | repeatedFieldName (k : Str)
  /-- model artefact: outer loop ran out of fuel (never happens, see proofs) -/
  | fuel
deriving Repr, DecidableEq

def isWs (c : Nat) : Bool := c == 9 || c == 10 || c == 13 || c == 32

/-- `Lexer::skip_spaces` -/
def skipSpaces : Str → Str
  | [] => []
  | c :: r => if isWs c then skipSpaces r else c :: r

def isDigit (c : Nat) : Bool := 48 ≤ c && c ≤ 57
def isDigit19 (c : Nat) : Bool := 49 ≤ c && c ≤ 57

/-- states of `lex_number` -/
inductive NState where
  | start | minus | zero | intPart | dot | fracPart | e | eSign | eDigits
deriving Repr, DecidableEq

inductive NAct where
  | next (s : NState)   -- character eaten
  | stop                -- `break`
  | bad                 -- `InvalidNumber`
deriving Repr, DecidableEq

/-- one `match state` step on the next character (`none` = end of input) -/
def numStep (st : NState) (c : Option Nat) : NAct :=
  let is (p : Nat → Bool) : Bool := match c with | some x => p x | none => false
  match st with
  | .start =>
    if is (· == 45) then .next .minus
    else if is (· == 48) then .next .zero
    else if is isDigit19 then .next .intPart
    else .stop
  | .minus =>
    if is (· == 48) then .next .zero
    else if is isDigit19 then .next .intPart
    else .bad
  | .zero =>
    if is isDigit then .bad
    else if is (· == 46) then .next .dot
    else if is (fun x => x == 101 || x == 69) then .next .e
    else .stop
  | .intPart =>
    if is isDigit then .next .intPart
    else if is (· == 46) then .next .dot
    else if is (fun x => x == 101 || x == 69) then .next .e
    else .stop
  | .dot => if is isDigit then .next .fracPart else .bad
  | .fracPart =>
    if is isDigit then .next .fracPart
    else if is (fun x => x == 101 || x == 69) then .next .e
    else .stop
  | .e =>
    if is (fun x => x == 45 || x == 43) then .next .eSign
    else if is isDigit then .next .eDigits
    else .bad
  | .eSign => if is isDigit then .next .eDigits else .bad
  | .eDigits => if is isDigit then .next .eDigits else .stop

def consTok (c : Nat) : Except Err (Str × Str) → Except Err (Str × Str)
  | .ok (t, r) => .ok (c :: t, r)
  | .error e => .error e

/-- the `loop` of `lex_number`: (eaten token, remaining input) -/
def numScan : NState → Str → Except Err (Str × Str)
  | st, [] =>
    match numStep st none with
    | .bad => .error .invalidNumber
    | _ => .ok ([], [])
  | st, c :: r =>
    match numStep st (some c) with
    | .next st' => consTok c (numScan st' r)
    | .stop => .ok ([], c :: r)
    | .bad => .error .invalidNumber

/-! ### `number.parse::<f64>().is_finite()` on a token accepted by `numScan` -/

def digitsVal : Str → Nat → Nat
  | [], acc => acc
  | c :: r, acc => digitsVal r (acc * 10 + (c - 48))

def numDigits : Nat → Nat → Nat
  | 0, _ => 0
  | fuel + 1, n => if n = 0 then 0 else 1 + numDigits fuel (n / 10)

/-- 2^1024 - 2^970: smallest magnitude that the correctly rounded
    (ties-to-even) conversion maps to infinity. -/
def overflowThreshold : Nat := 2 ^ 1024 - 2 ^ 970

/-- split `-? int (. frac)? ([eE] [+-]? exp)?` -/
def splitNumber (t : Str) : Str × Str × Bool × Str :=
  let t := match t with | 45 :: r => r | _ => t
  let ip := t.takeWhile isDigit
  let r := t.dropWhile isDigit
  let (fp, r) := match r with
    | 46 :: r' => (r'.takeWhile isDigit, r'.dropWhile isDigit)
    | _ => ([], r)
  match r with
  | _ :: 45 :: ex => (ip, fp, true, ex)
  | _ :: 43 :: ex => (ip, fp, false, ex)
  | _ :: ex => (ip, fp, false, ex)
  | [] => (ip, fp, false, [])

/-- does the token denote a magnitude that `str::parse::<f64>` turns into ±inf? -/
def overflows (t : Str) : Bool :=
  let (ip, fp, eneg, ex) := splitNumber t
  let m := digitsVal (ip ++ fp) 0
  if m = 0 then false
  else
    let nd : Int := numDigits (ip.length + fp.length + 1) m
    let e : Int := if eneg then - (digitsVal ex 0 : Int) else (digitsVal ex 0 : Int)
    let k : Int := e - fp.length
    -- 10^(nd-1+k) ≤ value < 10^(nd+k); threshold ≈ 1.797e308
    if nd + k > 310 then true
    else if nd + k < 300 then false
    else if k ≥ 0 then decide (m * 10 ^ k.toNat ≥ overflowThreshold)
    else decide (m ≥ overflowThreshold * 10 ^ (-k).toNat)

/-- `Lexer::lex_number`: `none` when no character was eaten. -/
def lexNumber (s : Str) : Except Err (Option (Str × Str)) :=
  match numScan .start s with
  | .error e => .error e
  | .ok ([], _) => .ok none
  | .ok (c :: t, r) => if overflows (c :: t) then .error .numberOverflow else .ok (some (c :: t, r))

/-- `hex_from_digit` -/
def hexFromDigit (c : Nat) : Option Nat :=
  if 48 ≤ c ∧ c ≤ 57 then some (c - 48)
  else if 97 ≤ c ∧ c ≤ 102 then some (c - 97 + 10)
  else if 65 ≤ c ∧ c ≤ 70 then some (c - 65 + 10)
  else none

/-- `eat_codeunit` on four available characters -/
def cu4 (a b c d : Nat) : Option Nat :=
  match hexFromDigit a, hexFromDigit b, hexFromDigit c, hexFromDigit d with
  | some x, some y, some z, some w => some (x * 4096 + y * 256 + z * 16 + w)
  | _, _, _, _ => none

def consStr (c : Nat) : Except Err (Str × Str) → Except Err (Str × Str)
  | .ok (s, r) => .ok (c :: s, r)
  | .error e => .error e

/-- body of `lex_string` after the opening quote: (decoded string, rest after
    the closing quote) -/
def lexStrBody : Str → Except Err (Str × Str)
  | [] => .error .unfinishedString
  | c :: r =>
    if c = 34 then .ok ([], r)
    else if c = 92 then
      match r with
      | [] => .error .unfinishedString
      | x :: r1 =>
        if x = 34 then consStr 34 (lexStrBody r1)
        else if x = 92 then consStr 92 (lexStrBody r1)
        else if x = 47 then consStr 47 (lexStrBody r1)
        else if x = 98 then consStr 8 (lexStrBody r1)
        else if x = 102 then consStr 12 (lexStrBody r1)
        else if x = 110 then consStr 10 (lexStrBody r1)
        else if x = 114 then consStr 13 (lexStrBody r1)
        else if x = 116 then consStr 9 (lexStrBody r1)
        else if x = 117 then
          match r1 with
          | h0 :: h1 :: h2 :: h3 :: r2 =>
            match cu4 h0 h1 h2 h3 with
            | none => .error .invalidStringEscape
            | some cu1 =>
              if 0xD800 ≤ cu1 ∧ cu1 ≤ 0xDFFF then
                match r2 with
                | 92 :: 117 :: r3 =>
                  match r3 with
                  | g0 :: g1 :: g2 :: g3 :: r4 =>
                    match cu4 g0 g1 g2 g3 with
                    | none => .error .invalidStringEscape
                    | some cu2 =>
                      -- `char::decode_utf16([cu1, cu2])`
                      if cu1 ≤ 0xDBFF ∧ 0xDC00 ≤ cu2 ∧ cu2 ≤ 0xDFFF then
                        consStr (0x10000 + (cu1 - 0xD800) * 0x400 + (cu2 - 0xDC00)) (lexStrBody r4)
                      else .error .invalidStringEscape
                  | _ => .error .invalidStringEscape
                | _ => .error .invalidStringEscape   -- `char::from_u32(surrogate)` is `None`
              else consStr cu1 (lexStrBody r2)
          | _ => .error .invalidStringEscape
        else .error .invalidStringEscape
    else if c ≤ 0x1f then .error .invalidChrInString
    else consStr c (lexStrBody r)

/-- `Lexer::lex_string`: `none` when the input does not start with `"`. -/
def lexString : Str → Except Err (Option (Str × Str))
  | 34 :: r =>
    match lexStrBody r with
    | .ok p => .ok (some p)
    | .error e => .error e
  | _ => .ok none

/-- `str::strip_prefix` -/
def stripPrefix : Str → Str → Option Str
  | [], s => some s
  | _ :: _, [] => none
  | p :: ps, c :: s => if p = c then stripPrefix ps s else none

/-- `StackItem` -/
inductive Frame where
  | arr (items : List JVal)
  | obj (fields : List (Str × JVal)) (key : Str)
deriving Repr

/-- what the first half of the outer loop body produces -/
inductive Start where
  | value (v : JVal) (rest : Str)     -- falls through to the inner loop
  | push (f : Frame) (rest : Str)     -- `stack.push(..); continue`
deriving Repr

/-- `lex_string()?.ok_or(ExpectedObjectKey)`, `skip_spaces`, `eat_char(':')`,
    `skip_spaces` -/
def lexKeyColon (s : Str) : Except Err (Str × Str) :=
  match lexString s with
  | .error e => .error e
  | .ok none => .error .expectedObjectKey
  | .ok (some (k, r)) =>
    match skipSpaces r with
    | 58 :: r' => .ok (k, skipSpaces r')
    | _ => .error (.expected1 58)

/-- the `let mut value = if lexer.eat_str("null") ... else ...` chain -/
def startValue (s : Str) : Except Err Start :=
  match stripPrefix sNull s with
  | some r => .ok (.value .null (skipSpaces r))
  | none =>
  match stripPrefix sFalse s with
  | some r => .ok (.value (.bool false) (skipSpaces r))
  | none =>
  match stripPrefix sTrue s with
  | some r => .ok (.value (.bool true) (skipSpaces r))
  | none =>
  match lexNumber s with
  | .error e => .error e
  | .ok (some (t, r)) => .ok (.value (.num t) (skipSpaces r))
  | .ok none =>
  match lexString s with
  | .error e => .error e
  | .ok (some (str, r)) => .ok (.value (.str str) (skipSpaces r))
  | .ok none =>
  match s with
  | 91 :: r =>
    match skipSpaces r with
    | 93 :: r' => .ok (.value (.arr []) (skipSpaces r'))
    | r' => .ok (.push (.arr []) r')
  | 123 :: r =>
    match skipSpaces r with
    | 125 :: r' => .ok (.value (.obj []) (skipSpaces r'))
    | r' =>
      match lexKeyColon r' with
      | .error e => .error e
      | .ok (k, r'') => .ok (.push (.obj [] k) r'')
  | _ => .error .expectedValue

/-- `SimpleObjectBuilder::try_insert_field` fails on a repeated name -/
def hasKey (k : Str) : List (Str × JVal) → Bool
  | [] => false
  | (k', _) :: rest => k' == k || hasKey k rest

/-- result of the inner `loop`: finished, or `break` back to the outer loop -/
inductive Unwound where
  | done (v : JVal)
  | more (stack : List Frame) (rest : Str)
deriving Repr

/-- the inner `loop { if let Some(stack_item) = stack.pop() ... }` -/
def unwind (v : JVal) : List Frame → Str → Except Err Unwound
  | [], rem => if rem.isEmpty then .ok (.done v) else .error .expectedEof
  | .arr items :: st, rem =>
    match rem with
    | 93 :: r => unwind (.arr (items ++ [v])) st (skipSpaces r)
    | 44 :: r => .ok (.more (.arr (items ++ [v]) :: st) (skipSpaces r))
    | _ => .error (.expected2 93 44)
  | .obj fields key :: st, rem =>
    if hasKey key fields then .error (.repeatedFieldName key)
    else
      match rem with
      | 125 :: r => unwind (.obj (fields ++ [(key, v)])) st (skipSpaces r)
      | 44 :: r =>
        match lexKeyColon (skipSpaces r) with
        | .error e => .error e
        | .ok (k, r') => .ok (.more (.obj (fields ++ [(key, v)]) k :: st) r')
      | _ => .error (.expected2 125 44)

/-- the outer `loop` -/
def run : Nat → List Frame → Str → Except Err JVal
  | 0, _, _ => .error .fuel
  | n + 1, st, rem =>
    match startValue rem with
    | .error e => .error e
    | .ok (.push f r) => run n (f :: st) r
    | .ok (.value v r) =>
      match unwind v st r with
      | .error e => .error e
      | .ok (.done v') => .ok v'
      | .ok (.more st' r') => run n st' r'

/-- `parse_json` -/
def parseJson (s : Str) : Except Err JVal :=
  run (s.length + 1) [] (skipSpaces s)

/-! ## `do_manifest_python` -/

def sNone : Str := [78, 111, 110, 101]
def sPyTrue : Str := [84, 114, 117, 101]
def sPyFalse : Str := [70, 97, 108, 115, 101]

def commaAfter {α : Type} : List α → Str
  | [] => []
  | _ :: _ => [44, 32]

mutual
def manifestPython : JVal → Str
  | .null => sNone
  | .bool true => sPyTrue
  | .bool false => sPyFalse
  | .num t => t
  | .str s => escape s
  | .arr [] => [91, 93]
  | .arr (x :: xs) => 91 :: (pythonItems (x :: xs) ++ [93])
  | .obj [] => [123, 125]
  | .obj (kx :: xs) => 123 :: (pythonFields (kx :: xs) ++ [125])
def pythonItems : List JVal → Str
  | [] => []
  | x :: xs => manifestPython x ++ (commaAfter xs ++ pythonItems xs)
def pythonFields : List (Str × JVal) → Str
  | [] => []
  | (k, x) :: xs => escape k ++ (58 :: 32 :: (manifestPython x ++ (commaAfter xs ++ pythonFields xs)))
end

/-! ## key quoting: `is_safe_yaml_plain`, `is_safe_toml_plain` -/

def isAlnum (c : Nat) : Bool :=
  (48 ≤ c && c ≤ 57) || (65 ≤ c && c ≤ 90) || (97 ≤ c && c ≤ 122)

def toLowerAscii (c : Nat) : Nat := if 65 ≤ c ∧ c ≤ 90 then c + 32 else c

/-- `str::eq_ignore_ascii_case` -/
def eqIgnoreAsciiCase (a b : Str) : Bool := a.map toLowerAscii == b.map toLowerAscii

def countC (p : Nat → Bool) (s : Str) : Nat := (s.filter p).length

def startsWith (p s : Str) : Bool := (stripPrefix p s).isSome

/-- the `special` table of `is_safe_yaml_plain` -/
def yamlSpecial : List Str :=
  [ [110,117,108,108], [116,114,117,101], [121], [121,101,115], [111,110],
    [102,97,108,115,101], [110], [110,111], [111,102,102],
    [46,110,97,110], [46,105,110,102], [43,46,105,110,102], [45,46,105,110,102] ]

def isHexLetter (c : Nat) : Bool := (97 ≤ c && c ≤ 102) || (65 ≤ c && c ≤ 70)

/-- "Check empty string and special sequences" -/
def yEmptyOrDashes (s : Str) : Bool := s.isEmpty || s == [45] || s == [45, 45, 45]
/-- "Check for unsafe characters" -/
def yPlainChar (c : Nat) : Bool := isAlnum c || c == 47 || c == 95 || c == 45 || c == 46
def yUnsafeChar (s : Str) : Bool := s.any (fun c => !yPlainChar c)
/-- "Check for reserved alphabetic values" -/
def yReserved (s : Str) : Bool := yamlSpecial.any (fun sp => eqIgnoreAsciiCase s sp)
/-- "Check for dates" -/
def yDate (s : Str) : Bool := s.all (fun c => isDigit c || c == 45) && countC (· == 45) s == 2
/-- "Check for integers" -/
def yInt (s : Str) : Bool := s.all (fun c => isDigit c || c == 95 || c == 45) && countC (· == 45) s ≤ 1
/-- "Check for base-2 integers" -/
def yBin (s : Str) : Bool :=
  (startsWith [48, 98] s || startsWith [45, 48, 98] s)
    && s.all (fun c => isDigit c || c == 98 || c == 66 || c == 95 || c == 45)
    && countC (· == 45) s ≤ 1
/-- "Check for base-16 integers" -/
def yHex (s : Str) : Bool :=
  (startsWith [48, 120] s || startsWith [45, 48, 120] s)
    && s.all (fun c => isDigit c || isHexLetter c || c == 120 || c == 88 || c == 95 || c == 45)
    && countC (· == 45) s ≤ 1
/-- "Check for floats" -/
def yFloat (s : Str) : Bool :=
  s.all (fun c => isDigit c || c == 101 || c == 69 || c == 95 || c == 45 || c == 46)
    && countC (· == 46) s == 1
    && countC (· == 45) s ≤ 2
    && countC (fun c => c == 101 || c == 69) s ≤ 1

/-- `is_safe_yaml_plain` -/
def isSafeYamlPlain (s : Str) : Bool :=
  if yEmptyOrDashes s then false
  else if yUnsafeChar s then false
  else if yReserved s then false
  else if yDate s then false
  else if yInt s then false
  else if yBin s then false
  else if yHex s then false
  else if yFloat s then false
  else true

/-- `is_safe_toml_plain` (byte-wise in Rust; a non-ASCII code point has only
    non-ASCII bytes, so code-point-wise is the same predicate) -/
def isSafeTomlPlain (s : Str) : Bool :=
  !s.isEmpty && s.all (fun c => isAlnum c || c == 95 || c == 45)

/-- `escape_key_toml` -/
def escapeKeyToml (s : Str) : Str := if isSafeTomlPlain s then s else escape s

/-! ## `do_manifest_yaml_doc`, `std.manifestYamlStream` -/

/-- `str::split('\n')` -/
def splitNl : Str → Str → List Str
  | cur, [] => [cur.reverse]
  | cur, c :: r => if c = 10 then cur.reverse :: splitNl [] r else splitNl (c :: cur) r

/-- `str::strip_suffix('\n')` -/
def stripSuffixNl (s : Str) : Option Str :=
  match s.reverse with
  | 10 :: r => some r.reverse
  | _ => none

def yamlIndent : Str := [32, 32]

def yamlKey (quoteKeys : Bool) (k : Str) : Str :=
  if !quoteKeys && isSafeYamlPlain k then k else escape k

def yamlString (s : Str) (depth : Nat) (nested : Bool) : Str :=
  match stripSuffixNl s with
  | some body =>
    let sub := if nested then depth else depth + 1
    124 :: ((splitNl [] body).map (fun line => 10 :: (rep sub yamlIndent ++ line))).flatten
  | none => escape s

def nlAfter {α : Type} : List α → Str
  | [] => []
  | _ :: _ => [10]

mutual
/-- `do_manifest_yaml_doc(indent_array_in_object, quote_keys, depth,
    parent_is_array, parent_is_object)` -/
def manifestYaml (iaio qk : Bool) (depth : Nat) (pArr pObj : Bool) : JVal → Str
  | .null => (if pArr || pObj then [32] else []) ++ sNull
  | .bool true => (if pArr || pObj then [32] else []) ++ sTrue
  | .bool false => (if pArr || pObj then [32] else []) ++ sFalse
  | .num t => (if pArr || pObj then [32] else []) ++ t
  | .str s => (if pArr || pObj then [32] else []) ++ yamlString s depth (pArr || pObj)
  | .arr [] => (if pArr || pObj then [32] else []) ++ [91, 93]
  | .arr (x :: xs) =>
    (if pArr || pObj then [10] else []) ++
      yamlItems iaio qk (if pObj && !iaio then depth - 1 else depth) (x :: xs)
  | .obj [] => (if pArr || pObj then [32] else []) ++ [123, 125]
  | .obj (kx :: xs) =>
    (if pArr then [32] else if pObj then [10] else []) ++ yamlFields iaio qk depth pArr (kx :: xs)
def yamlItems (iaio qk : Bool) (depth : Nat) : List JVal → Str
  | [] => []
  | x :: xs =>
    rep depth yamlIndent ++ (45 :: (manifestYaml iaio qk (depth + 1) true false x ++
      (nlAfter xs ++ yamlItems iaio qk depth xs)))
/-- `skipIndent`: the first field of an object that is an array item stays on
    the line of the `- ` -/
def yamlFields (iaio qk : Bool) (depth : Nat) (skipIndent : Bool) : List (Str × JVal) → Str
  | [] => []
  | (k, x) :: xs =>
    (if skipIndent then [] else rep depth yamlIndent) ++ (yamlKey qk k ++
      (58 :: (manifestYaml iaio qk (depth + 1) false true x ++
        (nlAfter xs ++ yamlFields iaio qk depth false xs))))
end

/-- `std.manifestYamlDoc(v, indent_array_in_object, quote_keys)` -/
def manifestYamlDoc (iaio qk : Bool) (v : JVal) : Str := manifestYaml iaio qk 0 false false v

def yamlStreamDocs (iaio qk : Bool) : List JVal → Str
  | [] => []
  | [x] => manifestYamlDoc iaio qk x
  | x :: y :: r => manifestYamlDoc iaio qk x ++ ([10, 45, 45, 45, 10] ++ yamlStreamDocs iaio qk (y :: r))

/-- `std.manifestYamlStream(arr, indent_array_in_object, c_document_end, quote_keys)` -/
def manifestYamlStream (iaio cde qk : Bool) (docs : List JVal) : Str :=
  [45, 45, 45, 10] ++ (yamlStreamDocs iaio qk docs ++ (if cde then [10, 46, 46, 46, 10] else [10]))

/-! ## Driver -/

/-- UTF-8 decoding of driver input (inputs are produced from valid strings;
    anything malformed is a malformed request) -/
def utf8Decode : Nat → List Nat → Option Str
  | 0, _ => some []
  | _, [] => some []
  | fuel + 1, b :: r =>
    if b < 0x80 then (utf8Decode fuel r).map (b :: ·)
    else if 0xC0 ≤ b ∧ b < 0xE0 then
      match r with
      | b1 :: r => (utf8Decode fuel r).map (((b - 0xC0) * 64 + (b1 - 0x80)) :: ·)
      | _ => none
    else if 0xE0 ≤ b ∧ b < 0xF0 then
      match r with
      | b1 :: b2 :: r => (utf8Decode fuel r).map (((b - 0xE0) * 4096 + (b1 - 0x80) * 64 + (b2 - 0x80)) :: ·)
      | _ => none
    else if 0xF0 ≤ b ∧ b < 0xF8 then
      match r with
      | b1 :: b2 :: b3 :: r =>
        (utf8Decode fuel r).map (((b - 0xF0) * 262144 + (b1 - 0x80) * 4096 + (b2 - 0x80) * 64 + (b3 - 0x80)) :: ·)
      | _ => none
    else none

def decodeHexStr (h : String) : Option Str := do
  let bs ← hexDecode h
  utf8Decode (bs.length + 1) bs

def encodeHexStr (s : Str) : String := hexEnc (s.flatMap utf8EncodeChar)

/-- hex digits (as characters) up to a terminator character -/
def takeUntil (t : Char) : List Char → List Char → Option (List Char × List Char)
  | _, [] => none
  | acc, c :: r => if c = t then some (acc.reverse, r) else takeUntil t (c :: acc) r

def decodeHexChars (cs : List Char) : Option Str := do
  let bs ← hexDecodeChars cs
  utf8Decode (bs.length + 1) bs

/-- Wire syntax of values (no spaces):
    `z` | `t` | `f` | `n<16 hex bits>:<hex token>;` | `s<hex>;` |
    `[` v* `]` | `{` (`v`|`h`) `<hex key>;` v ... `}`  (`h` = hidden field).
    Objects are normalised with `visibleSorted` as they are read. -/
inductive Tok where
  | null | tt | ff | num (t : Str) | str (s : Str) | lb | rb | lc | rc
  | key (hidden : Bool) (k : Str)

/-- tokenise the wire syntax (`inObj` tracks whether a key is expected) -/
def wireToks : Nat → List Char → Option (List Tok)
  | 0, _ => none
  | _, [] => some []
  | fuel + 1, c :: r =>
    if c = 'z' then (wireToks fuel r).map (Tok.null :: ·)
    else if c = 't' then (wireToks fuel r).map (Tok.tt :: ·)
    else if c = 'f' then (wireToks fuel r).map (Tok.ff :: ·)
    else if c = '[' then (wireToks fuel r).map (Tok.lb :: ·)
    else if c = ']' then (wireToks fuel r).map (Tok.rb :: ·)
    else if c = '{' then (wireToks fuel r).map (Tok.lc :: ·)
    else if c = '}' then (wireToks fuel r).map (Tok.rc :: ·)
    else if c = 'n' then do
      let (_, r) ← takeUntil ':' [] r
      let (tok, r) ← takeUntil ';' [] r
      let t ← decodeHexChars tok
      (wireToks fuel r).map (Tok.num t :: ·)
    else if c = 's' then do
      let (h, r) ← takeUntil ';' [] r
      let t ← decodeHexChars h
      (wireToks fuel r).map (Tok.str t :: ·)
    else if c = 'v' ∨ c = 'h' then do
      let (h, r) ← takeUntil ';' [] r
      let t ← decodeHexChars h
      (wireToks fuel r).map (Tok.key (c = 'h') t :: ·)
    else none

inductive WFrame where
  | arr (acc : List JVal)
  | obj (acc : List (Str × Bool × JVal)) (key : Option (Bool × Str))

/-- shift/reduce over the token list -/
def wireBuild : List Tok → List WFrame → Option JVal → Option JVal
  | [], [], some v => some v
  | [], _, _ => none
  | t :: ts, st, done =>
    let put (v : JVal) : Option JVal :=
      match st with
      | [] => match done with | none => wireBuild ts [] (some v) | some _ => none
      | .arr acc :: st' => wireBuild ts (.arr (v :: acc) :: st') done
      | .obj acc (some (h, k)) :: st' => wireBuild ts (.obj ((k, h, v) :: acc) none :: st') done
      | .obj _ none :: _ => none
    match t with
    | .null => put .null
    | .tt => put (.bool true)
    | .ff => put (.bool false)
    | .num x => put (.num x)
    | .str x => put (.str x)
    | .lb => wireBuild ts (.arr [] :: st) done
    | .lc => wireBuild ts (.obj [] none :: st) done
    | .key h k =>
      match st with
      | .obj acc none :: st' => wireBuild ts (.obj acc (some (h, k)) :: st') done
      | _ => none
    | .rb =>
      match st with
      | .arr acc :: st' =>
        let v := JVal.arr acc.reverse
        match st' with
        | [] => match done with | none => wireBuild ts [] (some v) | some _ => none
        | .arr acc' :: st'' => wireBuild ts (.arr (v :: acc') :: st'') done
        | .obj acc' (some (h, k)) :: st'' => wireBuild ts (.obj ((k, h, v) :: acc') none :: st'') done
        | .obj _ none :: _ => none
      | _ => none
    | .rc =>
      match st with
      | .obj acc none :: st' =>
        let v := JVal.obj (visibleSorted acc.reverse)
        match st' with
        | [] => match done with | none => wireBuild ts [] (some v) | some _ => none
        | .arr acc' :: st'' => wireBuild ts (.arr (v :: acc') :: st'') done
        | .obj acc' (some (h, k)) :: st'' => wireBuild ts (.obj ((k, h, v) :: acc') none :: st'') done
        | .obj _ none :: _ => none
      | _ => none

def decodeVal (s : String) : Option JVal := do
  let ts ← wireToks (s.length + 1) s.toList
  wireBuild ts [] none

def hexOfStr (s : Str) : String := hexEncode (s.flatMap utf8EncodeChar)

mutual
def showVal : JVal → String
  | .null => "z"
  | .bool true => "t"
  | .bool false => "f"
  | .num t => "n:" ++ hexOfStr t ++ ";"
  | .str s => "s" ++ hexOfStr s ++ ";"
  | .arr xs => "[" ++ showItems xs ++ "]"
  | .obj fs => "{" ++ showFields fs ++ "}"
def showItems : List JVal → String
  | [] => ""
  | x :: xs => showVal x ++ showItems xs
def showFields : List (Str × JVal) → String
  | [] => ""
  | (k, x) :: xs => "v" ++ hexOfStr k ++ ";" ++ showVal x ++ showFields xs
end

def showErr : Err → String
  | .expectedValue => "expectedValue"
  | .expectedEof => "expectedEof"
  | .expected1 c => s!"expected1:{c}"
  | .expected2 a b => s!"expected2:{a}:{b}"
  | .invalidNumber => "invalidNumber"
  | .numberOverflow => "numberOverflow"
  | .unfinishedString => "unfinishedString"
  | .invalidChrInString => "invalidChrInString"
  | .invalidStringEscape => "invalidStringEscape"
  | .expectedObjectKey => "expectedObjectKey"
  | .repeatedFieldName k => "repeatedFieldName:" ++ hexEnc (k.flatMap utf8EncodeChar)
  | .fuel => "fuel"

def bit (c : Char) : Option Bool := if c = '1' then some true else if c = '0' then some false else none

/-- output format selector of `json manifest` -/
def manifestBy (fmt : String) (v : JVal) : Option Str :=
  match fmt.splitOn ":" with
  | ["D"] => some (manifest Fmt.defaultManifest 0 v)
  | ["T"] => some (manifest Fmt.toStringFmt 0 v)
  | ["S"] => some (toStringVal v)
  | ["C"] => some (toStringVal v)
  | ["X1", i] => do pure (manifest (Fmt.ex (← decodeHexStr i) [10] [58, 32]) 0 v)
  | ["Y0"] => some (manifestYamlDoc false true v)
  | ["M"] => some (manifest Fmt.minified 0 v)
  | ["J"] => some (manifest Fmt.stdManifestJson 0 v)
  | ["X", i, n, k] => do
    pure (manifest (Fmt.ex (← decodeHexStr i) (← decodeHexStr n) (← decodeHexStr k)) 0 v)
  | ["P"] => some (manifestPython v)
  | ["Y", flags] =>
    match flags.toList with
    | [a, b] => do pure (manifestYamlDoc (← bit a) (← bit b) v)
    | _ => none
  | ["YS", flags] =>
    match flags.toList, v with
    | [a, b, c], .arr docs => do pure (manifestYamlStream (← bit a) (← bit b) (← bit c) docs)
    | _, _ => none
  | _ => none

/-- `json escape <hexstr>` | `json manifest <fmt> <value>` | `json parse <hextext>` |
    `json yamlplain <hexstr>` | `json tomlplain <hexstr>` | `json tomlkey <hexstr>` -/
def handle (args : List String) : Option String :=
  match args with
  | ["escape", h] => do pure (encodeHexStr (escape (← decodeHexStr h)))
  | ["manifest", fmt, val] => do
    let v ← decodeVal val
    let out ← manifestBy fmt v
    pure ("ok " ++ encodeHexStr out)
  | ["parse", h] => do
    let s ← decodeHexStr h
    match parseJson s with
    | .ok v => pure ("ok " ++ showVal v)
    | .error e => pure ("err " ++ showErr e)
  | ["yamlplain", h] => do pure (if isSafeYamlPlain (← decodeHexStr h) then "1" else "0")
  | ["tomlplain", h] => do pure (if isSafeTomlPlain (← decodeHexStr h) then "1" else "0")
  | ["tomlkey", h] => do pure (encodeHexStr (escapeKeyToml (← decodeHexStr h)))
  | _ => none

end Rsj.Json
