/-
  Model module `Json` (driver op `json`). Import-free apart from RsjModel.* modules.
-/
import RsjModel.Util
namespace Rsj.Json

/-- `json <args...>` : one canonical answer line, or `none` for a malformed request. -/
def handle (_args : List String) : Option String := none

end Rsj.Json
