/-
  Model of `rsjsonnet-lang/src/parser/{mod.rs,expr.rs}` (property C15).

  The parser state is `curr_token` / `rem_tokens` / `expected_things` exactly as in
  `Parser`; `parse_expr` is the explicit-stack machine of expr.rs
  (`State::{Parsed,Binary,BinaryRhs,Unary,Primary}`, `StackItem::*`) run with fuel; every
  other `parse_*` / `maybe_parse_*` function is transcribed one-to-one.  The Rust
  functions recurse only through `parse_expr`, so each of them takes the recursive
  `parse_expr` (with smaller fuel) as the parameter `pe`.

  Outcomes that are not `ParseError` (panic sites of the Rust code) are explicit `Fault`s.
  `make_surrounding_span a b` is `(a.start, b.end)`; its assertion `start ≤ end` cannot
  fire for lexer-ordered token spans (theorem `C15_spans_nested`), the driver rejects
  token lists whose spans are not ordered (`bad-token-spans`).
-/
import RsjModel.Ast
import RsjModel.PrecedenceTable
import RsjModel.Printer
namespace Rsj.Parser

/-- `ExpectedToken` -/
inductive Expected where
  | eof | simple (k : STok) | ident | number | string | textBlock | expr | binaryOp
deriving DecidableEq, Repr

/-- Position in the derived `Ord` of `ExpectedToken`. -/
def Expected.rank : Expected → Nat
  | .eof => 0 | .simple k => 1 + k.rank | .ident => 100 | .number => 101 | .string => 102
  | .textBlock => 103 | .expr => 104 | .binaryOp => 105

/-- Panic sites (never a `ParseError`). -/
inductive Fault where
  | outOfFuel        -- model artefact: the fuel bound was too small (never observed)
  | emptyTokens      -- `Parser::new`: "passed an empty token slice"
  | noNextToken      -- `next_token`: `rem_tokens.next().unwrap()` on an exhausted iterator
  | eofNotLast       -- `eat_eof`: `assert!(rem_tokens.is_empty())`
  | unreachable      -- `unreachable!()` / `unwrap()` sites in `make_comp`, `in super`, `parse_arg`
deriving DecidableEq, Repr

/-- `Parser` fields; `suffix` records that the parser only ever walks forward over its input. -/
structure PState (toks : List Token) where
  cur : Token
  rem : List Token
  expected : List Expected
  suffix : (cur :: rem) <:+ toks

inductive Err (toks : List Token) where
  | expected (st : PState toks)     -- `report_expected` in state `st`
  | fault (f : Fault)

/-- `Res% toks α`: result of a parsing function = value and next state, or an error. -/
macro "Res% " t:term:max a:term:max : term => `(Except (Err $t) ($a × PState $t))

variable {toks : List Token}

def surround (a b : Span) : Span := ⟨a.start, b.stop⟩

def PState.push (st : PState toks) (e : Expected) : PState toks :=
  { st with expected := st.expected ++ [e] }

def PState.pushIf (st : PState toks) (add : Bool) (e : Expected) : PState toks :=
  if add then st.push e else st

/-- `next_token` (the consumed token is `st.cur`). -/
def PState.advance (st : PState toks) : Except (Err toks) (PState toks) :=
  match h : st.rem with
  | [] => .error (.fault .noNextToken)
  | c :: r =>
    .ok { cur := c, rem := r, expected := [],
          suffix := by
            have h1 := st.suffix
            rw [h] at h1
            exact List.IsSuffix.trans (List.suffix_cons _ _) h1 }

def reportExpected {α : Type} (st : PState toks) : Except (Err toks) α := .error (.expected st)

def fault {α : Type} (f : Fault) : Except (Err toks) α := .error (.fault f)

/-- `eat_eof` -/
def eatEof (add : Bool) (st : PState toks) : Res% toks Bool :=
  if st.cur.kind = .eof then
    if st.rem.isEmpty then .ok (true, { st with expected := [] }) else fault .eofNotLast
  else .ok (false, st.pushIf add .eof)

/-- `eat_simple` -/
def eatSimple (k : STok) (add : Bool) (st : PState toks) : Res% toks (Option Span) :=
  if st.cur.kind = .simple k then do
    let st' ← st.advance
    pure (some st.cur.span, st')
  else .ok (none, st.pushIf add (.simple k))

/-- `expect_simple` -/
def expectSimple (k : STok) (add : Bool) (st : PState toks) : Res% toks Span := do
  let (r, st') ← eatSimple k add st
  match r with
  | some sp => pure (sp, st')
  | none => reportExpected st'

/-- `eat_ident` -/
def eatIdent (add : Bool) (st : PState toks) : Res% toks (Option Ident) :=
  match st.cur.kind with
  | .ident v => do
    let st' ← st.advance
    pure (some ⟨v, st.cur.span⟩, st')
  | _ => .ok (none, st.pushIf add .ident)

/-- `expect_ident` -/
def expectIdent (add : Bool) (st : PState toks) : Res% toks Ident := do
  let (r, st') ← eatIdent add st
  match r with
  | some i => pure (i, st')
  | none => reportExpected st'

/-- `eat_number` -/
def eatNumber (add : Bool) (st : PState toks) : Res% toks (Option (String × Span)) :=
  match st.cur.kind with
  | .number n => do
    let st' ← st.advance
    pure (some (n, st.cur.span), st')
  | _ => .ok (none, st.pushIf add .number)

/-- `eat_string` -/
def eatString (add : Bool) (st : PState toks) : Res% toks (Option (String × Span)) :=
  match st.cur.kind with
  | .string s => do
    let st' ← st.advance
    pure (some (s, st.cur.span), st')
  | _ => .ok (none, st.pushIf add .string)

/-- `eat_text_block` -/
def eatTextBlock (add : Bool) (st : PState toks) : Res% toks (Option (String × Span)) :=
  match st.cur.kind with
  | .textBlock s => do
    let st' ← st.advance
    pure (some (s, st.cur.span), st')
  | _ => .ok (none, st.pushIf add .textBlock)

/-- Try the listed tokens in order (`if eat(..) {..} else if eat(..) {..} ...`). -/
def eatFirst {α : Type} (add : Bool) : List (STok × α) → PState toks → Res% toks (Option (STok × α × Span))
  | [], st => .ok (none, st)
  | (k, a) :: rest, st => do
    let (r, st') ← eatSimple k add st
    match r with
    | some sp => pure (some (k, a, sp), st')
    | none => eatFirst add rest st'

/-- `eat_visibility` -/
def eatVisibility (add : Bool) (st : PState toks) : Res% toks (Option Visibility) := do
  let (r, st') ← eatFirst add
    [(.Colon, Visibility.Default), (.ColonColon, .Hidden), (.ColonColonColon, .ForceVisible)] st
  pure (r.map (·.2.1), st')

/-- `eat_plus_visibility` -/
def eatPlusVisibility (add : Bool) (st : PState toks) : Res% toks (Option (Bool × Visibility)) := do
  let (r, st') ← eatFirst add
    [(.Colon, (false, Visibility.Default)), (.ColonColon, (false, .Hidden)),
     (.ColonColonColon, (false, .ForceVisible)), (.PlusColon, (true, .Default)),
     (.PlusColonColon, (true, .Hidden)), (.PlusColonColonColon, (true, .ForceVisible))] st
  pure (r.map (·.2.1), st')

/-- `peek_simple` -/
def peekSimple (k : STok) (i : Nat) (st : PState toks) : Bool :=
  match i with
  | 0 => st.cur.kind = .simple k
  | j + 1 =>
    match st.rem[j]? with
    | some t => t.kind = .simple k
    | none => false

def TokKind.isIdent : TokKind → Bool
  | .ident _ => true
  | _ => false

/-- `peek_ident` -/
def peekIdent (i : Nat) (st : PState toks) : Bool :=
  match i with
  | 0 => st.cur.kind.isIdent
  | j + 1 =>
    match st.rem[j]? with
    | some t => t.kind.isIdent
    | none => false

/-! ## `parse_maybe_simple_expr` -/

def parseMaybeSimpleExpr (st : PState toks) : Res% toks (Option Expr) := do
  let (r, st) ← eatSimple .Null false st
  if let some sp := r then return (some (.null sp), st)
  let (r, st) ← eatSimple .False_ false st
  if let some sp := r then return (some (.bool false sp), st)
  let (r, st) ← eatSimple .True_ false st
  if let some sp := r then return (some (.bool true sp), st)
  let (r, st) ← eatSimple .Self_ false st
  if let some sp := r then return (some (.selfObj sp), st)
  let (r, st) ← eatSimple .Dollar false st
  if let some sp := r then return (some (.dollar sp), st)
  let (r, st) ← eatString false st
  if let some (s, sp) := r then return (some (.str s sp), st)
  let (r, st) ← eatTextBlock false st
  if let some (s, sp) := r then return (some (.textBlock s sp), st)
  let (r, st) ← eatNumber false st
  if let some (n, sp) := r then return (some (.number n sp), st)
  let (r, st) ← eatIdent false st
  if let some i := r then return (some (.ident i i.span), st)
  return (none, st)

/-! ## Functions that call `parse_expr` (= `pe`) -/

section WithPe
variable (pe : PState toks → Res% toks Expr)

/-- `parse_params` (after the `(`): the loop -/
def paramsLoop : Nat → List Param → PState toks → Res% toks (List Param × Span)
  | 0, _, _ => fault .outOfFuel
  | fuel + 1, acc, st => do
    let (name, st) ← expectIdent true st
    let (eq, st) ← eatSimple .Eq true st
    let (dflt, st) ← (match eq with
      | some _ => do
        let (d, st) ← pe st
        pure (some d, st)
      | none => pure (none, st) : Res% toks (Option Expr))
    let acc := acc ++ [Param.mk name dflt]
    let (r, st) ← eatSimple .RightParen true st
    match r with
    | some endSp => pure ((acc, endSp), st)
    | none =>
      let (c, st) ← eatSimple .Comma true st
      match c with
      | some _ =>
        let (r2, st) ← eatSimple .RightParen true st
        match r2 with
        | some endSp => pure ((acc, endSp), st)
        | none => paramsLoop fuel acc st
      | none => reportExpected st

/-- `parse_params` -/
def parseParams (fuel : Nat) (st : PState toks) : Res% toks (List Param × Span) := do
  let (r, st) ← eatSimple .RightParen true st
  match r with
  | some endSp => pure (([], endSp), st)
  | none => paramsLoop pe fuel [] st

/-- `parse_arg` -/
def parseArg (st : PState toks) : Res% toks Arg :=
  if peekIdent 0 st && peekSimple .Eq 1 st then do
    let (name, st) ← eatIdent false st
    match name with
    | none => fault .unreachable
    | some name =>
      let (eq, st) ← eatSimple .Eq false st
      match eq with
      | none => fault .unreachable
      | some _ =>
        let (v, st) ← pe st
        pure (.named name v, st)
  else do
    let (v, st) ← pe st
    pure (.positional v, st)

def argsLoop : Nat → List Arg → PState toks → Res% toks (List Arg × Span)
  | 0, _, _ => fault .outOfFuel
  | fuel + 1, acc, st => do
    let (a, st) ← parseArg pe st
    let acc := acc ++ [a]
    let (r, st) ← eatSimple .RightParen true st
    match r with
    | some endSp => pure ((acc, endSp), st)
    | none =>
      let (c, st) ← eatSimple .Comma true st
      match c with
      | some _ =>
        let (r2, st) ← eatSimple .RightParen true st
        match r2 with
        | some endSp => pure ((acc, endSp), st)
        | none => argsLoop fuel acc st
      | none => reportExpected st

/-- `parse_args` -/
def parseArgs (fuel : Nat) (st : PState toks) : Res% toks (List Arg × Span) := do
  let (r, st) ← eatSimple .RightParen true st
  match r with
  | some endSp => pure (([], endSp), st)
  | none => argsLoop pe fuel [] st

/-- `maybe_parse_assert` -/
def maybeParseAssert (add : Bool) (st : PState toks) : Res% toks (Option (Span × Assert)) := do
  let (r, st) ← eatSimple .Assert add st
  match r with
  | none => pure (none, st)
  | some startSp =>
    let (cond, st) ← pe st
    let (c, st) ← eatSimple .Colon true st
    match c with
    | some _ =>
      let (msg, st) ← pe st
      pure (some (startSp, .mk (surround startSp msg.span) cond (some msg)), st)
    | none => pure (some (startSp, .mk (surround startSp cond.span) cond none), st)

/-- `parse_bind` -/
def parseBind (fuel : Nat) (st : PState toks) : Res% toks Bind := do
  let (name, st) ← expectIdent true st
  let (lp, st) ← eatSimple .LeftParen true st
  match lp with
  | some startSp =>
    let ((params, endSp), st) ← parseParams pe fuel st
    let (_, st) ← expectSimple .Eq true st
    let (v, st) ← pe st
    pure (.mk name true params (surround startSp endSp) v, st)
  | none =>
    let (_, st) ← expectSimple .Eq true st
    let (v, st) ← pe st
    pure (.mk name false [] Span.zero v, st)

/-- `maybe_parse_obj_local` -/
def maybeParseObjLocal (fuel : Nat) (st : PState toks) : Res% toks (Option Bind) := do
  let (r, st) ← eatSimple .Local true st
  match r with
  | some _ =>
    let (b, st) ← parseBind pe fuel st
    pure (some b, st)
  | none => pure (none, st)

/-- `maybe_parse_for_spec` -/
def maybeParseForSpec (st : PState toks) : Res% toks (Option CompSpec) := do
  let (r, st) ← eatSimple .For true st
  match r with
  | some _ =>
    let (v, st) ← expectIdent true st
    let (_, st) ← expectSimple .In true st
    let (inner, st) ← pe st
    pure (some (.for_ v inner), st)
  | none => pure (none, st)

/-- `maybe_parse_if_spec` -/
def maybeParseIfSpec (st : PState toks) : Res% toks (Option CompSpec) := do
  let (r, st) ← eatSimple .If true st
  match r with
  | some _ =>
    let (c, st) ← pe st
    pure (some (.if_ c), st)
  | none => pure (none, st)

def compSpecLoop : Nat → List CompSpec → PState toks → Res% toks (List CompSpec)
  | 0, _, _ => fault .outOfFuel
  | fuel + 1, acc, st => do
    let (f, st) ← maybeParseForSpec pe st
    match f with
    | some s => compSpecLoop fuel (acc ++ [s]) st
    | none =>
      let (i, st) ← maybeParseIfSpec pe st
      match i with
      | some s => compSpecLoop fuel (acc ++ [s]) st
      | none => pure (acc, st)

/-- `maybe_parse_comp_spec` -/
def maybeParseCompSpec (fuel : Nat) (st : PState toks) : Res% toks (Option (List CompSpec)) := do
  let (f, st) ← maybeParseForSpec pe st
  match f with
  | some s =>
    let (parts, st) ← compSpecLoop pe fuel [s] st
    pure (some parts, st)
  | none => pure (none, st)

/-- `maybe_parse_field_name` -/
def maybeParseFieldName (st : PState toks) : Res% toks (Option FieldName) := do
  let (r, st) ← eatIdent true st
  if let some i := r then return (some (.ident i), st)
  let (r, st) ← eatString true st
  if let some (s, sp) := r then return (some (.str s sp), st)
  let (r, st) ← eatTextBlock true st
  if let some (s, sp) := r then return (some (.str s sp), st)
  let (r, st) ← eatSimple .LeftBracket true st
  match r with
  | some startSp =>
    let (e, st) ← pe st
    let (endSp, st) ← expectSimple .RightBracket true st
    pure (some (.expr e (surround startSp endSp)), st)
  | none => pure (none, st)

/-- `maybe_parse_field` -/
def maybeParseField (fuel : Nat) (st : PState toks) : Res% toks (Option Field) := do
  let (n, st) ← maybeParseFieldName pe st
  match n with
  | none => pure (none, st)
  | some name =>
    let (lp, st) ← eatSimple .LeftParen true st
    match lp with
    | some startSp =>
      let ((params, endSp), st) ← parseParams pe fuel st
      let (vis, st) ← eatVisibility true st
      match vis with
      | none => reportExpected st
      | some vis =>
        let (v, st) ← pe st
        pure (some (.func name params (surround startSp endSp) vis v), st)
    | none =>
      let (pv, st) ← eatPlusVisibility true st
      match pv with
      | none => reportExpected st
      | some (plus, vis) =>
        let (v, st) ← pe st
        pure (some (.value name plus vis v), st)

/-- the `for member in members` loop of `make_comp`:
    state = (locals1, field, locals2) -/
def makeCompLoop : List Member → List Bind → Option (Expr × Bool × Expr) → List Bind →
    Except Fault (List Bind × Option (Expr × Bool × Expr) × List Bind)
  | [], l1, f, l2 => .ok (l1, f, l2)
  | .local_ b :: ms, l1, f, l2 =>
    if f.isNone then makeCompLoop ms (l1 ++ [b]) f l2 else makeCompLoop ms l1 f (l2 ++ [b])
  | .assert_ _ :: _, _, _, _ => .error .unreachable
  | .field (.value (.expr name _) plus .Default body) :: ms, l1, f, l2 =>
    if f.isNone then makeCompLoop ms l1 (some (name, plus, body)) l2 else .error .unreachable
  | .field _ :: _, _, _, _ => .error .unreachable

/-- `make_comp` -/
def makeComp (members : List Member) (spec : List CompSpec) : Except Fault ObjInside :=
  match makeCompLoop members [] none [] with
  | .ok (l1, some (name, plus, body), l2) => .ok (.comp l1 name plus body l2 spec)
  | .ok (_, none, _) => .error .unreachable
  | .error f => .error f

def liftFault {α : Type} (r : Except Fault α) (st : PState toks) : Res% toks α :=
  match r with
  | .ok a => .ok (a, st)
  | .error f => .error (.fault f)

/-- classification of a field in `parse_obj_inside`: new (can_be_comp, has_comp_dyn_field) -/
def fieldFlags (f : Field) (canBeComp hasDyn : Bool) : Bool × Bool :=
  match f with
  | .value (.expr _ _) _ .Default _ => if hasDyn then (false, hasDyn) else (canBeComp, true)
  | _ => (false, hasDyn)

/-- the `loop` of `parse_obj_inside` -/
def objLoop : Nat → List Member → Bool → Bool → PState toks → Res% toks (ObjInside × Span)
  | 0, _, _, _, _ => fault .outOfFuel
  | fuel + 1, members, canBeComp, hasDyn, st => do
    let (ol, st) ← maybeParseObjLocal pe fuel st
    let ((members, canBeComp, hasDyn), st) ← (match ol with
      | some b => pure ((members ++ [.local_ b], canBeComp, hasDyn), st)
      | none => do
        let (fl, st) ← maybeParseField pe fuel st
        match fl with
        | some f =>
          let (c, h) := fieldFlags f canBeComp hasDyn
          pure ((members ++ [.field f], c, h), st)
        | none =>
          let (a, st) ← maybeParseAssert pe true st
          match a with
          | some (_, a) => pure ((members ++ [.assert_ a], false, hasDyn), st)
          | none => reportExpected st
      : Res% toks (List Member × Bool × Bool))
    let (rb, st) ← eatSimple .RightBrace true st
    match rb with
    | some endSp => pure ((.members members, endSp), st)
    | none =>
      let (c, st) ← eatSimple .Comma true st
      match c with
      | some _ =>
        let (rb2, st) ← eatSimple .RightBrace true st
        match rb2 with
        | some endSp => pure ((.members members, endSp), st)
        | none =>
          if canBeComp && hasDyn then do
            let (cs, st) ← maybeParseCompSpec pe fuel st
            match cs with
            | some spec =>
              let (endSp, st) ← expectSimple .RightBrace true st
              let (o, st) ← liftFault (makeComp members spec) st
              pure ((o, endSp), st)
            | none => objLoop fuel members canBeComp hasDyn st
          else objLoop fuel members canBeComp hasDyn st
      | none =>
        if canBeComp && hasDyn then do
          let (cs, st) ← maybeParseCompSpec pe fuel st
          match cs with
          | some spec =>
            let (endSp, st) ← expectSimple .RightBrace true st
            let (o, st) ← liftFault (makeComp members spec) st
            pure ((o, endSp), st)
          | none => reportExpected st
        else reportExpected st

/-- `parse_obj_inside` (after the `{`) -/
def parseObjInside (fuel : Nat) (st : PState toks) : Res% toks (ObjInside × Span) := do
  let (rb, st) ← eatSimple .RightBrace true st
  match rb with
  | some endSp => pure ((.members [], endSp), st)
  | none => objLoop pe fuel [] true false st

/-- the tail of a slice after `[ e1? : e2? ` has been read and a further `:` was eaten:
    `]` or `e3 ]` -/
def sliceLast (st : PState toks) : Res% toks (Option Expr × Span) := do
  let (rb, st) ← eatSimple .RightBracket true st
  match rb with
  | some endSp => pure ((none, endSp), st)
  | none =>
    let (i3, st) ← pe st
    let (endSp, st) ← expectSimple .RightBracket true st
    pure ((some i3, endSp), st)

/-- after `[ e1? :` : the sub-tree `] | : (] | e3 ]) | e2 (] | : (] | e3 ]))` -/
def sliceAfterColon (st : PState toks) : Res% toks (Option Expr × Option Expr × Span) := do
  let (rb, st) ← eatSimple .RightBracket true st
  match rb with
  | some endSp => pure ((none, none, endSp), st)
  | none =>
    let (c, st) ← eatSimple .Colon true st
    match c with
    | some _ =>
      let ((i3, endSp), st) ← sliceLast pe st
      pure ((none, i3, endSp), st)
    | none =>
      let (i2, st) ← pe st
      let (rb, st) ← eatSimple .RightBracket true st
      match rb with
      | some endSp => pure ((some i2, none, endSp), st)
      | none =>
        let (c, st) ← eatSimple .Colon true st
        match c with
        | some _ =>
          let ((i3, endSp), st) ← sliceLast pe st
          pure ((some i2, i3, endSp), st)
        | none => reportExpected st

/-- `parse_index_expr` (after the `[`) -/
def parseIndexExpr (lhs : Expr) (st : PState toks) : Res% toks Expr := do
  let (c, st) ← eatSimple .Colon true st
  match c with
  | some _ =>
    let ((i2, i3, endSp), st) ← sliceAfterColon pe st
    pure (.slice lhs none i2 i3 (surround lhs.span endSp), st)
  | none =>
    let (cc, st) ← eatSimple .ColonColon true st
    match cc with
    | some _ =>
      let ((i3, endSp), st) ← sliceLast pe st
      pure (.slice lhs none none i3 (surround lhs.span endSp), st)
    | none =>
      let (i1, st) ← pe st
      let (rb, st) ← eatSimple .RightBracket true st
      match rb with
      | some endSp => pure (.index lhs i1 (surround lhs.span endSp), st)
      | none =>
        let (c, st) ← eatSimple .Colon true st
        match c with
        | some _ =>
          let ((i2, i3, endSp), st) ← sliceAfterColon pe st
          pure (.slice lhs (some i1) i2 i3 (surround lhs.span endSp), st)
        | none =>
          let (cc, st) ← eatSimple .ColonColon true st
          match cc with
          | some _ =>
            let ((i3, endSp), st) ← sliceLast pe st
            pure (.slice lhs (some i1) none i3 (surround lhs.span endSp), st)
          | none => reportExpected st

/-- `parse_suffix_expr` -/
def parseSuffixExpr : Nat → Expr → PState toks → Res% toks Expr
  | 0, _, _ => fault .outOfFuel
  | fuel + 1, lhs, st => do
    let (dot, st) ← eatSimple .Dot true st
    match dot with
    | some _ =>
      let (name, st) ← expectIdent true st
      parseSuffixExpr fuel (.field lhs name (surround lhs.span name.span)) st
    | none =>
      let (lb, st) ← eatSimple .LeftBracket true st
      match lb with
      | some _ =>
        let (e, st) ← parseIndexExpr pe lhs st
        parseSuffixExpr fuel e st
      | none =>
        let (lp, st) ← eatSimple .LeftParen true st
        match lp with
        | some _ =>
          let (rp, st) ← eatSimple .RightParen true st
          let ((args, endSp), st) ← (match rp with
            | some endSp => pure (([], endSp), st)
            | none => parseArgs pe fuel st : Res% toks (List Arg × Span))
          let (ts, st) ← eatSimple .Tailstrict true st
          parseSuffixExpr fuel
            (.call lhs args ts.isSome (surround lhs.span (ts.getD endSp))) st
        | none =>
          let (lbr, st) ← eatSimple .LeftBrace true st
          match lbr with
          | some objStart =>
            let ((o, objEnd), st) ← parseObjInside pe fuel st
            parseSuffixExpr fuel
              (.objExt lhs o (surround objStart objEnd) (surround lhs.span objEnd)) st
          | none => pure (lhs, st)

/-- `while eat(Comma) { binds.push(parse_bind()) }` of the `local` expression -/
def bindsLoop : Nat → List Bind → PState toks → Res% toks (List Bind)
  | 0, _, _ => fault .outOfFuel
  | fuel + 1, acc, st => do
    let (c, st) ← eatSimple .Comma true st
    match c with
    | some _ =>
      let (b, st) ← parseBind pe fuel st
      bindsLoop fuel (acc ++ [b]) st
    | none => pure (acc, st)

/-! ### The explicit-stack machine of `parse_expr` -/

inductive State where
  | parsed (e : Expr)
  | binary (k : BinKind)
  | binaryRhs (k : BinKind) (lhs : Expr)
  | unary
  | primary

inductive StackItem where
  | binaryLhs (k : BinKind)
  | binaryRhs (k : BinKind) (lhs : Expr) (op : BinaryOp)
  | unary (op : UnaryOp) (sp : Span)
  | suffix
  | arrayItem0 (sp : Span)
  | arrayItemN (sp : Span) (items : List Expr)
  | paren (sp : Span)

/-- `BinOpKind::next_state` as a `State` -/
def nextStateOf (k : BinKind) : State :=
  match k.nextState with
  | some k' => .binary k'
  | none => .unary

def initState : State := .binary initKind

/-- `State::Primary`, all alternatives that finish inside this step: result is the next
    `(stack, state)` -/
def primaryStep (fuel : Nat) (stack : List StackItem) (st : PState toks) :
    Res% toks (List StackItem × State) := do
  let (se, st) ← parseMaybeSimpleExpr st
  if let some e := se then return ((stack, .parsed e), st)
  let (r, st) ← eatSimple .LeftBrace false st
  if let some startSp := r then
    let ((o, endSp), st) ← parseObjInside pe fuel st
    return ((stack, .parsed (.object o (surround startSp endSp))), st)
  let (r, st) ← eatSimple .LeftBracket false st
  if let some startSp := r then
    let (rb, st) ← eatSimple .RightBracket true st
    match rb with
    | some endSp => return ((stack, .parsed (.array [] (surround startSp endSp))), st)
    | none => return ((.arrayItem0 startSp :: stack, initState), st)
  let (r, st) ← eatSimple .Super false st
  if let some superSp := r then
    let (dot, st) ← eatSimple .Dot true st
    match dot with
    | some _ =>
      let (name, st) ← expectIdent true st
      return ((stack, .parsed (.superField superSp name (surround superSp name.span))), st)
    | none =>
      let (lb, st) ← eatSimple .LeftBracket true st
      match lb with
      | some _ =>
        let (i, st) ← pe st
        let (endSp, st) ← expectSimple .RightBracket true st
        return ((stack, .parsed (.superIndex superSp i (surround superSp endSp))), st)
      | none => reportExpected st
  let (r, st) ← eatSimple .Local false st
  if let some startSp := r then
    let (b0, st) ← parseBind pe fuel st
    let (binds, st) ← bindsLoop pe fuel [b0] st
    let (_, st) ← expectSimple .Semicolon true st
    let (inner, st) ← pe st
    return ((stack, .parsed (.local_ binds inner (surround startSp inner.span))), st)
  let (r, st) ← eatSimple .If false st
  if let some ifSp := r then
    let (cond, st) ← pe st
    let (_, st) ← expectSimple .Then true st
    let (thenB, st) ← pe st
    let (el, st) ← eatSimple .Else true st
    match el with
    | some _ =>
      let (elseB, st) ← pe st
      return ((stack, .parsed (.ite_ cond thenB (some elseB) (surround ifSp elseB.span))), st)
    | none =>
      return ((stack, .parsed (.ite_ cond thenB none (surround ifSp thenB.span))), st)
  let (r, st) ← eatSimple .Function false st
  if let some startSp := r then
    let (_, st) ← expectSimple .LeftParen true st
    let ((params, _), st) ← parseParams pe fuel st
    let (body, st) ← pe st
    return ((stack, .parsed (.func params body (surround startSp body.span))), st)
  let (r, st) ← maybeParseAssert pe false st
  if let some (startSp, a) := r then
    let (_, st) ← expectSimple .Semicolon true st
    let (inner, st) ← pe st
    return ((stack, .parsed (.assert_ a inner (surround startSp inner.span))), st)
  let (r, st) ← eatSimple .Import false st
  if let some startSp := r then
    let (e, st) ← pe st
    return ((stack, .parsed (.import_ e (surround startSp e.span))), st)
  let (r, st) ← eatSimple .Importstr false st
  if let some startSp := r then
    let (e, st) ← pe st
    return ((stack, .parsed (.importStr e (surround startSp e.span))), st)
  let (r, st) ← eatSimple .Importbin false st
  if let some startSp := r then
    let (e, st) ← pe st
    return ((stack, .parsed (.importBin e (surround startSp e.span))), st)
  let (r, st) ← eatSimple .Error false st
  if let some startSp := r then
    let (e, st) ← pe st
    return ((stack, .parsed (.error_ e (surround startSp e.span))), st)
  let (r, st) ← eatSimple .LeftParen false st
  if let some startSp := r then
    return ((.paren startSp :: stack, initState), st)
  reportExpected (st.push .expr)

/-- `State::BinaryRhs(kind, lhs)` -/
def binaryRhsStep (k : BinKind) (lhs : Expr) (stack : List StackItem) (st : PState toks) :
    Res% toks (List StackItem × State) := do
  let (r, st) ← eatFirst false k.ops st
  match r with
  | some (tok, op, _) =>
    if k = inSuperKind ∧ tok = STok.In ∧ peekSimple inSuperHead 0 st
        ∧ inSuperExclude.all (fun x => !peekSimple x 1 st) then do
      let (s, st) ← eatSimple inSuperHead true st
      match s with
      | some superSp =>
        pure ((stack, .binaryRhs k (.inSuper lhs superSp (surround lhs.span superSp))), st)
      | none => fault .unreachable
    else pure ((.binaryRhs k lhs op :: stack, nextStateOf k), st)
  | none => pure ((stack, .parsed lhs), st.push .binaryOp)

/-- `State::Unary` -/
def unaryStep (stack : List StackItem) (st : PState toks) : Res% toks (List StackItem × State) := do
  let (r, st) ← eatFirst false unaryOps st
  match r with
  | some (_, op, opSp) => pure ((.unary op opSp :: stack, .unary), st)
  | none => pure ((.suffix :: stack, .primary), st)

/-- `State::Parsed(expr)` with a non-empty stack -/
def parsedStep (fuel : Nat) (expr : Expr) (item : StackItem) (stack : List StackItem)
    (st : PState toks) : Res% toks (List StackItem × State) :=
  match item with
  | .binaryLhs k => pure ((stack, .binaryRhs k expr), st)
  | .binaryRhs k lhs op =>
    pure ((stack, .binaryRhs k (.binary lhs op expr (surround lhs.span expr.span))), st)
  | .unary op opSp => pure ((stack, .parsed (.unary op expr (surround opSp expr.span))), st)
  | .suffix => do
    let (e, st) ← parseSuffixExpr pe fuel expr st
    pure ((stack, .parsed e), st)
  | .arrayItem0 startSp => do
    let (comma, st) ← eatSimple .Comma true st
    let (cs, st) ← maybeParseCompSpec pe fuel st
    match cs with
    | some spec =>
      let (endSp, st) ← expectSimple .RightBracket true st
      pure ((stack, .parsed (.arrayComp expr spec (surround startSp endSp))), st)
    | none =>
      let (rb, st) ← eatSimple .RightBracket true st
      match rb with
      | some endSp => pure ((stack, .parsed (.array [expr] (surround startSp endSp))), st)
      | none =>
        if comma.isSome then pure ((.arrayItemN startSp [expr] :: stack, initState), st)
        else reportExpected st
  | .arrayItemN startSp items => do
    let items := items ++ [expr]
    let (comma, st) ← eatSimple .Comma true st
    let (rb, st) ← eatSimple .RightBracket true st
    match rb with
    | some endSp => pure ((stack, .parsed (.array items (surround startSp endSp))), st)
    | none =>
      if comma.isSome then pure ((.arrayItemN startSp items :: stack, initState), st)
      else reportExpected st
  | .paren startSp => do
    let (endSp, st) ← expectSimple .RightParen true st
    pure ((stack, .parsed (.paren expr (surround startSp endSp))), st)

/-- the `loop { match state {..} }` of `parse_expr` -/
def exprLoop : Nat → List StackItem → State → PState toks → Res% toks Expr
  | 0, _, _, _ => fault .outOfFuel
  | fuel + 1, stack, state, st =>
    match state, stack with
    | .parsed e, [] => pure (e, st)
    | .parsed e, item :: stack => do
      let ((stack, state), st) ← parsedStep pe fuel e item stack st
      exprLoop fuel stack state st
    | .binary k, stack => exprLoop fuel (.binaryLhs k :: stack) (nextStateOf k) st
    | .binaryRhs k lhs, stack => do
      let ((stack, state), st) ← binaryRhsStep k lhs stack st
      exprLoop fuel stack state st
    | .unary, stack => do
      let ((stack, state), st) ← unaryStep stack st
      exprLoop fuel stack state st
    | .primary, stack => do
      let ((stack, state), st) ← primaryStep pe fuel stack st
      exprLoop fuel stack state st

end WithPe

/-- `parse_expr` with a fuel bound on loop iterations + recursion depth. -/
def parseExprF : Nat → PState toks → Res% toks Expr
  | 0, _ => fault .outOfFuel
  | fuel + 1, st => exprLoop (parseExprF fuel) fuel [] initState st

/-- `parse_root_expr` -/
def parseRootF (fuel : Nat) (st : PState toks) : Except (Err toks) Expr := do
  let (e, st) ← parseExprF fuel st
  let (b, st) ← eatEof true st
  if b then pure e else reportExpected st

/-! ## Top level -/

/-- `ActualToken` -/
inductive Actual where
  | eof | simple (k : STok) | otherOp (s : String) | ident (s : String) | number | string | textBlock
deriving DecidableEq, Repr

/-- `ActualToken::from_token_kind` -/
def Actual.ofKind : TokKind → Actual
  | .eof => .eof
  | .simple k => .simple k
  | .otherOp s => .otherOp s
  | .ident s => .ident s
  | .number _ => .number
  | .string _ => .string
  | .textBlock _ => .textBlock

def insertSorted (e : Expected) : List Expected → List Expected
  | [] => [e]
  | x :: xs =>
    if e.rank < x.rank then e :: x :: xs
    else if e.rank = x.rank then x :: xs
    else x :: insertSorted e xs

/-- `expected_things.drain(..).collect::<BTreeSet<_>>()` in iteration order -/
def expectedSet (l : List Expected) : List Expected := l.foldl (fun acc e => insertSorted e acc) []

inductive ParseResult where
  | ok (e : Expr)
  | expected (span : Span) (expected : List Expected) (instead : Actual)   -- `ParseError::Expected`
  | fault (f : Fault)

def fuelFor (toks : List Token) : Nat := 50 * toks.length + 100

/-- `Parser::new(tokens).parse_root_expr()` -/
def parseWithFuel (fuel : Nat) (toks : List Token) : ParseResult :=
  match h : toks with
  | [] => .fault .emptyTokens
  | t :: r =>
    let st0 : PState toks := { cur := t, rem := r, expected := [], suffix := by rw [h]; exact List.suffix_refl _ }
    match parseRootF fuel st0 with
    | .ok e => .ok e
    | .error (.expected st) => .expected st.cur.span (expectedSet st.expected) (Actual.ofKind st.cur.kind)
    | .error (.fault f) => .fault f

def parse (toks : List Token) : ParseResult := parseWithFuel (fuelFor toks) toks

/-- Lexer-ordered spans: every token is non-inverted and tokens do not overlap. -/
def spansOrdered : List Token → Bool
  | [] => true
  | [t] => t.span.start ≤ t.span.stop
  | t :: u :: rest => t.span.start ≤ t.span.stop && t.span.stop ≤ u.span.start && spansOrdered (u :: rest)

/-! ## Driver -/

def Expected.show : Expected → String
  | .eof => "Eof" | .simple k => "S" ++ k.name | .ident => "Ident" | .number => "Number"
  | .string => "String" | .textBlock => "TextBlock" | .expr => "Expr" | .binaryOp => "BinaryOp"

def Actual.show : Actual → String
  | .eof => "Eof" | .simple k => "S" ++ k.name | .otherOp s => "O" ++ s | .ident s => "I" ++ s
  | .number => "Number" | .string => "String" | .textBlock => "TextBlock"

def Fault.show : Fault → String
  | .outOfFuel => "outOfFuel" | .emptyTokens => "emptyTokens" | .noNextToken => "noNextToken"
  | .eofNotLast => "eofNotLast" | .unreachable => "unreachable"

def ParseResult.show : ParseResult → String
  | .ok e => "ast=" ++ serExpr e
  | .expected sp ex act =>
    "err=" ++ toString sp.start ++ ":" ++ toString sp.stop ++ ";" ++
      (if ex.isEmpty then "-" else ",".intercalate (ex.map Expected.show)) ++ ";" ++ act.show
  | .fault f => "fault=" ++ f.show

/-- token notation: `E` | `S<Name>` | `O<hex>` | `I<hex>` | `N<hexdigits>_<exp>` | `T<hex>` | `B<hex>`,
    each followed by `:<start>:<end>`; tokens separated by `,`. -/
def TokKind.show : TokKind → String
  | .eof => "E" | .simple k => "S" ++ k.name | .otherOp s => "O" ++ s | .ident s => "I" ++ s
  | .number s => "N" ++ s | .string s => "T" ++ s | .textBlock s => "B" ++ s

def Token.show (t : Token) : String :=
  t.kind.show ++ ":" ++ toString t.span.start ++ ":" ++ toString t.span.stop

def readTokKind (s : String) : Option TokKind :=
  match s.toList with
  | 'E' :: [] => some .eof
  | 'S' :: r => (STok.ofName (String.ofList r)).map .simple
  | 'O' :: r => some (.otherOp (String.ofList r))
  | 'I' :: r => some (.ident (String.ofList r))
  | 'N' :: r => some (.number (String.ofList r))
  | 'T' :: r => some (.string (String.ofList r))
  | 'B' :: r => some (.textBlock (String.ofList r))
  | _ => none

def readToken (s : String) : Option Token :=
  match s.splitOn ":" with
  | [k, a, b] => do pure ⟨← readTokKind k, ⟨← a.toNat?, ← b.toNat?⟩⟩
  | _ => none

def readTokens (s : String) : Option (List Token) :=
  if s == "-" then some [] else (s.splitOn ",").mapM readToken

def showTokens (l : List Token) : String :=
  if l.isEmpty then "-" else ",".intercalate (l.map Token.show)

/-- `parse toks <tokens>` → `ast=..` | `err=..` | `fault=..` | `bad-token-spans`;
    `parse print <tree> <min|full>` → `toks=<tokens> text=<hex>`;
    `parse erase <tree>` → the tree without spans and `Paren` nodes. -/
def handle (args : List String) : Option String :=
  match args with
  | ["toks", ts] => do
    let toks ← readTokens ts
    if spansOrdered toks then pure (parse toks).show else pure "bad-token-spans"
  | ["print", tree, mode] => do
    let e ← readExpr tree
    let ks ← (if mode == "min" then some (printMin e) else if mode == "full" then some (printFull e)
              else none)
    let (toks, text) ← layout ks
    pure ("toks=" ++ showTokens toks ++ " text=" ++ hexEnc text)
  | ["erase", tree] => do
    let e ← readExpr tree
    pure (serExpr e.erase)
  | _ => none

end Rsj.Parser
