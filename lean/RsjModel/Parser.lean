/-
  Model module `Parser` (driver op `parse`). Import-free apart from RsjModel.* modules.
-/
import RsjModel.Util
namespace Rsj.Parser

/-- `parse <args...>` : one canonical answer line, or `none` for a malformed request. -/
def handle (_args : List String) : Option String := none

end Rsj.Parser
