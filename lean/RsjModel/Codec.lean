/-
  Model module `Codec` (driver op `codec`): the parsing / encoding builtins of
  `rsjsonnet-lang/src/program/eval/{mod.rs,stdlib.rs,manifest.rs}` (property C20).

  * `parse_num_radix` (std.parseOctal / std.parseHex, YAML 0o / 0x scalars) and
    the decimal path of `std.parseInt`;
  * `encode_base64` / `decode_base64`;
  * `std.encodeUTF8` (string -> bytes) and `String::from_utf8_lossy`
    (`std.decodeUTF8`);
  * `std.escapeStringBash/Dollars/XML/Json/Python`;
  * `hash_to_hex_string`.

  Strings are lists of Unicode scalar values (`Nat`), byte arrays are lists of
  `Nat` below 256.  Import-free apart from RsjModel.Util.
-/
import RsjModel.Util
namespace Rsj.Codec

/-- Unicode scalar value (what a Rust `char` can hold). -/
def Scalar (c : Nat) : Prop := c < 0xD800 ∨ (0xE000 ≤ c ∧ c < 0x110000)

instance (c : Nat) : Decidable (Scalar c) := by unfold Scalar; exact inferInstance

/-! ## Base64 (`encode_base64`, `decode_base64`) -/

/-- `encmap`: `b"ABCDEFGHIJKLMNOPQRSTUVWXYZabcdefghijklmnopqrstuvwxyz0123456789+/"`. -/
def encMap : List Nat :=
  [65, 66, 67, 68, 69, 70, 71, 72, 73, 74, 75, 76, 77, 78, 79, 80, 81, 82, 83, 84, 85, 86, 87, 88, 89, 90,
   97, 98, 99, 100, 101, 102, 103, 104, 105, 106, 107, 108, 109, 110, 111, 112, 113, 114, 115, 116, 117,
   118, 119, 120, 121, 122,
   48, 49, 50, 51, 52, 53, 54, 55, 56, 57, 43, 47]

/-- `encmap[i]`; `none` is the slice-index panic. -/
def encIdx (i : Nat) : Option Nat := encMap[i]?

/-- `'='` -/
def PAD : Nat := 61

/-- `encode_base64` over an iterator of bytes; `none` = index panic (never
    reached for bytes, see `C20_base64_encode_total`). -/
def encode : List Nat → Option (List Nat)
  | [] => some []
  | [b0] => do
    let c0 ← encIdx (b0 >>> 2)
    let c1 ← encIdx ((b0 &&& 3) <<< 4)
    pure [c0, c1, PAD, PAD]
  | [b0, b1] => do
    let c0 ← encIdx (b0 >>> 2)
    let c1 ← encIdx (((b0 &&& 3) <<< 4) ||| (b1 >>> 4))
    let c2 ← encIdx ((b1 &&& 15) <<< 2)
    pure [c0, c1, c2, PAD]
  | b0 :: b1 :: b2 :: rest => do
    let c0 ← encIdx (b0 >>> 2)
    let c1 ← encIdx (((b0 &&& 3) <<< 4) ||| (b1 >>> 4))
    let c2 ← encIdx (((b1 &&& 15) <<< 2) ||| (b2 >>> 6))
    let c3 ← encIdx (b2 &&& 63)
    let r ← encode rest
    pure (c0 :: c1 :: c2 :: c3 :: r)

inductive B64Err where
  | length
  | badChar (c : Nat)
  | codepoint
  | panic
deriving Repr, DecidableEq

/-- `std.base64(str)`: every code point must fit a byte. -/
def encodeStr (s : List Nat) : Except B64Err (List Nat) :=
  if s.all (· < 256) then
    match encode s with
    | some r => .ok r
    | none => .error .panic
  else .error .codepoint

/-- `chr_to_index` -/
def chrToIndex (c : Nat) : Except B64Err Nat :=
  if 65 ≤ c ∧ c ≤ 90 then .ok (c - 65)
  else if 97 ≤ c ∧ c ≤ 122 then .ok (c - 97 + 26)
  else if 48 ≤ c ∧ c ≤ 57 then .ok (c - 48 + 52)
  else if c = 43 then .ok 62
  else if c = 47 then .ok 63
  else .error (.badChar c)

/-- u8 arithmetic of the decoder: `<<` drops the bits shifted out of the byte. -/
def out0 (i0 i1 : Nat) : Nat := ((i0 <<< 2) % 256) ||| (i1 >>> 4)
def out1 (i1 i2 : Nat) : Nat := ((i1 <<< 4) % 256) ||| (i2 >>> 2)
def out2 (i2 i3 : Nat) : Nat := ((i2 <<< 6) % 256) ||| i3

/-- The last chunk (`chunks.next_back()`), with the three padding cases. -/
def decodeLast (c0 c1 c2 c3 : Nat) : Except B64Err (List Nat) := do
  let i0 ← chrToIndex c0
  let i1 ← chrToIndex c1
  if c2 = PAD ∧ c3 = PAD then
    pure [out0 i0 i1]
  else if c3 = PAD then do
    let i2 ← chrToIndex c2
    pure [out0 i0 i1, out1 i1 i2]
  else do
    let i2 ← chrToIndex c2
    let i3 ← chrToIndex c3
    pure [out0 i0 i1, out1 i1 i2, out2 i2 i3]

/-- A chunk that is not the last one. -/
def decodeFull (c0 c1 c2 c3 : Nat) : Except B64Err (List Nat) := do
  let i0 ← chrToIndex c0
  let i1 ← chrToIndex c1
  let i2 ← chrToIndex c2
  let i3 ← chrToIndex c3
  pure [out0 i0 i1, out1 i1 i2, out2 i2 i3]

/-- The chunk loop (non-last chunks in order, then the last chunk). -/
def decodeChunks : List Nat → Except B64Err (List Nat)
  | [] => .ok []
  | [c0, c1, c2, c3] => decodeLast c0 c1 c2 c3
  | c0 :: c1 :: c2 :: c3 :: rest => do
    let a ← decodeFull c0 c1 c2 c3
    let b ← decodeChunks rest
    pure (a ++ b)
  | _ => .error .length

/-- `decode_base64` -/
def decode (cs : List Nat) : Except B64Err (List Nat) :=
  if cs.length % 4 ≠ 0 then .error .length else decodeChunks cs

/-! ## `parse_num_radix`, `std.parseInt` -/

inductive Radix where
  | oct | hex
deriving Repr, DecidableEq

def Radix.base : Radix → Nat
  | .oct => 8
  | .hex => 16

/-- `max_digits_128` -/
def Radix.maxDigits : Radix → Nat
  | .oct => 128 / 3
  | .hex => 128 / 4

/-- bits per digit -/
def Radix.bits : Radix → Nat
  | .oct => 3
  | .hex => 4

/-- `char::to_digit(RADIX)` (contract: `0-9`, and `a-f` / `A-F` for radix 16). -/
def toDigit (r : Radix) (c : Nat) : Option Nat :=
  if 48 ≤ c ∧ c ≤ 57 then (if c - 48 < r.base then some (c - 48) else none)
  else match r with
    | .oct => none
    | .hex =>
      if 97 ≤ c ∧ c ≤ 102 then some (c - 87)
      else if 65 ≤ c ∧ c ≤ 70 then some (c - 55)
      else none

inductive RErr where
  | empty
  | invalidDigit (c : Nat)
  | overflow
  /-- arithmetic overflow of the `u128` accumulator / slice panic -/
  | panic
deriving Repr, DecidableEq

def U128 : Nat := 2 ^ 128

/-- `s.trim_start_matches('0')` -/
def trimZeros (s : List Nat) : List Nat := s.dropWhile (· == 48)

/-- First loop: `for chr in chars.by_ref().take(max_digits_128)`.
    Returns the accumulator and the characters not consumed. -/
def windowLoop (r : Radix) : Nat → List Nat → Nat → Except RErr (Nat × List Nat)
  | 0, cs, acc => .ok (acc, cs)
  | _ + 1, [], acc => .ok (acc, [])
  | n + 1, c :: cs, acc =>
    match toDigit r c with
    | none => .error (.invalidDigit c)
    | some d =>
      let acc' := acc * r.base + d
      if acc' ≥ U128 then .error .panic else windowLoop r n cs acc'

/-- Second loop: sticky bit and number of extra digits. -/
def tailLoop (r : Radix) : List Nat → Bool → Nat → Except RErr (Bool × Nat)
  | [], st, k => .ok (st, k)
  | c :: cs, st, k =>
    match toDigit r c with
    | none => .error (.invalidDigit c)
    | some d => tailLoop r cs (st || d != 0) (k + 1)

/-- Round a natural number to 53 significant bits, ties to even (the exact
    value of the nearest double when the exponent range is ignored). -/
def roundNE (n : Nat) : Nat :=
  let len := n.log2 + 1
  if len ≤ 53 then n
  else
    let sh := len - 53
    let q := n / 2 ^ sh
    let rem := n % 2 ^ sh
    let half := 2 ^ (sh - 1)
    let q' := if rem > half ∨ (rem = half ∧ q % 2 = 1) then q + 1 else q
    q' * 2 ^ sh

/-- Largest finite double `(2^53 - 1) * 2^971`. -/
def maxFinite : Nat := (2 ^ 53 - 1) * 2 ^ 971

/-- A non-negative `f64` that is an integer or `+inf`. -/
inductive F64 where
  | fin (v : Nat)
  | inf
deriving Repr, DecidableEq

/-- `x * f64::from(RADIX)` for a power-of-two radix: exact unless it overflows. -/
def F64.mulRadix (x : F64) (b : Nat) : F64 :=
  match x with
  | .inf => .inf
  | .fin v => if v * b ≤ maxFinite then .fin (v * b) else .inf

/-- `for _ in 0..num_extra_digits { number *= RADIX }` -/
def mulLoop (b : Nat) : Nat → F64 → F64
  | 0, x => x
  | k + 1, x => mulLoop b k (x.mulRadix b)

/-- `parse_num_radix::<RADIX>`: the exact value of the resulting double. -/
def parseNumRadix (r : Radix) (s : List Nat) : Except RErr Nat :=
  if s.isEmpty then .error .empty
  else
    match windowLoop r r.maxDigits (trimZeros s) 0 with
    | .error e => .error e
    | .ok (number, rest) =>
      match tailLoop r rest false 0 with
      | .error e => .error e
      | .ok (sticky, extra) =>
        let number := if sticky then number ||| 1 else number
        -- `number as f64`: u128 -> f64 rounds to nearest, ties to even
        match mulLoop r.base extra (.fin (roundNE number)) with
        | .inf => .error .overflow
        | .fin v => .ok v

/-- First character that is not an ASCII digit. -/
def firstNonDigit : List Nat → Option Nat
  | [] => none
  | c :: cs => if 48 ≤ c ∧ c ≤ 57 then firstNonDigit cs else some c

/-- Value of a string of ASCII decimal digits. -/
def decValue (cs : List Nat) : Nat := cs.foldl (fun a c => a * 10 + (c - 48)) 0

/-- `do_std_parse_int`: (negative?, exact value of the double).  The decimal
    conversion is `str::parse::<f64>`, which is correctly rounded (trusted). -/
def parseInt (s : List Nat) : Except RErr (Bool × Nat) :=
  let neg := s.head? == some 45
  let sub := if neg then s.drop 1 else s
  if sub.isEmpty then .error .empty
  else match firstNonDigit sub with
    | some c => .error (.invalidDigit c)
    | none =>
      let v := roundNE (decValue sub)
      if v ≤ maxFinite then .ok (neg, v) else .error .overflow

/-- IEEE-754 binary64 bit pattern of a non-negative integer that is exactly
    representable (driver output only). -/
def toBits (v : Nat) : Nat :=
  if v = 0 then 0
  else
    let e := v.log2
    let mant := if e ≥ 52 then v >>> (e - 52) else v <<< (52 - e)
    (e + 1023) * 2 ^ 52 + (mant - 2 ^ 52)

/-! ## UTF-8 -/

/-- `char::encode_utf8` -/
def encodeScalar (c : Nat) : List Nat :=
  if c < 0x80 then [c]
  else if c < 0x800 then [0xC0 + c / 64, 0x80 + c % 64]
  else if c < 0x10000 then [0xE0 + c / 4096, 0x80 + c / 64 % 64, 0x80 + c % 64]
  else [0xF0 + c / 262144, 0x80 + c / 4096 % 64, 0x80 + c / 64 % 64, 0x80 + c % 64]

/-- `std.encodeUTF8`: the bytes of the string. -/
def encodeUtf8 (s : List Nat) : List Nat := s.flatMap encodeScalar

def isCont (b : Nat) : Bool := 0x80 ≤ b && b ≤ 0xBF

/-- Second byte allowed after a three-byte lead (`Utf8Chunks::next`). -/
def second3 (b c : Nat) : Bool :=
  if b = 0xE0 then 0xA0 ≤ c && c ≤ 0xBF
  else if b = 0xED then 0x80 ≤ c && c ≤ 0x9F
  else 0x80 ≤ c && c ≤ 0xBF

/-- Second byte allowed after a four-byte lead. -/
def second4 (b c : Nat) : Bool :=
  if b = 0xF0 then 0x90 ≤ c && c ≤ 0xBF
  else if b = 0xF4 then 0x80 ≤ c && c ≤ 0x8F
  else 0x80 ≤ c && c ≤ 0xBF

def REPL : Nat := 0xFFFD

/-- One step of `Utf8Chunks`: the scalar produced (U+FFFD for an invalid
    chunk) and the number of bytes consumed (≥ 1). -/
def lossyStep (b : Nat) (rest : List Nat) : Nat × Nat :=
  if b < 0x80 then (b, 1)
  else if 0xC2 ≤ b ∧ b ≤ 0xDF then
    match rest with
    | c1 :: _ => if isCont c1 then ((b - 0xC0) * 64 + (c1 - 0x80), 2) else (REPL, 1)
    | [] => (REPL, 1)
  else if 0xE0 ≤ b ∧ b ≤ 0xEF then
    match rest with
    | c1 :: rest1 =>
      if second3 b c1 then
        match rest1 with
        | c2 :: _ =>
          if isCont c2 then ((b - 0xE0) * 4096 + (c1 - 0x80) * 64 + (c2 - 0x80), 3) else (REPL, 2)
        | [] => (REPL, 2)
      else (REPL, 1)
    | [] => (REPL, 1)
  else if 0xF0 ≤ b ∧ b ≤ 0xF4 then
    match rest with
    | c1 :: rest1 =>
      if second4 b c1 then
        match rest1 with
        | c2 :: rest2 =>
          if isCont c2 then
            match rest2 with
            | c3 :: _ =>
              if isCont c3 then
                ((b - 0xF0) * 262144 + (c1 - 0x80) * 4096 + (c2 - 0x80) * 64 + (c3 - 0x80), 4)
              else (REPL, 3)
            | [] => (REPL, 3)
          else (REPL, 2)
        | [] => (REPL, 2)
      else (REPL, 1)
    | [] => (REPL, 1)
  else (REPL, 1)

/-- `String::from_utf8_lossy` as a list of scalar values; `fuel` bounds the
    number of chunks (one per byte is enough). -/
def decodeLossyFuel : Nat → List Nat → List Nat
  | 0, _ => []
  | _ + 1, [] => []
  | fuel + 1, b :: rest =>
    let (c, n) := lossyStep b rest
    c :: decodeLossyFuel fuel ((b :: rest).drop n)

def decodeLossy (bs : List Nat) : List Nat := decodeLossyFuel bs.length bs

/-! ## Escapers -/

/-- `std.escapeStringBash` -/
def escBash (s : List Nat) : List Nat :=
  [39] ++ s.flatMap (fun c => if c = 39 then [39, 34, 39, 34, 39] else [c]) ++ [39]

/-- `std.escapeStringDollars`: `s.replace('$', "$$")` -/
def escDollars (s : List Nat) : List Nat :=
  s.flatMap (fun c => if c = 36 then [36, 36] else [c])

/-- `std.escapeStringXML` -/
def escXmlChar (c : Nat) : List Nat :=
  if c = 60 then [38, 108, 116, 59]                    -- &lt;
  else if c = 62 then [38, 103, 116, 59]               -- &gt;
  else if c = 38 then [38, 97, 109, 112, 59]           -- &amp;
  else if c = 34 then [38, 113, 117, 111, 116, 59]     -- &quot;
  else if c = 39 then [38, 97, 112, 111, 115, 59]      -- &apos;
  else [c]

def escXml (s : List Nat) : List Nat := s.flatMap escXmlChar

/-- lowercase hex digit -/
def hexDig (n : Nat) : Nat := if n < 10 then 48 + n else 87 + n

/-- `escape_string_json` (manifest.rs), one character. -/
def escJsonChar (c : Nat) : List Nat :=
  if c = 8 then [92, 98]
  else if c = 9 then [92, 116]
  else if c = 10 then [92, 110]
  else if c = 12 then [92, 102]
  else if c = 13 then [92, 114]
  else if c = 34 then [92, 34]
  else if c = 92 then [92, 92]
  else if c ≤ 0x1F ∨ (0x7F ≤ c ∧ c ≤ 0x9F) then
    [92, 117, hexDig (c / 4096 % 16), hexDig (c / 256 % 16), hexDig (c / 16 % 16), hexDig (c % 16)]
  else [c]

/-- `std.escapeStringJson` = `std.escapeStringPython` -/
def escJson (s : List Nat) : List Nat := [34] ++ s.flatMap escJsonChar ++ [34]

/-- `hash_to_hex_string`: `{byte:02x}` per byte. -/
def hexString (bs : List Nat) : List Nat :=
  bs.flatMap (fun b => [hexDig (b / 16), hexDig (b % 16)])

/-! ## Driver -/

def hex16 (n : Nat) : String :=
  String.ofList ((List.range 16).reverse.map (fun i => Rsj.hexDigit (n / 16 ^ i % 16)))

def showStr (s : List Nat) : String := "ok " ++ Rsj.hexEnc (encodeUtf8 s)

def charHex (c : Nat) : String := Rsj.hexEnc (encodeScalar c)

def showRErr : RErr → String
  | .empty => "err empty"
  | .invalidDigit c => "err digit " ++ charHex c
  | .overflow => "err overflow"
  | .panic => "panic"

def showB64Err : B64Err → String
  | .length => "err length"
  | .badChar c => "err char " ++ charHex c
  | .codepoint => "err codepoint"
  | .panic => "panic"

/-- The string carried by a hex argument (the harness only sends valid UTF-8). -/
def strArg (h : String) : Option (List Nat) := (Rsj.hexDecode h).map decodeLossy

/-- `codec <args...>` : one canonical answer line, or `none` for a malformed request. -/
def handle (args : List String) : Option String :=
  match args with
  | ["b64enc", h] => do
    let bs ← Rsj.hexDecode h
    match encode bs with
    | some r => pure (showStr r)
    | none => pure "panic"
  | ["b64encs", h] => do
    let s ← strArg h
    match encodeStr s with
    | .ok r => pure (showStr r)
    | .error e => pure (showB64Err e)
  | ["b64dec", h] => do
    let s ← strArg h
    match decode s with
    | .ok bs => pure ("ok " ++ Rsj.hexEnc bs)
    | .error e => pure (showB64Err e)
  | ["b64decs", h] => do
    let s ← strArg h
    match decode s with
    | .ok bs => pure (showStr bs)
    | .error e => pure (showB64Err e)
  | ["radix", r, h] => do
    let s ← strArg h
    let rr ← (if r == "8" then some Radix.oct else if r == "16" then some Radix.hex else none)
    match parseNumRadix rr s with
    | .ok v => pure ("ok " ++ hex16 (toBits v))
    | .error e => pure (showRErr e)
  | ["parseint", h] => do
    let s ← strArg h
    match parseInt s with
    | .ok (neg, v) => pure ("ok " ++ hex16 (toBits v + (if neg then 2 ^ 63 else 0)))
    | .error e => pure (showRErr e)
  | ["utf8enc", h] => do
    let s ← strArg h
    pure ("ok " ++ Rsj.hexEnc (encodeUtf8 s))
  | ["utf8dec", h] => do
    let bs ← Rsj.hexDecode h
    pure (showStr (decodeLossy bs))
  | ["esc", kind, h] => do
    let s ← strArg h
    match kind with
    | "bash" => pure (showStr (escBash s))
    | "dollars" => pure (showStr (escDollars s))
    | "xml" => pure (showStr (escXml s))
    | "json" => pure (showStr (escJson s))
    | "python" => pure (showStr (escJson s))
    | _ => none
  | ["hexstr", h] => do
    let bs ← Rsj.hexDecode h
    pure (showStr (hexString bs))
  | _ => none

end Rsj.Codec
