/-
  Model module `Codec` (driver op `codec`). Import-free apart from RsjModel.* modules.
-/
import RsjModel.Util
namespace Rsj.Codec

/-- `codec <args...>` : one canonical answer line, or `none` for a malformed request. -/
def handle (_args : List String) : Option String := none

end Rsj.Codec
