/-
  Model of `rsjsonnet-lang/src/span.rs` (SpanManager, SpanId).
  u64 values are `Nat`; the model is faithful as long as the sum of all
  registered context lengths stays below 2^63 (see DESIGN.md §5 C16).
-/
import RsjModel.Util
namespace Rsj.Span

def OFFSET_BITS : Nat := 38
def OFFSET_MASK : Nat := 2 ^ 38 - 1
def LEN_MAX : Nat := 2 ^ 25 - 1
def TOP : Nat := 2 ^ 63

structure Mgr where
  /-- `contexts[i].0`: cumulative end offsets -/
  ends : List Nat
  /-- `idx_to_span` (`span_to_idx` is its inverse, modelled by search) -/
  interned : List (Nat × Nat × Nat)
deriving Repr, DecidableEq

def Mgr.empty : Mgr := { ends := [], interned := [] }

/-- `insert_context` -/
def Mgr.insertContext (m : Mgr) (len : Nat) : Mgr × Nat :=
  let base := m.ends.getLast?.getD 0
  ({ m with ends := m.ends ++ [base + len + 1] }, m.ends.length)

/-- `get_context_offsets`; `none` models the slice-index panic. -/
def Mgr.contextOffsets (m : Mgr) (i : Nat) : Option (Nat × Nat) :=
  match i with
  | 0 => m.ends[0]?.map (fun e => (0, e))
  | i + 1 =>
    match m.ends[i]?, m.ends[i + 1]? with
    | some a, some b => some (a, b)
    | _, _ => none

/-- Contract of `binary_search_by_key` on a strictly increasing list:
    `Ok i` if `ends[i] = off`, else `Err i` with `i` the insertion point. -/
def binSearch : List Nat → Nat → Nat → Except Nat Nat
  | [], _, i => .error i
  | e :: es, off, i =>
    if e = off then .ok i
    else if off < e then .error i
    else binSearch es off (i + 1)

/-- `get_context_from_offset` -/
def Mgr.contextFromOffset (m : Mgr) (off : Nat) : Nat :=
  match binSearch m.ends off 0 with
  | .ok i => i + 1
  | .error i => i

inductive Expanded where
  | inline (offset len : Nat)
  | interned (i : Nat)
deriving Repr, DecidableEq

/-- `SpanId::expand` -/
def expand (inner : Nat) : Expanded :=
  if inner &&& TOP = 0 then
    .inline ((inner &&& OFFSET_MASK) - 1) (inner >>> OFFSET_BITS)
  else
    .interned (inner - TOP)

def findIdx (l : List (Nat × Nat × Nat)) (x : Nat × Nat × Nat) (i : Nat) : Option Nat :=
  match l with
  | [] => none
  | y :: ys => if y = x then some i else findIdx ys x (i + 1)

inductive Err where
  | badContext | startGtEnd | startOutOfRange | endOutOfRange | badId
deriving Repr, DecidableEq

/-- `intern_span`; errors model the `assert!`s / index panics. -/
def Mgr.internSpan (m : Mgr) (ctx start stop : Nat) : Except Err (Mgr × Nat) :=
  match m.contextOffsets ctx with
  | none => .error .badContext
  | some (minOff, maxOff) =>
    if ¬ start ≤ stop then .error .startGtEnd
    else if ¬ minOff + start < maxOff then .error .startOutOfRange
    else if ¬ minOff + stop < maxOff then .error .endOutOfRange
    else
      let len := stop - start
      let startOff := minOff + start
      if len > LEN_MAX ∨ startOff ≥ OFFSET_MASK then
        match findIdx m.interned (ctx, start, stop) 0 with
        | some i => .ok (m, i ||| TOP)
        | none => .ok ({ m with interned := m.interned ++ [(ctx, start, stop)] },
                       m.interned.length ||| TOP)
      else
        .ok (m, (startOff + 1) ||| (len <<< OFFSET_BITS))

/-- `get_span` -/
def Mgr.getSpan (m : Mgr) (id : Nat) : Except Err (Nat × Nat × Nat) :=
  match expand id with
  | .inline off len =>
    let ctx := m.contextFromOffset off
    match m.contextOffsets ctx with
    | none => .error .badContext
    | some (minOff, _) =>
      let start := off - minOff
      .ok (ctx, start, start + len)
  | .interned i =>
    match m.interned[i]? with
    | some s => .ok s
    | none => .error .badId

/-- `make_surrounding_span` -/
def Mgr.surround (m : Mgr) (a b : Nat) : Except Err (Mgr × Nat) :=
  match m.getSpan a, m.getSpan b with
  | .ok (c1, s1, _), .ok (c2, _, e2) =>
    if c1 ≠ c2 then .error .badContext
    else if ¬ s1 ≤ e2 then .error .startGtEnd
    else m.internSpan c1 s1 e2
  | .error e, _ => .error e
  | _, .error e => .error e

/-! ### `print_stack_trace` cropping (rsjsonnet-front/src/session.rs) -/

/-- What `print_stack_trace` shows for a trace of `n` items under `--max-trace m`:
    `none` = everything; `some (firstStart, firstLen, hidden, secondLen)` = the slice
    `stack[firstStart..]` (innermost frames), a note about `hidden` items, then
    `stack[..secondLen]`. Slice bounds that would panic are not clamped here: the
    theorems show they are in range. -/
def traceCrop (n m : Nat) : Option (Nat × Nat × Nat × Nat) :=
  if n ≤ m then none
  else
    let secondLen := m / 2
    let firstLen := m - secondLen
    some (n - firstLen, firstLen, n - m, secondLen)

/-! ### Line/column of a byte offset (`src_pos_to_line_col` for ASCII prefixes) -/

/-- 1-based line and column of byte offset `pos` in `src`, columns counted in bytes
    (exact for lines whose prefix is printable ASCII without tabs). -/
def lineCol (src : List Nat) (pos : Nat) : Nat × Nat :=
  let pre := src.take pos
  let line := (pre.filter (· = 10)).length + 1
  let col := (pre.reverse.takeWhile (· ≠ 10)).length + 1
  (line, col)

/-! ### Driver: scripts of operations -/

inductive Op where
  | ctx (len : Nat)
  | intern (ctx start stop : Nat)
  | surround (a b : Nat)   -- indices into the list of ids produced so far
deriving Repr

def showErr : Err → String
  | .badContext => "badContext" | .startGtEnd => "startGtEnd"
  | .startOutOfRange => "startOutOfRange" | .endOutOfRange => "endOutOfRange"
  | .badId => "badId"

def showSpan (m : Mgr) (id : Nat) : String :=
  match m.getSpan id with
  | .ok (c, s, e) => s!"{c}:{s}:{e}"
  | .error e => "E" ++ showErr e

def kindOf (id : Nat) : String := if id &&& TOP = 0 then "N" else "I"

/-- Run a script; after each op, report the new id (raw u64) and then
    re-decode every id produced so far (stability observation). -/
def runScript (ops : List Op) : List String :=
  let rec go (ops : List Op) (m : Mgr) (ids : List Nat) (out : List String) : List String :=
    match ops with
    | [] => out.reverse
    | .ctx len :: rest =>
      let (m', c) := m.insertContext len
      go rest m' ids (s!"c{c}[{" ".intercalate (ids.map (showSpan m'))}]" :: out)
    | .intern c s e :: rest =>
      match m.internSpan c s e with
      | .ok (m', id) =>
        let ids' := ids ++ [id]
        go rest m' ids' (s!"i{kindOf id}[{" ".intercalate (ids'.map (showSpan m'))}]" :: out)
      | .error er => go rest m ids (("P" ++ showErr er) :: out)
    | .surround a b :: rest =>
      match ids[a]?, ids[b]? with
      | some ia, some ib =>
        match m.surround ia ib with
        | .ok (m', id) =>
          let ids' := ids ++ [id]
          go rest m' ids' (s!"i{kindOf id}[{" ".intercalate (ids'.map (showSpan m'))}]" :: out)
        | .error er => go rest m ids (("P" ++ showErr er) :: out)
      | _, _ => go rest m ids ("skip" :: out)
  go ops Mgr.empty [] []

def parseOp (s : String) : Option Op :=
  match s.splitOn ":" with
  | ["c", n] => n.toNat?.map Op.ctx
  | ["i", c, s, e] => do pure (Op.intern (← c.toNat?) (← s.toNat?) (← e.toNat?))
  | ["s", a, b] => do pure (Op.surround (← a.toNat?) (← b.toNat?))
  | _ => none

/-- `span <op> <op> ...` -/
def handle (args : List String) : Option String := do
  let ops ← args.mapM parseOp
  pure (";".intercalate (runScript ops))

end Rsj.Span
