/-
  The whole pipeline on SOURCE BYTES: `Program::load_source` (lexer → parser → analysis with
  its AST → IR translation) followed by `eval_value` and manifestation, composed from the stage
  models: `Rsj.Lexer.lexAll` → `Rsj.Parser.parse` → `Rsj.Lower.lower` → `Rsj.Analyze.analyze` →
  `Rsj.Eval.evalProgram`.  Driver op `pipe` (lean/Drv/Pipeline.lean):

    pipe <maxStack> <fuel> <traces 0|1> <hexsrc>
    pipe load <hexsrc>                                   (static stages only: `ok` or the static error)
    pipe hist <maxStack> <fuel> | lib <hexvar> <hexpath> <hexsrc> | src <hexsrc> | req <r> <r> …

  Answer line of the first form = that of op `core` for the evaluation
  (`ok <canonical value>` / `err eval <Kind> <hexdetail>` / `gas` / `unsupported <hex>` /
  `panic <hex>`, then ` T<hex>,…` when traces are asked for), and for the stages before it, in the
  notation of the harness's `eval` op (harness/src/ops_eval.rs `load_err`):
    `err lex <Kind> <hex of start:stop[:detail]>`, `err parse Expected <hex of start:stop;expected;actual>`,
    `err analyze <Kind> <hexname>`, and `unsupported <hex>` when the lowering meets a use of `std`
    the evaluator model does not cover.  A static error has no trace suffix (nothing was evaluated).

  The two token types (`Rsj.Lexer.Token`: bytes / scalar values / digits; `Rsj.Parser.Token`: the
  driver's opaque payload strings) are connected by `convTokens`, which writes payloads that the
  lowering reads back with TOTAL functions (`convKind`: texts as themselves, a number as the decimal
  numeral of the bit pattern of its double), so that no decoding failure exists between the stages.
-/
import RsjModel.Lexer
import RsjModel.Parser
import RsjModel.Lower
import RsjModel.Analyze
import RsjModel.Eval
namespace Rsj.Pipeline
open Rsj.Core (strHex)

/-! ### Lexer tokens → parser tokens -/

def convSTok : Lexer.STok → Parser.STok
  | .Assert => .Assert
  | .Else => .Else
  | .Error => .Error
  | .False => .False_
  | .For => .For
  | .Function => .Function
  | .If => .If
  | .Import => .Import
  | .Importstr => .Importstr
  | .Importbin => .Importbin
  | .In => .In
  | .Local => .Local
  | .Null => .Null
  | .Tailstrict => .Tailstrict
  | .Then => .Then
  | .Self_ => .Self_
  | .Super => .Super
  | .True => .True_
  | .Exclam => .Exclam
  | .ExclamEq => .ExclamEq
  | .Dollar => .Dollar
  | .Percent => .Percent
  | .Amp => .Amp
  | .AmpAmp => .AmpAmp
  | .LeftParen => .LeftParen
  | .RightParen => .RightParen
  | .Asterisk => .Asterisk
  | .Plus => .Plus
  | .PlusColon => .PlusColon
  | .PlusColonColon => .PlusColonColon
  | .PlusColonColonColon => .PlusColonColonColon
  | .Comma => .Comma
  | .Minus => .Minus
  | .Dot => .Dot
  | .Slash => .Slash
  | .Colon => .Colon
  | .ColonColon => .ColonColon
  | .ColonColonColon => .ColonColonColon
  | .Semicolon => .Semicolon
  | .Lt => .Lt
  | .LtLt => .LtLt
  | .LtEq => .LtEq
  | .Eq => .Eq
  | .EqEq => .EqEq
  | .Gt => .Gt
  | .GtEq => .GtEq
  | .GtGt => .GtGt
  | .LeftBracket => .LeftBracket
  | .RightBracket => .RightBracket
  | .Hat => .Hat
  | .LeftBrace => .LeftBrace
  | .Pipe => .Pipe
  | .PipePipe => .PipePipe
  | .RightBrace => .RightBrace
  | .Tilde => .Tilde

/-- the text with these scalar values (identifier / operator bytes are ASCII) -/
def textOf (cs : List Nat) : String := String.ofList (cs.map Char.ofNat)

/-- `none`: whitespace / comment (never in the output of `lexAll _ false`).  Payloads are written so
    that `Rsj.Lower` reads them back with total functions: texts as themselves, a number as the decimal
    numeral of the bit pattern of its double. -/
def convKind : Lexer.Kind → Option Parser.TokKind
  | .eof => some .eof
  | .whitespace => none
  | .comment => none
  | .simple k => some (.simple (convSTok k))
  | .otherOp b => some (.otherOp (textOf b))
  | .ident b => some (.ident (textOf b))
  | .number d e => some (.number (toString (Lower.numBits d e)))
  | .string cs => some (.string (textOf cs))
  | .textBlock cs => some (.textBlock (textOf cs))

def convToken (t : Lexer.Token) : Option Parser.Token :=
  match convKind t.kind with
  | some k => some ⟨k, ⟨t.start, t.stop⟩⟩
  | none => none

def convTokens (ts : List Lexer.Token) : List Parser.Token := ts.filterMap convToken

/-! ### The static stages (`Program::load_source`) -/

/-- Outcome of lexing, parsing, lowering and analysing one source. -/
inductive Front where
  | lexErr (e : Lexer.LexErr)
  /-- a panic site of the lexer / the model's fuel (both unreachable: `C14_lex_total`) -/
  | lexFault (site : String)
  | parseErr (sp : Parser.Span) (expected : List Parser.Expected) (instead : Parser.Actual)
  /-- a panic site of the parser / the model's fuel -/
  | parseFault (f : Parser.Fault)
  | unsupported (msg : String)
  /-- a fault of the lowering: a tree shape the parser never builds (`LowerErr.malformed`; payload decoding
      is total).  Never answered: `C01_front_no_lowering_fault` (RsjProps/C01Pipeline3.lean) -/
  | badPayload (what : String)
  | analyzeErr (e : Analyze.AErr)
  | ok (e : Core.Expr)

/-- `libs`: import path ↦ root-environment variable (histories; empty for a single program);
    `env`: the environment analysis starts from. -/
def front (libs : List (String × String)) (env : Analyze.AEnv) (src : List Nat) : Front :=
  match Lexer.lexAll src false with
  | .err e => .lexErr e
  | .panic s => .lexFault s
  | .fuel => .lexFault "lexer model out of fuel"
  | .ok toks =>
    match Parser.parse (convTokens toks) with
    | .expected sp ex act => .parseErr sp ex act
    | .fault f => .parseFault f
    | .ok ast =>
      match Lower.lowerWith libs ast with
      | .error (.unsupported m) => .unsupported m
      | .error (.badPayload w) => .badPayload w
      | .error (.malformed w) => .badPayload w
      | .ok e =>
        match Analyze.analyze e env with
        | .error er => .analyzeErr er
        | .ok () => .ok e

def lexErrLine (e : Lexer.LexErr) : String :=
  let k := Lexer.showErrKind e.kind
  "err lex " ++ k.1 ++ " " ++
    strHex (toString e.start ++ ":" ++ toString e.stop ++ (match k.2 with | some d => ":" ++ d | none => ""))

/-- the token found, in the notation of the parser driver (`I<hex>` / `O<hex>` for identifiers / unknown operators) -/
def actShow : Parser.Actual → String
  | .otherOp s => "O" ++ strHex s
  | .ident s => "I" ++ strHex s
  | a => a.show

def parseErrLine (sp : Parser.Span) (ex : List Parser.Expected) (act : Parser.Actual) : String :=
  "err parse Expected " ++
    strHex (toString sp.start ++ ":" ++ toString sp.stop ++ ";" ++
      (if ex.isEmpty then "-" else ",".intercalate (ex.map Parser.Expected.show)) ++ ";" ++ actShow act)

/-- The answer line: `k` answers for an accepted program. -/
def Front.answer (f : Front) (k : Core.Expr → String) : String :=
  match f with
  | .lexErr e => lexErrLine e
  | .lexFault s => "panic " ++ strHex s
  | .parseErr sp ex act => parseErrLine sp ex act
  | .parseFault f => "panic " ++ strHex ("parser: " ++ f.show)
  | .unsupported m => "unsupported " ++ strHex m
  | .badPayload w => "panic " ++ strHex ("lowering: bad token payload " ++ w)
  | .analyzeErr er => "err analyze " ++ Analyze.showErr er
  | .ok e => k e

/-! ### One program -/

/-- the answer of op `core` for an accepted program -/
def evalLine (maxStack fuel : Nat) (traces : Bool) (e : Core.Expr) : String :=
  let r := Eval.evalProgram { maxStack := maxStack } fuel e
  r.1 ++ (if traces then Eval.showTraces r.2 else "")

/-- Source bytes in, answer line out. -/
def runSource (maxStack fuel : Nat) (traces : Bool) (src : List Nat) : String :=
  (front [] Analyze.rootEnv src).answer (evalLine maxStack fuel traces)

/-- `load_source` only: `ok` or the static error. -/
def runLoad (src : List Nat) : String :=
  (front [] Analyze.rootEnv src).answer (fun _ => "ok")

/-! ### Histories: libraries + sources + requests against one store -/

/-- All static stages of a list of sources; the first failure is reported with its index. -/
def frontAll (libs : List (String × String)) (env : Analyze.AEnv) :
    List (List Nat) → Nat → Except String (List Core.Expr)
  | [], _ => .ok []
  | s :: rest, i =>
    match front libs env s with
    | .ok e =>
      match frontAll libs env rest (i + 1) with
      | .ok es => .ok (e :: es)
      | .error m => .error m
    | f => .error ("front " ++ toString i ++ " " ++ (f.answer (fun _ => "ok")).replace " " "_")

/-- `libs`: (variable, import path, source).  `import "<path>"` is the variable (the session's import
    cache); every library and source is analysed with `std` and the library variables in scope. -/
def runSourceHist (maxStack fuel : Nat) (libs : List (String × String × List Nat)) (srcs : List (List Nat))
    (reqs : List Eval.Req) : String :=
  let lmap := libs.map (fun l => (l.2.1, l.1))
  let env : Analyze.AEnv := { isObj := false, vars := "std" :: libs.map (·.1) }
  match frontAll lmap env (libs.map (·.2.2)) 0 with
  | .error m => "lib-" ++ m
  | .ok les =>
    match frontAll lmap env srcs 0 with
    | .error m => "src-" ++ m
    | .ok ses => ";".intercalate (Eval.runHistory maxStack fuel ((libs.map (·.1)).zip les) ses reqs)

/-! ### Driver -/

def parseGroups : List (List String) → List (String × String × List Nat) → List (List Nat) → List Eval.Req →
    Option (List (String × String × List Nat) × List (List Nat) × List Eval.Req)
  | [], libs, srcs, reqs => some (libs, srcs, reqs)
  | ["lib", v, p, s] :: rest, libs, srcs, reqs => do
    parseGroups rest (libs ++ [(← Core.hexStr v, ← Core.hexStr p, ← hexDecode s)]) srcs reqs
  | ["src", s] :: rest, libs, srcs, reqs => do parseGroups rest libs (srcs ++ [← hexDecode s]) reqs
  | ("req" :: rs) :: rest, libs, srcs, reqs => do parseGroups rest libs srcs (reqs ++ (← rs.mapM Eval.parseReq))
  | _, _, _, _ => none

def handle (args : List String) : Option String :=
  match args with
  | "hist" :: ms :: fuel :: "|" :: rest => do
    let (libs, srcs, reqs) ← parseGroups (Eval.splitOnBar rest) [] [] []
    pure (runSourceHist (← ms.toNat?) (← fuel.toNat?) libs srcs reqs)
  | ["load", src] => do pure (runLoad (← hexDecode src))
  | [ms, fuel, tr, src] => do
    pure (runSource (← ms.toNat?) (← fuel.toNat?) (tr == "1") (← hexDecode src))
  | _ => none

end Rsj.Pipeline
