/-
  Tokens (`token.rs`) and syntax trees (`ast.rs`) of rsjsonnet, as consumed and
  produced by the parser model (`RsjModel/Parser.lean`, property C15).
  Payloads of identifiers / strings / numbers are opaque to the parser: they are
  kept as the hex text used by the driver protocol.
-/
import RsjModel.Util
namespace Rsj.Parser

/-! ## Tokens -/

/-- `STokenKind` (declaration order of token.rs; the derived `Ord` is this order). -/
inductive STok where
  | Assert | Else | Error | False_ | For | Function | If | Import | Importstr | Importbin | In
  | Local | Null | Tailstrict | Then | Self_ | Super | True_
  | Exclam | ExclamEq | Dollar | Percent | Amp | AmpAmp | LeftParen | RightParen | Asterisk
  | Plus | PlusColon | PlusColonColon | PlusColonColonColon | Comma | Minus | Dot | Slash
  | Colon | ColonColon | ColonColonColon | Semicolon | Lt | LtLt | LtEq | Eq | EqEq | Gt | GtEq
  | GtGt | LeftBracket | RightBracket | Hat | LeftBrace | Pipe | PipePipe | RightBrace | Tilde
deriving DecidableEq, Repr

/-- (constructor, Rust `Debug` name, source text) in declaration order. -/
def STok.table : List (STok × String × String) := [
  (.Assert, "Assert", "assert"), (.Else, "Else", "else"), (.Error, "Error", "error"),
  (.False_, "False", "false"), (.For, "For", "for"), (.Function, "Function", "function"),
  (.If, "If", "if"), (.Import, "Import", "import"), (.Importstr, "Importstr", "importstr"),
  (.Importbin, "Importbin", "importbin"), (.In, "In", "in"), (.Local, "Local", "local"),
  (.Null, "Null", "null"), (.Tailstrict, "Tailstrict", "tailstrict"), (.Then, "Then", "then"),
  (.Self_, "Self_", "self"), (.Super, "Super", "super"), (.True_, "True", "true"),
  (.Exclam, "Exclam", "!"), (.ExclamEq, "ExclamEq", "!="), (.Dollar, "Dollar", "$"),
  (.Percent, "Percent", "%"), (.Amp, "Amp", "&"), (.AmpAmp, "AmpAmp", "&&"),
  (.LeftParen, "LeftParen", "("), (.RightParen, "RightParen", ")"), (.Asterisk, "Asterisk", "*"),
  (.Plus, "Plus", "+"), (.PlusColon, "PlusColon", "+:"), (.PlusColonColon, "PlusColonColon", "+::"),
  (.PlusColonColonColon, "PlusColonColonColon", "+:::"), (.Comma, "Comma", ","),
  (.Minus, "Minus", "-"), (.Dot, "Dot", "."), (.Slash, "Slash", "/"), (.Colon, "Colon", ":"),
  (.ColonColon, "ColonColon", "::"), (.ColonColonColon, "ColonColonColon", ":::"),
  (.Semicolon, "Semicolon", ";"), (.Lt, "Lt", "<"), (.LtLt, "LtLt", "<<"), (.LtEq, "LtEq", "<="),
  (.Eq, "Eq", "="), (.EqEq, "EqEq", "=="), (.Gt, "Gt", ">"), (.GtEq, "GtEq", ">="),
  (.GtGt, "GtGt", ">>"), (.LeftBracket, "LeftBracket", "["), (.RightBracket, "RightBracket", "]"),
  (.Hat, "Hat", "^"), (.LeftBrace, "LeftBrace", "{"), (.Pipe, "Pipe", "|"),
  (.PipePipe, "PipePipe", "||"), (.RightBrace, "RightBrace", "}"), (.Tilde, "Tilde", "~")]

def STok.lookup (k : STok) : List (STok × String × String) → Nat → (Nat × String × String)
  | [], i => (i, "?", "?")
  | (k', n, t) :: rest, i => if k' = k then (i, n, t) else STok.lookup k rest (i + 1)

/-- Position in the enum (= derived `Ord`). -/
def STok.rank (k : STok) : Nat := (STok.lookup k STok.table 0).1
def STok.name (k : STok) : String := (STok.lookup k STok.table 0).2.1
def STok.text (k : STok) : String := (STok.lookup k STok.table 0).2.2

def STok.ofName (s : String) : Option STok :=
  (STok.table.find? (fun e => e.2.1 == s)).map (·.1)

/-- Byte offsets `(start, end)` inside the single source of the parse. -/
structure Span where
  start : Nat
  stop : Nat
deriving DecidableEq, Repr

/-- `TokenKind` without whitespace/comments (the parser's precondition). -/
inductive TokKind where
  | eof
  | simple (k : STok)
  | otherOp (s : String)
  | ident (s : String)
  | number (s : String)
  | string (s : String)
  | textBlock (s : String)
deriving DecidableEq, Repr

structure Token where
  kind : TokKind
  span : Span
deriving DecidableEq, Repr

/-! ## Syntax trees -/

inductive BinaryOp where
  | Add | Sub | Mul | Div | Rem | Shl | Shr | Lt | Le | Gt | Ge | Eq | Ne | In
  | BitwiseAnd | BitwiseOr | BitwiseXor | LogicAnd | LogicOr
deriving DecidableEq, Repr

inductive UnaryOp where
  | Minus | Plus | BitwiseNot | LogicNot
deriving DecidableEq, Repr

inductive Visibility where
  | Default | Hidden | ForceVisible
deriving DecidableEq, Repr

structure Ident where
  value : String
  span : Span
deriving DecidableEq, Repr

mutual
  /-- `ast::Expr` = `ExprKind` + span (last field). -/
  inductive Expr where
    | null (sp : Span)
    | bool (b : Bool) (sp : Span)
    | selfObj (sp : Span)
    | dollar (sp : Span)
    | str (s : String) (sp : Span)
    | textBlock (s : String) (sp : Span)
    | number (n : String) (sp : Span)
    | paren (e : Expr) (sp : Span)
    | object (o : ObjInside) (sp : Span)
    | array (items : List Expr) (sp : Span)
    | arrayComp (e : Expr) (spec : List CompSpec) (sp : Span)
    | field (e : Expr) (name : Ident) (sp : Span)
    | index (e : Expr) (i : Expr) (sp : Span)
    | slice (e : Expr) (i1 i2 i3 : Option Expr) (sp : Span)
    | superField (superSp : Span) (name : Ident) (sp : Span)
    | superIndex (superSp : Span) (i : Expr) (sp : Span)
    | call (f : Expr) (args : List Arg) (tailstrict : Bool) (sp : Span)
    | ident (id : Ident) (sp : Span)
    | local_ (binds : List Bind) (body : Expr) (sp : Span)
    | ite_ (c : Expr) (t : Expr) (e : Option Expr) (sp : Span)
    | binary (l : Expr) (op : BinaryOp) (r : Expr) (sp : Span)
    | unary (op : UnaryOp) (e : Expr) (sp : Span)
    | objExt (e : Expr) (o : ObjInside) (objSp : Span) (sp : Span)
    | func (params : List Param) (body : Expr) (sp : Span)
    | assert_ (a : Assert) (body : Expr) (sp : Span)
    | import_ (e : Expr) (sp : Span)
    | importStr (e : Expr) (sp : Span)
    | importBin (e : Expr) (sp : Span)
    | error_ (e : Expr) (sp : Span)
    | inSuper (e : Expr) (superSp : Span) (sp : Span)
  inductive ObjInside where
    | members (ms : List Member)
    | comp (locals1 : List Bind) (name : Expr) (plus : Bool) (body : Expr)
        (locals2 : List Bind) (spec : List CompSpec)
  inductive Member where
    | local_ (b : Bind)
    | assert_ (a : Assert)
    | field (f : Field)
  inductive Field where
    | value (name : FieldName) (plus : Bool) (vis : Visibility) (e : Expr)
    | func (name : FieldName) (params : List Param) (paramsSp : Span) (vis : Visibility) (e : Expr)
  inductive FieldName where
    | ident (id : Ident)
    | str (s : String) (sp : Span)
    | expr (e : Expr) (sp : Span)
  inductive Assert where
    | mk (sp : Span) (cond : Expr) (msg : Option Expr)
  /-- `params = Some((ps, span))` is `hasParams = true`. -/
  inductive Bind where
    | mk (name : Ident) (hasParams : Bool) (params : List Param) (paramsSp : Span) (value : Expr)
  inductive Arg where
    | positional (e : Expr)
    | named (name : Ident) (e : Expr)
  inductive Param where
    | mk (name : Ident) (default : Option Expr)
  inductive CompSpec where
    | for_ (var : Ident) (inner : Expr)
    | if_ (cond : Expr)
end

def Span.zero : Span := ⟨0, 0⟩

instance : Inhabited Span := ⟨Span.zero⟩
instance : Inhabited Expr := ⟨.null Span.zero⟩

def Expr.span : Expr → Span
  | .null sp | .bool _ sp | .selfObj sp | .dollar sp | .str _ sp | .textBlock _ sp | .number _ sp
  | .paren _ sp | .object _ sp | .array _ sp | .arrayComp _ _ sp | .field _ _ sp | .index _ _ sp
  | .slice _ _ _ _ sp | .superField _ _ sp | .superIndex _ _ sp | .call _ _ _ sp | .ident _ sp
  | .local_ _ _ sp | .ite_ _ _ _ sp | .binary _ _ _ sp | .unary _ _ sp | .objExt _ _ _ sp
  | .func _ _ sp | .assert_ _ _ sp | .import_ _ sp | .importStr _ sp | .importBin _ sp
  | .error_ _ sp | .inSuper _ _ sp => sp

def Assert.span : Assert → Span
  | .mk sp _ _ => sp

/-! ## Names used by the canonical serialisation -/

def BinaryOp.name : BinaryOp → String
  | .Add => "Add" | .Sub => "Sub" | .Mul => "Mul" | .Div => "Div" | .Rem => "Rem" | .Shl => "Shl"
  | .Shr => "Shr" | .Lt => "Lt" | .Le => "Le" | .Gt => "Gt" | .Ge => "Ge" | .Eq => "Eq" | .Ne => "Ne"
  | .In => "In" | .BitwiseAnd => "BitwiseAnd" | .BitwiseOr => "BitwiseOr"
  | .BitwiseXor => "BitwiseXor" | .LogicAnd => "LogicAnd" | .LogicOr => "LogicOr"

def BinaryOp.all : List BinaryOp :=
  [.Add, .Sub, .Mul, .Div, .Rem, .Shl, .Shr, .Lt, .Le, .Gt, .Ge, .Eq, .Ne, .In,
   .BitwiseAnd, .BitwiseOr, .BitwiseXor, .LogicAnd, .LogicOr]

def BinaryOp.ofName (s : String) : Option BinaryOp := BinaryOp.all.find? (fun o => o.name == s)

def UnaryOp.name : UnaryOp → String
  | .Minus => "Minus" | .Plus => "Plus" | .BitwiseNot => "BitwiseNot" | .LogicNot => "LogicNot"

def UnaryOp.all : List UnaryOp := [.Minus, .Plus, .BitwiseNot, .LogicNot]

def UnaryOp.ofName (s : String) : Option UnaryOp := UnaryOp.all.find? (fun o => o.name == s)

def Visibility.code : Visibility → String
  | .Default => "d" | .Hidden => "h" | .ForceVisible => "v"

def Visibility.ofCode (s : String) : Option Visibility :=
  if s == "d" then some .Default else if s == "h" then some .Hidden
  else if s == "v" then some .ForceVisible else none

/-! ## Serialisation: canonical prefix notation `Label@start:end(child,child,...)` -/

def serSpan (sp : Span) : String := "@" ++ toString sp.start ++ ":" ++ toString sp.stop

def serIdent (tag : String) (i : Ident) : String := tag ++ "." ++ i.value ++ serSpan i.span

def joinComma : List String → String
  | [] => ""
  | [x] => x
  | x :: xs => x ++ "," ++ joinComma xs

def node (label : String) (kids : List String) : String :=
  match kids with
  | [] => label
  | _ => label ++ "(" ++ joinComma kids ++ ")"

mutual
  def serExpr : Expr → String
    | .null sp => "Null" ++ serSpan sp
    | .bool b sp => (if b then "True" else "False") ++ serSpan sp
    | .selfObj sp => "Self" ++ serSpan sp
    | .dollar sp => "Dollar" ++ serSpan sp
    | .str s sp => "Str." ++ s ++ serSpan sp
    | .textBlock s sp => "Tb." ++ s ++ serSpan sp
    | .number n sp => "Num." ++ n ++ serSpan sp
    | .paren e sp => node ("Paren" ++ serSpan sp) [serExpr e]
    | .object o sp => node ("Object" ++ serSpan sp) [serObjInside o]
    | .array items sp => node ("Array" ++ serSpan sp) (serExprs items)
    | .arrayComp e spec sp => node ("ArrayComp" ++ serSpan sp) (serExpr e :: serSpecs spec)
    | .field e name sp => node ("Field" ++ serSpan sp) [serExpr e, serIdent "Id" name]
    | .index e i sp => node ("Index" ++ serSpan sp) [serExpr e, serExpr i]
    | .slice e i1 i2 i3 sp =>
      node ("Slice" ++ serSpan sp) [serExpr e, serOptExpr i1, serOptExpr i2, serOptExpr i3]
    | .superField ssp name sp =>
      node ("SuperField" ++ serSpan sp) ["Sp" ++ serSpan ssp, serIdent "Id" name]
    | .superIndex ssp i sp => node ("SuperIndex" ++ serSpan sp) ["Sp" ++ serSpan ssp, serExpr i]
    | .call f args ts sp =>
      node ((if ts then "CallTs" else "Call") ++ serSpan sp) (serExpr f :: serArgs args)
    | .ident i sp => "Ident." ++ i.value ++ serSpan sp
    | .local_ binds body sp => node ("Local" ++ serSpan sp) [node "L" (serBinds binds), serExpr body]
    | .ite_ c t e sp => node ("If" ++ serSpan sp) [serExpr c, serExpr t, serOptExpr e]
    | .binary l op r sp => node ("Bin." ++ op.name ++ serSpan sp) [serExpr l, serExpr r]
    | .unary op e sp => node ("Un." ++ op.name ++ serSpan sp) [serExpr e]
    | .objExt e o osp sp =>
      node ("ObjExt" ++ serSpan sp) [serExpr e, serObjInside o, "Sp" ++ serSpan osp]
    | .func params body sp => node ("Func" ++ serSpan sp) [node "L" (serParams params), serExpr body]
    | .assert_ a body sp => node ("Assert" ++ serSpan sp) [serAssert a, serExpr body]
    | .import_ e sp => node ("Import" ++ serSpan sp) [serExpr e]
    | .importStr e sp => node ("ImportStr" ++ serSpan sp) [serExpr e]
    | .importBin e sp => node ("ImportBin" ++ serSpan sp) [serExpr e]
    | .error_ e sp => node ("Error" ++ serSpan sp) [serExpr e]
    | .inSuper e ssp sp => node ("InSuper" ++ serSpan sp) [serExpr e, "Sp" ++ serSpan ssp]
  def serExprs : List Expr → List String
    | [] => []
    | e :: es => serExpr e :: serExprs es
  def serOptExpr : Option Expr → String
    | none => "None"
    | some e => serExpr e
  def serObjInside : ObjInside → String
    | .members ms => node "Members" (serMembers ms)
    | .comp l1 name plus body l2 spec =>
      node (if plus then "CompPlus" else "Comp")
        [node "L" (serBinds l1), serExpr name, serExpr body, node "L" (serBinds l2),
         node "L" (serSpecs spec)]
  def serMembers : List Member → List String
    | [] => []
    | m :: ms => serMember m :: serMembers ms
  def serMember : Member → String
    | .local_ b => serBind b
    | .assert_ a => serAssert a
    | .field f => serField f
  def serField : Field → String
    | .value name plus vis e =>
      node ("FV." ++ vis.code ++ (if plus then "p" else "n")) [serFieldName name, serExpr e]
    | .func name params psp vis e =>
      node ("FF." ++ vis.code)
        [serFieldName name, node ("Params" ++ serSpan psp) (serParams params), serExpr e]
  def serFieldName : FieldName → String
    | .ident i => serIdent "FnId" i
    | .str s sp => "FnStr." ++ s ++ serSpan sp
    | .expr e sp => node ("FnExpr" ++ serSpan sp) [serExpr e]
  def serAssert : Assert → String
    | .mk sp cond msg => node ("Asrt" ++ serSpan sp) [serExpr cond, serOptExpr msg]
  def serBind : Bind → String
    | .mk name hasParams params psp value =>
      node "Bind" [serIdent "Id" name,
        (if hasParams then node ("Params" ++ serSpan psp) (serParams params) else "None"),
        serExpr value]
  def serBinds : List Bind → List String
    | [] => []
    | b :: bs => serBind b :: serBinds bs
  def serArg : Arg → String
    | .positional e => node "Pos" [serExpr e]
    | .named name e => node "Named" [serIdent "Id" name, serExpr e]
  def serArgs : List Arg → List String
    | [] => []
    | a :: as => serArg a :: serArgs as
  def serParam : Param → String
    | .mk name d => node "Param" [serIdent "Id" name, serOptExpr d]
  def serParams : List Param → List String
    | [] => []
    | p :: ps => serParam p :: serParams ps
  def serSpec : CompSpec → String
    | .for_ v inner => node "For" [serIdent "Id" v, serExpr inner]
    | .if_ c => node "IfSpec" [serExpr c]
  def serSpecs : List CompSpec → List String
    | [] => []
    | s :: ss => serSpec s :: serSpecs ss
end

/-! ## Erasure: forget spans and `Paren` nodes (equality "modulo spans / parentheses") -/

def Ident.erase (i : Ident) : Ident := { i with span := Span.zero }

mutual
  def Expr.erase : Expr → Expr
    | .null _ => .null .zero
    | .bool b _ => .bool b .zero
    | .selfObj _ => .selfObj .zero
    | .dollar _ => .dollar .zero
    | .str s _ => .str s .zero
    | .textBlock s _ => .textBlock s .zero
    | .number n _ => .number n .zero
    | .paren e _ => e.erase
    | .object o _ => .object o.erase .zero
    | .array items _ => .array (eraseExprs items) .zero
    | .arrayComp e spec _ => .arrayComp e.erase (eraseSpecs spec) .zero
    | .field e name _ => .field e.erase name.erase .zero
    | .index e i _ => .index e.erase i.erase .zero
    | .slice e i1 i2 i3 _ => .slice e.erase (eraseOpt i1) (eraseOpt i2) (eraseOpt i3) .zero
    | .superField _ name _ => .superField .zero name.erase .zero
    | .superIndex _ i _ => .superIndex .zero i.erase .zero
    | .call f args ts _ => .call f.erase (eraseArgs args) ts .zero
    | .ident i _ => .ident i.erase .zero
    | .local_ binds body _ => .local_ (eraseBinds binds) body.erase .zero
    | .ite_ c t e _ => .ite_ c.erase t.erase (eraseOpt e) .zero
    | .binary l op r _ => .binary l.erase op r.erase .zero
    | .unary op e _ => .unary op e.erase .zero
    | .objExt e o _ _ => .objExt e.erase o.erase .zero .zero
    | .func params body _ => .func (eraseParams params) body.erase .zero
    | .assert_ a body _ => .assert_ a.erase body.erase .zero
    | .import_ e _ => .import_ e.erase .zero
    | .importStr e _ => .importStr e.erase .zero
    | .importBin e _ => .importBin e.erase .zero
    | .error_ e _ => .error_ e.erase .zero
    | .inSuper e _ _ => .inSuper e.erase .zero .zero
  def eraseExprs : List Expr → List Expr
    | [] => []
    | e :: es => e.erase :: eraseExprs es
  def eraseOpt : Option Expr → Option Expr
    | none => none
    | some e => some e.erase
  def ObjInside.erase : ObjInside → ObjInside
    | .members ms => .members (eraseMembers ms)
    | .comp l1 name plus body l2 spec =>
      .comp (eraseBinds l1) name.erase plus body.erase (eraseBinds l2) (eraseSpecs spec)
  def eraseMembers : List Member → List Member
    | [] => []
    | m :: ms => m.erase :: eraseMembers ms
  def Member.erase : Member → Member
    | .local_ b => .local_ b.erase
    | .assert_ a => .assert_ a.erase
    | .field f => .field f.erase
  def Field.erase : Field → Field
    | .value name plus vis e => .value name.erase plus vis e.erase
    | .func name params _ vis e => .func name.erase (eraseParams params) .zero vis e.erase
  def FieldName.erase : FieldName → FieldName
    | .ident i => .ident i.erase
    | .str s _ => .str s .zero
    | .expr e _ => .expr e.erase .zero
  def Assert.erase : Assert → Assert
    | .mk _ cond msg => .mk .zero cond.erase (eraseOpt msg)
  def Bind.erase : Bind → Bind
    | .mk name hp params _ value => .mk name.erase hp (eraseParams params) .zero value.erase
  def eraseBinds : List Bind → List Bind
    | [] => []
    | b :: bs => b.erase :: eraseBinds bs
  def Arg.erase : Arg → Arg
    | .positional e => .positional e.erase
    | .named name e => .named name.erase e.erase
  def eraseArgs : List Arg → List Arg
    | [] => []
    | a :: as => a.erase :: eraseArgs as
  def Param.erase : Param → Param
    | .mk name d => .mk name.erase (eraseOpt d)
  def eraseParams : List Param → List Param
    | [] => []
    | p :: ps => p.erase :: eraseParams ps
  def CompSpec.erase : CompSpec → CompSpec
    | .for_ v inner => .for_ v.erase inner.erase
    | .if_ c => .if_ c.erase
  def eraseSpecs : List CompSpec → List CompSpec
    | [] => []
    | s :: ss => s.erase :: eraseSpecs ss
end

/-! ## Generic trees: reading the canonical notation back (driver side only) -/

inductive GTree where
  | node (label : String) (span : Option Span) (kids : List GTree)

def isLabelChar (c : Char) : Bool := c != '@' && c != '(' && c != ')' && c != ','

def takeLabel : List Char → List Char → (List Char × List Char)
  | [], acc => (acc.reverse, [])
  | c :: cs, acc => if isLabelChar c then takeLabel cs (c :: acc) else (acc.reverse, c :: cs)

def takeNat : List Char → Nat → Bool → Option (Nat × List Char)
  | [], n, seen => if seen then some (n, []) else none
  | c :: cs, n, seen =>
    if c.isDigit then takeNat cs (n * 10 + (c.toNat - 48)) true
    else if seen then some (n, c :: cs) else none

def takeSpan (cs : List Char) : Option (Option Span × List Char) :=
  match cs with
  | '@' :: r =>
    match takeNat r 0 false with
    | some (a, ':' :: r2) =>
      match takeNat r2 0 false with
      | some (b, r3) => some (some ⟨a, b⟩, r3)
      | none => none
    | _ => none
  | _ => some (none, cs)

mutual
  def readTree : Nat → List Char → Option (GTree × List Char)
    | 0, _ => none
    | fuel + 1, cs =>
      let (lab, r) := takeLabel cs []
      if lab.isEmpty then none else
      match takeSpan r with
      | none => none
      | some (sp, r2) =>
        match r2 with
        | '(' :: ')' :: r3 => some (.node (String.ofList lab) sp [], r3)
        | '(' :: r3 =>
          match readKids fuel r3 [] with
          | some (kids, r4) => some (.node (String.ofList lab) sp kids, r4)
          | none => none
        | _ => some (.node (String.ofList lab) sp [], r2)
  def readKids : Nat → List Char → List GTree → Option (List GTree × List Char)
    | 0, _, _ => none
    | fuel + 1, cs, acc =>
      match readTree fuel cs with
      | none => none
      | some (t, r) =>
        match r with
        | ',' :: r2 => readKids fuel r2 (t :: acc)
        | ')' :: r2 => some ((t :: acc).reverse, r2)
        | _ => none
end

def GTree.read (s : String) : Option GTree :=
  let cs := s.toList
  match readTree (cs.length + 2) cs with
  | some (t, []) => some t
  | _ => none

def labelParts (label : String) : String × String :=
  match label.splitOn "." with
  | [] => ("", "")
  | [a] => (a, "")
  | a :: rest => (a, ".".intercalate rest)

def spOf (o : Option Span) : Span := o.getD Span.zero

def gIdent (tag : String) : GTree → Option Ident
  | .node label sp [] =>
    let (h, p) := labelParts label
    if h == tag then some ⟨p, spOf sp⟩ else none
  | _ => none

def gSpan : GTree → Option Span
  | .node "Sp" sp [] => some (spOf sp)
  | _ => none

mutual
  def gExpr : Nat → GTree → Option Expr
    | 0, _ => none
    | fuel + 1, .node label osp kids =>
      let sp := spOf osp
      let (h, p) := labelParts label
      match h, kids with
      | "Null", [] => some (.null sp)
      | "True", [] => some (.bool true sp)
      | "False", [] => some (.bool false sp)
      | "Self", [] => some (.selfObj sp)
      | "Dollar", [] => some (.dollar sp)
      | "Str", [] => some (.str p sp)
      | "Tb", [] => some (.textBlock p sp)
      | "Num", [] => some (.number p sp)
      | "Ident", [] => some (.ident ⟨p, sp⟩ sp)
      | "Paren", [e] => do pure (.paren (← gExpr fuel e) sp)
      | "Object", [o] => do pure (.object (← gObjInside fuel o) sp)
      | "Array", items => do pure (.array (← gExprs fuel items) sp)
      | "ArrayComp", e :: spec => do pure (.arrayComp (← gExpr fuel e) (← gSpecs fuel spec) sp)
      | "Field", [e, n] => do pure (.field (← gExpr fuel e) (← gIdent "Id" n) sp)
      | "Index", [e, i] => do pure (.index (← gExpr fuel e) (← gExpr fuel i) sp)
      | "Slice", [e, a, b, c] => do
        pure (.slice (← gExpr fuel e) (← gOptExpr fuel a) (← gOptExpr fuel b) (← gOptExpr fuel c) sp)
      | "SuperField", [s, n] => do pure (.superField (← gSpan s) (← gIdent "Id" n) sp)
      | "SuperIndex", [s, i] => do pure (.superIndex (← gSpan s) (← gExpr fuel i) sp)
      | "Call", f :: args => do pure (.call (← gExpr fuel f) (← gArgs fuel args) false sp)
      | "CallTs", f :: args => do pure (.call (← gExpr fuel f) (← gArgs fuel args) true sp)
      | "Local", [.node "L" _ binds, body] => do
        pure (.local_ (← gBinds fuel binds) (← gExpr fuel body) sp)
      | "If", [c, t, e] => do
        pure (.ite_ (← gExpr fuel c) (← gExpr fuel t) (← gOptExpr fuel e) sp)
      | "Bin", [l, r] => do pure (.binary (← gExpr fuel l) (← BinaryOp.ofName p) (← gExpr fuel r) sp)
      | "Un", [e] => do pure (.unary (← UnaryOp.ofName p) (← gExpr fuel e) sp)
      | "ObjExt", [e, o, s] => do
        pure (.objExt (← gExpr fuel e) (← gObjInside fuel o) (← gSpan s) sp)
      | "Func", [.node "L" _ params, body] => do
        pure (.func (← gParams fuel params) (← gExpr fuel body) sp)
      | "Assert", [a, body] => do pure (.assert_ (← gAssert fuel a) (← gExpr fuel body) sp)
      | "Import", [e] => do pure (.import_ (← gExpr fuel e) sp)
      | "ImportStr", [e] => do pure (.importStr (← gExpr fuel e) sp)
      | "ImportBin", [e] => do pure (.importBin (← gExpr fuel e) sp)
      | "Error", [e] => do pure (.error_ (← gExpr fuel e) sp)
      | "InSuper", [e, s] => do pure (.inSuper (← gExpr fuel e) (← gSpan s) sp)
      | _, _ => none
  def gExprs : Nat → List GTree → Option (List Expr)
    | 0, _ => none
    | _ + 1, [] => some []
    | fuel + 1, g :: gs => do pure ((← gExpr fuel g) :: (← gExprs fuel gs))
  def gOptExpr : Nat → GTree → Option (Option Expr)
    | 0, _ => none
    | fuel + 1, g =>
      match g with
      | .node "None" _ [] => some none
      | _ => do pure (some (← gExpr fuel g))
  def gObjInside : Nat → GTree → Option ObjInside
    | 0, _ => none
    | fuel + 1, g =>
      match g with
      | .node "Members" _ ms => do pure (.members (← gMembers fuel ms))
      | .node "Comp" _ [.node "L" _ l1, n, b, .node "L" _ l2, .node "L" _ spec] => do
        pure (.comp (← gBinds fuel l1) (← gExpr fuel n) false (← gExpr fuel b) (← gBinds fuel l2)
          (← gSpecs fuel spec))
      | .node "CompPlus" _ [.node "L" _ l1, n, b, .node "L" _ l2, .node "L" _ spec] => do
        pure (.comp (← gBinds fuel l1) (← gExpr fuel n) true (← gExpr fuel b) (← gBinds fuel l2)
          (← gSpecs fuel spec))
      | _ => none
  def gMembers : Nat → List GTree → Option (List Member)
    | 0, _ => none
    | _ + 1, [] => some []
    | fuel + 1, g :: gs => do pure ((← gMember fuel g) :: (← gMembers fuel gs))
  def gMember : Nat → GTree → Option Member
    | 0, _ => none
    | fuel + 1, g =>
      match g with
      | .node "Bind" _ _ => do pure (.local_ (← gBind fuel g))
      | .node label _ _ =>
        if (labelParts label).1 == "Asrt" then do pure (.assert_ (← gAssert fuel g))
        else do pure (.field (← gField fuel g))
  def gField : Nat → GTree → Option Field
    | 0, _ => none
    | fuel + 1, .node label _ kids =>
      let (h, p) := labelParts label
      match h, kids with
      | "FV", [n, e] =>
        let vis := Visibility.ofCode (String.ofList (p.toList.take 1))
        let plus := String.ofList (p.toList.drop 1)
        if plus == "p" || plus == "n" then do
          pure (.value (← gFieldName fuel n) (plus == "p") (← vis) (← gExpr fuel e))
        else none
      | "FF", [n, .node pl psp params, e] =>
        if pl == "Params" then do
          pure (.func (← gFieldName fuel n) (← gParams fuel params) (spOf psp)
            (← Visibility.ofCode p) (← gExpr fuel e))
        else none
      | _, _ => none
  def gFieldName : Nat → GTree → Option FieldName
    | 0, _ => none
    | fuel + 1, .node label osp kids =>
      let (h, p) := labelParts label
      match h, kids with
      | "FnId", [] => some (.ident ⟨p, spOf osp⟩)
      | "FnStr", [] => some (.str p (spOf osp))
      | "FnExpr", [e] => do pure (.expr (← gExpr fuel e) (spOf osp))
      | _, _ => none
  def gAssert : Nat → GTree → Option Assert
    | 0, _ => none
    | fuel + 1, g =>
      match g with
      | .node "Asrt" osp [c, m] => do pure (.mk (spOf osp) (← gExpr fuel c) (← gOptExpr fuel m))
      | _ => none
  def gBind : Nat → GTree → Option Bind
    | 0, _ => none
    | fuel + 1, g =>
      match g with
      | .node "Bind" _ [n, .node "None" _ [], v] => do
        pure (.mk (← gIdent "Id" n) false [] Span.zero (← gExpr fuel v))
      | .node "Bind" _ [n, .node "Params" psp params, v] => do
        pure (.mk (← gIdent "Id" n) true (← gParams fuel params) (spOf psp) (← gExpr fuel v))
      | _ => none
  def gBinds : Nat → List GTree → Option (List Bind)
    | 0, _ => none
    | _ + 1, [] => some []
    | fuel + 1, g :: gs => do pure ((← gBind fuel g) :: (← gBinds fuel gs))
  def gArgs : Nat → List GTree → Option (List Arg)
    | 0, _ => none
    | _ + 1, [] => some []
    | fuel + 1, g :: gs =>
      match g with
      | .node "Pos" _ [e] => do pure (.positional (← gExpr fuel e) :: (← gArgs fuel gs))
      | .node "Named" _ [n, e] => do
        pure (.named (← gIdent "Id" n) (← gExpr fuel e) :: (← gArgs fuel gs))
      | _ => none
  def gParams : Nat → List GTree → Option (List Param)
    | 0, _ => none
    | _ + 1, [] => some []
    | fuel + 1, g :: gs =>
      match g with
      | .node "Param" _ [n, d] => do
        pure (.mk (← gIdent "Id" n) (← gOptExpr fuel d) :: (← gParams fuel gs))
      | _ => none
  def gSpecs : Nat → List GTree → Option (List CompSpec)
    | 0, _ => none
    | _ + 1, [] => some []
    | fuel + 1, g :: gs =>
      match g with
      | .node "For" _ [n, e] => do
        pure (.for_ (← gIdent "Id" n) (← gExpr fuel e) :: (← gSpecs fuel gs))
      | .node "IfSpec" _ [c] => do pure (.if_ (← gExpr fuel c) :: (← gSpecs fuel gs))
      | _ => none
end

/-- Read an expression in canonical notation (spans optional, default `0:0`). -/
def readExpr (s : String) : Option Expr :=
  match GTree.read s with
  | some g => gExpr (s.length + 2) g
  | none => none

end Rsj.Parser
