/-
  Shared helpers for the line-protocol driver (no proofs depend on these
  except where stated).  Import-free: core Lean only.
-/
namespace Rsj

def hexDigit (n : Nat) : Char :=
  if n < 10 then Char.ofNat (48 + n) else Char.ofNat (87 + n)

def hexOfByte (b : Nat) : List Char := [hexDigit (b / 16 % 16), hexDigit (b % 16)]

def hexEncode (bs : List Nat) : String :=
  String.ofList (bs.flatMap hexOfByte)

def hexVal (c : Char) : Option Nat :=
  let n := c.toNat
  if 48 ≤ n ∧ n ≤ 57 then some (n - 48)
  else if 97 ≤ n ∧ n ≤ 102 then some (n - 87)
  else if 65 ≤ n ∧ n ≤ 70 then some (n - 55)
  else none

def hexDecodeChars : List Char → Option (List Nat)
  | [] => some []
  | [_] => none
  | a :: b :: rest =>
    match hexVal a, hexVal b, hexDecodeChars rest with
    | some x, some y, some r => some ((x * 16 + y) :: r)
    | _, _, _ => none

/-- Decode a hex string ("-" stands for the empty string). -/
def hexDecode (s : String) : Option (List Nat) :=
  if s == "-" then some [] else hexDecodeChars s.toList

def hexEnc (bs : List Nat) : String :=
  if bs.isEmpty then "-" else hexEncode bs

/-- UTF-8 encode a list of scalar values (driver-side helper). -/
def utf8EncodeChar (c : Nat) : List Nat :=
  if c < 0x80 then [c]
  else if c < 0x800 then [0xC0 + c / 64, 0x80 + c % 64]
  else if c < 0x10000 then [0xE0 + c / 4096, 0x80 + c / 64 % 64, 0x80 + c % 64]
  else [0xF0 + c / 262144, 0x80 + c / 4096 % 64, 0x80 + c / 64 % 64, 0x80 + c % 64]

def parseNat? (s : String) : Option Nat := s.toNat?

def parseInt? (s : String) : Option Int := s.toInt?

def parseNatList (s : String) : Option (List Nat) :=
  if s == "-" then some []
  else (s.splitOn ",").mapM (fun x => x.toNat?)

def parseIntList (s : String) : Option (List Int) :=
  if s == "-" then some []
  else (s.splitOn ",").mapM (fun x => x.toInt?)

def showNatList (l : List Nat) : String :=
  if l.isEmpty then "-" else ",".intercalate (l.map toString)

def showIntList (l : List Int) : String :=
  if l.isEmpty then "-" else ",".intercalate (l.map toString)

end Rsj
