/-
  Model module `Object` (driver op `obj`). Import-free apart from RsjModel.* modules.
-/
import RsjModel.Util
namespace Rsj.Object

/-- `obj <args...>` : one canonical answer line, or `none` for a malformed request. -/
def handle (_args : List String) : Option String := none

end Rsj.Object
