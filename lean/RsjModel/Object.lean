/-
  Model of the object-layer algebra of `rsjsonnet-lang/src/program/data.rs`
  (`ObjectData`, `ObjectLayer`, `ObjectField::{Normal,Removed}`, `find_field`,
  `has_field`, `has_visible_field`, `get_fields_order`,
  `get_visible_fields_order`, `extend_object`, `object_with_field_removed`)
  and of the three evaluator entry points that give `self` / `super` their
  meaning (`want_field`, `want_super_field`, `State::InSuper`,
  `PendingThunk::FieldPlus` in `eval/mod.rs`, `eval/expr.rs`).

  Representation.  `ObjectData { self_layer, super_layers }` is the list
  `self_layer :: super_layers` (index 0 = `self_layer`, exactly the `layer_i`
  numbering of `get_layer`).  A layer's `FHashMap` is an association list looked
  up by first match (the analyser / `RepeatedFieldName` make keys unique in the
  implementation).

  Loops.  `find_field` / `has_visible_field` advance an index with
  `layer_i += depth; layer_i += 1` on a `Removed(depth)` marker.  Here the same
  walk is a structural recursion over the remaining layers with a `skip`
  counter (`skip = depth` layers are stepped over, the next one is examined);
  running off the end of `super_layers` (`get(layer_i - 1) == None`) is the `[]`
  case.

  `get_fields_order` folds layer by layer into a `BTreeMap<name, FieldState>`.
  An entry is only ever touched by fields of the same name, so the model runs
  the very same state machine (`foldStep`) once per name (`foldName`) over the
  sorted, duplicate-free set of all names (`names`).

  Field payloads are a tiny expression language, enough to observe late
  binding: a literal, `self.f`, `super.f`, `if 'f' in super then 1 else 0`,
  each optionally in the `+:` form.  `evalAt` mirrors the thunk machinery: a
  thunk is `InProgress` exactly while it is on the evaluation stack, so
  re-entering a `(layer, name)` that is on the stack is `InfiniteRecursion`.
-/
import RsjModel.Util
namespace Rsj.Object

abbrev Name := String

/-- `ast::Visibility` -/
inductive Vis where
  | default | hidden | forceVisible
deriving Repr, DecidableEq

/-- Field body (the `expr` of `ObjectFieldData`). -/
inductive FExpr where
  | lit (n : Int)
  | selfField (f : Name)
  | superField (f : Name)
  /-- `if 'f' in super then 1 else 0` -/
  | inSuper (f : Name)
deriving Repr, DecidableEq

/-- `ObjectField`; `plus` is the `bool` of `expr: Option<(&Expr, bool)>` (`f+: e`). -/
inductive Field where
  | normal (vis : Vis) (plus : Bool) (e : FExpr)
  | removed (depth : Nat)
deriving Repr, DecidableEq

abbrev Layer := List (Name × Field)
/-- index 0 = `self_layer`, then `super_layers` -/
abbrev Obj := List Layer

/-- `layer.fields.get(&name)` -/
def Layer.get (l : Layer) (n : Name) : Option Field := List.lookup n l

/-- `extend_object(lhs, rhs)` (`lhs + rhs`): rhs layers on top of lhs layers. -/
def extend (lhs rhs : Obj) : Obj := rhs ++ lhs

/-- `ObjectData::new_empty()` (`{}`) -/
def empty : Obj := [[]]

/-- `object_with_field_removed`: `Removed(super_layers.len() + 1)`. -/
def removeKey (o : Obj) (k : Name) : Obj := [(k, Field.removed o.length)] :: o

/-! ### find_field / has_field -/

/-- The loop of `find_field` over the remaining layers `ls` (the first of which
    has index `i`), with `skip` layers still to be stepped over. -/
def findFrom : List Layer → Nat → Nat → Name → Option (Nat × Vis × Bool × FExpr)
  | [], _, _, _ => none
  | _ :: ls, skip + 1, i, n => findFrom ls skip (i + 1) n
  | l :: ls, 0, i, n =>
    match l.get n with
    | none => findFrom ls 0 (i + 1) n
    | some (.normal v p e) => some (i, v, p, e)
    | some (.removed d) => findFrom ls d (i + 1) n

/-- `find_field(layer_i, name)` -/
def findField (o : Obj) (start : Nat) (n : Name) : Option (Nat × Vis × Bool × FExpr) :=
  findFrom (o.drop start) 0 start n

/-- `has_field(layer_i, name)` -/
def hasField (o : Obj) (start : Nat) (n : Name) : Bool := (findField o start n).isSome

/-! ### has_visible_field -/

def visFrom : List Layer → Nat → Bool → Name → Bool
  | [], _, found, _ => found
  | _ :: ls, skip + 1, found, n => visFrom ls skip found n
  | l :: ls, 0, found, n =>
    match l.get n with
    | none => visFrom ls 0 found n
    | some (.normal .default _ _) => visFrom ls 0 true n
    | some (.normal .hidden _ _) => false
    | some (.normal .forceVisible _ _) => true
    | some (.removed d) => visFrom ls d found n

/-- `has_visible_field(name)` -/
def hasVisibleField (o : Obj) (n : Name) : Bool := visFrom o 0 false n

/-! ### get_fields_order -/

/-- `FieldState` of `get_fields_order` (`absent` = vacant map entry). -/
inductive FState where
  | absent
  | normal (v : Vis) (skipUntil : Nat)
  | removed (layer : Nat)
deriving Repr, DecidableEq

/-- `field_to_state` -/
def fieldToState (f : Field) (i : Nat) : FState :=
  match f with
  | .normal v _ _ => .normal v 0
  | .removed d => .removed (i + d)

/-- One visit of layer `i` to the map entry of a name (`f` = that layer's
    field of this name, if any). -/
def foldStep (st : FState) (i : Nat) (f : Option Field) : FState :=
  match f with
  | none => st
  | some f =>
    match st with
    | .absent => fieldToState f i
    | .normal .default s =>
      if i > s then
        match f with
        | .normal v _ _ => .normal v 0
        | .removed d => .normal .default (i + d)
      else st
    | .normal _ _ => st
    | .removed r => if i > r then fieldToState f i else st

def foldName : List Layer → Nat → FState → Name → FState
  | [], _, st, _ => st
  | l :: ls, i, st, n => foldName ls (i + 1) (foldStep st i (l.get n)) n

/-- final `filter_map` of `get_fields_order` -/
def FState.vis : FState → Option Vis
  | .normal v _ => some v
  | _ => none

/-- Resulting visibility of name `n` in `o` (`none`: not a field). -/
def finalVis (o : Obj) (n : Name) : Option Vis := (foldName o 0 .absent n).vis

/-- insertion into a sorted duplicate-free list (the `BTreeMap` key set) -/
def sortedInsert (k : Name) : List Name → List Name
  | [] => [k]
  | h :: t => if k < h then k :: h :: t else if k = h then h :: t else h :: sortedInsert k t

def rawNames (o : Obj) : List Name := o.flatMap (fun l => l.map Prod.fst)

/-- key set of the `BTreeMap`, in `SortedInternedStr` order -/
def names (o : Obj) : List Name := (rawNames o).foldr sortedInsert []

/-- `get_fields_order()` -/
def fieldsOrder (o : Obj) : List (Name × Vis) :=
  (names o).filterMap (fun n => (finalVis o n).map (fun v => (n, v)))

/-- `get_visible_fields_order()` -/
def visibleFields (o : Obj) : List Name :=
  (fieldsOrder o).filterMap (fun p => if p.2 ≠ Vis.hidden then some p.1 else none)

/-- `std.length` on an object -/
def objLength (o : Obj) : Nat := (visibleFields o).length

/-! ### evaluation of field bodies (self / super / +:) -/

inductive Err where
  | unknownField (f : Name)        -- `UnknownObjectField`
  | superWithoutSuper              -- `SuperWithoutSuperObject`
  | infiniteRecursion              -- `InfiniteRecursion`
  | fuel                           -- model artefact; never produced with `fuelFor`
deriving Repr, DecidableEq

/-- Body of a field living in layer `li`; `rec start f` forces the field `f`
    looked up from layer `start` of the final object. -/
def evalBody (o : Obj) (rec : Nat → Name → Except Err Int) (li : Nat) : FExpr → Except Err Int
  | .lit k => .ok k
  -- `self.f`: `want_field(self_object, f)` = lookup from layer 0 of the whole object
  | .selfField f => rec 0 f
  -- `super.f`: `want_super_field`
  | .superField f =>
    if li + 1 = o.length then .error .superWithoutSuper else rec (li + 1) f
  -- `'f' in super`: `has_field(layer_i + 1, f)`
  | .inSuper f => .ok (if hasField o (li + 1) f then 1 else 0)

/-- A field thunk: plain body, or `PendingThunk::FieldPlus` (super field
    first, then the body, then `+`; just the body if super has no such field). -/
def evalField (o : Obj) (rec : Nat → Name → Except Err Int) (li : Nat) (n : Name)
    (plus : Bool) (e : FExpr) : Except Err Int :=
  if plus then
    match findField o (li + 1) n with
    | some _ =>
      match rec (li + 1) n with
      | .error er => .error er
      | .ok a =>
        match evalBody o rec li e with
        | .error er => .error er
        | .ok b => .ok (a + b)
    | none => evalBody o rec li e
  else evalBody o rec li e

/-- Force the field `n` looked up from layer `start` of the final object `o`
    (`find_object_field_thunk(object, start, n)` + `DoThunk`).
    `stack` = thunks currently `InProgress`. -/
def evalAt (o : Obj) : Nat → List (Nat × Name) → Nat → Name → Except Err Int
  | 0, _, _, _ => .error .fuel
  | fuel + 1, stack, start, n =>
    match findField o start n with
    | none => .error (.unknownField n)
    | some (li, _, plus, e) =>
      if (li, n) ∈ stack then .error .infiniteRecursion
      else evalField o (evalAt o fuel ((li, n) :: stack)) li n plus e

def fieldCount (o : Obj) : Nat := (o.map List.length).sum

/-- enough fuel: the stack never repeats a `(layer, name)` -/
def fuelFor (o : Obj) : Nat := fieldCount o + 2

/-- value of `o.n` -/
def fieldValue (o : Obj) (n : Name) : Except Err Int := evalAt o (fuelFor o) [] 0 n

/-- Manifestation of a flat object: visible fields in order, first error wins. -/
def manifest (o : Obj) : Except Err (List (Name × Int)) :=
  (visibleFields o).mapM (fun n => (fieldValue o n).map (fun v => (n, v)))

/-! ### Driver -/

inductive OExpr where
  | layer (l : Layer)
  | plus (a b : OExpr)
  | rm (k : Name) (a : OExpr)
deriving Repr

def OExpr.eval : OExpr → Obj
  | .layer l => [l]
  | .plus a b => extend a.eval b.eval
  | .rm k a => removeKey a.eval k

def parseVis : String → Option Vis
  | "d" => some .default | "h" => some .hidden | "v" => some .forceVisible | _ => none

def parseFExpr (s : String) : Option FExpr :=
  match s.toList with
  | 'l' :: r => (String.ofList r).toInt?.map FExpr.lit
  | 's' :: r => some (.selfField (String.ofList r))
  | 'S' :: r => some (.selfField (String.ofList r))    -- `self['f']`, same `want_field`
  | 'u' :: r => some (.superField (String.ofList r))
  | 'U' :: r => some (.superField (String.ofList r))   -- `super['f']` (`State::SuperIndex`), same `want_super_field`
  | 'i' :: r => some (.inSuper (String.ofList r))
  | _ => none

/-- `name:vis:plus:expr` -/
def parseField (s : String) : Option (Name × Field) :=
  match s.splitOn ":" with
  | [n, v, p, e] => do
    let v ← parseVis v
    let p ← (if p == "1" then some true else if p == "0" then some false else none)
    let e ← parseFExpr e
    pure (n, .normal v p e)
  | _ => none

def parseLayer : List String → Layer → Option (Layer × List String)
  | [], _ => none
  | "}" :: rest, acc => some (acc.reverse, rest)
  | t :: rest, acc =>
    match parseField t with
    | some f => parseLayer rest (f :: acc)
    | none => none

/-- prefix-notation object expression; fuel bounds the recursion by the token count -/
def parseOExpr : Nat → List String → Option (OExpr × List String)
  | 0, _ => none
  | _ + 1, [] => none
  | fuel + 1, t :: rest =>
    if t == "{" then
      (parseLayer rest []).map (fun (l, r) => (.layer l, r))
    else if t == "+" then
      match parseOExpr fuel rest with
      | some (a, r1) =>
        match parseOExpr fuel r1 with
        | some (b, r2) => some (.plus a b, r2)
        | none => none
      | none => none
    else if t == "rm" then
      match rest with
      | k :: r0 =>
        match parseOExpr fuel r0 with
        | some (a, r1) => some (.rm k a, r1)
        | none => none
      | [] => none
    else none

def showVis : Vis → String
  | .default => "d" | .hidden => "h" | .forceVisible => "v"

def showErr : Err → String
  | .unknownField f => "Eunk." ++ f
  | .superWithoutSuper => "Enosuper"
  | .infiniteRecursion => "Einf"
  | .fuel => "Efuel"

def showVal : Except Err Int → String
  | .ok v => toString v
  | .error e => showErr e

def b01 (b : Bool) : String := if b then "1" else "0"

/-- Canonical observation of an object against a probe list. -/
def observe (o : Obj) (probes : List Name) : String :=
  let f := ",".intercalate ((fieldsOrder o).map (fun p => p.1 ++ "/" ++ showVis p.2))
  let v := ",".intercalate (visibleFields o)
  let p := ",".intercalate (probes.map (fun n =>
    n ++ ":" ++ b01 (hasField o 0 n) ++ b01 (hasVisibleField o n) ++ b01 (hasField o 0 n)
      ++ ":" ++ showVal (fieldValue o n)))
  let m := match manifest o with
    | .ok kv => "{" ++ ",".intercalate (kv.map (fun (q : Name × Int) => q.1 ++ ":" ++ toString q.2)) ++ "}"
    | .error e => showErr e
  s!"F={f}|V={v}|L={objLength o}|P={p}|M={m}"

/-- `obj <prefix object expression> ? <probe names...>` -/
def handle (args : List String) : Option String := do
  let (e, rest) ← parseOExpr (args.length + 1) args
  match rest with
  | "?" :: probes => pure (observe e.eval probes)
  | _ => none

end Rsj.Object
