/-
  Parameter binding (`check_call_args_generic` in eval/call.rs) as a pure plan:
  which source each parameter takes its value from, or the error reported.
-/
namespace Rsj.Bind

inductive Slot where
  | pos (i : Nat)      -- i-th positional argument
  | named (j : Nat)    -- j-th named argument (in call order)
  | dflt               -- the parameter's default expression
deriving Repr, DecidableEq

inductive BindErr where
  | tooManyCallArgs (numParams : Nat)
  | unknownCallParam (name : String)
  | repeatedCallParam (name : String)
  | callParamNotBound (name : String)
deriving Repr, DecidableEq

/-- index of the first parameter called `n` -/
def paramIndex : List (String × Bool) → String → Option Nat
  | [], _ => none
  | (m, _) :: rest, n => if m = n then some 0 else (paramIndex rest n).map (· + 1)

/-- Assign the named arguments (in call order) to the slots after the positional ones.
    `tmp[k]` is the named argument bound to parameter `npos + k`. -/
def assignNamed (params : List (String × Bool)) (npos : Nat) :
    List String → Nat → List (Option Nat) → Except BindErr (List (Option Nat))
  | [], _, tmp => .ok tmp
  | n :: rest, j, tmp =>
    match paramIndex params n with
    | none => .error (.unknownCallParam n)
    | some pi =>
      if pi < npos then .error (.repeatedCallParam n)
      else
        match tmp[pi - npos]? with
        | some (some _) => .error (.repeatedCallParam n)
        | _ => assignNamed params npos rest (j + 1) (tmp.set (pi - npos) (some j))

/-- Fill the remaining parameters: named argument, else default, else error. -/
def fillRest : List (String × Bool) → List (Option Nat) → Except BindErr (List Slot)
  | [], _ => .ok []
  | (n, hasDefault) :: ps, tmp =>
    match tmp.head? with
    | some (some j) => (fillRest ps tmp.tail).map (Slot.named j :: ·)
    | _ =>
      if hasDefault then (fillRest ps tmp.tail).map (Slot.dflt :: ·)
      else .error (.callParamNotBound n)

/-- `params`: (name, has a default); `npos`: number of positional arguments;
    `named`: names of the named arguments in call order. -/
def bindPlan (params : List (String × Bool)) (npos : Nat) (named : List String) :
    Except BindErr (List Slot) :=
  if npos > params.length then .error (.tooManyCallArgs params.length)
  else
    match assignNamed params npos named 0 (List.replicate (params.length - npos) none) with
    | .error e => .error e
    | .ok tmp =>
      match fillRest (params.drop npos) tmp with
      | .error e => .error e
      | .ok rest => .ok ((List.range npos).map Slot.pos ++ rest)

end Rsj.Bind
