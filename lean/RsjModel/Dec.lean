/-
  Decimal text <-> binary64, over `Nat`/`Int` arithmetic only (property C06).

  * `lexNumber`   : model of `Lexer::lex_number` (rsjsonnet-lang/src/lexer/mod.rs):
                    the state machine over digits / `_` / `.` / `e` with `digits`,
                    `implicit_exp`, `explicit_exp` (checked u64), `ExpOverflow`.
  * `literalValue`: the *specification* of what a literal text denotes (split based,
                    no state machine): a pair `(n, e)` standing for the rational `n * 10^e`.
  * `sciValue`    : value of a decimal text in the grammar of Rust's `f64::from_str`
                    (`[+-] digits [. digits] [e [+-] digits]`), used for the analyzer's
                    re-assembly `"{digits}e{exp}"`, for `std.parseInt`, `std.parseJson`,
                    `std.parseYaml` and for reading back printed numbers.
  * `isNearestEven num den bits`: `bits` (magnitude bit pattern of a binary64, or
                    `INF_BITS` for "overflows") is the IEEE round-to-nearest-even image
                    of the non-negative rational `num / den`.
  * `roundNE`     : computes that bit pattern.
  * `isShortestRT bits text`: `text` reads back as `bits` and no decimal with fewer
                    significant digits does.
-/
import RsjModel.Util
namespace Rsj.Dec

/-! ### digits -/

/-- Value of a big-endian list of decimal digits. -/
def ofDigits (ds : List Nat) : Nat := ds.foldl (fun a d => a * 10 + d) 0

def isDigit (c : Char) : Bool := decide (48 ≤ c.toNat) && decide (c.toNat ≤ 57)

def digitVal (c : Char) : Nat := c.toNat - 48

def digitChar (d : Nat) : Char := Char.ofNat (48 + d)

/-- Big-endian decimal digits of `n` (`[0]` for 0); `fuel` bounds the recursion. -/
def natDigitsAux : Nat → Nat → List Nat → List Nat
  | 0, _, acc => acc
  | fuel + 1, n, acc =>
    if n < 10 then n :: acc else natDigitsAux fuel (n / 10) (n % 10 :: acc)

def natDigits (n : Nat) : List Nat := natDigitsAux (n + 1) n []

/-! ### `lex_number` -/

inductive LexErr where
  | notADigit                       -- the `assert!(chr0.is_ascii_digit())`
  | leadingZero
  | missingDigitAfterUnderscore
  | missingFracDigits
  | missingExpDigits
  | expOverflow
deriving Repr, DecidableEq

inductive St where
  | intDigits (us : Bool)
  | dot
  | fracDigits (us : Bool)
  | exp
  | expSign
  | expDigits (us : Bool)
deriving Repr, DecidableEq

structure Acc where
  /-- `digits` (all integer and fraction digits, in order) -/
  digits : List Nat
  /-- `implicit_exp : isize` (its magnitude is at most the text length) -/
  implicitExp : Int
  /-- `explicit_exp : Option<u64>` (`none` after a checked-arithmetic overflow) -/
  explicitExp : Option Nat
  /-- `explicit_exp_sign` -/
  expNeg : Bool
  leadingZero : Bool
deriving Repr, DecidableEq

def U64_MAX : Nat := 2 ^ 64 - 1
def I64_MAX : Nat := 2 ^ 63 - 1

/-- `e.checked_mul(10).and_then(|e| e.checked_add(d))` -/
def checkedMulAdd (e : Option Nat) (d : Nat) : Option Nat :=
  match e with
  | none => none
  | some e =>
    if e * 10 > U64_MAX then none
    else if e * 10 + d > U64_MAX then none
    else some (e * 10 + d)

inductive Next where
  | cont (st : St) (acc : Acc)   -- the current character was consumed
  | stop                         -- `break` (the character is left in the input)
  | fail (e : LexErr)

/-- One iteration of the `loop` with a character available. -/
def next (st : St) (acc : Acc) (c : Char) : Next :=
  match st with
  | .intDigits us =>
    if isDigit c then
      if acc.digits.length == 1 && acc.leadingZero then .fail .leadingZero
      else .cont (.intDigits false) { acc with digits := acc.digits ++ [digitVal c] }
    else if !us && c == '_' then .cont (.intDigits true) acc
    else if us then .fail .missingDigitAfterUnderscore
    else if c == '.' then .cont .dot acc
    else if c == 'e' || c == 'E' then .cont .exp acc
    else .stop
  | .dot =>
    if isDigit c then
      .cont (.fracDigits false)
        { acc with digits := acc.digits ++ [digitVal c], implicitExp := acc.implicitExp - 1 }
    else .fail .missingFracDigits
  | .fracDigits us =>
    if isDigit c then
      .cont (.fracDigits false)
        { acc with digits := acc.digits ++ [digitVal c], implicitExp := acc.implicitExp - 1 }
    else if !us && c == '_' then .cont (.fracDigits true) acc
    else if us then .fail .missingDigitAfterUnderscore
    else if c == 'e' || c == 'E' then .cont .exp acc
    else .stop
  | .exp =>
    if c == '+' then .cont .expSign acc
    else if c == '-' then .cont .expSign { acc with expNeg := true }
    else if isDigit c then .cont (.expDigits false) { acc with explicitExp := some (digitVal c) }
    else .fail .missingExpDigits
  | .expSign =>
    if isDigit c then .cont (.expDigits false) { acc with explicitExp := some (digitVal c) }
    else .fail .missingExpDigits
  | .expDigits us =>
    if isDigit c then
      .cont (.expDigits false) { acc with explicitExp := checkedMulAdd acc.explicitExp (digitVal c) }
    else if !us && c == '_' then .cont (.expDigits true) acc
    else if us then .fail .missingDigitAfterUnderscore
    else .stop

/-- One iteration of the `loop` at the end of the input (no `eat_*` succeeds). -/
def atEnd (st : St) : Option LexErr :=
  match st with
  | .intDigits us => if us then some .missingDigitAfterUnderscore else none
  | .dot => some .missingFracDigits
  | .fracDigits us => if us then some .missingDigitAfterUnderscore else none
  | .exp => some .missingExpDigits
  | .expSign => some .missingExpDigits
  | .expDigits us => if us then some .missingDigitAfterUnderscore else none

def go (st : St) (acc : Acc) : List Char → Except LexErr (Acc × List Char)
  | [] =>
    match atEnd st with
    | some e => .error e
    | none => .ok (acc, [])
  | c :: rest =>
    match next st acc c with
    | .cont st' acc' => go st' acc' rest
    | .stop => .ok (acc, c :: rest)
    | .fail e => .error e

/-- The computation of `eff_exp` after the loop. -/
def finish (acc : Acc) : Except LexErr Int :=
  match acc.explicitExp with
  | none => .error .expOverflow
  | some e =>
    if e > I64_MAX then .error .expOverflow            -- `i64::try_from(e)`
    else
      let r : Int := if acc.expNeg then acc.implicitExp - (e : Int) else acc.implicitExp + (e : Int)
      if r < -((2 : Int) ^ 63) ∨ r > (2 : Int) ^ 63 - 1 then .error .expOverflow   -- checked_sub / checked_add
      else .ok r

/-- `lex_number`: the input starts at the first digit; answer = `(digits, exp, rest)`. -/
def lexNumber : List Char → Except LexErr (List Nat × Int × List Char)
  | [] => .error .notADigit
  | c0 :: rest =>
    if !isDigit c0 then .error .notADigit
    else
      let acc0 : Acc :=
        { digits := [digitVal c0], implicitExp := 0, explicitExp := some 0,
          expNeg := false, leadingZero := c0 == '0' }
      match go (.intDigits false) acc0 rest with
      | .error e => .error e
      | .ok (acc, rest') =>
        match finish acc with
        | .error e => .error e
        | .ok e => .ok (acc.digits, e, rest')

/-! ### specification of a literal's value (no state machine) -/

def digitsOf (cs : List Char) : List Nat := cs.map digitVal

/-- Split at the first character satisfying `p` (which is dropped). -/
def splitAtFirst (p : Char → Bool) : List Char → List Char × Option (List Char)
  | [] => ([], none)
  | c :: cs =>
    if p c then ([], some cs)
    else
      let (a, b) := splitAtFirst p cs
      (c :: a, b)

def isE (c : Char) : Bool := c == 'e' || c == 'E'

/-- Signed value of an exponent part `[+-] digits`. -/
def expPartValue : List Char → Int
  | '-' :: ds => -((ofDigits (digitsOf ds) : Nat) : Int)
  | '+' :: ds => ((ofDigits (digitsOf ds) : Nat) : Int)
  | ds => ((ofDigits (digitsOf ds) : Nat) : Int)

/-- Unsigned decimal text `int [. frac] [e [+-] exp]` (no underscores) ↦ `(n, e)` meaning `n * 10^e`. -/
def plainValue (t : List Char) : Nat × Int :=
  let (mant, expPart) := splitAtFirst isE t
  let (ip, fpo) := splitAtFirst (· == '.') mant
  let fp := fpo.getD []
  let e : Int := match expPart with
    | none => 0
    | some ep => expPartValue ep
  (ofDigits (digitsOf (ip ++ fp)), e - (fp.length : Int))

/-- **Specification.** The rational `n * 10^e` denoted by a Jsonnet number literal:
    underscores are ignored, the digits of integer and fraction part are read as one
    integer, scaled by the explicit exponent minus the number of fraction digits. -/
def literalValue (text : List Char) : Nat × Int :=
  plainValue (text.filter (· != '_'))

/-- The analyzer's re-assembly `format!("{}e{}", digits, exp)`. -/
def reassemble (ds : List Nat) (e : Int) : List Char :=
  ds.map digitChar ++ ['e'] ++ (if e < 0 then ['-'] else []) ++ (natDigits e.natAbs).map digitChar

/-- Grammar check for `sciValue`: `[+-] (digits [. digits*] | . digits+) [e [+-] digits+]`. -/
def allDigits (cs : List Char) : Bool := cs.all isDigit

/-- shape of an exponent part: `[+-] digits+` -/
def expShapeOk : List Char → Bool
  | '-' :: ds => !ds.isEmpty && allDigits ds
  | '+' :: ds => !ds.isEmpty && allDigits ds
  | ds => !ds.isEmpty && allDigits ds

def sciShapeOk (t : List Char) : Bool :=
  let (mant, expPart) := splitAtFirst isE t
  let (ip, fpo) := splitAtFirst (· == '.') mant
  let mantOk :=
    match fpo with
    | none => !ip.isEmpty && allDigits ip
    | some fp => allDigits ip && allDigits fp && !(ip.isEmpty && fp.isEmpty)
  let expOk :=
    match expPart with
    | none => true
    | some ep => expShapeOk ep
  mantOk && expOk

/-- optional sign of a decimal text -/
def stripSign : List Char → Bool × List Char
  | '-' :: r => (true, r)
  | '+' :: r => (false, r)
  | r => (false, r)

/-- Value of a decimal text accepted by Rust's `f64::from_str` (sign, `n`, `e`). -/
def sciValue (t : List Char) : Option (Bool × Nat × Int) :=
  let sb := stripSign t
  if sciShapeOk sb.2 then some (sb.1, (plainValue sb.2).1, (plainValue sb.2).2)
  else none

/-! ### binary64 bit patterns (magnitude part: 63 bits) -/

def INF_BITS : Nat := 0x7FF0000000000000
def NAN_BITS : Nat := 0x7FF8000000000000
def SIGN_BIT : Nat := 2 ^ 63

/-- `2^1075 ·` value of the non-negative double with magnitude bits `b`
    (`b = INF_BITS` stands for `2^1024`, the first value beyond the finite range). -/
def scaled (b : Nat) : Nat :=
  let eb := b / 2 ^ 52
  let fr := b % 2 ^ 52
  if eb = 0 then 2 * fr else (2 ^ 52 + fr) * 2 ^ eb

/-- Twice the midpoint between the doubles `b` and `b + 1` (same unit). -/
def midSum (b : Nat) : Nat := scaled b + scaled (b + 1)

/-- **Specification.** `bits ≤ INF_BITS` is the round-to-nearest, ties-to-even image of
    `num / den ≥ 0`; `INF_BITS` = the rounded value is not finite (overflow). -/
def isNearestEven (num den bits : Nat) : Bool :=
  decide (0 < den) && decide (bits ≤ INF_BITS) &&
  (let n2 := 2 * (num * 2 ^ 1075)
   let even := bits % 2 == 0
   (bits == 0 ||
      (if even then decide (midSum (bits - 1) * den ≤ n2) else decide (midSum (bits - 1) * den < n2))) &&
   (bits == INF_BITS ||
      (if even then decide (n2 ≤ midSum bits * den) else decide (n2 < midSum bits * den))))

/-- Largest `b ≤ INF_BITS` whose value is `≤ num / den`. -/
def floorBits (num den : Nat) : Nat :=
  let t := num * 2 ^ 1075 / den
  if t < 2 ^ 53 then t / 2
  else
    let eb := t.log2 - 52
    if eb ≥ 2047 then INF_BITS else eb * 2 ^ 52 + (t / 2 ^ eb - 2 ^ 52)

/-- Round `num / den` to the nearest double (ties to even). -/
def roundNE (num den : Nat) : Nat :=
  let b := floorBits num den
  if isNearestEven num den b then b else b + 1

/-- Number of decimal digits of `n` (0 for 0). -/
def numDigits (n : Nat) : Nat := if n = 0 then 0 else (natDigits n).length

/-- Round `n * 10^e`; very large / very small exponents are decided without building
    the power of ten (`n ≥ 1`, `e > 400` overflows; `n · 10^e < 10^-400` rounds to 0). -/
def roundDec (n : Nat) (e : Int) : Nat :=
  if n = 0 then 0
  else if e > 400 then INF_BITS
  else if e + (numDigits n : Int) < -400 then 0
  else if e ≥ 0 then roundNE (n * 10 ^ e.toNat) 1
  else roundNE n (10 ^ (-e).toNat)

/-- The rational `n · 10^e` as a fraction `(num, den)`. -/
def decFrac (n : Nat) (e : Int) : Nat × Nat :=
  if e ≥ 0 then (n * 10 ^ e.toNat, 1) else (n, 10 ^ (-e).toNat)

/-- `(mant, sh)` with value `mant · 2^(sh - 1074)` for finite magnitude bits. -/
def decodeMag (b : Nat) : Nat × Nat :=
  let eb := b / 2 ^ 52 % 2048
  let fr := b % 2 ^ 52
  if eb = 0 then (fr, 0) else (2 ^ 52 + fr, eb - 1)

/-! ### shortest round-trip text -/

/-- Strip trailing zeros of `n > 0`, counting them. -/
def stripZerosAux : Nat → Nat → Nat → Nat × Nat
  | 0, n, k => (n, k)
  | fuel + 1, n, k => if n % 10 = 0 ∧ n ≠ 0 then stripZerosAux fuel (n / 10) (k + 1) else (n, k)

def stripZeros (n : Nat) : Nat × Nat := stripZerosAux (n + 1) n 0

/-- **Specification.** `text` (in `sciValue` grammar) denotes a decimal whose nearest
    double is `bits` (sign included), and no decimal with fewer significant digits has
    `bits` as its nearest double. -/
def isShortestRT (bits : Nat) (text : List Char) : Bool :=
  match sciValue text with
  | none => false
  | some (neg, n, e) =>
    let sign := bits / SIGN_BIT
    let mag := bits % SIGN_BIT
    decide (sign = (if neg then 1 else 0)) && decide (mag < INF_BITS) &&
    (if n = 0 then mag == 0
     else
      let (m, z) := stripZeros n
      let e' := e + (z : Int)
      roundDec m e' == mag &&
      -- the only candidates with one digit fewer: the neighbours of m·10^e' on the 10^(e'+1) grid
      (m < 10 ||
        (roundDec (m / 10) (e' + 1) != mag && roundDec (m / 10 + 1) (e' + 1) != mag)))

end Rsj.Dec
