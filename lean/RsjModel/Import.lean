/-
  Model of import resolution in `rsjsonnet-front/src/session.rs`
  (`find_import`, `load_real_file`, the `Callbacks` impl `import` /
  `import_str` / `import_bin`) together with the way `rsjsonnet/src/main.rs`
  registers the `-J` directories (`args.jpath.iter().rev()`).

  The file system is a finite map from *real* absolute locations (component
  lists) to files / directories / symbolic links; `walk` is POSIX path
  resolution (symlinks spliced in, `..` applied to the resolved directory,
  at most 40 link expansions = Linux `MAXSYMLINKS`).  `std::path` is modelled
  as far as the code uses it: `Path::join`, `Path::parent`, `is_absolute`,
  `display` (= the raw string), `exists` (= `metadata().is_ok()`),
  `canonicalize` (= `realpath`), `fs::read`.

  Bytes are `Nat` (< 256), paths are `String`s.
-/
import RsjModel.Util
import RsjModel.Utf8
namespace Rsj.Import

/-! ## `std::path` (unix) -/

/-- Split at every `'/'` (always returns at least one segment). -/
def splitSlash : List Char → List (List Char)
  | [] => [[]]
  | c :: cs =>
    match splitSlash cs with
    | [] => [[]]
    | seg :: rest => if c = '/' then [] :: seg :: rest else (c :: seg) :: rest

/-- `Path::is_absolute` / `has_root` on unix. -/
def isAbs (p : String) : Bool :=
  match p.toList with
  | '/' :: _ => true
  | _ => false

/-- Raw segments after an optional root: `(has_root, segments)`;
    `"/t//a"` ↦ `(true, ["t", "", "a"])`, `"/"` ↦ `(true, [])`, `""` ↦ `(false, [])`. -/
def rawSegs (p : String) : Bool × List String :=
  match p.toList with
  | '/' :: rest => (true, if rest.isEmpty then [] else (splitSlash rest).map String.ofList)
  | l => (false, if l.isEmpty then [] else (splitSlash l).map String.ofList)

def renderSegs (root : Bool) (segs : List String) : String :=
  (if root then "/" else "") ++ "/".intercalate segs

/-- The components the kernel sees (empty segments are skipped by the kernel, `.` too;
    they are kept here and skipped by `walkSeg`). -/
def comps (p : String) : List String := (rawSegs p).2

/-- `Components::trim_right` on the reversed segment list (`n` = number of
    segments left = 1-based position of the head): drop trailing separators and
    `.` components, but keep a leading `.` of a relative path (a `CurDir`). -/
def trimRev (root : Bool) : List String → Nat → List String
  | [], _ => []
  | s :: rest, n =>
    if s = "" ∨ (s = "." ∧ (root ∨ n ≠ 1)) then trimRev root rest (n - 1) else s :: rest

def trimRightPath (root : Bool) (segs : List String) : List String :=
  (trimRev root segs.reverse segs.length).reverse

/-- `Path::parent` (`None` when the path ends in the root or is empty). -/
def parent (p : String) : Option String :=
  let (root, segs) := rawSegs p
  let t := trimRightPath root segs
  match t.getLast? with
  | none => none
  | some _ => some (renderSegs root (trimRightPath root t.dropLast))

/-- `Path::join` / `PathBuf::push` on unix. -/
def pathJoin (base p : String) : String :=
  if isAbs p then p
  else if base.isEmpty then p
  else if base.toList.getLast? = some '/' then base ++ p
  else base ++ "/" ++ p

/-! ## The file system -/

inductive Node where
  | file (bytes : List Nat) (readable : Bool)
  | dir
  | link (target : String)
deriving Repr, DecidableEq

inductive IoErr where
  | notFound | notDir | isDir | denied | loop
deriving Repr, DecidableEq

structure FS where
  /-- real location (components below `/`) ↦ node; `/` itself is a directory -/
  entries : List (List String × Node)
  /-- real location of the working directory -/
  cwd : List String
deriving Repr

def FS.lookup (fs : FS) (p : List String) : Option Node :=
  if p = [] then some .dir else (fs.entries.find? (fun e => e.1 = p)).map (·.2)

inductive WalkStep where
  | done (r : Except IoErr (List String × Node))
  | follow (cur todo : List String)

/-- Resolve components until the end or the next symbolic link. `cur` is the
    real location of a directory. -/
def FS.walkSeg (fs : FS) : List String → List String → WalkStep
  | cur, [] => .done (.ok (cur, .dir))
  | cur, c :: rest =>
    if c = "" ∨ c = "." then fs.walkSeg cur rest
    else if c = ".." then fs.walkSeg cur.dropLast rest
    else
      match fs.lookup (cur ++ [c]) with
      | none => .done (.error .notFound)
      | some .dir => fs.walkSeg (cur ++ [c]) rest
      | some (.file b r) =>
        if rest.isEmpty then .done (.ok (cur ++ [c], .file b r)) else .done (.error .notDir)
      | some (.link t) => .follow (if isAbs t then [] else cur) (comps t ++ rest)

/-- Path resolution with at most `fuel` link expansions (`ELOOP` beyond). -/
def FS.walk (fs : FS) : Nat → List String → List String → Except IoErr (List String × Node)
  | fuel, cur, todo =>
    match fs.walkSeg cur todo with
    | .done r => r
    | .follow cur' todo' =>
      match fuel with
      | 0 => .error .loop
      | fuel + 1 => fs.walk fuel cur' todo'

def MAXSYMLINKS : Nat := 40

/-- `stat(2)`-style resolution of a path string (the empty path is `ENOENT`). -/
def FS.resolve (fs : FS) (p : String) : Except IoErr (List String × Node) :=
  if p.isEmpty then .error .notFound
  else fs.walk MAXSYMLINKS (if isAbs p then [] else fs.cwd) (comps p)

/-- `Path::exists` -/
def FS.exists (fs : FS) (p : String) : Bool :=
  match fs.resolve p with
  | .ok _ => true
  | .error _ => false

/-- `Path::canonicalize`, displayed. -/
def FS.canonicalize (fs : FS) (p : String) : Except IoErr String :=
  match fs.resolve p with
  | .ok (real, _) => .ok (renderSegs true real)
  | .error e => .error e

/-- `std::fs::read` -/
def FS.read (fs : FS) (p : String) : Except IoErr (List Nat) :=
  match fs.resolve p with
  | .ok (_, .file b true) => .ok b
  | .ok (_, .file _ false) => .error .denied
  | .ok (_, .dir) => .error .isDir
  | .ok (_, .link _) => .error .loop   -- unreachable: `walk` never returns a link
  | .error e => .error e

/-! ## The session -/

structure Source where
  /-- `SrcManager` repr_path = the `this_file` given to `load_source` = `std.thisFile` -/
  reprPath : String
  /-- `source_paths` entry (absent for virtual files) -/
  realPath : Option String
deriving Repr, DecidableEq

structure Session where
  /-- `search_paths`, in the order `add_search_path` was called -/
  searchPaths : List String
  /-- index = source id (the stdlib's own source is not counted) -/
  sources : List Source
  /-- `source_cache`: canonical path ↦ thunk; a real file's thunk is identified with its source index -/
  cache : List (String × Nat)
  /-- ghost log: canonical paths whose `load_source` succeeded inside `load_real_file`, in order -/
  loads : List String
deriving Repr

/-- `Session::new` followed by main.rs's `for path in args.jpath.iter().rev() { add_search_path }`. -/
def Session.ofJpaths (jpaths : List String) : Session :=
  { searchPaths := jpaths.reverse, sources := [], cache := [], loads := [] }

inductive ImpErr where
  /-- "import .. not found in search path" -/
  | notFound
  /-- "file .. does not exist" (`canonicalize` → `NotFound`) -/
  | notExist
  /-- "failed to canonicalize path" -/
  | canon (e : IoErr)
  /-- "failed to read" -/
  | read (e : IoErr)
  /-- `load_source` failed (lex / parse / analyze error) -/
  | load
deriving Repr, DecidableEq

def cacheGet (cache : List (String × Nat)) (k : String) : Option Nat :=
  match cache with
  | [] => none
  | (k', v) :: rest => if k' = k then some v else cacheGet rest k

/-- `SessionInner::load_real_file`. `parses data` = `load_source` succeeds on `data`. -/
def loadRealFile (fs : FS) (parses : List Nat → Bool) (s : Session) (path : String) :
    Session × Except ImpErr Nat :=
  match fs.canonicalize path with
  | .error .notFound => (s, .error .notExist)
  | .error e => (s, .error (.canon e))
  | .ok norm =>
    match cacheGet s.cache norm with
    | some t => (s, .ok t)
    | none =>
      match fs.read path with
      | .error e => (s, .error (.read e))
      | .ok data =>
        let id := s.sources.length
        let s1 := { s with sources := s.sources ++ [{ reprPath := path, realPath := some path }] }
        if parses data then
          ({ s1 with cache := (norm, id) :: s1.cache, loads := s1.loads ++ [norm] }, .ok id)
        else (s1, .error .load)

/-- `SessionInner::load_virt_file` (never cached, no `source_paths` entry). -/
def loadVirtFile (parses : List Nat → Bool) (s : Session) (reprPath : String) (data : List Nat) :
    Session × Option Nat :=
  let id := s.sources.length
  let s1 := { s with sources := s.sources ++ [{ reprPath := reprPath, realPath := none }] }
  if parses data then (s1, some id) else (s1, none)

/-- Directory of the importing source: `source_paths.get(from_src).and_then(|p| p.parent())`. -/
def fromDir (s : Session) (fromSrc : Nat) : Option String :=
  match s.sources[fromSrc]? with
  | some src =>
    match src.realPath with
    | some p => parent p
    | none => none
  | none => none

/-- The base directories `find_import` tries, in order. -/
def baseDirs (s : Session) (fromSrc : Nat) : List String :=
  (fromDir s fromSrc).toList ++ s.searchPaths

/-- Candidate full paths in the order `find_import` tests them. -/
def candidates (s : Session) (fromSrc : Nat) (path : String) : List String :=
  if isAbs path then [path] else (baseDirs s fromSrc).map (fun b => pathJoin b path)

/-- `SessionInner::find_import` -/
def findImport (fs : FS) (s : Session) (fromSrc : Nat) (path : String) : Option String :=
  if isAbs path then
    if fs.exists path then some path else none
  else
    ((baseDirs s fromSrc).map (fun b => pathJoin b path)).find? (fun full => fs.exists full)

/-- `Callbacks::import` -/
def doImport (fs : FS) (parses : List Nat → Bool) (s : Session) (fromSrc : Nat) (path : String) :
    Session × Except ImpErr Nat :=
  match findImport fs s fromSrc path with
  | none => (s, .error .notFound)
  | some full => loadRealFile fs parses s full

/-- `Callbacks::import_bin` (the session is not changed: no cache, no source). -/
def doImportBin (fs : FS) (s : Session) (fromSrc : Nat) (path : String) : Except ImpErr (List Nat) :=
  match findImport fs s fromSrc path with
  | none => .error .notFound
  | some full =>
    match fs.read full with
    | .error e => .error (.read e)
    | .ok data => .ok data

/-- Result of `import_str`: scalar values of the text; `panic` = the decoder's
    impossible outcome (proved unreachable for bytes < 256). -/
inductive StrRes where
  | ok (chars : List Nat)
  | err (e : ImpErr)
  | panic
deriving Repr, DecidableEq

/-- `Callbacks::import_str`: `String::from_utf8_lossy` of the bytes. -/
def doImportStr (fs : FS) (s : Session) (fromSrc : Nat) (path : String) : StrRes :=
  match doImportBin fs s fromSrc path with
  | .error e => .err e
  | .ok data =>
    match Rsj.Utf8.lossyModel data with
    | some cs => .ok cs
    | none => .panic

/-! ### Sequences of import operations (for the load-once invariant) -/

structure ImportOp where
  fromSrc : Nat
  path : String
deriving Repr

def runImports (fs : FS) (parses : List Nat → Bool) : Session → List ImportOp → Session
  | s, [] => s
  | s, op :: rest => runImports fs parses (doImport fs parses s op.fromSrc op.path).1 rest

/-! ## Evaluating a tree of "node" files (the tie to the real binary)

  Every library file of a generated tree has the shape
  `std.trace("loaded:<id>", {id: "<id>", this: std.thisFile, r: [op, op, ...]})`
  with `op` one of `import p`, `importstr p`, `importbin p`, one per line.
  `Prog` is that description; the evaluator below follows the deep (depth-first,
  left-to-right) evaluation order of `eval_value` and memoises thunks.
-/

inductive Kind where
  | code | str | bin
deriving Repr, DecidableEq

structure Prog where
  id : String
  ops : List (Kind × String)
deriving Repr

inductive Val where
  | node (id : String) (thisFile : String) (r : List Val)
  | str (chars : List Nat)
  | bin (bytes : List Nat)
deriving Repr

inductive EvalErr where
  /-- import failure at op number `idx` of the source with repr path `file` -/
  | imp (e : ImpErr) (file : String) (idx : Nat)
  /-- a thunk is reached again while it (or its deep value) is being evaluated:
      "infinite recursion" / "stack overflow" -/
  | cycle
  | panic
  | fuel
deriving Repr

structure EvalState where
  session : Session
  /-- thunks already evaluated, with their deep value -/
  memo : List (Nat × Val)
  /-- ids traced so far (one `TRACE: loaded:<id>` line each), in order -/
  traces : List String
deriving Repr

def memoGet (memo : List (Nat × Val)) (t : Nat) : Option Val :=
  match memo with
  | [] => none
  | (k, v) :: rest => if k = t then some v else memoGet rest t

/-- The program of a loaded real source: found through the bytes of the file it was read from. -/
def progOf (progs : List (List Nat × Prog)) (data : List Nat) : Option Prog :=
  match progs with
  | [] => none
  | (d, p) :: rest => if d = data then some p else progOf rest data

/-- Evaluate thunk `t` (a source index) deeply. `stack` = thunks being evaluated. -/
def evalThunk (fs : FS) (progs : List (List Nat × Prog)) :
    Nat → List Nat → EvalState → Nat → EvalState × Except EvalErr Val
  | 0, _, st, _ => (st, .error .fuel)
  | fuel + 1, stack, st, t =>
    match memoGet st.memo t with
    | some v => (st, .ok v)
    | none =>
      if stack.contains t then (st, .error .cycle)
      else
        match st.session.sources[t]? with
        | none => (st, .error .panic)
        | some src =>
          -- the bytes the source was loaded from (the file system does not change during a run)
          let data : List Nat := match src.realPath with
            | some p => (match fs.read p with | .ok d => d | .error _ => [])
            | none => []
          match progOf progs data with
          | none => (st, .error .panic)
          | some prog =>
            let st0 := { st with traces := st.traces ++ [prog.id] }
            let step := fun (acc : EvalState × Except EvalErr (List Val) × Nat) (op : Kind × String) =>
              match acc with
              | (st1, .error e, i) => (st1, .error e, i)
              | (st1, .ok vals, i) =>
                match op.1 with
                | .code =>
                  match doImport fs (fun d => (progOf progs d).isSome) st1.session t op.2 with
                  | (s2, .error e) => ({ st1 with session := s2 }, .error (.imp e src.reprPath i), i + 1)
                  | (s2, .ok t') =>
                    match evalThunk fs progs fuel (t :: stack) { st1 with session := s2 } t' with
                    | (st2, .error e) => (st2, .error e, i + 1)
                    | (st2, .ok v) => (st2, .ok (vals ++ [v]), i + 1)
                | .str =>
                  match doImportStr fs st1.session t op.2 with
                  | .err e => (st1, .error (.imp e src.reprPath i), i + 1)
                  | .panic => (st1, .error .panic, i + 1)
                  | .ok cs => (st1, .ok (vals ++ [.str cs]), i + 1)
                | .bin =>
                  match doImportBin fs st1.session t op.2 with
                  | .error e => (st1, .error (.imp e src.reprPath i), i + 1)
                  | .ok bs => (st1, .ok (vals ++ [.bin bs]), i + 1)
            match prog.ops.foldl step (st0, .ok [], 0) with
            | (st3, .error e, _) => (st3, .error e)
            | (st3, .ok vals, _) =>
              let v := Val.node prog.id src.reprPath vals
              ({ st3 with memo := (t, v) :: st3.memo }, .ok v)

/-- `rsjsonnet -J j1 -J j2 ... <root>`: load the root file, evaluate it deeply. -/
def runRoot (fs : FS) (progs : List (List Nat × Prog)) (jpaths : List String) (root : String) :
    EvalState × Except EvalErr Val :=
  let s0 := Session.ofJpaths jpaths
  match loadRealFile fs (fun d => (progOf progs d).isSome) s0 root with
  | (s1, .error e) => ({ session := s1, memo := [], traces := [] }, .error (.imp e "" 0))
  | (s1, .ok t) =>
    evalThunk fs progs (fs.entries.length + 2) [] { session := s1, memo := [], traces := [] } t

/-! ## Driver -/

def hexStr (s : String) : String := hexEnc (s.toUTF8.toList.map (·.toNat))

def unhexStr (h : String) : Option String := do
  let bs ← hexDecode h
  let ba := ByteArray.mk (bs.map (fun b => UInt8.ofNat b)).toArray
  String.fromUTF8? ba

def showIoErr : IoErr → String
  | .notFound => "ENOENT" | .notDir => "ENOTDIR" | .isDir => "EISDIR" | .denied => "EACCES" | .loop => "ELOOP"

def showImpErr : ImpErr → String
  | .notFound => "notfound"
  | .notExist => "notexist"
  | .canon e => "canon-" ++ showIoErr e
  | .read e => "read-" ++ showIoErr e
  | .load => "load"

def showVals (f : Val → String) : List Val → String
  | [] => ""
  | [v] => f v
  | v :: rest => f v ++ ";" ++ showVals f rest

def showVal : Val → String
  | .node id this r => "N(" ++ hexStr id ++ "," ++ hexStr this ++ ",[" ++ showValList r ++ "])"
  | .str cs => "S(" ++ hexEnc (cs.flatMap utf8EncodeChar) ++ ")"
  | .bin bs => "B(" ++ hexEnc bs ++ ")"
where
  showValList : List Val → String
    | [] => ""
    | [v] => showVal v
    | v :: rest => showVal v ++ ";" ++ showValList rest

def showEvalErr : EvalErr → String
  | .imp e file idx => "imp " ++ showImpErr e ++ " " ++ hexStr file ++ " " ++ toString idx
  | .cycle => "cycle"
  | .panic => "panic"
  | .fuel => "fuel"

/-- `/a/b` ↦ `["a","b"]` for entry locations given as canonical absolute strings. -/
def realOf (p : String) : List String := (comps p).filter (· ≠ "")

def parseKind : String → Option Kind
  | "c" => some .code | "s" => some .str | "b" => some .bin | _ => none

/-- `<kind>/<hexpath>` -/
def parseOp (s : String) : Option (Kind × String) :=
  match s.splitOn "/" with
  | [k, p] => do pure (← parseKind k, ← unhexStr p)
  | _ => none

/-- Request tokens:
    `cwd=<hexpath>` `root=<hexpath>` `J=<hexpath>` (repeatable, command-line order)
    `F:<hexloc>:<hexbytes>[:<hexid>[:<op>,<op>,...]]`  readable file (with program when importable; `<op>` = `<c|s|b>/<hexpath>`)
    `U:<hexloc>:<hexbytes>`  unreadable file   `D:<hexloc>`  directory   `L:<hexloc>:<hextarget>`  symlink
    Sub-commands (first token): `run` (whole evaluation), `find <hexfrom-realpath|-> <hexpath>`,
    `parent <hexpath>`, `join <hexbase> <hexpath>`. -/
structure Req where
  cwd : String := "/"
  root : String := ""
  jpaths : List String := []
  entries : List (List String × Node) := []
  progs : List (List Nat × Prog) := []

def parseTok (r : Req) (tok : String) : Option Req :=
  match tok.splitOn "=" with
  | ["cwd", h] => do pure { r with cwd := ← unhexStr h }
  | ["root", h] => do pure { r with root := ← unhexStr h }
  | ["J", h] => do pure { r with jpaths := r.jpaths ++ [← unhexStr h] }
  | _ =>
    match tok.splitOn ":" with
    | ["D", loc] => do pure { r with entries := r.entries ++ [(realOf (← unhexStr loc), .dir)] }
    | ["L", loc, tgt] => do
      pure { r with entries := r.entries ++ [(realOf (← unhexStr loc), .link (← unhexStr tgt))] }
    | ["U", loc, bytes] => do
      pure { r with entries := r.entries ++ [(realOf (← unhexStr loc), .file (← hexDecode bytes) false)] }
    | ["F", loc, bytes] => do
      pure { r with entries := r.entries ++ [(realOf (← unhexStr loc), .file (← hexDecode bytes) true)] }
    | ["F", loc, bytes, id] => do
      let b ← hexDecode bytes
      pure { r with entries := r.entries ++ [(realOf (← unhexStr loc), .file b true)],
                    progs := r.progs ++ [(b, { id := ← unhexStr id, ops := [] })] }
    | ["F", loc, bytes, id, ops] => do
      let b ← hexDecode bytes
      let os ← (ops.splitOn ",").mapM parseOp
      pure { r with entries := r.entries ++ [(realOf (← unhexStr loc), .file b true)],
                    progs := r.progs ++ [(b, { id := ← unhexStr id, ops := os })] }
    | _ => none

def parseReq (toks : List String) : Option Req :=
  toks.foldlM parseTok {}

def Req.fs (r : Req) : FS := { entries := r.entries, cwd := realOf r.cwd }

def handle (args : List String) : Option String :=
  match args with
  | "parent" :: [h] => do
    let p ← unhexStr h
    match parent p with
    | none => pure "none"
    | some q => pure ("some " ++ hexStr q)
  | "join" :: [a, b] => do pure (hexStr (pathJoin (← unhexStr a) (← unhexStr b)))
  | "find" :: fromReal :: path :: toks => do
    let r ← parseReq toks
    let p ← unhexStr path
    let srcs : List Source ← if fromReal = "-" then pure [{ reprPath := "<cmdline>", realPath := none }]
      else do let f ← unhexStr fromReal; pure [{ reprPath := f, realPath := some f }]
    let s : Session := { Session.ofJpaths r.jpaths with sources := srcs }
    match findImport r.fs s 0 p with
    | none => pure "none"
    | some full => pure ("some " ++ hexStr full)
  | "run" :: toks => do
    let r ← parseReq toks
    let (st, res) := runRoot r.fs r.progs r.jpaths r.root
    let tr := "[" ++ ",".intercalate (st.traces.map hexStr) ++ "]"
    match res with
    | .ok v => pure ("ok " ++ showVal v ++ " " ++ tr)
    | .error e => pure ("err " ++ showEvalErr e ++ " " ++ tr)
  | _ => none

end Rsj.Import
