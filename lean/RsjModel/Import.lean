/-
  Model module `Import` (driver op `imp`). Import-free apart from RsjModel.* modules.
-/
import RsjModel.Util
namespace Rsj.Import

/-- `imp <args...>` : one canonical answer line, or `none` for a malformed request. -/
def handle (_args : List String) : Option String := none

end Rsj.Import
