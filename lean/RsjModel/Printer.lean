/-
  Printing syntax trees back to token lists (property C15).
  `printMin` inserts only the parentheses the grammar needs, `printFull`
  parenthesises every subexpression.  Precedence levels come from the table
  extracted from `parse_expr` (`RsjModel/PrecedenceTable.lean`).
-/
import RsjModel.Ast
import RsjModel.PrecedenceTable
namespace Rsj.Parser

/-! ## Levels derived from the extracted table -/

/-- Number of `next_state` steps from `k` down to `State::Unary` (`Mul` ↦ 1). -/
def BinKind.depthAux : Nat → BinKind → Nat
  | 0, _ => 0
  | fuel + 1, k =>
    match k.nextState with
    | none => 1
    | some k' => 1 + BinKind.depthAux fuel k'

def BinKind.depth (k : BinKind) : Nat := BinKind.depthAux BinKind.all.length k

/-- Binding strength: `LogicOr` ↦ 0 … `Mul` ↦ 9; unary = 10; postfix / primary = 11. -/
def BinKind.prec (k : BinKind) : Nat := BinKind.all.length - k.depth
def unaryPrec : Nat := BinKind.all.length
def suffixPrec : Nat := BinKind.all.length + 1

def findOp (op : BinaryOp) : List BinKind → Option (BinKind × STok)
  | [] => none
  | k :: ks =>
    match k.ops.find? (fun p => p.2 = op) with
    | some p => some (k, p.1)
    | none => findOp op ks

/-- Kind (level) and token of a binary operator, read off the extracted table. -/
def BinaryOp.info (op : BinaryOp) : Option (BinKind × STok) := findOp op BinKind.all

def BinaryOp.prec (op : BinaryOp) : Nat :=
  match op.info with
  | some (k, _) => k.prec
  | none => 0

def BinaryOp.tok (op : BinaryOp) : STok :=
  match op.info with
  | some (_, t) => t
  | none => .Plus   -- unreachable: `C15_precedence_table` proves `info` total

def UnaryOp.tok (op : UnaryOp) : STok :=
  match unaryOps.find? (fun p => p.2 = op) with
  | some p => p.1
  | none => .Plus   -- unreachable: `C15_precedence_table` proves the table total

/-! ## The printer -/

abbrev Toks := List TokKind

def sim (k : STok) : TokKind := .simple k

def visTok : Bool → Visibility → STok
  | false, .Default => .Colon
  | false, .Hidden => .ColonColon
  | false, .ForceVisible => .ColonColonColon
  | true, .Default => .PlusColon
  | true, .Hidden => .PlusColonColon
  | true, .ForceVisible => .PlusColonColonColon

def parens (ts : Toks) : Toks := sim .LeftParen :: (ts ++ [sim .RightParen])

/-
  `pr full e lvl openRight elseNext`:
  * `lvl`       — weakest binding strength that may appear bare in this position;
  * `openRight` — the text after this position may start with a binary operator, a
                  postfix form or `in`, which a trailing `local/if/function/...` would swallow;
  * `elseNext`  — the next token after this position is `else` (dangling-else hazard).
  `sub` is a subexpression position: in `full` mode it is always parenthesised.
-/
mutual
  def pr (full : Bool) : Expr → Nat → Bool → Bool → Toks
    | .null _, _, _, _ => [sim .Null]
    | .bool b _, _, _, _ => [sim (if b then .True_ else .False_)]
    | .selfObj _, _, _, _ => [sim .Self_]
    | .dollar _, _, _, _ => [sim .Dollar]
    | .str s _, _, _, _ => [.string s]
    | .textBlock s _, _, _, _ => [.textBlock s]
    | .number n _, _, _, _ => [.number n]
    | .ident i _, _, _, _ => [.ident i.value]
    | .paren e _, _, _, _ => parens (sub full e 0 false false)
    | .object o _, _, _, _ => sim .LeftBrace :: (prObjInside full o ++ [sim .RightBrace])
    | .array items _, _, _, _ => sim .LeftBracket :: (prExprs full items ++ [sim .RightBracket])
    | .arrayComp e spec _, _, _, _ =>
      sim .LeftBracket :: (sub full e 0 false false ++ prSpecs full spec ++ [sim .RightBracket])
    | .field e name _, _, _, _ => sub full e suffixPrec true false ++ [sim .Dot, .ident name.value]
    | .index e i _, _, _, _ =>
      sub full e suffixPrec true false ++ sim .LeftBracket :: (sub full i 0 false false ++ [sim .RightBracket])
    | .slice e i1 i2 i3 _, _, _, _ =>
      sub full e suffixPrec true false ++ sim .LeftBracket ::
        (prOpt full i1 ++
          (match i2, full with
            | none, true => sim .ColonColon :: prOpt full i3
            | none, false =>
              sim .Colon :: (match i3 with
                | none => []
                | some x => sim .Colon :: sub full x 0 false false)
            | some y, true => sim .Colon :: (sub full y 0 false false ++ sim .Colon :: prOpt full i3)
            | some y, false =>
              sim .Colon :: (sub full y 0 false false ++ (match i3 with
                | none => []
                | some x => sim .Colon :: sub full x 0 false false)))
          ++ [sim .RightBracket])
    | .superField _ name _, _, _, _ => [sim .Super, sim .Dot, .ident name.value]
    | .superIndex _ i _, _, _, _ =>
      sim .Super :: sim .LeftBracket :: (sub full i 0 false false ++ [sim .RightBracket])
    | .call f args ts _, _, _, _ =>
      sub full f suffixPrec true false ++ sim .LeftParen ::
        (prArgs full args ++ sim .RightParen :: (if ts then [sim .Tailstrict] else []))
    | .objExt e o _ _, _, _, _ =>
      sub full e suffixPrec true false ++ sim .LeftBrace :: (prObjInside full o ++ [sim .RightBrace])
    | .inSuper e _ _, lvl, _, _ =>
      if inSuperKind.prec < lvl then
        parens (sub full e inSuperKind.prec true false ++ [sim .In, sim inSuperHead])
      else sub full e inSuperKind.prec true false ++ [sim .In, sim inSuperHead]
    | .unary op e _, lvl, o, el =>
      if unaryPrec < lvl then parens (sim op.tok :: sub full e unaryPrec false false)
      else sim op.tok :: sub full e unaryPrec o el
    | .binary l op r _, lvl, o, el =>
      if op.prec < lvl then
        parens (sub full l op.prec true false ++ sim op.tok :: sub full r (op.prec + 1) false false)
      else sub full l op.prec true false ++ sim op.tok :: sub full r (op.prec + 1) o el
    | .local_ binds body _, _, o, el =>
      if o then parens (sim .Local :: (prBinds full binds ++ sim .Semicolon :: sub full body 0 false false))
      else sim .Local :: (prBinds full binds ++ sim .Semicolon :: sub full body 0 false el)
    | .ite_ c t none _, _, o, el =>
      if o || el then
        parens (sim .If :: (sub full c 0 false false ++ sim .Then :: sub full t 0 false false))
      else sim .If :: (sub full c 0 false false ++ sim .Then :: sub full t 0 false false)
    | .ite_ c t (some e) _, _, o, el =>
      if o then
        parens (sim .If :: (sub full c 0 false false ++ sim .Then :: (sub full t 0 false true ++
          sim .Else :: sub full e 0 false false)))
      else
        sim .If :: (sub full c 0 false false ++ sim .Then :: (sub full t 0 false true ++
          sim .Else :: sub full e 0 false el))
    | .func params body _, _, o, el =>
      if o then
        parens (sim .Function :: sim .LeftParen :: (prParams full params ++ sim .RightParen ::
          sub full body 0 false false))
      else
        sim .Function :: sim .LeftParen :: (prParams full params ++ sim .RightParen ::
          sub full body 0 false el)
    | .assert_ a body _, _, o, el =>
      if o then parens (prAssert full a ++ sim .Semicolon :: sub full body 0 false false)
      else prAssert full a ++ sim .Semicolon :: sub full body 0 false el
    | .import_ e _, _, o, el =>
      if o then parens (sim .Import :: sub full e 0 false false) else sim .Import :: sub full e 0 false el
    | .importStr e _, _, o, el =>
      if o then parens (sim .Importstr :: sub full e 0 false false)
      else sim .Importstr :: sub full e 0 false el
    | .importBin e _, _, o, el =>
      if o then parens (sim .Importbin :: sub full e 0 false false)
      else sim .Importbin :: sub full e 0 false el
    | .error_ e _, _, o, el =>
      if o then parens (sim .Error :: sub full e 0 false false) else sim .Error :: sub full e 0 false el
  /-- A subexpression position. -/
  def sub (full : Bool) : Expr → Nat → Bool → Bool → Toks
    | e, lvl, o, el => if full then parens (pr full e 0 false false) else pr full e lvl o el
  def prOpt (full : Bool) : Option Expr → Toks
    | none => []
    | some e => sub full e 0 false false
  /-- comma separated -/
  def prExprs (full : Bool) : List Expr → Toks
    | [] => []
    | [e] => sub full e 0 false false
    | e :: es => sub full e 0 false false ++ sim .Comma :: prExprs full es
  def prObjInside (full : Bool) : ObjInside → Toks
    | .members ms => prMembers full ms
    | .comp l1 name plus body l2 spec =>
      prObjLocals full l1 ++
        sim .LeftBracket :: (sub full name 0 false false ++ sim .RightBracket ::
          sim (visTok plus .Default) :: (sub full body 0 false false ++
            prObjLocalsAfter full l2 ++ prSpecs full spec))
  /-- `local b,` for each bind (locals before the comprehension field) -/
  def prObjLocals (full : Bool) : List Bind → Toks
    | [] => []
    | b :: bs => sim .Local :: (prBind full b ++ sim .Comma :: prObjLocals full bs)
  /-- `, local b` for each bind (locals after the comprehension field) -/
  def prObjLocalsAfter (full : Bool) : List Bind → Toks
    | [] => []
    | b :: bs => sim .Comma :: sim .Local :: (prBind full b ++ prObjLocalsAfter full bs)
  def prMembers (full : Bool) : List Member → Toks
    | [] => []
    | [m] => prMember full m
    | m :: ms => prMember full m ++ sim .Comma :: prMembers full ms
  def prMember (full : Bool) : Member → Toks
    | .local_ b => sim .Local :: prBind full b
    | .assert_ a => prAssert full a
    | .field f => prField full f
  def prField (full : Bool) : Field → Toks
    | .value name plus vis e =>
      prFieldName full name ++ sim (visTok plus vis) :: sub full e 0 false false
    | .func name params _ vis e =>
      prFieldName full name ++ sim .LeftParen :: (prParams full params ++ sim .RightParen ::
        sim (visTok false vis) :: sub full e 0 false false)
  def prFieldName (full : Bool) : FieldName → Toks
    | .ident i => [.ident i.value]
    | .str s _ => [.string s]
    | .expr e _ => sim .LeftBracket :: (sub full e 0 false false ++ [sim .RightBracket])
  def prAssert (full : Bool) : Assert → Toks
    | .mk _ cond none => sim .Assert :: sub full cond 0 false false
    | .mk _ cond (some m) =>
      sim .Assert :: (sub full cond 0 false false ++ sim .Colon :: sub full m 0 false false)
  def prBind (full : Bool) : Bind → Toks
    | .mk name hasParams params _ value =>
      .ident name.value ::
        ((if hasParams then sim .LeftParen :: (prParams full params ++ [sim .RightParen]) else []) ++
          sim .Eq :: sub full value 0 false false)
  def prBinds (full : Bool) : List Bind → Toks
    | [] => []
    | [b] => prBind full b
    | b :: bs => prBind full b ++ sim .Comma :: prBinds full bs
  def prArg (full : Bool) : Arg → Toks
    | .positional e => sub full e 0 false false
    | .named name e => .ident name.value :: sim .Eq :: sub full e 0 false false
  def prArgs (full : Bool) : List Arg → Toks
    | [] => []
    | [a] => prArg full a
    | a :: as => prArg full a ++ sim .Comma :: prArgs full as
  def prParam (full : Bool) : Param → Toks
    | .mk name none => [.ident name.value]
    | .mk name (some d) => .ident name.value :: sim .Eq :: sub full d 0 false false
  def prParams (full : Bool) : List Param → Toks
    | [] => []
    | [p] => prParam full p
    | p :: ps => prParam full p ++ sim .Comma :: prParams full ps
  def prSpec (full : Bool) : CompSpec → Toks
    | .for_ v inner => sim .For :: .ident v.value :: sim .In :: sub full inner 0 false false
    | .if_ c => sim .If :: sub full c 0 false false
  def prSpecs (full : Bool) : List CompSpec → Toks
    | [] => []
    | s :: ss => prSpec full s ++ prSpecs full ss
end

/-- Minimal parentheses. -/
def printMin (e : Expr) : Toks := pr false e 0 false false
/-- Every subexpression parenthesised. -/
def printFull (e : Expr) : Toks := pr true e 0 false false

/-! ## Layout: token kinds → source text and token spans (driver side)

Tokens are separated by one space; the end-of-file token is appended. -/

def escapeString : List Nat → List Nat
  | [] => []
  | b :: bs =>
    (if b = 34 then [92, 34]
     else if b = 92 then [92, 92]
     else if b < 32 then [92, 117, 48, 48] ++ (hexOfByte b).map Char.toNat
     else [b]) ++ escapeString bs

def splitLines : List Nat → List Nat → List (List Nat)
  | [], cur => [cur.reverse]
  | b :: bs, cur => if b = 10 then cur.reverse :: splitLines bs [] else splitLines bs (b :: cur)

/-- `|||` text for a payload (lines are indented by one space; empty lines stay empty). -/
def textBlockText (payload : List Nat) : List Nat :=
  let endsNl := payload.getLast? = some 10
  let body := if endsNl then payload else payload ++ [10]
  let lines := (splitLines body []).dropLast
  let enc := lines.flatMap (fun l => if l.isEmpty then [10] else 32 :: (l ++ [10]))
  [124, 124, 124] ++ (if endsNl then [] else [45]) ++ [10] ++ enc ++ [124, 124, 124]

def strBytes (s : String) : List Nat := s.toList.map Char.toNat

/-- `Number { digits, exp }` → text lexing back to it: `d0.d1…dn e(exp+n)` (no leading-zero error,
    the fractional digits give the implicit exponent `-n`). -/
def numberText (p : String) : Option (List Nat) :=
  match p.splitOn "_" with
  | [d, e] => do
    let ds ← hexDecode d
    let ex ← e.toInt?
    match ds with
    | [] => none
    | [d0] => pure (if ex = 0 then [d0] else d0 :: 101 :: strBytes (toString ex))
    | d0 :: rest =>
      let ex' : Int := ex + rest.length
      pure (d0 :: 46 :: (rest ++ (if ex' = 0 then [] else 101 :: strBytes (toString ex'))))
  | _ => none

/-- payloads the one-space-indented `|||` layout represents faithfully -/
def textBlockOk (payload : List Nat) : Bool :=
  match payload with
  | [] => false
  | b :: _ => b != 32 && b != 9 && b != 10 && !payload.contains 13

def TokKind.text : TokKind → Option (List Nat)
  | .eof => some []
  | .simple k => some (strBytes k.text)
  | .otherOp s => hexDecode s
  | .ident s => hexDecode s
  | .number s => numberText s
  | .string s => do pure (34 :: (escapeString (← hexDecode s) ++ [34]))
  | .textBlock s => do
    let p ← hexDecode s
    if textBlockOk p then pure (textBlockText p) else none

def layoutAux : List TokKind → Nat → List Token → List Nat → Option (List Token × List Nat)
  | [], pos, toks, rtext => some ((⟨.eof, ⟨pos, pos⟩⟩ :: toks).reverse, rtext.reverse)
  | k :: ks, pos, toks, rtext =>
    match k.text with
    | none => none
    | some bs =>
      let start := if toks.isEmpty then pos else pos + 1
      let rtext' := if toks.isEmpty then bs.reverse ++ rtext else bs.reverse ++ 32 :: rtext
      layoutAux ks (start + bs.length) (⟨k, ⟨start, start + bs.length⟩⟩ :: toks) rtext'

/-- Tokens with spans (EOF-terminated) and the source text they are lexed from. -/
def layout (ks : List TokKind) : Option (List Token × List Nat) := layoutAux ks 0 [] []

/-- Spans only (no payload decoding): every token has width 1 and a one-byte gap. Used by theorems. -/
def layoutUnit : List TokKind → Nat → List Token
  | [], pos => [⟨.eof, ⟨pos, pos⟩⟩]
  | k :: ks, pos => ⟨k, ⟨pos, pos + 1⟩⟩ :: layoutUnit ks (pos + 2)

end Rsj.Parser
