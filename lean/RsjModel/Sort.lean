/-
  Model of the sorting / set functions of
  `rsjsonnet-lang/src/program/eval/stdlib.rs`:
  `do_std_sort*`, `do_std_uniq*`, `do_std_set*`, `do_std_set_inter/union/diff_aux`,
  `do_std_set_member*`, `do_std_min_array*`, `do_std_max_array*` (driver op `sort`).

  Conventions
  * An array element is any `α`; `key : α → κ` is the (already evaluated, cached)
    result of `keyF`.  In the Rust code `sorted : Vec<Cell<usize>>` holds indices into
    the original array and `keys[idx]` is the cached key; an element of the model
    stands for such an index together with its key (theorems instantiate `α := Nat`
    with the slice `List.range n`; the driver uses pairs `(index, key)`).
  * `KeyOrd.cmp` is the `Ordering` that `State::CompareValue` pushes on
    `cmp_ord_stack`; `KeyOrd.eqv` is the `bool` that `State::EqualsValue` pushes on
    `bool_stack` (std.uniq / std.set use equality, everything else the comparison).
  * A slice `sorted[range]` is the list of its contents; writing a slice back is
    returning the new list.
  * State-machine loops are structural recursion on an explicit `fuel` (out of fuel
    = `Err.fuel`, proved unreachable for the fuel the entry points pass, for every
    threshold ≥ 1; with threshold 0 the Rust code itself does not terminate on a
    one-element slice).  `assert!`s, slice-index panics and `usize` underflow are
    explicit `Err` outcomes (proved unreachable in RsjProofs/Sort*.lean).
  * The merge/quick threshold (`if len > 30` in `do_std_sort_slice`) is the
    parameter `thr`.
-/
import RsjModel.Util
namespace Rsj.Sort

/-- What the evaluator knows about keys: `CompareValue` and `EqualsValue`. -/
structure KeyOrd (κ : Type) where
  cmp : κ → κ → Ordering
  eqv : κ → κ → Bool

inductive Err where
  | fuel        -- modelling artefact: recursion budget exhausted (= divergence)
  | assert      -- `assert!((range.end - range.start) > 1)` in quick sort
  | oob         -- slice index out of bounds
  | underflow   -- `usize` subtraction below zero
deriving Repr, DecidableEq

section
variable {α κ : Type} (O : KeyOrd κ) (key : α → κ)

/-- `cmp_ord.is_le()` of comparing `key x` with `key y` (merge step). -/
def leB (x y : α) : Bool := (O.cmp (key x) (key y)).isLE

/-- `item_ord.is_lt()` of comparing `key x` with `key y` (quick partition). -/
def ltB (x y : α) : Bool := (O.cmp (key x) (key y)).isLT

/-! ### std.sort -/

/-- `do_std_sort_quick_sort_1` + `do_std_sort_quick_sort_2` on the slice `l`:
    pivot = first element; every other element is compared with the pivot
    (`StdSortCompare { lhs: item, rhs: pivot }`); `items_lt` (is_lt) and `items_ge`
    keep slice order; the slice becomes `items_lt ++ [pivot] ++ items_ge`; each part
    longer than one element is quick-sorted again. -/
def quick : Nat → List α → Except Err (List α)
  | 0, _ => .error .fuel
  | fuel + 1, l =>
    match l with
    | [] => .error .assert
    | [_] => .error .assert
    | pivot :: rest =>
      let itemsLt := rest.filter (fun item => ltB O key item pivot)
      let itemsGe := rest.filter (fun item => !ltB O key item pivot)
      match (if itemsLt.length > 1 then quick fuel itemsLt else .ok itemsLt) with
      | .error e => .error e
      | .ok lt' =>
        match (if itemsGe.length > 1 then quick fuel itemsGe else .ok itemsGe) with
        | .error e => .error e
        | .ok ge' => .ok (lt' ++ pivot :: ge')

/-- `do_std_sort_slice` (+ `merge_prepare` / `merge_pre_compare` / `merge_post_compare`):
    a slice longer than `thr` is split at `mid = start + len / 2`, both halves are
    sorted, and merged taking the left element when `cmp_ord.is_le()`
    (`List.merge` is exactly that loop, including the two copy-the-rest exits);
    a shorter slice of more than one element is quick-sorted. -/
def sortSlice (thr : Nat) : Nat → List α → Except Err (List α)
  | 0, _ => .error .fuel
  | fuel + 1, l =>
    let len := l.length
    if len > thr then
      let mid := len / 2
      match sortSlice thr fuel (l.take mid) with
      | .error e => .error e
      | .ok left =>
        match sortSlice thr fuel (l.drop mid) with
        | .error e => .error e
        | .ok right => .ok (List.merge left right (leB O key))
    else if len > 1 then quick O key len l
    else .ok l

/-- `do_std_sort` … `do_std_sort_finish`. -/
def sort (thr : Nat) (arr : List α) : Except Err (List α) :=
  if arr.length ≤ 1 then .ok arr
  else sortSlice O key thr (arr.length + 1) arr

/-! ### std.uniq -/

/-- `StdUniqCompareItem` / `StdUniqDupValue` / `StdUniqCheckItem`: the value stack
    keeps the key of the *previous item*; the item is pushed unless `EqualsValue`
    says the two keys are equal. -/
def uniqLoop (prevKey : κ) : List α → List α
  | [] => []
  | item :: rest =>
    if O.eqv prevKey (key item) then uniqLoop (key item) rest
    else item :: uniqLoop (key item) rest

/-- `do_std_uniq` -/
def uniq (arr : List α) : List α :=
  match arr with
  | [] => []
  | [x] => [x]
  | x :: rest => x :: uniqLoop O key (key x) rest

/-! ### std.set -/

/-- `do_std_set_uniq_compare_item` / `_check_item` for `index, index+1, …`
    (`todo` iterations): compares the cached keys of `sorted[index - 1]` and
    `sorted[index]`. -/
def setUniqLoop (sorted : List α) : Nat → Nat → List α → Except Err (List α)
  | 0, _, acc => .ok acc
  | todo + 1, index, acc =>
    match sorted[index - 1]?, sorted[index]? with
    | some p, some c =>
      setUniqLoop sorted todo (index + 1)
        (if O.eqv (key p) (key c) then acc else acc ++ [c])
    | _, _ => .error .oob

/-- `do_std_set` + `do_std_set_uniq`: sort (same `StdSortSlice`), then walk
    `index = 1 .. orig_array.len()` over `sorted`. -/
def set (thr : Nat) (arr : List α) : Except Err (List α) :=
  if arr.length ≤ 1 then .ok arr
  else
    match sortSlice O key thr (arr.length + 1) arr with
    | .error e => .error e
    | .ok sorted =>
      match sorted[0]? with
      | none => .error .oob
      | some first => setUniqLoop O key sorted (arr.length - 1) 1 [first]

/-! ### std.setInter / setUnion / setDiff : two-index walks -/

/-- `do_std_set_inter_aux` (entered with `a[i]`, `b[j]` in range; compares
    `keyF(a[i])` with `keyF(b[j])`). -/
def interAux (a b : List α) : Nat → Nat → Nat → List α → Except Err (List α)
  | 0, _, _, _ => .error .fuel
  | fuel + 1, i, j, acc =>
    match a[i]?, b[j]? with
    | some x, some y =>
      match O.cmp (key x) (key y) with
      | .lt =>
        if i + 1 = a.length ∨ j = b.length then .ok acc
        else interAux a b fuel (i + 1) j acc
      | .eq =>
        if i + 1 = a.length ∨ j + 1 = b.length then .ok (acc ++ [x])
        else interAux a b fuel (i + 1) (j + 1) (acc ++ [x])
      | .gt =>
        if i = a.length ∨ j + 1 = b.length then .ok acc
        else interAux a b fuel i (j + 1) acc
    | _, _ => .error .oob

/-- `do_std_set_inter` -/
def setInter (a b : List α) : Except Err (List α) :=
  if a.isEmpty ∨ b.isEmpty then .ok []
  else interAux O key a b (a.length + b.length) 0 0 []

/-- `do_std_set_union_aux` -/
def unionAux (a b : List α) : Nat → Nat → Nat → List α → Except Err (List α)
  | 0, _, _, _ => .error .fuel
  | fuel + 1, i, j, acc =>
    match a[i]?, b[j]? with
    | some x, some y =>
      match O.cmp (key x) (key y) with
      | .lt =>
        if i + 1 = a.length then .ok (acc ++ [x] ++ b.drop j)
        else if j = b.length then .ok (acc ++ [x] ++ a.drop (i + 1))
        else unionAux a b fuel (i + 1) j (acc ++ [x])
      | .eq =>
        if i + 1 = a.length then .ok (acc ++ [x] ++ b.drop (j + 1))
        else if j + 1 = b.length then .ok (acc ++ [x] ++ a.drop (i + 1))
        else unionAux a b fuel (i + 1) (j + 1) (acc ++ [x])
      | .gt =>
        if i = a.length then .ok (acc ++ [y] ++ b.drop (j + 1))
        else if j + 1 = b.length then .ok (acc ++ [y] ++ a.drop i)
        else unionAux a b fuel i (j + 1) (acc ++ [y])
    | _, _ => .error .oob

/-- `do_std_set_union` -/
def setUnion (a b : List α) : Except Err (List α) :=
  if a.isEmpty then .ok b
  else if b.isEmpty then .ok a
  else unionAux O key a b (a.length + b.length) 0 0 []

/-- `do_std_set_diff_aux` -/
def diffAux (a b : List α) : Nat → Nat → Nat → List α → Except Err (List α)
  | 0, _, _, _ => .error .fuel
  | fuel + 1, i, j, acc =>
    match a[i]?, b[j]? with
    | some x, some y =>
      match O.cmp (key x) (key y) with
      | .lt =>
        if i + 1 = a.length then .ok (acc ++ [x])
        else if j = b.length then .ok (acc ++ [x] ++ a.drop (i + 1))
        else diffAux a b fuel (i + 1) j (acc ++ [x])
      | .eq =>
        if i + 1 = a.length then .ok acc
        else if j + 1 = b.length then .ok (acc ++ a.drop (i + 1))
        else diffAux a b fuel (i + 1) (j + 1) acc
      | .gt =>
        if i = a.length then .ok acc
        else if j + 1 = b.length then .ok (acc ++ a.drop i)
        else diffAux a b fuel i (j + 1) acc
    | _, _ => .error .oob

/-- `do_std_set_diff` -/
def setDiff (a b : List α) : Except Err (List α) :=
  if a.isEmpty ∨ b.isEmpty then .ok a
  else diffAux O key a b (a.length + b.length) 0 0 []

/-! ### std.setMember : binary search on `start ..= end` -/

/-- `do_std_set_member_slice` + `do_std_set_member_check`; `kx = keyF(x)` stays on the
    value stack and is the left operand of the comparison. -/
def memberSlice (arr : List α) (kx : κ) : Nat → Nat → Nat → Except Err Bool
  | 0, _, _ => .error .fuel
  | fuel + 1, start, stop =>
    if stop < start then .error .underflow          -- `end - start`
    else
      let mid := start + (stop - start) / 2
      match arr[mid]? with
      | none => .error .oob
      | some m =>
        match O.cmp kx (key m) with
        | .eq => .ok true
        | .lt =>
          if mid = start then .ok false
          else if mid = 0 then .error .underflow    -- `mid - 1`
          else memberSlice arr kx fuel start (mid - 1)
        | .gt =>
          if mid = stop then .ok false
          else memberSlice arr kx fuel (mid + 1) stop

/-- `do_std_set_member` -/
def setMember (x : α) (arr : List α) : Except Err Bool :=
  if arr.isEmpty then .ok false
  else memberSlice O key arr (key x) (arr.length + 1) 0 (arr.length - 1)

/-! ### std.minArray / std.maxArray -/

/-- `do_std_min_array_compare_item` / `_check_item`: the value stack keeps the key
    of `array[max_index]` (`best`); it is compared with the key of
    `array[cur_index]`; `is_gt` moves `max_index`.  `todo = array.len() - cur_index`
    iterations remain (the loop ends when `cur_index + 1 == array.len()`). -/
def minLoop (arr : List α) : Nat → Nat → Nat → κ → Except Err α
  | 0, _, maxIndex, _ =>
    match arr[maxIndex]? with
    | some x => .ok x
    | none => .error .oob
  | todo + 1, cur, maxIndex, best =>
    match arr[cur]? with
    | none => .error .oob
    | some item =>
      if (O.cmp best (key item)).isGT then minLoop arr todo (cur + 1) cur (key item)
      else minLoop arr todo (cur + 1) maxIndex best

/-- `do_std_min_array`; `none` = the `onEmpty` thunk is evaluated. -/
def minArray (arr : List α) : Except Err (Option α) :=
  match arr with
  | [] => .ok none
  | [x] => .ok (some x)
  | x0 :: _ :: _ =>
    match minLoop O key arr (arr.length - 1) 1 0 (key x0) with
    | .ok r => .ok (some r)
    | .error e => .error e

/-- `do_std_max_array_compare_item` / `_check_item`: `is_lt` moves `max_index`. -/
def maxLoop (arr : List α) : Nat → Nat → Nat → κ → Except Err α
  | 0, _, maxIndex, _ =>
    match arr[maxIndex]? with
    | some x => .ok x
    | none => .error .oob
  | todo + 1, cur, maxIndex, best =>
    match arr[cur]? with
    | none => .error .oob
    | some item =>
      if (O.cmp best (key item)).isLT then maxLoop arr todo (cur + 1) cur (key item)
      else maxLoop arr todo (cur + 1) maxIndex best

/-- `do_std_max_array` -/
def maxArray (arr : List α) : Except Err (Option α) :=
  match arr with
  | [] => .ok none
  | [x] => .ok (some x)
  | x0 :: _ :: _ =>
    match maxLoop O key arr (arr.length - 1) 1 0 (key x0) with
    | .ok r => .ok (some r)
    | .error e => .error e

end

/-! ### Driver: integer keys, elements are `(tag, key)` pairs -/

/-- Numbers under the `f64` comparison / `==` (no NaN reaches a Jsonnet value). -/
def intOrd : KeyOrd Int := { cmp := fun a b => compare a b, eqv := fun a b => a == b }

def showErr : Err → String
  | .fuel => "Efuel" | .assert => "Eassert" | .oob => "Eoob" | .underflow => "Eunderflow"

/-- `[k0,k1,..]` becomes `[(base+0,k0),(base+1,k1),..]`. -/
def tagFrom (base : Nat) : List Int → List (Nat × Int)
  | [] => []
  | k :: ks => (base, k) :: tagFrom (base + 1) ks

def showIdx (r : Except Err (List (Nat × Int))) : String :=
  match r with
  | .ok l => showNatList (l.map Prod.fst)
  | .error e => showErr e

/-- Elements of `a` print as `a<i>`, elements of `b` (tagged from `la`) as `b<j>`. -/
def showAB (la : Nat) (r : Except Err (List (Nat × Int))) : String :=
  match r with
  | .ok l =>
    if l.isEmpty then "-"
    else ",".intercalate (l.map (fun p =>
      if p.1 < la then "a" ++ toString p.1 else "b" ++ toString (p.1 - la)))
  | .error e => showErr e

def showOpt (r : Except Err (Option (Nat × Int))) : String :=
  match r with
  | .ok none => "empty"
  | .ok (some p) => toString p.1
  | .error e => showErr e

def showBool (r : Except Err Bool) : String :=
  match r with
  | .ok true => "true"
  | .ok false => "false"
  | .error e => showErr e

/-- `sort sort <thr> <keys>` | `sort uniq <keys>` | `sort set <thr> <keys>` |
    `sort union|inter|diff <keysA> <keysB>` | `sort member <x> <keys>` |
    `sort min|max <keys>`; keys are comma separated integers, `-` = empty. -/
def handle (args : List String) : Option String :=
  let k : (Nat × Int) → Int := Prod.snd
  match args with
  | ["sort", thr, ks] => do
    let thr ← thr.toNat?
    let ks ← parseIntList ks
    pure (showIdx (sort intOrd k thr (tagFrom 0 ks)))
  | ["uniq", ks] => do
    let ks ← parseIntList ks
    pure (showIdx (.ok (uniq intOrd k (tagFrom 0 ks))))
  | ["set", thr, ks] => do
    let thr ← thr.toNat?
    let ks ← parseIntList ks
    pure (showIdx (set intOrd k thr (tagFrom 0 ks)))
  | ["union", ka, kb] => do
    let ka ← parseIntList ka
    let kb ← parseIntList kb
    pure (showAB ka.length (setUnion intOrd k (tagFrom 0 ka) (tagFrom ka.length kb)))
  | ["inter", ka, kb] => do
    let ka ← parseIntList ka
    let kb ← parseIntList kb
    pure (showAB ka.length (setInter intOrd k (tagFrom 0 ka) (tagFrom ka.length kb)))
  | ["diff", ka, kb] => do
    let ka ← parseIntList ka
    let kb ← parseIntList kb
    pure (showAB ka.length (setDiff intOrd k (tagFrom 0 ka) (tagFrom ka.length kb)))
  | ["member", x, ks] => do
    let x ← x.toInt?
    let ks ← parseIntList ks
    pure (showBool (setMember intOrd k (0, x) (tagFrom 0 ks)))
  | ["min", ks] => do
    let ks ← parseIntList ks
    pure (showOpt (minArray intOrd k (tagFrom 0 ks)))
  | ["max", ks] => do
    let ks ← parseIntList ks
    pure (showOpt (maxArray intOrd k (tagFrom 0 ks)))
  | _ => none

end Rsj.Sort
