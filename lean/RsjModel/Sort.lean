/-
  Model module `Sort` (driver op `sort`). Import-free apart from RsjModel.* modules.
-/
import RsjModel.Util
namespace Rsj.Sort

/-- `sort <args...>` : one canonical answer line, or `none` for a malformed request. -/
def handle (_args : List String) : Option String := none

end Rsj.Sort
