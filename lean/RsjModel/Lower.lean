/-
  Lowering of the parser's syntax tree (`Rsj.Parser.Expr`, RsjModel/Ast.lean) to the core
  syntax (`Rsj.Core.Expr`, RsjModel/Core.lean) that the analyzer model and the evaluator model
  consume: the AST → IR translation that `rsjsonnet-lang/src/program/analyze.rs` performs while
  it analyses, case by case (`analyze_expr`, `analyze_objinside`, `analyze_function`,
  `analyze_assert`, `analyze_comp_spec`).  The scoping CHECKS of analyze.rs are not repeated
  here: they are `Rsj.Analyze.analyze` on the result (RsjModel/Analyze.lean).

  What the translation does, as in analyze.rs:
   * `e { … }` is `e + { … }`: kept as `Core.objExt` (whose evaluation is that of the sum,
     `C02_desugar_objext`); with an object comprehension on the right it is the `Binary Add`;
   * `local f(ps) = b`, `f(ps): b` keep their parameters (`Core.Binds.cons f (some ps) b`,
     `fieldFix … (some ps) b`), which the evaluator reads as `function(ps) b`
     (`C02_desugar_local_function`, `C02_desugar_method`); a method field never has `+`;
   * text blocks are strings; a field name that is an identifier, a string or a text block is
     a fixed name, `[e]` is computed (and is lowered in the scope OUTSIDE the object);
   * number literals denote the double nearest to digits · 10^exp
     (`format!("{}e{}", digits, exp).parse::<f64>()`, which is correctly rounded):
     `Rsj.Dec.roundDec` computes that bit pattern over `Nat` (proved to be THE
     round-to-nearest-even image: `C06_roundDec_iff`, restated as `C02_lower_number`), and
     `Float.ofBits` injects it — the same injection the S-expression reader uses for `n:<bits>`
     (`Float.ofScientific` would also be correctly rounded, but is opaque to proofs);
   * `tailstrict` is kept only where `can_be_tailstrict` holds: the body of a function, and
     from there through `local … ;`, the branches of `if`, the continuation of `assert`;
     parentheses, operands, arguments, array items, field values … are not tail positions
     (`Paren(inner) => State::Expr(inner, false)`).  `Paren` itself is kept (`Core.paren`; the
     evaluator model strips it exactly where the IR has none);
   * object-comprehension locals before and after the field are one list (`locals1.chain(locals2)`);
   * `import "p"` / `importstr` / `importbin`: by the kind of the operand (string literal,
     text block, anything else).

  `std`.  The evaluator model has no library object: `Core.builtin b args` stands for the
  direct call `std.<name>(args…)` of a library function the model implements.  A call is
  lowered to it exactly when the callee is `std.<name>` with the identifier `std` not rebound
  by an enclosing binder (local, object local, parameter, comprehension variable), `<name>`
  names a modelled builtin, every argument is positional, the call is not `tailstrict`, and
  the number of arguments is one the model accepts.  Every other use of the library `std`
  is `LowerErr.unsupported`.  A rebound `std` is an ordinary variable.

  Payloads.  `Rsj.Parser.Expr` carries the payloads of identifier / string / text-block / number
  tokens as opaque strings.  The pipeline (`Rsj.Pipeline.convKind`) writes them so that reading them
  back is a TOTAL function: identifiers, strings and text blocks are the text itself (`decStr` is the
  identity), a number is the decimal numeral of the bit pattern `numBits digits exp` of its double
  (`decNum` reads a numeral, digit by digit).  So the lowering has no decoding failure
  (`LowerErr.badPayload` is kept as a constructor but no function produces it:
  RsjProofs/LowerNoMalformed.lean: on parser output the only error is `unsupported`).  A comprehension whose clauses do not start with `for` (which
  `maybe_parse_comp_spec` never builds) is `LowerErr.malformed` (unreachable on parser output,
  RsjProofs/LowerNoMalformed.lean): with this guard every lowered program has the shape `CoreShaped`
  that the evaluator's no-panic theorem assumes (RsjProofs/LowerShape.lean).
-/
import RsjModel.Ast
import RsjModel.Core
import RsjModel.Dec
namespace Rsj.Lower

inductive LowerErr where
  /-- the evaluator model does not cover this use of the standard library -/
  | unsupported (msg : String)
  /-- (no longer produced: payload decoding is total; kept so that the answer classification of the
      pipeline and the proofs about it keep their shape) -/
  | badPayload (what : String)
  /-- a tree the parser cannot produce (`maybe_parse_comp_spec` starts every comprehension with a `for`
      clause; analyze.rs relies on it without a check) -/
  | malformed (what : String)
deriving Repr, DecidableEq

abbrev R := Except LowerErr

/-! ### Payloads -/

/-- identifier / string / text-block payload ↦ the text: the payload IS the text -/
def decStr (s : String) : R String := .ok s

/-- the identifier is spelled `std` -/
def isStd (i : Parser.Ident) : Bool := i.value == "std"

/-- magnitude bit pattern of the double denoted by `digits · 10^exp` (ASCII digits); this is what
    `Rsj.Pipeline.convKind` writes, as a decimal numeral, into the payload of a number token -/
def numBits (digits : List Nat) (exp : Int) : Nat :=
  Dec.roundDec (Dec.ofDigits (digits.map (· - 48))) exp

/-- the number a decimal numeral denotes (total: every character is read as `code - 48`) -/
def readNat (p : String) : Nat := Dec.ofDigits (Dec.digitsOf p.toList)

/-- number payload (decimal numeral of the bit pattern) ↦ the double (`ast::ExprKind::Number` in
    analyze.rs) -/
def decNum (p : String) : R Float := .ok (Float.ofBits (UInt64.ofNat (readNat p)))

/-! ### Operators -/

def binOp : Parser.BinaryOp → Core.BinOp
  | .Add => .add | .Sub => .sub | .Mul => .mul | .Div => .div | .Rem => .rem | .Shl => .shl
  | .Shr => .shr | .Lt => .lt | .Le => .le | .Gt => .gt | .Ge => .ge | .Eq => .eq | .Ne => .ne
  | .In => .in_ | .BitwiseAnd => .band | .BitwiseOr => .bor | .BitwiseXor => .bxor
  | .LogicAnd => .land | .LogicOr => .lor

def unOp : Parser.UnaryOp → Core.UnOp
  | .Minus => .minus | .Plus => .plus | .BitwiseNot => .bnot | .LogicNot => .lnot

def vis : Parser.Visibility → Core.Vis
  | .Default => .default | .Hidden => .hidden | .ForceVisible => .force

/-! ### Binders that rebind `std` -/

def paramsBindStd : List Parser.Param → Bool
  | [] => false
  | .mk name _ :: rest => isStd name || paramsBindStd rest

def bindsBindStd : List Parser.Bind → Bool
  | [] => false
  | .mk name _ _ _ _ :: rest => isStd name || bindsBindStd rest

def membersBindStd : List Parser.Member → Bool
  | [] => false
  | .local_ (.mk name _ _ _ _) :: rest => isStd name || membersBindStd rest
  | _ :: rest => membersBindStd rest

/-! ### Library calls -/

/-- number of arguments the evaluator model accepts for a builtin
    (`builtinCall` / `builtinCall2` of RsjModel/Eval.lean; `std.sort`, `std.set`: with or without `keyF`) -/
def builtinArityOk (b : Core.Builtin) (n : Nat) : Bool :=
  match b with
  | .length | .type_ | .all | .any | .toString => n == 1
  | .trace | .objectFieldsEx | .map | .makeArray | .filter | .flatMap | .mapWithIndex | .mapWithKey
  | .join | .range | .member | .count | .equals | .compare | .primitiveEquals | .assertEqual => n == 2
  | .sort | .set => n == 1 || n == 2
  | .objectHasEx | .foldl | .foldr | .filterMap => n == 3
  | .pure p => n == Core.pureArity p

/-- the callee is `std.<name>` (identifier `std`, then a field): the payload of `<name>` -/
def stdCallee : Parser.Expr → Option String
  | .field (.ident id _) name _ => if isStd id then some name.value else none
  | _ => none

/-- the clauses of a comprehension start with `for` (guaranteed by the parser) -/
def specsHeadFor : List Parser.CompSpec → Bool
  | .for_ _ _ :: _ => true
  | _ => false

def noLeadingFor : LowerErr := .malformed "comprehension without a leading for clause"

def allPositional : List Parser.Arg → Bool
  | [] => true
  | .positional _ :: rest => allPositional rest
  | .named _ _ :: _ => false

/-- the builtin a library call `std.<name>(args) [tailstrict]` stands for -/
def builtinOf (nameHex : String) (args : List Parser.Arg) (ts : Bool) : R Core.Builtin := do
  let name ← decStr nameHex
  match Core.parseBuiltin name with
  | none => .error (.unsupported ("std." ++ name))
  | some b =>
    if !allPositional args then .error (.unsupported ("std." ++ name ++ " with named arguments"))
    else if ts then .error (.unsupported ("std." ++ name ++ " tailstrict"))
    else if !builtinArityOk b args.length then
      .error (.unsupported ("std." ++ name ++ " with " ++ toString args.length ++ " arguments"))
    else .ok b

/-! ### Imports standing for library variables (histories only)

`libs` maps an import path to the variable of the root environment that the evaluator model binds
the library to (`Rsj.Eval.runHistory`); `lower` uses the empty map. -/

def libVar (libs : List (String × String)) (path : String) : Option String := libs.lookup path

/-- the operand of `import` (kind 0) / `importstr` (1) / `importbin` (2) decides the IR node: a string
    literal or a text block (`none`: any other expression, a computed path) -/
def importHead (libs : List (String × String)) (kind : Nat) : Parser.Expr → Option Core.Expr
  | .str p _ =>
    match (if kind = 0 then libVar libs p else none) with
    | some v => some (.var v)
    | none => some (.importLit kind)
  | .textBlock _ _ => some (.importTextBlock kind)
  | _ => none

/-- a lowered field name -/
inductive FName where
  | fix (n : String)
  | dyn (e : Core.Expr)

def mkField (n : FName) (plus : Bool) (v : Core.Vis) (ps : Core.OptParams) (e : Core.Expr)
    (rest : Core.Members) : Core.Members :=
  match n with
  | .fix s => .fieldFix s plus v ps e rest
  | .dyn ne => .fieldDyn ne plus v ps e rest

/-- `e { … }`: `ir::Expr::Binary { op: Add, lhs, rhs }`; with plain members on the right the sum is
    written `Core.objExt` -/
def extend (lhs : Core.Expr) (rhs : Core.Expr) : Core.Expr :=
  match rhs with
  | .object ms => .objExt lhs ms
  | r => .binary .add lhs r

def appendBinds : Core.Binds → Core.Binds → Core.Binds
  | .nil, ys => ys
  | .cons n ps e rest, ys => .cons n ps e (appendBinds rest ys)

/-! ### The translation

`lib`: the identifier `std` denotes the library here (no enclosing binder rebinds it);
`tail`: `can_be_tailstrict`. -/

section
variable (libs : List (String × String))

mutual
  def lowerE : Parser.Expr → Bool → Bool → R Core.Expr
    | .null _, _, _ => .ok .null
    | .bool b _, _, _ => .ok (if b then .true_ else .false_)
    | .selfObj _, _, _ => .ok .self_
    | .dollar _, _, _ => .ok .dollar
    | .str s _, _, _ => do pure (.str (← decStr s))
    | .textBlock s _, _, _ => do pure (.str (← decStr s))
    | .number n _, _, _ => do pure (.num (← decNum n))
    | .paren e _, lib, _ => do pure (.paren (← lowerE e lib false))
    | .object o _, lib, _ => lowerObj o lib
    | .array items _, lib, _ => do pure (.array (← lowerExprs items lib))
    | .arrayComp e spec _, lib, _ =>
      if !specsHeadFor spec then .error noLeadingFor
      else do
        let (spec', lib') ← lowerSpecs spec lib
        pure (.arrayComp (← lowerE e lib' false) spec')
    | .field e name _, lib, _ => do
      let e' ← lowerE e lib false
      pure (.field e' (← decStr name.value))
    | .index e i _, lib, _ => do
      let e' ← lowerE e lib false
      pure (.index e' (← lowerE i lib false))
    | .slice e a b c _, lib, _ => do
      let e' ← lowerE e lib false
      let a' ← lowerOpt a lib false
      let b' ← lowerOpt b lib false
      pure (.slice e' a' b' (← lowerOpt c lib false))
    | .superField _ name _, _, _ => do pure (.superField (← decStr name.value))
    | .superIndex _ i _, lib, _ => do pure (.superIndex (← lowerE i lib false))
    | .call f args ts _, lib, tail =>
      match (if lib then stdCallee f else none) with
      | some nameHex => do
        let b ← builtinOf nameHex args ts
        pure (.builtin b (← lowerArgExprs args lib))
      | none => do
        let f' ← lowerE f lib false
        pure (.call f' (← lowerArgs args lib) (tail && ts))
    | .ident id _, lib, _ =>
      if lib && isStd id then .error (.unsupported "std used other than as the callee std.<name>(…)")
      else do pure (.var (← decStr id.value))
    | .local_ binds body _, lib, tail => do
      let lib' := lib && !bindsBindStd binds
      let bs ← lowerBinds binds lib'
      pure (.local_ bs (← lowerE body lib' tail))
    | .ite_ c t e _, lib, tail => do
      let c' ← lowerE c lib false
      let t' ← lowerE t lib tail
      pure (.if_ c' t' (← lowerOpt e lib tail))
    | .binary l op r _, lib, _ => do
      let l' ← lowerE l lib false
      pure (.binary (binOp op) l' (← lowerE r lib false))
    | .unary op e _, lib, _ => do pure (.unary (unOp op) (← lowerE e lib false))
    | .objExt e o _ _, lib, _ => do
      let e' ← lowerE e lib false
      pure (extend e' (← lowerObj o lib))
    | .func params body _, lib, _ => do
      let lib' := lib && !paramsBindStd params
      let ps ← lowerParams params lib'
      pure (.func ps (← lowerE body lib' true))
    | .assert_ (.mk _ cond msg) body _, lib, tail => do
      let c' ← lowerE cond lib false
      let m' ← lowerOpt msg lib false
      pure (.assert_ c' m' (← lowerE body lib tail))
    | .import_ e _, lib, _ =>
      match importHead libs 0 e with
      | some r => .ok r
      | none => do pure (.importComputed 0 (← lowerE e lib false))
    | .importStr e _, lib, _ =>
      match importHead libs 1 e with
      | some r => .ok r
      | none => do pure (.importComputed 1 (← lowerE e lib false))
    | .importBin e _, lib, _ =>
      match importHead libs 2 e with
      | some r => .ok r
      | none => do pure (.importComputed 2 (← lowerE e lib false))
    | .error_ e _, lib, _ => do pure (.error_ (← lowerE e lib false))
    | .inSuper e _ _, lib, _ => do pure (.inSuper (← lowerE e lib false))
  def lowerOpt : Option Parser.Expr → Bool → Bool → R Core.OptExpr
    | none, _, _ => .ok .none
    | some e, lib, tail => do pure (.some (← lowerE e lib tail))
  def lowerExprs : List Parser.Expr → Bool → R Core.Exprs
    | [], _ => .ok .nil
    | e :: es, lib => do
      let e' ← lowerE e lib false
      pure (.cons e' (← lowerExprs es lib))
  /-- call arguments in source order (`positional_args` / `named_args` of `ir::Expr::Call`) -/
  def lowerArgs : List Parser.Arg → Bool → R Core.Args
    | [], _ => .ok .nil
    | .positional e :: rest, lib => do
      let e' ← lowerE e lib false
      pure (.pos e' (← lowerArgs rest lib))
    | .named name e :: rest, lib => do
      let n ← decStr name.value
      let e' ← lowerE e lib false
      pure (.named n e' (← lowerArgs rest lib))
  /-- the argument expressions of a library call (all positional) -/
  def lowerArgExprs : List Parser.Arg → Bool → R Core.Exprs
    | [], _ => .ok .nil
    | .positional e :: rest, lib => do
      let e' ← lowerE e lib false
      pure (.cons e' (← lowerArgExprs rest lib))
    | .named _ e :: rest, lib => do
      let e' ← lowerE e lib false
      pure (.cons e' (← lowerArgExprs rest lib))
  /-- `analyze_function`'s parameters: defaults see all parameters (`lib` is already the inner one) -/
  def lowerParams : List Parser.Param → Bool → R Core.Params
    | [], _ => .ok .nil
    | .mk name d :: rest, lib => do
      let n ← decStr name.value
      let d' ← lowerOpt d lib false
      pure (.cons n d' (← lowerParams rest lib))
  /-- bindings of `local` (`lib` is the scope that already has all of them) -/
  def lowerBinds : List Parser.Bind → Bool → R Core.Binds
    | [], _ => .ok .nil
    | .mk name hasParams params _ value :: rest, lib => do
      let n ← decStr name.value
      if hasParams then
        let lib' := lib && !paramsBindStd params
        let ps ← lowerParams params lib'
        let v ← lowerE value lib' true
        pure (.cons n (.some ps) v (← lowerBinds rest lib))
      else
        let v ← lowerE value lib false
        pure (.cons n .none v (← lowerBinds rest lib))
  /-- `analyze_comp_spec`: left to right, a `for` variable is in scope of what follows -/
  def lowerSpecs : List Parser.CompSpec → Bool → R (Core.Specs × Bool)
    | [], lib => .ok (.nil, lib)
    | .for_ v inner :: rest, lib => do
      let n ← decStr v.value
      let e' ← lowerE inner lib false
      let (r, lib') ← lowerSpecs rest (lib && !isStd v)
      pure (.for_ n e' r, lib')
    | .if_ c :: rest, lib => do
      let c' ← lowerE c lib false
      let (r, lib') ← lowerSpecs rest lib
      pure (.if_ c' r, lib')
  /-- `analyze_objinside` -/
  def lowerObj : Parser.ObjInside → Bool → R Core.Expr
    | .members ms, lib => do pure (.object (← lowerMembers ms lib (lib && !membersBindStd ms)))
    | .comp l1 name plus body l2 spec, lib =>
      if !specsHeadFor spec then .error noLeadingFor
      else do
        let (spec', libS) ← lowerSpecs spec lib
        let libIn := libS && !(bindsBindStd l1 || bindsBindStd l2)
        let b1 ← lowerBinds l1 libIn
        let b2 ← lowerBinds l2 libIn
        let name' ← lowerE name libS false
        let body' ← lowerE body libIn false
        pure (.objectComp (appendBinds b1 b2) name' plus body' spec')
  /-- members in source order; `outer`: scope of the object expression (computed field names),
      `inner`: scope with the object's locals -/
  def lowerMembers : List Parser.Member → Bool → Bool → R Core.Members
    | [], _, _ => .ok .nil
    | .local_ (.mk name hasParams params _ value) :: rest, outer, inner => do
      let n ← decStr name.value
      if hasParams then
        let lib' := inner && !paramsBindStd params
        let ps ← lowerParams params lib'
        let v ← lowerE value lib' true
        pure (.local_ n (.some ps) v (← lowerMembers rest outer inner))
      else
        let v ← lowerE value inner false
        pure (.local_ n .none v (← lowerMembers rest outer inner))
    | .assert_ (.mk _ cond msg) :: rest, outer, inner => do
      let c' ← lowerE cond inner false
      let m' ← lowerOpt msg inner false
      pure (.assert_ c' m' (← lowerMembers rest outer inner))
    | .field (.value fname plus v e) :: rest, outer, inner => do
      let e' ← lowerE e inner false
      let n ← lowerFieldName fname outer
      pure (mkField n plus (vis v) .none e' (← lowerMembers rest outer inner))
    | .field (.func fname params _ v e) :: rest, outer, inner => do
      let lib' := inner && !paramsBindStd params
      let ps ← lowerParams params lib'
      let e' ← lowerE e lib' true
      let n ← lowerFieldName fname outer
      pure (mkField n false (vis v) (.some ps) e' (← lowerMembers rest outer inner))
  /-- the name of a field: identifier / string (text block) = fixed, `[e]` = computed -/
  def lowerFieldName : Parser.FieldName → Bool → R FName
    | .ident i, _ => do pure (.fix (← decStr i.value))
    | .str s _, _ => do pure (.fix (← decStr s))
    | .expr ne _, outer => do pure (.dyn (← lowerE ne outer false))
end

end

/-- The translation of a whole source file: `Analyzer::analyze(ast, env)` starts with
    `can_be_tailstrict = false`; `std` is the library. -/
def lowerWith (libs : List (String × String)) (ast : Parser.Expr) : R Core.Expr := lowerE libs ast true false

def lower (ast : Parser.Expr) : R Core.Expr := lowerWith [] ast

end Rsj.Lower
