/-
  Model module `Num` (driver op `num`), property C06.

  Every place of the evaluator that creates a number value (`ValueData::Number(..)`) is a
  *producer*: a function into `Except Err F` over an abstract float algebra `FloatAlg F`
  that applies the operation and then the gate `check_number_value` exactly where the
  Rust code does (rsjsonnet-lang/src/program/eval/{expr,mod,stdlib}.rs) — and does *not*
  apply it where the Rust code does not (unary minus, floor, ceil, mantissa, integer
  conversions, the final division of `std.avg`): those rely on the laws `Lawful`.

  The driver instantiates `F := Float` (IEEE binary64 of the Lean runtime) for the
  exactly rounded operations and the libm functions; `%`, `frexp`, integer conversions
  and decimal parsing are computed exactly over `Nat` on the bit patterns.
-/
import RsjModel.Util
import RsjModel.Dec
namespace Rsj.Num

/-! ### abstract float algebra -/

structure FloatAlg (F : Type) where
  add : F → F → F
  sub : F → F → F
  mul : F → F → F
  div : F → F → F
  /-- Rust `%` on f64 (C `fmod`) -/
  rem : F → F → F
  neg : F → F
  floor : F → F
  ceil : F → F
  sqrt : F → F
  exp : F → F
  log : F → F
  log2 : F → F
  log10 : F → F
  sin : F → F
  cos : F → F
  tan : F → F
  asin : F → F
  acos : F → F
  atan : F → F
  pow : F → F → F
  atan2 : F → F → F
  hypot : F → F → F
  toRadians : F → F
  toDegrees : F → F
  /-- first component of `float::frexp` -/
  mantissa : F → F
  /-- second component of `float::frexp` (an `i16`) -/
  exponent : F → Int
  /-- `i as f64` for an integer type (round to nearest even) -/
  ofInt : Int → F
  /-- `str::parse::<f64>` of the decimal `(-1)^neg · n · 10^e` -/
  ofDec : Bool → Nat → Int → F
  /-- `x as i64` (truncating, saturating, NaN ↦ 0) -/
  toInt : F → Int
  lt : F → F → Bool
  /-- `f64::partial_cmp` -/
  partialCmp : F → F → Option Ordering
  eqZero : F → Bool
  /-- `is_sign_negative` -/
  signNeg : F → Bool
  isNaN : F → Bool
  isInf : F → Bool
  pi : F

/-- `FpCategory` is one of Zero/Subnormal/Normal: neither NaN nor infinite.
    (`classify` is exhaustive by construction: a value is NaN, infinite, or `Finite`.) -/
def Finite {F : Type} (alg : FloatAlg F) (x : F) : Prop :=
  alg.isNaN x = false ∧ alg.isInf x = false

/-- The laws of binary64 arithmetic that the ungated producers rely on. -/
structure Lawful {F : Type} (alg : FloatAlg F) : Prop where
  neg_finite : ∀ x, Finite alg x → Finite alg (alg.neg x)
  floor_finite : ∀ x, Finite alg x → Finite alg (alg.floor x)
  ceil_finite : ∀ x, Finite alg x → Finite alg (alg.ceil x)
  mantissa_finite : ∀ x, Finite alg x → Finite alg (alg.mantissa x)
  /-- the exponent of `frexp` is an `i16` -/
  exponent_i16 : ∀ x, -32768 ≤ alg.exponent x ∧ alg.exponent x ≤ 32767
  /-- every integer of a 64-bit type converts to a finite double -/
  ofInt_finite : ∀ i : Int, -(2 ^ 64) ≤ i → i ≤ 2 ^ 64 → Finite alg (alg.ofInt i)
  /-- dividing a finite value by an array length ≥ 1 stays finite (`std.avg`) -/
  div_count_finite : ∀ x (n : Nat), Finite alg x → 1 ≤ n → n ≤ 2 ^ 64 →
    Finite alg (alg.div x (alg.ofInt n))
  pi_finite : Finite alg alg.pi
  /-- `partial_cmp` is `None` only if an operand is NaN -/
  partialCmp_some : ∀ x y, alg.isNaN x = false → alg.isNaN y = false →
    (alg.partialCmp x y).isSome = true

inductive Err where
  | numberNan | numberOverflow | divByZero | notBitwiseSafe | shiftByNegative
  | emptyAvg          -- "cannot calculate average of empty array"
  | badText           -- parse builtins: invalid text
  | arity             -- wrong number of arguments for the producer (driver misuse)
  | outOfType         -- an integer parameter outside every 64-bit integer type (driver misuse)
deriving Repr, DecidableEq

/-- `check_number_value` -/
def gate {F : Type} (alg : FloatAlg F) (x : F) : Except Err F :=
  if alg.isNaN x then .error .numberNan
  else if alg.isInf x then .error .numberOverflow
  else .ok x

/-- The arms of `check_number_value` as the model `gate` reads them (category of
    `f64::classify` ↦ outcome); compared with the arms extracted from the source
    (`NumberSites.gateArms`) in RsjProps/C06.lean. -/
def gateSpec : List (String × String) :=
  [("Nan", "NumberNan"), ("Infinite", "NumberOverflow"), ("Zero", "ok"), ("Subnormal", "ok"),
   ("Normal", "ok")]

/-- `if !number.is_finite() { return Err(NumberOverflow) }` -/
def finiteCheck {F : Type} (alg : FloatAlg F) (x : F) : Except Err F :=
  if !alg.isNaN x && !alg.isInf x then .ok x else .error .numberOverflow

/-- Outcome of `lhs.partial_cmp(&rhs).unwrap()` in `State::CompareValue` (mod.rs):
    `none` models the panic of `unwrap` on `None`. -/
def compareNumbers {F : Type} (alg : FloatAlg F) (x y : F) : Option Ordering :=
  alg.partialCmp x y

/-! ### 64-bit integer helpers (two's complement) -/

def TWO63 : Int := 2 ^ 63
def TWO64 : Int := 2 ^ 64

/-- wrap into the `i64` range -/
def wrapI64 (x : Int) : Int := (x + TWO63) % TWO64 - TWO63

/-- two's complement image in `[0, 2^64)` -/
def toU64 (x : Int) : Nat := (x % TWO64).toNat

/-- back from the unsigned image -/
def fromU64 (n : Nat) : Int := wrapI64 (n : Int)

/-- `safe_f64_to_i64` -/
def safeToI64 {F : Type} (alg : FloatAlg F) (x : F) : Except Err Int :=
  let max := alg.ofInt (2 ^ 53 - 1)
  let min := alg.neg max
  if alg.lt x min || alg.lt max x then .error .notBitwiseSafe
  else .ok (alg.toInt x)

/-! ### producers -/

inductive Producer where
  -- binary operators (expr.rs `do_binary_op`)
  | add | sub | mul | div | rem | shl | shr | band | bor | bxor
  -- unary operators (mod.rs `State::UnaryOp`)
  | neg | pos | bnot
  -- native builtins (stdlib.rs)
  | modulo | mod | pow | atan2 | hypot
  | exp | log | log2 | log10 | sqrt | sin | cos | tan | asin | acos | atan
  | deg2rad | rad2deg | floor | ceil | mantissa | exponent
  | sum | avg
  -- builtins written in Jsonnet (std.libsonnet)
  | abs | sign | max | min | clamp | round
  -- parameterised sites
  | intConv (i : Int)                       -- `u8/u32/i8/i16/i32/usize as f64`
  | literal (n : Nat) (e : Int)             -- `ir::Expr::Number` (analyzer parse + gate)
  | parseDec (neg : Bool) (n : Nat) (e : Int)  -- parseInt / parseJson / parseYaml decimal
  | parseRadix (radix : Nat) (text : List Char)  -- parseOctal / parseHex / YAML 0o 0x
  | pi
deriving Repr, DecidableEq

def sumLoop {F : Type} (alg : FloatAlg F) : F → List F → Except Err F
  | acc, [] => .ok acc
  | acc, x :: xs =>
    match gate alg (alg.add acc x) with
    | .error e => .error e
    | .ok s => sumLoop alg s xs

/-- `char::to_digit(radix)` for radix 8 / 16 -/
def toDigit (radix : Nat) (c : Char) : Option Nat :=
  let n := c.toNat
  let v : Option Nat :=
    if 48 ≤ n ∧ n ≤ 57 then some (n - 48)
    else if 97 ≤ n ∧ n ≤ 122 then some (n - 87)
    else if 65 ≤ n ∧ n ≤ 90 then some (n - 55)
    else none
  match v with
  | some d => if d < radix then some d else none
  | none => none

def dropZeros : List Char → List Char
  | '0' :: cs => dropZeros cs
  | cs => cs

/-- the first loop of `parse_num_radix`: `number = number * RADIX + digit` in u128 -/
def radixHead (radix : Nat) : List Char → Nat → Option Nat
  | [], acc => some acc
  | c :: cs, acc =>
    match toDigit radix c with
    | none => none
    | some d => radixHead radix cs (acc * radix + d)

/-- the second loop: validity, sticky bit and count of the digits beyond 128 bits -/
def radixTail (radix : Nat) : List Char → Bool → Option Bool
  | [], st => some st
  | c :: cs, st =>
    match toDigit radix c with
    | none => none
    | some d => radixTail radix cs (st || d != 0)

def mulTimes {F : Type} (alg : FloatAlg F) (r : F) : Nat → F → F
  | 0, x => x
  | k + 1, x => mulTimes alg r k (alg.mul x r)

/-- `parse_num_radix::<RADIX>` -/
def parseNumRadix {F : Type} (alg : FloatAlg F) (radix : Nat) (s : List Char) : Except Err F :=
  if s.isEmpty then .error .badText
  else
    let s := dropZeros s
    let maxDigits := if radix = 8 then 128 / 3 else 128 / 4
    let head := s.take maxDigits
    let tail := s.drop maxDigits
    match radixHead radix head 0 with
    | none => .error .badText
    | some number =>
      match radixTail radix tail false with
      | none => .error .badText
      | some sticky =>
        let number := if sticky then number ||| 1 else number
        let x := mulTimes alg (alg.ofInt radix) tail.length (alg.ofInt number)
        finiteCheck alg x

def run {F : Type} (alg : FloatAlg F) (p : Producer) (args : List F) : Except Err F :=
  match p, args with
  | .add, [l, r] => gate alg (alg.add l r)
  | .sub, [l, r] => gate alg (alg.sub l r)
  | .mul, [l, r] => gate alg (alg.mul l r)
  | .div, [l, r] => if alg.eqZero r then .error .divByZero else gate alg (alg.div l r)
  | .rem, [l, r] => if alg.eqZero r then .error .divByZero else gate alg (alg.rem l r)
  | .modulo, [l, r] => if alg.eqZero r then .error .divByZero else gate alg (alg.rem l r)
  | .mod, [l, r] => if alg.eqZero r then .error .divByZero else gate alg (alg.rem l r)
  | .shl, [l, r] =>
    match safeToI64 alg l with
    | .error e => .error e
    | .ok li =>
      if alg.signNeg r then .error .shiftByNegative
      else
        match safeToI64 alg r with
        | .error e => .error e
        | .ok ri =>
          let sh := (ri % 64).toNat                    -- `rhs & 63`
          let res := wrapI64 (li * 2 ^ sh)             -- `lhs << shift` (wrapping)
          if wrapI64 (res / 2 ^ sh) ≠ li then .error .notBitwiseSafe   -- `r >> shift != lhs`
          else .ok (alg.ofInt res)
  | .shr, [l, r] =>
    match safeToI64 alg l with
    | .error e => .error e
    | .ok li =>
      if alg.signNeg r then .error .shiftByNegative
      else
        match safeToI64 alg r with
        | .error e => .error e
        | .ok ri => .ok (alg.ofInt (wrapI64 (li / 2 ^ (ri % 64).toNat)))
  | .band, [l, r] =>
    match safeToI64 alg l, safeToI64 alg r with
    | .ok li, .ok ri => .ok (alg.ofInt (fromU64 (toU64 li &&& toU64 ri)))
    | .error e, _ => .error e
    | _, .error e => .error e
  | .bor, [l, r] =>
    match safeToI64 alg l, safeToI64 alg r with
    | .ok li, .ok ri => .ok (alg.ofInt (fromU64 (toU64 li ||| toU64 ri)))
    | .error e, _ => .error e
    | _, .error e => .error e
  | .bxor, [l, r] =>
    match safeToI64 alg l, safeToI64 alg r with
    | .ok li, .ok ri => .ok (alg.ofInt (fromU64 (toU64 li ^^^ toU64 ri)))
    | .error e, _ => .error e
    | _, .error e => .error e
  | .neg, [x] => .ok (alg.neg x)
  | .pos, [x] => .ok x
  | .bnot, [x] =>
    match safeToI64 alg x with
    | .error e => .error e
    | .ok i => .ok (alg.ofInt (wrapI64 (-i - 1)))
  | .pow, [l, r] => gate alg (alg.pow l r)
  | .atan2, [l, r] => gate alg (alg.atan2 l r)
  | .hypot, [l, r] => gate alg (alg.hypot l r)
  | .exp, [x] => gate alg (alg.exp x)
  | .log, [x] => gate alg (alg.log x)
  | .log2, [x] => gate alg (alg.log2 x)
  | .log10, [x] => gate alg (alg.log10 x)
  | .sqrt, [x] => gate alg (alg.sqrt x)
  | .sin, [x] => gate alg (alg.sin x)
  | .cos, [x] => gate alg (alg.cos x)
  | .tan, [x] => gate alg (alg.tan x)
  | .asin, [x] => gate alg (alg.asin x)
  | .acos, [x] => gate alg (alg.acos x)
  | .atan, [x] => gate alg (alg.atan x)
  | .deg2rad, [x] => gate alg (alg.toRadians x)
  | .rad2deg, [x] => gate alg (alg.toDegrees x)
  | .floor, [x] => .ok (alg.floor x)
  | .ceil, [x] => .ok (alg.ceil x)
  | .mantissa, [x] => .ok (alg.mantissa x)
  | .exponent, [x] => .ok (alg.ofInt (alg.exponent x))
  | .sum, xs => sumLoop alg (alg.ofInt 0) xs
  | .avg, xs =>
    match xs with
    | [] => .error .emptyAvg
    | _ :: _ =>
      match sumLoop alg (alg.ofInt 0) xs with
      | .error e => .error e
      | .ok s => if xs.length ≤ 2 ^ 64 then .ok (alg.div s (alg.ofInt xs.length)) else .error .outOfType
  -- std.libsonnet
  | .abs, [n] => if alg.lt (alg.ofInt 0) n then .ok n else .ok (alg.neg n)
  | .sign, [n] =>
    if alg.lt (alg.ofInt 0) n then .ok (alg.ofInt 1)
    else if alg.lt n (alg.ofInt 0) then .ok (alg.neg (alg.ofInt 1))
    else .ok (alg.ofInt 0)
  | .max, [a, b] => if alg.lt b a then .ok a else .ok b
  | .min, [a, b] => if alg.lt a b then .ok a else .ok b
  | .clamp, [x, lo, hi] => if alg.lt x lo then .ok lo else if alg.lt hi x then .ok hi else .ok x
  | .round, [x] =>
    match gate alg (alg.add x (alg.ofDec false 5 (-1))) with
    | .error e => .error e
    | .ok y => .ok (alg.floor y)
  | .intConv i, [] =>
    if -(2 ^ 64) ≤ i ∧ i ≤ 2 ^ 64 then .ok (alg.ofInt i) else .error .outOfType
  | .literal n e, [] => gate alg (alg.ofDec false n e)
  | .parseDec neg n e, [] => finiteCheck alg (alg.ofDec neg n e)
  | .parseRadix radix text, [] => parseNumRadix alg radix text
  | .pi, [] => .ok alg.pi
  | _, _ => .error .arity

/-- Names of the parameterless producers (used by the site map, `NumberSites.lean`). -/
def producerNames : List String :=
  ["add", "sub", "mul", "div", "rem", "shl", "shr", "band", "bor", "bxor", "neg", "pos", "bnot",
   "modulo", "mod", "pow", "atan2", "hypot", "exp", "log", "log2", "log10", "sqrt", "sin", "cos",
   "tan", "asin", "acos", "atan", "deg2rad", "rad2deg", "floor", "ceil", "mantissa", "exponent",
   "sum", "avg", "abs", "sign", "max", "min", "clamp", "round",
   "intConv", "literal", "parseDec", "parseRadix", "pi"]

/-- Justified classes of `tools/number_sites.toml` that are not producer names. -/
def siteClasses : List String := ["integer-conversion", "constant", "host-supplied"]

/-- Producers whose construction site itself must be preceded by the gate in the source
    (`check_number_value(<expr>, ..)` or an `is_finite` test on the constructed expression). -/
def siteGated : List String :=
  ["add", "sub", "mul", "div", "rem", "modulo", "mod", "pow", "atan2", "hypot", "exp", "log",
   "log2", "log10", "sqrt", "sin", "cos", "tan", "asin", "acos", "atan", "deg2rad", "rad2deg",
   "sum", "literal"]

/-- Name of a producer in `producerNames`. -/
def Producer.name : Producer → String
  | .add => "add" | .sub => "sub" | .mul => "mul" | .div => "div" | .rem => "rem"
  | .shl => "shl" | .shr => "shr" | .band => "band" | .bor => "bor" | .bxor => "bxor"
  | .neg => "neg" | .pos => "pos" | .bnot => "bnot" | .modulo => "modulo" | .mod => "mod"
  | .pow => "pow" | .atan2 => "atan2" | .hypot => "hypot" | .exp => "exp" | .log => "log"
  | .log2 => "log2" | .log10 => "log10" | .sqrt => "sqrt" | .sin => "sin" | .cos => "cos"
  | .tan => "tan" | .asin => "asin" | .acos => "acos" | .atan => "atan"
  | .deg2rad => "deg2rad" | .rad2deg => "rad2deg" | .floor => "floor" | .ceil => "ceil"
  | .mantissa => "mantissa" | .exponent => "exponent" | .sum => "sum" | .avg => "avg"
  | .abs => "abs" | .sign => "sign" | .max => "max" | .min => "min" | .clamp => "clamp"
  | .round => "round" | .intConv _ => "intConv" | .literal _ _ => "literal"
  | .parseDec _ _ _ => "parseDec" | .parseRadix _ _ => "parseRadix" | .pi => "pi"

def producerOfName (s : String) : Option Producer :=
  match s with
  | "add" => some .add | "sub" => some .sub | "mul" => some .mul | "div" => some .div
  | "rem" => some .rem | "shl" => some .shl | "shr" => some .shr | "band" => some .band
  | "bor" => some .bor | "bxor" => some .bxor | "neg" => some .neg | "pos" => some .pos
  | "bnot" => some .bnot | "modulo" => some .modulo | "mod" => some .mod | "pow" => some .pow
  | "atan2" => some .atan2 | "hypot" => some .hypot | "exp" => some .exp | "log" => some .log
  | "log2" => some .log2 | "log10" => some .log10 | "sqrt" => some .sqrt | "sin" => some .sin
  | "cos" => some .cos | "tan" => some .tan | "asin" => some .asin | "acos" => some .acos
  | "atan" => some .atan | "deg2rad" => some .deg2rad | "rad2deg" => some .rad2deg
  | "floor" => some .floor | "ceil" => some .ceil | "mantissa" => some .mantissa
  | "exponent" => some .exponent | "sum" => some .sum | "avg" => some .avg
  | "abs" => some .abs | "sign" => some .sign | "max" => some .max | "min" => some .min
  | "clamp" => some .clamp | "round" => some .round | "pi" => some .pi
  | _ => none

/-! ### the binary64 instance (driver only; no theorem depends on it) -/

open Rsj.Dec

def bitsOf (x : Float) : Nat := x.toBits.toNat
def ofBitsNat (b : Nat) : Float := Float.ofBits (UInt64.ofNat b)

/-- Exact `fmod` on bit patterns. -/
def fmodBits (x y : Nat) : Nat :=
  let sx := x / SIGN_BIT
  let ax := x % SIGN_BIT
  let ay := y % SIGN_BIT
  if ax > INF_BITS ∨ ay > INF_BITS then NAN_BITS
  else if ax = INF_BITS ∨ ay = 0 then NAN_BITS
  else if ay = INF_BITS then x
  else
    let (mx, ex) := decodeMag ax
    let (my, ey) := decodeMag ay
    let e := min ex ey
    let r := (mx * 2 ^ (ex - e)) % (my * 2 ^ (ey - e))
    sx * SIGN_BIT + roundNE (r * 2 ^ e) (2 ^ 1074)

/-- `x as i64` on bit patterns. -/
def toIntBits (x : Nat) : Int :=
  let neg := x / SIGN_BIT = 1
  let ax := x % SIGN_BIT
  if ax > INF_BITS then 0
  else
    let mag : Nat :=
      if ax = INF_BITS then 2 ^ 64
      else
        let (m, sh) := decodeMag ax
        if sh ≥ 1074 then m * 2 ^ (sh - 1074) else m / 2 ^ (1074 - sh)
    if neg then (if mag ≥ 2 ^ 63 then -(2 ^ 63) else -(mag : Int))
    else (if mag ≥ 2 ^ 63 then 2 ^ 63 - 1 else (mag : Int))

def ofIntBits (i : Int) : Nat :=
  (if i < 0 then SIGN_BIT else 0) + roundNE i.natAbs 1

def ofDecBits (neg : Bool) (n : Nat) (e : Int) : Nat :=
  (if neg then SIGN_BIT else 0) + roundDec n e

/-- `float::frexp` on bit patterns: mirrors the Rust code line by line. -/
def frexpBits (x : Nat) : Nat × Int :=
  let ax := x % SIGN_BIT
  let isSub := ax / 2 ^ 52 = 0 ∧ ax ≠ 0
  -- `x * 2^52` is exact for a subnormal x
  let (norm, edelta) : Nat × Int :=
    if isSub then
      ((x / SIGN_BIT) * SIGN_BIT + roundNE ((ax % 2 ^ 52) * 2 ^ 52) (2 ^ 1074), -52)
    else (x, 0)
  let rawExp : Nat := norm / 2 ^ 52 % 2048
  if rawExp = 0 then ((norm / SIGN_BIT) * SIGN_BIT, 0)
  else
    let mant := (norm / SIGN_BIT) * SIGN_BIT + 0x3FE * 2 ^ 52 + norm % 2 ^ 52
    (mant, (rawExp : Int) - 0x3FE + edelta)

/-- Does `hypot` of two finite magnitudes overflow (correctly rounded)? -/
def hypotOverflows (ax ay : Nat) : Bool :=
  let (mx, ex) := decodeMag ax
  let (my, ey) := decodeMag ay
  let v := mx * mx * 2 ^ (2 * ex) + my * my * 2 ^ (2 * ey)
  let t := 2 ^ 2098 - 2 ^ 2044
  decide (v ≥ t * t)

def MAX_BITS : Nat := 0x7FEFFFFFFFFFFFFF

def hypotFloat (x y : Float) : Float :=
  let bx := bitsOf x % SIGN_BIT
  let b_y := bitsOf y % SIGN_BIT
  if bx = INF_BITS ∨ b_y = INF_BITS then ofBitsNat INF_BITS
  else if bx > INF_BITS ∨ b_y > INF_BITS then ofBitsNat NAN_BITS
  else if hypotOverflows bx b_y then ofBitsNat INF_BITS
  else
    let a := x.abs
    let b := y.abs
    let m := if a < b then b else a
    let n := if a < b then a else b
    if m == 0 then m
    else
      let q := n / m
      let r := m * Float.sqrt (1 + q * q)
      if r.isInf then ofBitsNat MAX_BITS else r

def floatAlg : FloatAlg Float where
  add := (· + ·)
  sub := (· - ·)
  mul := (· * ·)
  div := (· / ·)
  rem := fun x y => ofBitsNat (fmodBits (bitsOf x) (bitsOf y))
  neg := fun x => ofBitsNat ((bitsOf x + SIGN_BIT) % 2 ^ 64)
  floor := Float.floor
  ceil := Float.ceil
  sqrt := Float.sqrt
  exp := Float.exp
  log := Float.log
  log2 := Float.log2
  log10 := Float.log10
  sin := Float.sin
  cos := Float.cos
  tan := Float.tan
  asin := Float.asin
  acos := Float.acos
  atan := Float.atan
  pow := Float.pow
  atan2 := Float.atan2
  hypot := hypotFloat
  -- `const RADS_PER_DEG: f64 = consts::PI / 180.0; self * RADS_PER_DEG`
  toRadians := fun x => x * (ofBitsNat 0x400921FB54442D18 / 180.0)
  -- `self * (180.0f64 / consts::PI)`
  toDegrees := fun x => x * (180.0 / ofBitsNat 0x400921FB54442D18)
  mantissa := fun x => ofBitsNat (frexpBits (bitsOf x)).1
  exponent := fun x => (frexpBits (bitsOf x)).2
  ofInt := fun i => ofBitsNat (ofIntBits i)
  ofDec := fun neg n e => ofBitsNat (ofDecBits neg n e)
  toInt := fun x => toIntBits (bitsOf x)
  lt := fun x y => x < y
  partialCmp := fun x y =>
    if x < y then some .lt else if x == y then some .eq else if y < x then some .gt else none
  eqZero := fun x => x == 0
  signNeg := fun x => bitsOf x / SIGN_BIT = 1
  isNaN := Float.isNaN
  isInf := Float.isInf
  pi := ofBitsNat 0x400921FB54442D18

/-! ### driver -/

def hex16 (n : Nat) : String :=
  String.ofList ((List.range 16).reverse.map (fun i => hexDigit (n / 16 ^ i % 16)))

def parseHexNat (s : String) : Option Nat :=
  s.toList.foldl (fun acc c => match acc, hexVal c with
    | some a, some d => some (a * 16 + d)
    | _, _ => none) (some 0)

def parseBits (s : String) : Option Float :=
  if s.length = 16 then (parseHexNat s).map ofBitsNat else none

def showErr : Err → String
  | .numberNan => "NumberNan" | .numberOverflow => "NumberOverflow" | .divByZero => "DivByZero"
  | .notBitwiseSafe => "NumberNotBitwiseSafe" | .shiftByNegative => "ShiftByNegative"
  | .emptyAvg => "Other" | .badText => "Other" | .arity => "arity" | .outOfType => "outOfType"

def showRes : Except Err Float → String
  | .ok x => "ok " ++ hex16 (bitsOf x)
  | .error e => "err " ++ showErr e

def showLexErr : LexErr → String
  | .notADigit => "NotADigit" | .leadingZero => "LeadingZeroInNumber"
  | .missingDigitAfterUnderscore => "MissingDigitAfterUnderscore"
  | .missingFracDigits => "MissingFracDigits" | .missingExpDigits => "MissingExpDigits"
  | .expOverflow => "ExpOverflow"

def charsOfHex (s : String) : Option (List Char) :=
  (hexDecode s).map (fun bs => bs.map Char.ofNat)

def hexOfChars (cs : List Char) : String := hexEnc (cs.map Char.toNat)

def digitsString (ds : List Nat) : String := String.ofList (ds.map digitChar)

/-- value of a text in `sciValue` grammar after `is_finite` check -/
def decText (t : List Char) : Option (Except Err Float) :=
  match sciValue t with
  | none => none
  | some (neg, n, e) => some (run floatAlg (.parseDec neg n e) [])

/-- `num <sub> ...` -/
def handle (args : List String) : Option String :=
  match args with
  | "op" :: name :: rest => do
    let p ← producerOfName name
    let xs ← rest.mapM parseBits
    pure (showRes (run floatAlg p xs))
  | ["conv", i] => do
    let i ← i.toInt?
    pure (showRes (run floatAlg (.intConv i) []))
  | ["lex", t] => do
    let cs ← charsOfHex t
    match lexNumber cs with
    | .error e => pure ("err " ++ showLexErr e)
    | .ok (ds, e, rest) => pure s!"ok {digitsString ds} {e} {hexOfChars rest}"
  | ["lit", t] => do
    let cs ← charsOfHex t
    match lexNumber cs with
    | .error e => pure ("err lex " ++ showLexErr e)
    | .ok (ds, e, rest) =>
      if !rest.isEmpty then pure "err rest"
      else
        -- the analyzer parses the re-assembled text
        match sciValue (reassemble ds e) with
        | some (false, n, e') => pure (showRes (run floatAlg (.literal n e') []))
        | _ => pure "err reassemble"
  | ["litvalue", t] => do
    -- specification side: value of the literal text, no state machine
    let cs ← charsOfHex t
    let (n, e) := literalValue cs
    pure (showRes (run floatAlg (.literal n e) []))
  | ["dec", t] => do
    let cs ← charsOfHex t
    match decText cs with
    | none => pure "err Other"
    | some r => pure (showRes r)
  | ["parseint", t] => do
    let cs ← charsOfHex t
    let body := match cs with | '-' :: r => r | r => r
    if body.isEmpty || !allDigits body then pure "err Other"
    else match decText cs with
      | none => pure "err Other"
      | some r => pure (showRes r)
  | ["radix", r, t] => do
    let r ← r.toNat?
    let cs ← charsOfHex t
    if r = 8 ∨ r = 16 then pure (showRes (run floatAlg (.parseRadix r cs) [])) else none
  | ["yaml", t] => do
    -- `scalar_to_value` for a plain scalar that is not null/true/false
    let cs ← charsOfHex t
    match decText cs with
    | some r => pure (showRes r)
    | none =>
      let oct := match cs with
        | '0' :: 'o' :: ds => (match run floatAlg (.parseRadix 8 ds) [] with | .ok x => some x | .error _ => none)
        | _ => none
      let hex := match cs with
        | '0' :: 'x' :: ds => (match run floatAlg (.parseRadix 16 ds) [] with | .ok x => some x | .error _ => none)
        | _ => none
      match oct, hex with
      | some x, _ => pure (showRes (finiteCheck floatAlg x))
      | none, some x => pure (showRes (finiteCheck floatAlg x))
      | none, none => pure "nonnum"
  | ["shortest", b, t] => do
    let b ← if b.length = 16 then parseHexNat b else none
    let cs ← charsOfHex t
    pure (if isShortestRT b cs then "true" else "false")
  | ["nearest", num, den, b] => do
    let num ← num.toNat?
    let den ← den.toNat?
    let b ← if b.length = 16 then parseHexNat b else none
    pure (if isNearestEven num den b then "true" else "false")
  | ["round", num, den] => do
    let num ← num.toNat?
    let den ← den.toNat?
    if den = 0 then none else pure (hex16 (roundNE num den))
  | _ => none

end Rsj.Num
