/-
  Model module `Num` (driver op `num`). Import-free apart from RsjModel.* modules.
-/
import RsjModel.Util
namespace Rsj.Num

/-- `num <args...>` : one canonical answer line, or `none` for a malformed request. -/
def handle (_args : List String) : Option String := none

end Rsj.Num
