/-
  Model module `Gc` (driver op `gcscript`). Import-free apart from RsjModel.* modules.
-/
import RsjModel.Util
namespace Rsj.Gc

/-- `gcscript <args...>` : one canonical answer line, or `none` for a malformed request. -/
def handle (_args : List String) : Option String := none

end Rsj.Gc
