/-
  Model of `rsjsonnet-lang/src/gc/mod.rs` (`GcContext`, `Gc`, `GcView`) and of the
  scripted-heap driver `gc/verif.rs` (driver op `gcscript`).

  A heap object is the `GcBox` of the Rust code seen from the collector:
    * `edges`  – the `Gc<_>` handles stored *inside* the object's value, in the order its
                 `GcTrace::trace` visits them (with multiplicity),
    * `views`  – number of `GcView`s (strong `Rc`s) held outside `objs`, so that
                 `Rc::strong_count(obj) > 1  ↔  views > 0`,
    * `ext`    – number of `Gc` handles (weak `Rc`s) held outside the heap,
    * `visits`, `mark` – the two `Cell`s of `GcBox`.
  `Rc::weak_count(obj) = ext + (number of edges pointing to obj from objects whose value has
  not been dropped)`; an object whose `Rc` was removed from `objs` has its value dropped
  (which releases its out-edges), so "not dropped" = "still in the list".
  The list order is the order of `GcContextInner::objs`.
-/
import RsjModel.Util
namespace Rsj.Gc

structure Obj where
  id : Nat
  edges : List Nat
  views : Nat
  ext : Nat
  visits : Nat
  mark : Bool
deriving Repr, DecidableEq

abbrev Heap := List Obj

/-- `Weak::upgrade` of a handle with target id `j`: the object if its value is still alive. -/
def find (H : Heap) (j : Nat) : Option Obj := H.find? (fun o => o.id == j)

/-- Number of in-heap handles pointing to `j`. -/
def inDeg : Heap → Nat → Nat
  | [], _ => 0
  | o :: H, j => o.edges.count j + inDeg H j

/-- `Rc::weak_count(obj)` -/
def weakCount (H : Heap) (o : Obj) : Nat := o.ext + inDeg H o.id

/-! ### Mark propagation (`GcMarkCtx`) -/

/-- `GcMarkCtx::visit_obj` for every handle of a traced value, in order.
    `ok t` = the handle upgrades and the target's `mark` was false before this
    propagation started; `newly` = ids whose mark was set during this propagation;
    `stack` = `GcMarkCtx::queue` (head = last pushed). -/
def visitEdges (ok : Nat → Bool) : List Nat → List Nat → List Nat → List Nat × List Nat
  | [], newly, stack => (newly, stack)
  | t :: ts, newly, stack =>
    if ok t && !newly.contains t then visitEdges ok ts (t :: newly) (t :: stack)
    else visitEdges ok ts newly stack

/-- `while let Some(sub_obj) = mark_ctx.queue.pop() { sub_obj.value.trace_mark(..) }`.
    Fuel: every pop is of a distinct object that was unmarked before, see
    `RsjProofs.GcMark.markLoop_closed` (fuel `≥ #unmarked + |stack|` is enough). -/
def markLoop (succ : Nat → List Nat) (ok : Nat → Bool) : Nat → List Nat → List Nat → List Nat
  | 0, newly, _ => newly
  | _ + 1, newly, [] => newly
  | n + 1, newly, x :: stack =>
    let r := visitEdges ok (succ x) newly stack
    markLoop succ ok n r.1 r.2

def isUnmarked (H : Heap) (t : Nat) : Bool :=
  match find H t with
  | some o => !o.mark
  | none => false

def edgesOf (H : Heap) (x : Nat) : List Nat :=
  match find H x with
  | some o => o.edges
  | none => []

/-- `obj.mark.set(true); obj.value.trace_mark(ctx); while pop ...` for the (unmarked)
    object `x`: the ids that get their mark set. -/
def markFrom (H : Heap) (x : Nat) : List Nat :=
  markLoop (edgesOf H) (isUnmarked H) H.length [x] [x]

def markObj (ms : List Nat) (o : Obj) : Obj :=
  if ms.contains o.id then { o with mark := true } else o

def setMarks (ms : List Nat) (H : Heap) : Heap := H.map (markObj ms)

/-- `GcCountCtx::visit_obj` for every handle in `ts`, seen from object `o`. -/
def bumpObj (ts : List Nat) (o : Obj) : Obj := { o with visits := o.visits + ts.count o.id }

def bump (ts : List Nat) (H : Heap) : Heap := H.map (bumpObj ts)

/-- `Vec::swap_remove(i)` where `objs[i..] = cur :: rest`: the last element takes the
    place of `cur`. -/
def rotate (rest : List Obj) : List Obj :=
  match rest.reverse with
  | [] => []
  | l :: r => l :: r.reverse

/-! ### The three phases of `GcContext::gc` -/

/-- Phase "Count". `done = objs[..i]`, `todo = objs[i..]`, `known = known_with_view`.
    Fuel = `todo.length` (each iteration shortens `todo`). -/
def phase1 : Nat → List Obj → List Obj → Nat → List Obj
  | 0, done, todo, _ => done ++ todo
  | _ + 1, done, [], _ => done
  | n + 1, done, cur :: rest, known =>
    if cur.views > 0 then
      -- at least one `GcView`: mark directly
      let ms := if cur.mark then [] else markFrom (done ++ cur :: rest) cur.id
      let done1 := setMarks ms done
      let cur1 := markObj ms cur
      let rest1 := setMarks ms rest
      -- `if i > known_with_view { objs.swap(i, known_with_view); known_with_view += 1 }`
      match done1[known]? with
      | some old => phase1 n (done1.set known cur1 ++ [old]) rest1 (known + 1)
      | none => phase1 n (done1 ++ [cur1]) rest1 known
    else if weakCount (done ++ cur :: rest) cur = 0 then
      -- no `Gc`, no `GcView`: destroyed directly (its value is dropped: out-edges released)
      phase1 n done (rotate rest) known
    else if !cur.mark then
      -- at least one `Gc`: count
      phase1 n (bump cur.edges done ++ [bumpObj cur.edges cur]) (bump cur.edges rest) known
    else
      phase1 n (done ++ [cur]) rest known

/-- Phase "Mark": `for obj in objs.iter()` (the order and the ids do not change during
    the loop, so the objects are addressed by id). -/
def phase2 : List Nat → Heap → Heap
  | [], H => H
  | j :: js, H =>
    match find H j with
    | some o =>
      if !o.mark && weakCount H o > o.visits then phase2 js (setMarks (markFrom H j) H)
      else phase2 js H
    | none => phase2 js H

def resetObj (o : Obj) : Obj := { o with visits := 0, mark := false }

/-- Phase "Sweep". -/
def sweep : Nat → List Obj → List Obj → List Obj
  | 0, done, todo => done ++ todo
  | _ + 1, done, [] => done
  | n + 1, done, cur :: rest =>
    if cur.mark then sweep n (done ++ [resetObj cur]) rest
    else sweep n done (rotate rest)

/-- `GcContext::gc` -/
def collect (H : Heap) : Heap :=
  let H1 := phase1 H.length [] H 0
  let H2 := phase2 (H1.map (·.id)) H1
  sweep H2.length [] H2

/-! ### Scripted-heap driver (`gc/verif.rs::run_script`) -/

/-- What the driver holds for node `i` (`Held`): numbers of `Gc` handles and `GcView`s. -/
structure Held where
  handles : Nat
  views : Nat
deriving Repr, DecidableEq

structure St where
  heap : Heap
  held : List Held
deriving Repr

inductive Op where
  | alloc | allocView
  | handle (i : Option Nat) | view (i : Option Nat)
  | dropHandle (i : Option Nat) | dropView (i : Option Nat)
  | edge (i j : Option Nat) | delEdge (i j : Option Nat)
  | gc | bad
deriving Repr

def updObj (H : Heap) (i : Nat) (f : Obj → Obj) : Heap :=
  H.map (fun o => if o.id == i then f o else o)

def updHeld (hs : List Held) (i : Nat) (f : Held → Held) : List Held :=
  match hs[i]? with
  | some h => hs.set i (f h)
  | none => hs

/-- `arg(k)`: a parsed index that is `< held.len()`. -/
def St.arg (s : St) (a : Option Nat) : Option Nat :=
  match a with
  | some i => if i < s.held.length then some i else none
  | none => none

/-- `held[i].gc_handle().is_some()` -/
def St.canReach (s : St) (i : Nat) : Bool :=
  match s.held[i]? with
  | some h => h.handles > 0 || h.views > 0
  | none => false

def sortedLive (s : St) : List Nat :=
  (List.range s.held.length).filter (fun i => (find s.heap i).isSome)

/-- One driver operation. `none` = the Rust driver panics with
    "attempted to access destroyed object" (`Gc::view` on a reclaimed object). -/
def St.step (s : St) : Op → Option (St × String)
  | .alloc =>
    let id := s.held.length
    some ({ heap := s.heap ++ [{ id, edges := [], views := 0, ext := 1, visits := 0, mark := false }],
            held := s.held ++ [{ handles := 1, views := 0 }] }, s!"n{id}")
  | .allocView =>
    let id := s.held.length
    some ({ heap := s.heap ++ [{ id, edges := [], views := 1, ext := 0, visits := 0, mark := false }],
            held := s.held ++ [{ handles := 0, views := 1 }] }, s!"n{id}")
  | .handle a =>
    match s.arg a with
    | some i =>
      if s.canReach i then
        some ({ heap := updObj s.heap i (fun o => { o with ext := o.ext + 1 }),
                held := updHeld s.held i (fun h => { h with handles := h.handles + 1 }) }, "ok")
      else some (s, "skip")
    | none => some (s, "skip")
  | .view a =>
    match s.arg a with
    | some i =>
      if s.canReach i then
        match find s.heap i with
        | some _ =>
          some ({ heap := updObj s.heap i (fun o => { o with views := o.views + 1 }),
                  held := updHeld s.held i (fun h => { h with views := h.views + 1 }) }, "ok")
        | none => none
      else some (s, "skip")
    | none => some (s, "skip")
  | .dropHandle a =>
    match s.arg a with
    | some i =>
      match s.held[i]? with
      | some h =>
        if h.handles > 0 then
          some ({ heap := updObj s.heap i (fun o => { o with ext := o.ext - 1 }),
                  held := updHeld s.held i (fun h => { h with handles := h.handles - 1 }) }, "ok")
        else some (s, "skip")
      | none => some (s, "skip")
    | none => some (s, "skip")
  | .dropView a =>
    match s.arg a with
    | some i =>
      match s.held[i]? with
      | some h =>
        if h.views > 0 then
          some ({ heap := updObj s.heap i (fun o => { o with views := o.views - 1 }),
                  held := updHeld s.held i (fun h => { h with views := h.views - 1 }) }, "ok")
        else some (s, "skip")
      | none => some (s, "skip")
    | none => some (s, "skip")
  | .edge a b =>
    match s.arg a, s.arg b with
    | some i, some j =>
      if s.canReach i && s.canReach j then
        match find s.heap i with
        | some _ => some ({ s with heap := updObj s.heap i (fun o => { o with edges := o.edges ++ [j] }) }, "ok")
        | none => none
      else some (s, "skip")
    | _, _ => some (s, "skip")
  | .delEdge a b =>
    match s.arg a, s.arg b with
    | some i, some j =>
      if s.canReach i then
        match find s.heap i with
        | some o =>
          if o.edges.contains j then
            some ({ s with heap := updObj s.heap i (fun o => { o with edges := o.edges.erase j }) }, "ok")
          else some (s, "skip")
        | none => none
      else some (s, "skip")
    | _, _ => some (s, "skip")
  | .gc =>
    let s' : St := { s with heap := collect s.heap }
    some (s', s!"live[{",".intercalate ((sortedLive s').map toString)}]#{s'.heap.length}")
  | .bad => some (s, "bad")

/-- `drop(held); ctx.gc(); num_objects()` -/
def St.finish (s : St) : Nat :=
  (collect (s.heap.map (fun o => { o with ext := 0, views := 0 }))).length

def runScript : List Op → St → List String → Option (List String)
  | [], s, out => some (("end#" ++ toString s.finish) :: out).reverse
  | op :: ops, s, out =>
    match s.step op with
    | some (s', r) => runScript ops s' (r :: out)
    | none => none

def parseOp (t : String) : Op :=
  let parts := t.splitOn ":"
  let a (k : Nat) : Option Nat := parts[k]? >>= String.toNat?
  match parts.head? with
  | some "a" => .alloc
  | some "av" => .allocView
  | some "h" => .handle (a 1)
  | some "v" => .view (a 1)
  | some "dh" => .dropHandle (a 1)
  | some "dv" => .dropView (a 1)
  | some "e" => .edge (a 1) (a 2)
  | some "d" => .delEdge (a 1) (a 2)
  | some "gc" => .gc
  | _ => .bad

/-- `gcscript <op> <op> ...` -/
def handle (args : List String) : Option String :=
  match runScript (args.map parseOp) { heap := [], held := [] } [] with
  | some out => some (";".intercalate out)
  | none => some "panic destroyed"

end Rsj.Gc
