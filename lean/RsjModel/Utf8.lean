/-
  Model of `Lexer::decode_cont_char` (rsjsonnet-lang/src/lexer/mod.rs), the
  hand-written UTF-8 decoder used by the lexer for string bodies, text
  blocks, and for the "invalid character" diagnostics.

  Bytes and scalar values are `Nat`.  `rest` is the input from `self.end_pos`
  onwards, i.e. the bytes *after* the lead byte `byte0` (which the caller has
  already consumed with `eat_any_byte`).  The result says how many continuation
  bytes are consumed (`i - self.end_pos` in the Rust code).
-/
import RsjModel.Util
namespace Rsj.Utf8

/-- `char::from_u32(c).is_some()` -/
def isScalar (c : Nat) : Bool := c < 0xD800 || (0xE000 ≤ c && c < 0x110000)

/-- Result of `decode_cont_char`: `(i, Some(chr))`, `(i, None)`, or the panic
    of `char::from_u32(cp).unwrap()`; `n = i - self.end_pos`. -/
inductive Decoded where
  | chr (n : Nat) (c : Nat)
  | bad (n : Nat)
  | panic
deriving Repr, DecidableEq

/-- `fn safe_get(xs, i) = *xs.get(i).unwrap_or(&0)` (index relative to `end_pos`). -/
def safeGet (xs : List Nat) (i : Nat) : Nat := (xs[i]?).getD 0

/-- `(i, Some(char::from_u32(cp).unwrap()))` -/
def fromU32 (n cp : Nat) : Decoded := if isScalar cp then .chr n cp else .panic

/-- The `(byte0, byte1)` table of the three-byte arm. -/
def ok3 (byte0 byte1 : Nat) : Bool :=
  (byte0 == 0xE0 && 0xA0 ≤ byte1 && byte1 ≤ 0xBF) ||
  (0xE1 ≤ byte0 && byte0 ≤ 0xEC && 0x80 ≤ byte1 && byte1 ≤ 0xBF) ||
  (byte0 == 0xED && 0x80 ≤ byte1 && byte1 ≤ 0x9F) ||
  (0xEE ≤ byte0 && byte0 ≤ 0xEF && 0x80 ≤ byte1 && byte1 ≤ 0xBF)

/-- The `(byte0, byte1)` table of the four-byte arm. -/
def ok4 (byte0 byte1 : Nat) : Bool :=
  (byte0 == 0xF0 && 0x90 ≤ byte1 && byte1 ≤ 0xBF) ||
  (0xF1 ≤ byte0 && byte0 ≤ 0xF3 && 0x80 ≤ byte1 && byte1 ≤ 0xBF) ||
  (byte0 == 0xF4 && 0x80 ≤ byte1 && byte1 ≤ 0x8F)

/-- `decode_cont_char(byte0)` with `rest = input[end_pos..]`. -/
def decodeCont (byte0 : Nat) (rest : List Nat) : Decoded :=
  if byte0 ≤ 0x7F then .chr 0 byte0
  else if 0xC2 ≤ byte0 ∧ byte0 ≤ 0xDF then
    let byte1 := safeGet rest 0
    if byte1 &&& 192 ≠ 128 then .bad 0
    else fromU32 1 (((byte0 &&& 31) <<< 6) ||| (byte1 &&& 63))
  else if 0xE0 ≤ byte0 ∧ byte0 ≤ 0xEF then
    let byte1 := safeGet rest 0
    if !ok3 byte0 byte1 then .bad 0
    else
      let byte2 := safeGet rest 1
      if byte2 &&& 192 ≠ 128 then .bad 1
      else fromU32 2 (((byte0 &&& 15) <<< 12) ||| ((byte1 &&& 63) <<< 6) ||| (byte2 &&& 63))
  else if 0xF0 ≤ byte0 ∧ byte0 ≤ 0xF7 then
    let byte1 := safeGet rest 0
    if !ok4 byte0 byte1 then .bad 0
    else
      let byte2 := safeGet rest 1
      if byte2 &&& 192 ≠ 128 then .bad 1
      else
        let byte3 := safeGet rest 2
        if byte3 &&& 192 ≠ 128 then .bad 2
        else fromU32 3 (((byte0 &&& 7) <<< 18) ||| ((byte1 &&& 63) <<< 12)
                          ||| ((byte2 &&& 63) <<< 6) ||| (byte3 &&& 63))
  else .bad 0

/-- `std::str::from_utf8(bs).is_ok()`, by repeated decoding (fuel = length). -/
def validAux : Nat → List Nat → Bool
  | _, [] => true
  | 0, _ :: _ => false
  | f + 1, b :: t =>
    match decodeCont b t with
    | .chr n _ => validAux f (t.drop n)
    | _ => false

def valid (bs : List Nat) : Bool := validAux bs.length bs

/-- The lexer's own lossy decoding of a whole byte string: what the string
    scanners push for a body without delimiters and escapes
    (`eat_any_char` → `chr.unwrap_or('\u{FFFD}')` until the input ends).
    `none` = the `from_u32` panic or fuel exhaustion (both proved impossible). -/
def lossyAux : Nat → List Nat → Option (List Nat)
  | _, [] => some []
  | 0, _ :: _ => none
  | f + 1, b :: t =>
    match decodeCont b t with
    | .chr n c => (lossyAux f (t.drop n)).map (c :: ·)
    | .bad n => (lossyAux f (t.drop n)).map (0xFFFD :: ·)
    | .panic => none

def lossyModel (bs : List Nat) : Option (List Nat) := lossyAux bs.length bs

end Rsj.Utf8
