/-
  Model of `rsjsonnet-lang/src/program/analyze.rs`: the static scoping check
  (traversal order and first-error behaviour as in the Rust code), and the
  declarative well-scopedness predicate it is proved equivalent to (C09).
-/
import RsjModel.Core
namespace Rsj.Analyze
open Rsj.Core

structure AEnv where
  isObj : Bool
  vars : List String
deriving Repr

inductive AErr where
  | unknownVariable (name : String)
  | selfOutsideObject | superOutsideObject | dollarOutsideObject
  | repeatedLocalName (name : String)
  | repeatedFieldName (name : String)
  | repeatedParamName (name : String)
  | positionalArgAfterNamed
  | textBlockAsImportPath
  | computedImportPath
deriving Repr, DecidableEq

def AEnv.add (env : AEnv) (names : List String) : AEnv := { env with vars := names ++ env.vars }
def AEnv.has (env : AEnv) (n : String) : Bool := env.vars.contains n

/-- First name that repeats an earlier one (the `locals_spans` / `params_spans` loops). -/
def firstDup : List String → List String → Option String
  | [], _ => none
  | n :: ns, seen => if seen.contains n then some n else firstDup ns (n :: seen)

def bindNames : Binds → List String
  | .nil => []
  | .cons n _ _ rest => n :: bindNames rest

def paramNames : Params → List String
  | .nil => []
  | .cons n _ rest => n :: paramNames rest

def memberLocalNames : Members → List String
  | .nil => []
  | .local_ n _ _ rest => n :: memberLocalNames rest
  | .assert_ _ _ rest => memberLocalNames rest
  | .fieldFix _ _ _ _ _ rest => memberLocalNames rest
  | .fieldDyn _ _ _ _ _ rest => memberLocalNames rest

/-- Sequencing of two checks: the first error wins. -/
@[inline] def seq (x y : Except AErr Unit) : Except AErr Unit :=
  match x with
  | .error e => .error e
  | .ok () => y

infixr:60 " >>> " => seq

/-- Reject the first repeated name, else continue. -/
@[inline] def dupCheck (names : List String) (mk : String → AErr) (x : Except AErr Unit) :
    Except AErr Unit :=
  match firstDup names [] with
  | some n => .error (mk n)
  | none => x

/-- `analyze_function`: duplicate parameters, then defaults and body in the
    environment extended by all parameters. -/
@[inline] def funcCheck (names : List String) (env : AEnv)
    (dflts : AEnv → Except AErr Unit) (body : AEnv → Except AErr Unit) : Except AErr Unit :=
  dupCheck names .repeatedParamName (dflts (env.add names) >>> body (env.add names))

def objEnv (env : AEnv) (names : List String) : AEnv :=
  ({ env with isObj := true } : AEnv).add names

mutual
  def analyze : Expr → AEnv → Except AErr Unit
    | .null, _ | .true_, _ | .false_, _ | .str _, _ | .num _, _ => .ok ()
    | .self_, env => if env.isObj then .ok () else .error .selfOutsideObject
    | .dollar, env => if env.isObj then .ok () else .error .dollarOutsideObject
    | .paren e, env => analyze e env
    | .object ms, env => analyzeObj ms env
    | .objectComp locals name _ body spec, env =>
      match analyzeSpecs spec env with
      | .error e => .error e
      | .ok env' =>
        dupCheck (bindNames locals) .repeatedLocalName
          (analyzeBinds locals (objEnv env' (bindNames locals)) >>>
           analyze name env' >>>
           analyze body (objEnv env' (bindNames locals)))
    | .array items, env => analyzeExprs items env
    | .arrayComp body spec, env =>
      match analyzeSpecs spec env with
      | .error e => .error e
      | .ok env' => analyze body env'
    | .field e _, env => analyze e env
    | .index e i, env => analyze e env >>> analyze i env
    | .slice e a b c, env =>
      analyze e env >>> analyzeOpt a env >>> analyzeOpt b env >>> analyzeOpt c env
    | .superField _, env => if env.isObj then .ok () else .error .superOutsideObject
    | .superIndex i, env => if env.isObj then analyze i env else .error .superOutsideObject
    | .call callee args _, env => analyze callee env >>> analyzeArgs args false env
    | .var n, env => if env.has n then .ok () else .error (.unknownVariable n)
    | .local_ bs body, env =>
      dupCheck (bindNames bs) .repeatedLocalName
        (analyzeBinds bs (env.add (bindNames bs)) >>> analyze body (env.add (bindNames bs)))
    | .if_ c t e, env => analyze c env >>> analyze t env >>> analyzeOpt e env
    | .binary _ a b, env => analyze a env >>> analyze b env
    | .unary _ a, env => analyze a env
    | .objExt e ms, env => analyze e env >>> analyzeObj ms env
    | .func ps body, env => funcCheck (paramNames ps) env (analyzeDefaults ps) (analyze body)
    | .assert_ c m inner, env => analyze c env >>> analyzeOpt m env >>> analyze inner env
    | .error_ e, env => analyze e env
    | .inSuper e, env => if env.isObj then analyze e env else .error .superOutsideObject
    | .importLit _, _ => .ok ()
    | .importTextBlock _, _ => .error .textBlockAsImportPath
    | .importComputed _ _, _ => .error .computedImportPath
    | .builtin _ args, env =>
      if env.has "std" then analyzeExprs args env else .error (.unknownVariable "std")
  def analyzeOpt : OptExpr → AEnv → Except AErr Unit
    | .none, _ => .ok ()
    | .some e, env => analyze e env
  def analyzeExprs : Exprs → AEnv → Except AErr Unit
    | .nil, _ => .ok ()
    | .cons e rest, env => analyze e env >>> analyzeExprs rest env
  /-- `seenNamed`: a named argument occurred earlier in the list. -/
  def analyzeArgs : Args → Bool → AEnv → Except AErr Unit
    | .nil, _, _ => .ok ()
    | .pos e rest, seenNamed, env =>
      if seenNamed then .error .positionalArgAfterNamed
      else analyze e env >>> analyzeArgs rest seenNamed env
    | .named _ e rest, _, env => analyze e env >>> analyzeArgs rest true env
  /-- values of `local` bindings, in the environment that already has all of them -/
  def analyzeBinds : Binds → AEnv → Except AErr Unit
    | .nil, _ => .ok ()
    | .cons _ .none e rest, env => analyze e env >>> analyzeBinds rest env
    | .cons _ (.some ps) e rest, env =>
      funcCheck (paramNames ps) env (analyzeDefaults ps) (analyze e) >>> analyzeBinds rest env
  def analyzeDefaults : Params → AEnv → Except AErr Unit
    | .nil, _ => .ok ()
    | .cons _ d rest, env => analyzeOpt d env >>> analyzeDefaults rest env
  def analyzeObj : Members → AEnv → Except AErr Unit
    | ms, env =>
      dupCheck (memberLocalNames ms) .repeatedLocalName
        (analyzeMembers ms env (objEnv env (memberLocalNames ms)) [])
  /-- `outer`: environment of the object expression (for computed field names);
      `inner`: object environment; `fixed`: fixed field names seen so far. -/
  def analyzeMembers : Members → AEnv → AEnv → List String → Except AErr Unit
    | .nil, _, _, _ => .ok ()
    | .local_ _ .none e rest, outer, inner, fixed =>
      analyze e inner >>> analyzeMembers rest outer inner fixed
    | .local_ _ (.some ps) e rest, outer, inner, fixed =>
      funcCheck (paramNames ps) inner (analyzeDefaults ps) (analyze e) >>>
      analyzeMembers rest outer inner fixed
    | .assert_ c m rest, outer, inner, fixed =>
      analyze c inner >>> analyzeOpt m inner >>> analyzeMembers rest outer inner fixed
    | .fieldFix n _ _ .none e rest, outer, inner, fixed =>
      analyze e inner >>>
      (if fixed.contains n then .error (.repeatedFieldName n)
       else analyzeMembers rest outer inner (n :: fixed))
    | .fieldFix n _ _ (.some ps) e rest, outer, inner, fixed =>
      funcCheck (paramNames ps) inner (analyzeDefaults ps) (analyze e) >>>
      (if fixed.contains n then .error (.repeatedFieldName n)
       else analyzeMembers rest outer inner (n :: fixed))
    | .fieldDyn nameE _ _ .none e rest, outer, inner, fixed =>
      analyze e inner >>> analyze nameE outer >>> analyzeMembers rest outer inner fixed
    | .fieldDyn nameE _ _ (.some ps) e rest, outer, inner, fixed =>
      funcCheck (paramNames ps) inner (analyzeDefaults ps) (analyze e) >>>
      analyze nameE outer >>> analyzeMembers rest outer inner fixed
  /-- comprehension clauses, left to right; returns the extended environment -/
  def analyzeSpecs : Specs → AEnv → Except AErr AEnv
    | .nil, env => .ok env
    | .for_ v e rest, env =>
      match analyze e env with
      | .error er => .error er
      | .ok () => analyzeSpecs rest (env.add [v])
    | .if_ c rest, env =>
      match analyze c env with
      | .error er => .error er
      | .ok () => analyzeSpecs rest env
end

def showErr : AErr → String
  | .unknownVariable n => "UnknownVariable " ++ strHex n
  | .selfOutsideObject => "SelfOutsideObject -"
  | .superOutsideObject => "SuperOutsideObject -"
  | .dollarOutsideObject => "DollarOutsideObject -"
  | .repeatedLocalName n => "RepeatedLocalName " ++ strHex n
  | .repeatedFieldName n => "RepeatedFieldName " ++ strHex n
  | .repeatedParamName n => "RepeatedParamName " ++ strHex n
  | .positionalArgAfterNamed => "PositionalArgAfterNamed -"
  | .textBlockAsImportPath => "TextBlockAsImportPath -"
  | .computedImportPath => "ComputedImportPath -"

/-- The environment `load_source(.., with_stdlib = true, ..)` starts from. -/
def rootEnv : AEnv := { isObj := false, vars := ["std"] }

/-- `ana <sexp tokens...>` -/
def handle (args : List String) : Option String := do
  let e ← parseProgram args
  match analyze e rootEnv with
  | .ok () => pure "ok"
  | .error er => pure ("err analyze " ++ showErr er)

end Rsj.Analyze
