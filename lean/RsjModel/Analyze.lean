/-
  Model module `Analyze` (driver op `ana`). Import-free apart from RsjModel.* modules.
-/
import RsjModel.Util
namespace Rsj.Analyze

/-- `ana <args...>` : one canonical answer line, or `none` for a malformed request. -/
def handle (_args : List String) : Option String := none

end Rsj.Analyze
