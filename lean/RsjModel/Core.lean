/-
  Core-language syntax shared by the analyzer model (C09) and the evaluator
  model (C02/C04/C10/C11): one tree type at the level of `ast.rs`, plus an
  S-expression reader for the driver protocol.
-/
import RsjModel.Util
namespace Rsj.Core

inductive BinOp where
  | add | sub | mul | div | rem | shl | shr | lt | le | gt | ge | eq | ne | in_
  | band | bor | bxor | land | lor
deriving DecidableEq, Repr, Inhabited

inductive UnOp where
  | minus | plus | bnot | lnot
deriving DecidableEq, Repr, Inhabited

inductive Vis where
  | default | hidden | force
deriving DecidableEq, Repr, Inhabited

/-- The PURE builtins (a function of the forced argument values: strings, numbers, codecs), served by one
    generic mechanism of the evaluator model (`pureSpec`, `std_pure` in RsjModel/Eval.lean). -/
inductive PureB where
  | substr | findSubstr | startsWith | endsWith | split | splitLimit | splitLimitR | strReplace
  | stripChars | lstripChars | rstripChars | trim | asciiUpper | asciiLower | stringChars | codepoint | char
  | equalsIgnoreCase
  | floor | ceil | sqrt | isEven | isOdd | isInteger | isDecimal | modulo | exponent | mantissa
  | pow | exp | log | log2 | log10 | sin | cos | tan | asin | acos | atan | atan2 | hypot | deg2rad | rad2deg
  | parseInt | parseOctal | parseHex | base64 | base64Decode | base64DecodeBytes | encodeUTF8 | decodeUTF8
  | escapeStringJson | escapeStringPython | escapeStringBash | escapeStringDollars | escapeStringXML
  | format
deriving DecidableEq, Repr, Inhabited

/-- number of parameters of a pure builtin (`add_simple` of program/stdlib.rs); `(pureSpec p).arity` of
    RsjModel/Eval.lean is this number (`pureSpec_arity`, RsjProofs/EvalPureTable.lean) -/
def pureArity : PureB → Nat
  | .substr | .splitLimit | .splitLimitR | .strReplace => 3
  | .findSubstr | .startsWith | .endsWith | .split | .stripChars | .lstripChars | .rstripChars
  | .equalsIgnoreCase | .modulo | .pow | .atan2 | .hypot | .format => 2
  | _ => 1

/-- The builtins the core model knows (printed as `std.<name>(args)`). -/
inductive Builtin where
  | length | type_ | trace | objectHasEx | objectFieldsEx | map | makeArray
  | filter | foldl | foldr | flatMap | mapWithIndex | mapWithKey | filterMap | join | range
  | member | count | all | any | equals | compare | primitiveEquals | assertEqual | toString
  | sort | set
  | pure (p : PureB)
deriving DecidableEq, Repr, Inhabited

mutual
  inductive Expr where
    | null | true_ | false_ | self_ | dollar
    | str (s : String)
    | num (f : Float)
    | paren (e : Expr)
    | object (ms : Members)
    | objectComp (locals : Binds) (name : Expr) (plus : Bool) (body : Expr) (spec : Specs)
    | array (items : Exprs)
    | arrayComp (body : Expr) (spec : Specs)
    | field (e : Expr) (name : String)
    | index (e : Expr) (i : Expr)
    | slice (e : Expr) (a b c : OptExpr)
    | superField (name : String)
    | superIndex (i : Expr)
    | call (callee : Expr) (args : Args) (tailstrict : Bool)
    | var (name : String)
    | local_ (bs : Binds) (body : Expr)
    | if_ (c t : Expr) (e : OptExpr)
    | binary (op : BinOp) (a b : Expr)
    | unary (op : UnOp) (a : Expr)
    | objExt (e : Expr) (ms : Members)
    | func (ps : Params) (body : Expr)
    | assert_ (cond : Expr) (msg : OptExpr) (inner : Expr)
    | error_ (e : Expr)
    | inSuper (e : Expr)
    | importLit (kind : Nat)            -- import/importstr/importbin of a string literal
    | importTextBlock (kind : Nat)      -- ... of a text block
    | importComputed (kind : Nat) (e : Expr)  -- ... of any other expression
    | builtin (b : Builtin) (args : Exprs)
  inductive OptExpr where
    | none | some (e : Expr)
  inductive Exprs where
    | nil | cons (e : Expr) (rest : Exprs)
  /-- call arguments in source order -/
  inductive Args where
    | nil
    | pos (e : Expr) (rest : Args)
    | named (name : String) (e : Expr) (rest : Args)
  /-- `local x = e` / `local f(ps) = e` -/
  inductive Binds where
    | nil | cons (name : String) (ps : OptParams) (e : Expr) (rest : Binds)
  inductive OptParams where
    | none | some (ps : Params)
  inductive Params where
    | nil | cons (name : String) (dflt : OptExpr) (rest : Params)
  inductive Members where
    | nil
    | local_ (name : String) (ps : OptParams) (e : Expr) (rest : Members)
    | assert_ (cond : Expr) (msg : OptExpr) (rest : Members)
    /-- field with a fixed name (`f:` / `"f":`), optional method parameters -/
    | fieldFix (name : String) (plus : Bool) (vis : Vis) (ps : OptParams) (e : Expr) (rest : Members)
    /-- field with a computed name `[e]:` -/
    | fieldDyn (name : Expr) (plus : Bool) (vis : Vis) (ps : OptParams) (e : Expr) (rest : Members)
  inductive Specs where
    | nil
    | for_ (var : String) (e : Expr) (rest : Specs)
    | if_ (c : Expr) (rest : Specs)
end

instance : Inhabited Expr := ⟨.null⟩

/-! ### S-expressions -/

inductive SExp where
  | atom (s : String)
  | list (xs : List SExp)
deriving Repr, Inhabited

/-- Tokens are separated by single spaces; `(` and `)` are tokens. -/
def readSExps : Nat → List String → List SExp → Option (List SExp × List String)
  | 0, _, _ => none
  | _ + 1, [], acc => some (acc.reverse, [])
  | fuel + 1, tok :: rest, acc =>
    if tok = ")" then some (acc.reverse, rest)
    else if tok = "(" then
      match readSExps fuel rest [] with
      | some (xs, rest') => readSExps fuel rest' (SExp.list xs :: acc)
      | none => none
    else readSExps fuel rest (SExp.atom tok :: acc)

def readSExp (toks : List String) : Option SExp :=
  match readSExps (toks.length + 1) toks [] with
  | some ([x], []) => some x
  | _ => none

def hexStr (s : String) : Option String := do
  let bs ← hexDecode s
  -- bytes are UTF-8; decode through ByteArray
  String.fromUTF8? (ByteArray.mk (bs.map (·.toUInt8)).toArray)

def strHex (s : String) : String :=
  hexEnc (s.toUTF8.toList.map (·.toNat))

def parseBinOp : String → Option BinOp
  | "add" => some .add | "sub" => some .sub | "mul" => some .mul | "div" => some .div
  | "rem" => some .rem | "shl" => some .shl | "shr" => some .shr | "lt" => some .lt
  | "le" => some .le | "gt" => some .gt | "ge" => some .ge | "eq" => some .eq
  | "ne" => some .ne | "in" => some .in_ | "band" => some .band | "bor" => some .bor
  | "bxor" => some .bxor | "land" => some .land | "lor" => some .lor
  | _ => none

def parseUnOp : String → Option UnOp
  | "minus" => some .minus | "plus" => some .plus | "bnot" => some .bnot | "lnot" => some .lnot
  | _ => none

def parseVis : String → Option Vis
  | "d" => some .default | "h" => some .hidden | "f" => some .force
  | _ => none

def parsePureB : String → Option PureB
  | "substr" => some .substr | "findSubstr" => some .findSubstr | "startsWith" => some .startsWith
  | "endsWith" => some .endsWith | "split" => some .split | "splitLimit" => some .splitLimit
  | "splitLimitR" => some .splitLimitR | "strReplace" => some .strReplace | "stripChars" => some .stripChars
  | "lstripChars" => some .lstripChars | "rstripChars" => some .rstripChars | "trim" => some .trim
  | "asciiUpper" => some .asciiUpper | "asciiLower" => some .asciiLower | "stringChars" => some .stringChars
  | "codepoint" => some .codepoint | "char" => some .char | "equalsIgnoreCase" => some .equalsIgnoreCase
  | "floor" => some .floor | "ceil" => some .ceil | "sqrt" => some .sqrt | "isEven" => some .isEven
  | "isOdd" => some .isOdd | "isInteger" => some .isInteger | "isDecimal" => some .isDecimal
  | "modulo" => some .modulo | "exponent" => some .exponent | "mantissa" => some .mantissa
  | "pow" => some .pow | "exp" => some .exp | "log" => some .log | "log2" => some .log2
  | "log10" => some .log10 | "sin" => some .sin | "cos" => some .cos | "tan" => some .tan
  | "asin" => some .asin | "acos" => some .acos | "atan" => some .atan | "atan2" => some .atan2
  | "hypot" => some .hypot | "deg2rad" => some .deg2rad | "rad2deg" => some .rad2deg
  | "parseInt" => some .parseInt | "parseOctal" => some .parseOctal | "parseHex" => some .parseHex
  | "base64" => some .base64 | "base64Decode" => some .base64Decode
  | "base64DecodeBytes" => some .base64DecodeBytes | "encodeUTF8" => some .encodeUTF8
  | "decodeUTF8" => some .decodeUTF8 | "escapeStringJson" => some .escapeStringJson
  | "escapeStringPython" => some .escapeStringPython | "escapeStringBash" => some .escapeStringBash
  | "escapeStringDollars" => some .escapeStringDollars | "escapeStringXML" => some .escapeStringXML
  | "format" => some .format
  | _ => none

def parseBuiltin : String → Option Builtin
  | "length" => some .length | "type" => some .type_ | "trace" => some .trace
  | "objectHasEx" => some .objectHasEx | "objectFieldsEx" => some .objectFieldsEx
  | "map" => some .map | "makeArray" => some .makeArray
  | "filter" => some .filter | "foldl" => some .foldl | "foldr" => some .foldr
  | "flatMap" => some .flatMap | "mapWithIndex" => some .mapWithIndex
  | "mapWithKey" => some .mapWithKey | "filterMap" => some .filterMap
  | "join" => some .join | "range" => some .range | "member" => some .member
  | "count" => some .count | "all" => some .all | "any" => some .any
  | "equals" => some .equals | "__compare" => some .compare
  | "primitiveEquals" => some .primitiveEquals | "assertEqual" => some .assertEqual
  | "toString" => some .toString
  | "sort" => some .sort | "set" => some .set
  | s => (parsePureB s).map Builtin.pure

def hexNat (s : String) : Option Nat :=
  s.toList.foldlM (fun acc c => do let d ← hexVal c; pure (acc * 16 + d)) 0

mutual
  def toExpr : Nat → SExp → Option Expr
    | 0, _ => none
    | fuel + 1, .atom a =>
      if a = "null" then some .null
      else if a = "true" then some .true_
      else if a = "false" then some .false_
      else if a = "self" then some .self_
      else if a = "$" then some .dollar
      else if a.startsWith "s:" then (hexStr (a.drop 2).toString).map Expr.str
      else if a.startsWith "n:" then (hexNat (a.drop 2).toString).map (fun b => Expr.num (Float.ofBits b.toUInt64))
      else if a.startsWith "v:" then (hexStr (a.drop 2).toString).map Expr.var
      else none
    | fuel + 1, .list (.atom h :: xs) =>
      match h, xs with
      | "paren", [e] => do pure (.paren (← toExpr fuel e))
      | "obj", [.list ms] => do pure (.object (← toMembers fuel ms))
      | "objc", [.list ls, n, .atom p, b, .list sp] => do
          pure (.objectComp (← toBinds fuel ls) (← toExpr fuel n) (p = "1") (← toExpr fuel b) (← toSpecs fuel sp))
      | "arr", es => do pure (.array (← toExprs fuel es))
      | "arrc", [b, .list sp] => do pure (.arrayComp (← toExpr fuel b) (← toSpecs fuel sp))
      | "field", [e, .atom n] => do pure (.field (← toExpr fuel e) (← hexStr n))
      | "index", [e, i] => do pure (.index (← toExpr fuel e) (← toExpr fuel i))
      | "slice", [e, a, b, c] => do
          pure (.slice (← toExpr fuel e) (← toOpt fuel a) (← toOpt fuel b) (← toOpt fuel c))
      | "sfield", [.atom n] => do pure (.superField (← hexStr n))
      | "sindex", [i] => do pure (.superIndex (← toExpr fuel i))
      | "call", [c, .list as, .atom t] => do
          pure (.call (← toExpr fuel c) (← toArgs fuel as) (t = "1"))
      | "local", [.list bs, b] => do pure (.local_ (← toBinds fuel bs) (← toExpr fuel b))
      | "if", [c, t, e] => do pure (.if_ (← toExpr fuel c) (← toExpr fuel t) (← toOpt fuel e))
      | "bin", [.atom o, a, b] => do pure (.binary (← parseBinOp o) (← toExpr fuel a) (← toExpr fuel b))
      | "un", [.atom o, a] => do pure (.unary (← parseUnOp o) (← toExpr fuel a))
      | "objext", [e, .list ms] => do pure (.objExt (← toExpr fuel e) (← toMembers fuel ms))
      | "func", [.list ps, b] => do pure (.func (← toParams fuel ps) (← toExpr fuel b))
      | "assert", [c, m, i] => do pure (.assert_ (← toExpr fuel c) (← toOpt fuel m) (← toExpr fuel i))
      | "error", [e] => do pure (.error_ (← toExpr fuel e))
      | "insuper", [e] => do pure (.inSuper (← toExpr fuel e))
      | "implit", [.atom k] => do pure (.importLit (← k.toNat?))
      | "imptb", [.atom k] => do pure (.importTextBlock (← k.toNat?))
      | "impcomp", [.atom k, e] => do pure (.importComputed (← k.toNat?) (← toExpr fuel e))
      | "std", (.atom b :: as) => do pure (.builtin (← parseBuiltin b) (← toExprs fuel as))
      | _, _ => none
    | _, _ => none
  def toOpt : Nat → SExp → Option OptExpr
    | 0, _ => none
    | _ + 1, .atom "_" => some .none
    | fuel + 1, e => do pure (.some (← toExpr fuel e))
  def toExprs : Nat → List SExp → Option Exprs
    | 0, _ => none
    | _ + 1, [] => some .nil
    | fuel + 1, e :: es => do pure (.cons (← toExpr fuel e) (← toExprs fuel es))
  def toArgs : Nat → List SExp → Option Args
    | 0, _ => none
    | _ + 1, [] => some .nil
    | fuel + 1, .list [.atom "n", .atom n, e] :: es => do
        pure (.named (← hexStr n) (← toExpr fuel e) (← toArgs fuel es))
    | fuel + 1, .list [.atom "p", e] :: es => do
        pure (.pos (← toExpr fuel e) (← toArgs fuel es))
    | _, _ => none
  def toOptParams : Nat → SExp → Option OptParams
    | 0, _ => none
    | _ + 1, .atom "_" => some .none
    | fuel + 1, .list ps => do pure (.some (← toParams fuel ps))
    | _, _ => none
  def toParams : Nat → List SExp → Option Params
    | 0, _ => none
    | _ + 1, [] => some .nil
    | fuel + 1, .list [.atom n, d] :: ps => do
        pure (.cons (← hexStr n) (← toOpt fuel d) (← toParams fuel ps))
    | _, _ => none
  def toBinds : Nat → List SExp → Option Binds
    | 0, _ => none
    | _ + 1, [] => some .nil
    | fuel + 1, .list [.atom n, ps, e] :: bs => do
        pure (.cons (← hexStr n) (← toOptParams fuel ps) (← toExpr fuel e) (← toBinds fuel bs))
    | _, _ => none
  def toMembers : Nat → List SExp → Option Members
    | 0, _ => none
    | _ + 1, [] => some .nil
    | fuel + 1, .list [.atom "local", .atom n, ps, e] :: ms => do
        pure (.local_ (← hexStr n) (← toOptParams fuel ps) (← toExpr fuel e) (← toMembers fuel ms))
    | fuel + 1, .list [.atom "assert", c, m] :: ms => do
        pure (.assert_ (← toExpr fuel c) (← toOpt fuel m) (← toMembers fuel ms))
    | fuel + 1, .list [.atom "fix", .atom n, .atom p, .atom v, ps, e] :: ms => do
        pure (.fieldFix (← hexStr n) (p = "1") (← parseVis v) (← toOptParams fuel ps) (← toExpr fuel e)
              (← toMembers fuel ms))
    | fuel + 1, .list [.atom "dyn", n, .atom p, .atom v, ps, e] :: ms => do
        pure (.fieldDyn (← toExpr fuel n) (p = "1") (← parseVis v) (← toOptParams fuel ps) (← toExpr fuel e)
              (← toMembers fuel ms))
    | _, _ => none
  def toSpecs : Nat → List SExp → Option Specs
    | 0, _ => none
    | _ + 1, [] => some .nil
    | fuel + 1, .list [.atom "for", .atom v, e] :: ss => do
        pure (.for_ (← hexStr v) (← toExpr fuel e) (← toSpecs fuel ss))
    | fuel + 1, .list [.atom "if", c] :: ss => do
        pure (.if_ (← toExpr fuel c) (← toSpecs fuel ss))
    | _, _ => none
end

/-- Parse the argument list of a driver request into an expression. -/
def parseProgram (args : List String) : Option Expr := do
  let s ← readSExp args
  toExpr (args.length + 2) s

end Rsj.Core
