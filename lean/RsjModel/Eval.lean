/-
  Model of the core-language evaluator (`eval/mod.rs`, `eval/expr.rs`,
  `eval/call.rs`, object code of `data.rs`): a store-passing, call-by-need
  big-step interpreter with explicit thunk states, environments, object layers,
  per-step trace-depth accounting (C10) and `std.trace` log (C04).
  Open recursion + fuel: `run (n+1) = step (run n)`.
-/
import RsjModel.Core
import RsjModel.Bind
import RsjModel.EvalPure
namespace Rsj.Eval
open Rsj.Core

abbrev TId := Nat
abbrev EId := Nat
abbrev OId := Nat
abbrev FId := Nat

inductive Value where
  | null
  | bool (b : Bool)
  | num (f : Float)
  | str (s : String)
  | arr (items : List TId)
  | obj (o : OId)
  | func (f : FId)
deriving Inhabited

inductive Pending where
  | expr (e : Expr) (env : EId)
  | plus (e : Expr) (field : String) (env : EId)
  /-- `new_pending_call`: a function applied to already-built argument thunks -/
  | call (f : FId) (args : List TId)

inductive TState where
  | pending (p : Pending)
  | inProgress (p : Pending)
  | done (v : Value)

structure ObjRef where
  obj : OId
  layer : Nat
  top : OId

structure Env where
  parent : Option EId
  vars : List (String × TId)
  obj : Option ObjRef

structure Field where
  name : String
  vis : Vis
  baseEnv : Option EId
  /-- `(value expression, plus)`; `none` when the thunk was precomputed -/
  expr : Option (Expr × Bool)
  thunk : Option TId

structure Layer where
  isTop : Bool
  locals : List (String × Expr)
  baseEnv : Option EId
  env : Option EId
  fields : List Field
  asserts : List (Expr × OptExpr)

structure Obj where
  layers : List Layer
  assertsChecked : Bool
  /-- the asserts are being evaluated (`State::ObjectAssertsInProgress` is on the stack) -/
  assertsInProgress : Bool := false

structure Func where
  params : List (String × OptExpr)
  body : Expr
  env : EId

inductive Err where
  | stackOverflow
  | infiniteRecursion
  /-- models a Rust panic site (`unwrap`, `expect`, `unreachable!`) -/
  | internal (msg : String)
  /-- the model does not cover this behaviour (the check skips the case) -/
  | unsupported (msg : String)
  /-- `EvalErrorKind` variant name + the detail string the harness prints -/
  | rt (kind : String) (detail : String)

structure St where
  thunks : Array TState := #[]
  envs : Array Env := #[]
  objs : Array Obj := #[]
  funcs : Array Func := #[]
  /-- `std.trace` messages, newest first -/
  traces : List String := []
  /-- how many times each thunk's computation was started -/
  runs : Array Nat := #[]
  /-- ghost counter: the greatest depth (number of trace items) at which an evaluator step was
      started (bounded by the limit, see `C10_eval_never_deeper_than_limit`) -/
  deepest : Nat := 0
  /-- ghost flag: `set_done`'s `assert!(matches!(*state, InProgress))` failed (never, see
      `C01_eval_set_done_assertion_never_fails`) -/
  tripped : Bool := false

/-- Evaluation monad: `none` (the bottom of the flat order on `Option`) means
    "not enough fuel"; errors and results carry the store. -/
abbrev M := ExceptT Err (StateT St Option)

/-- out of fuel -/
def bottom {α} : M α := ExceptT.mk (fun _ => none)

structure Cfg where
  maxStack : Nat

inductive Task where
  | eval (e : Expr) (env : EId) (tail : Bool) (d : Nat)
  | force (t : TId) (d : Nat)
  /-- result `Value.str`: JSON text (`canon = false`, the `toString` format) or the
      canonical tree notation used to compare final results -/
  | manifest (v : Value) (d : Nat) (canon : Bool)
  | equals (a b : Value) (d : Nat)
  | compare (a b : Value) (d : Nat)
  | deep (v : Value) (d : Nat)
  | asserts (o : OId) (d : Nat)

/-- the depth (number of trace items) at which a task runs -/
def Task.depth : Task → Nat
  | .eval _ _ _ d => d
  | .force _ d => d
  | .manifest _ d _ => d
  | .equals _ _ d => d
  | .compare _ _ d => d
  | .deep _ d => d
  | .asserts _ d => d

/-! ### Store helpers -/

def allocThunk (s : TState) : M TId := do
  let st ← get
  set { st with thunks := st.thunks.push s, runs := st.runs.push 0 }
  pure st.thunks.size

def allocEnv (e : Env) : M EId := do
  let st ← get
  set { st with envs := st.envs.push e }
  pure st.envs.size

def allocObj (o : Obj) : M OId := do
  let st ← get
  set { st with objs := st.objs.push o }
  pure st.objs.size

def allocFunc (f : Func) : M FId := do
  let st ← get
  set { st with funcs := st.funcs.push f }
  pure st.funcs.size

def getThunk (t : TId) : M TState := do
  match (← get).thunks[t]? with
  | some s => pure s
  | none => throw (.internal "bad thunk id")

/-- `ThunkData::switch_state`: the previous state is returned; a pending thunk becomes in progress
    (and its computation is counted as started once more). -/
def switchState (t : TId) : M TState := do
  let st ← get
  match st.thunks[t]? with
  | some (.pending p) =>
    set { st with thunks := st.thunks.setIfInBounds t (.inProgress p), runs := st.runs.modify t (· + 1) }
    pure (.pending p)
  | some s => pure s
  | none => throw (.internal "bad thunk id")

/-- `ThunkData::set_done`: `assert!(matches!(*state, ThunkState::InProgress))`, then the value is stored. -/
def finishThunk (t : TId) (v : Value) : M Unit := do
  let st ← get
  match st.thunks[t]? with
  | some (.inProgress _) => set { st with thunks := st.thunks.setIfInBounds t (.done v) }
  | _ =>
    set { st with tripped := true }
    throw (.internal "set_done on a thunk that is not in progress")

def getEnv (e : EId) : M Env := do
  match (← get).envs[e]? with
  | some s => pure s
  | none => throw (.internal "env data not set")

def setEnv (e : EId) (v : Env) : M Unit :=
  modify fun st => { st with envs := st.envs.setIfInBounds e v }

def getObj (o : OId) : M Obj := do
  match (← get).objs[o]? with
  | some s => pure s
  | none => throw (.internal "attempted to access destroyed object")

def setObj (o : OId) (v : Obj) : M Unit :=
  modify fun st => { st with objs := st.objs.setIfInBounds o v }

/-- ghost bookkeeping: an evaluator step starts at depth `d` -/
def noteDepth (d : Nat) : M Unit :=
  modify fun st => { st with deepest := max st.deepest d }

/-- the `trace` callback: the message is recorded -/
def pushTrace (msg : String) : M Unit :=
  modify fun st => { st with traces := msg :: st.traces }

def getFunc (f : FId) : M Func := do
  match (← get).funcs[f]? with
  | some s => pure s
  | none => throw (.internal "bad function id")

/-- `ThunkEnvData::new(parent)`: the object reference is inherited. -/
def newEnv (parent : Option EId) (vars : List (String × TId)) : M EId := do
  let o ← match parent with
    | some p => do pure (← getEnv p).obj
    | none => pure none
  allocEnv { parent := parent, vars := vars, obj := o }

/-- `ThunkEnv::get_var`: this environment, then the parent chain (fuel = number of envs). -/
def lookupVar : Nat → Array Env → EId → String → Option TId
  | 0, _, _, _ => none
  | fuel + 1, envs, e, n =>
    match envs[e]? with
    | none => none
    | some env =>
      match env.vars.find? (fun p => p.1 == n) with
      | some p => some p.2
      | none =>
        match env.parent with
        | some p => lookupVar fuel envs p n
        | none => none

def getVar (e : EId) (n : String) : M TId := do
  let st ← get
  match lookupVar (st.envs.size + 1) st.envs e n with
  | some t => pure t
  | none => throw (.internal "variable not found")

def getObjRef (e : EId) : M ObjRef := do
  match (← getEnv e).obj with
  | some r => pure r
  | none => throw (.internal "get_object on an environment without object")

def typeName : Value → String
  | .null => "Null" | .bool _ => "Bool" | .num _ => "Number" | .str _ => "String"
  | .arr _ => "Array" | .obj _ => "Object" | .func _ => "Function"

def typeStr : Value → String
  | .null => "null" | .bool _ => "boolean" | .num _ => "number" | .str _ => "string"
  | .arr _ => "array" | .obj _ => "object" | .func _ => "function"

/-- `Paren` does not exist in the IR. -/
def stripParen : Expr → Expr
  | .paren e => stripParen e
  | e => e

def paramsList : Params → List (String × OptExpr)
  | .nil => []
  | .cons n d rest => (n, d) :: paramsList rest

def exprsList : Exprs → List Expr
  | .nil => []
  | .cons e rest => e :: exprsList rest

/-- `local f(ps) = e` / `f(ps): e`  ⇒  `function(ps) e` -/
def bindExpr (ps : OptParams) (e : Expr) : Expr :=
  match ps with
  | .none => e
  | .some ps => .func ps e

def bindsList : Binds → List (String × Expr)
  | .nil => []
  | .cons n ps e rest => (n, bindExpr ps e) :: bindsList rest

def isFinite (f : Float) : Bool := f.isFinite

/-- `check_number_value` -/
def checkNum (f : Float) : M Unit :=
  if f.isNaN then throw (.rt "NumberNan" "")
  else if f.isInf then throw (.rt "NumberOverflow" "")
  else pure ()

/-- `try_value_from_expr` (on the parenthesis-free expression) -/
def literalValue : Expr → Option Value
  | .null => some .null
  | .true_ => some (.bool true)
  | .false_ => some (.bool false)
  | .num f => if f.isFinite then some (.num f) else none
  | .str s => some (.str s)
  | .array .nil => some (.arr [])
  | _ => none

/-- `new_pending_expr_thunk` -/
def newThunk (e : Expr) (env : EId) : M TId := do
  match stripParen e with
  | .func ps body =>
    let f ← allocFunc { params := paramsList ps, body := body, env := env }
    allocThunk (.done (.func f))
  | e' =>
    match literalValue e' with
    | some v => allocThunk (.done v)
    | none => allocThunk (.pending (.expr e env))

/-- depth check performed after every evaluator step -/
def checkDepth (cfg : Cfg) (d : Nat) : M Unit :=
  if d > cfg.maxStack then throw .stackOverflow else pure ()

/-! ### Objects -/

def cmpStr (a b : String) : Bool := a < b

def insertSorted (n : String) (v : Vis) : List (String × Vis) → List (String × Vis)
  | [] => [(n, v)]
  | (m, w) :: rest =>
    if n < m then (n, v) :: (m, w) :: rest
    else (m, w) :: insertSorted n v rest

/-- `get_fields_order` restricted to objects without removal markers (the core
    language cannot create them): first non-default visibility from the top wins. -/
def fieldsOrder (o : Obj) : List (String × Vis) :=
  o.layers.foldl (fun acc layer =>
    layer.fields.foldl (fun acc f =>
      match acc.find? (fun p => p.1 == f.name) with
      | none => insertSorted f.name f.vis acc
      | some (_, .default) => acc.map (fun p => if p.1 == f.name then (p.1, f.vis) else p)
      | some _ => acc) acc) []

def visibleFields (o : Obj) : List String :=
  (fieldsOrder o).filterMap (fun p => if p.2 == .hidden then none else some p.1)

/-- `find_field`: first layer at index ≥ `start` that defines `name`. -/
def findField (o : Obj) (start : Nat) (name : String) : Option (Nat × Field) :=
  let rec go (ls : List Layer) (i : Nat) : Option (Nat × Field) :=
    match ls with
    | [] => none
    | l :: rest =>
      match l.fields.find? (fun f => f.name == name) with
      | some f => some (i, f)
      | none => go rest (i + 1)
  go (o.layers.drop start) start

def hasVisibleField (o : Obj) (name : String) : Bool :=
  (visibleFields o).contains name

def cloneField (f : Field) : Field :=
  { f with thunk := match f.expr with | some _ => none | none => f.thunk }

def cloneLayer (l : Layer) : Layer :=
  { l with env := none, fields := l.fields.map cloneField }

/-- `extend_object` -/
def extendObject (lhs rhs : Obj) : Obj :=
  { layers := (rhs.layers ++ lhs.layers).map cloneLayer, assertsChecked := false }

/-- `init_object_env` -/
def initObjectEnv (o : OId) (layerI : Nat) (baseEnv : EId) : M EId := do
  let ob ← getObj o
  let some layer := ob.layers[layerI]? | throw (.internal "bad layer index")
  let base ← getEnv baseEnv
  let env ← allocEnv { parent := some baseEnv, vars := [], obj := base.obj }
  let mut vars : List (String × TId) := []
  for (n, e) in layer.locals do
    let t ← newThunk e env
    vars := vars ++ [(n, t)]
  let top ← if layer.isTop then pure o else
    match base.obj with
    | some r => pure r.top
    | none => throw (.internal "get_top_object on an environment without object")
  setEnv env { parent := some baseEnv, vars := vars, obj := some { obj := o, layer := layerI, top := top } }
  pure env

/-- `get_object_layer_env` -/
def layerEnv (o : OId) (layerI : Nat) : M EId := do
  let ob ← getObj o
  let some layer := ob.layers[layerI]? | throw (.internal "bad layer index")
  match layer.env with
  | some e => pure e
  | none =>
    let some base := layer.baseEnv | throw (.internal "layer without base env")
    let e ← initObjectEnv o layerI base
    let ob ← getObj o
    setObj o { ob with layers := ob.layers.set layerI { layer with env := some e } }
    pure e

/-- `find_object_field_thunk` -/
def fieldThunk (o : OId) (start : Nat) (name : String) : M (Option TId) := do
  let ob ← getObj o
  match findField ob start name with
  | none => pure none
  | some (li, f) =>
    match f.thunk with
    | some t => pure (some t)
    | none =>
      let some (e, plus) := f.expr | throw (.internal "field without expression")
      let env ← match f.baseEnv with
        | some b => initObjectEnv o li b
        | none => layerEnv o li
      let t ← if plus then allocThunk (.pending (.plus e name env)) else allocThunk (.pending (.expr e env))
      let ob ← getObj o
      let some layer := ob.layers[li]? | throw (.internal "bad layer index")
      let fields := layer.fields.map (fun g => if g.name == name then { g with thunk := some t } else g)
      setObj o { ob with layers := ob.layers.set li { layer with fields := fields } }
      pure (some t)

/-- `add_object_field` on the object under construction -/
def addField (layer : Layer) (name : String) (plus : Bool) (vis : Vis) (value : Expr)
    (baseEnv : Option EId) : M Layer := do
  if layer.fields.any (fun f => f.name == name) then
    throw (.rt "RepeatedFieldName" name)
  if plus then
    pure { layer with fields := layer.fields ++ [{ name, vis, baseEnv, expr := some (value, true), thunk := none }] }
  else
    match literalValue (stripParen value) with
    | some v =>
      let t ← allocThunk (.done v)
      pure { layer with fields := layer.fields ++ [{ name, vis, baseEnv, expr := none, thunk := some t }] }
    | none =>
      pure { layer with fields := layer.fields ++ [{ name, vis, baseEnv, expr := some (value, false), thunk := none }] }

/-! ### Numbers -/

def maxSafe : Float := 9007199254740991.0

/-- `safe_f64_to_i64` -/
def safeInt (f : Float) : M Int :=
  if f < -maxSafe || f > maxSafe then throw (.rt "NumberNotBitwiseSafe" "")
  else pure (f.toInt64.toInt)

def intToFloat (i : Int) : Float :=
  if i ≥ 0 then Float.ofNat i.toNat else -(Float.ofNat (-i).toNat)

/-- wrap to i64 (two's complement) -/
def wrap64 (i : Int) : Int :=
  let m := i % (2 ^ 64)
  if m ≥ 2 ^ 63 then m - 2 ^ 64 else m

/-- decimal text of an integer-valued double, as Rust's `Display` prints it -/
def numText (f : Float) : M String :=
  if f == f.floor && f.abs < 1.0e15 then
    let i := f.toInt64.toInt
    if i == 0 && (1.0 / f) < 0.0 then pure "-0" else pure (toString i)
  else throw (.unsupported "number formatting of a non-integer")

def bitsHex (f : Float) : String :=
  let b := f.toBits.toNat
  String.ofList ((List.range 16).reverse.map (fun i => hexDigit (b / 16 ^ i % 16)))

/-- `try_to_usize_exact` -/
def toIndex (f : Float) : Option Nat :=
  if f ≥ 0.0 && f == f.floor && f < 18446744073709551616.0 then some f.toUInt64.toNat else none

/-! ### Strings -/

def jsonEscape (s : String) : String :=
  let body := s.toList.foldl (fun acc c =>
    let n := c.toNat
    if c == '"' then acc ++ "\\\"".toList
    else if c == '\\' then acc ++ "\\\\".toList
    else if n == 8 then acc ++ "\\b".toList
    else if n == 9 then acc ++ "\\t".toList
    else if n == 10 then acc ++ "\\n".toList
    else if n == 12 then acc ++ "\\f".toList
    else if n == 13 then acc ++ "\\r".toList
    else if n < 0x20 || (0x7f ≤ n && n ≤ 0x9f) then
      acc ++ ['\\', 'u', hexDigit (n / 4096 % 16), hexDigit (n / 256 % 16), hexDigit (n / 16 % 16), hexDigit (n % 16)]
    else acc ++ [c]) []
  "\"" ++ String.ofList body ++ "\""

/-! ### Argument binding (`check_call_args_generic`): plan in RsjModel/Bind.lean -/

def bindErr : Bind.BindErr → Err
  | .tooManyCallArgs n => .rt "TooManyCallArgs" (toString n)
  | .unknownCallParam n => .rt "UnknownCallParam" n
  | .repeatedCallParam n => .rt "RepeatedCallParam" n
  | .callParamNotBound n => .rt "CallParamNotBound" n

def hasDefault : OptExpr → Bool
  | .none => false
  | .some _ => true

/-! ### The evaluator -/

def argsSplit : Args → List (Option String × Expr)
  | .nil => []
  | .pos e rest => (none, e) :: argsSplit rest
  | .named n e rest => (some n, e) :: argsSplit rest

def membersList : Members → List Members
  | .nil => []
  | m@(.local_ _ _ _ rest) => m :: membersList rest
  | m@(.assert_ _ _ rest) => m :: membersList rest
  | m@(.fieldFix _ _ _ _ _ rest) => m :: membersList rest
  | m@(.fieldDyn _ _ _ _ _ rest) => m :: membersList rest

def memberLocals : Members → List (String × Expr)
  | .nil => []
  | .local_ n ps e rest => (n, bindExpr ps e) :: memberLocals rest
  | .assert_ _ _ rest => memberLocals rest
  | .fieldFix _ _ _ _ _ rest => memberLocals rest
  | .fieldDyn _ _ _ _ _ rest => memberLocals rest

def memberAsserts : Members → List (Expr × OptExpr)
  | .nil => []
  | .local_ _ _ _ rest => memberAsserts rest
  | .assert_ c m rest => (c, m) :: memberAsserts rest
  | .fieldFix _ _ _ _ _ rest => memberAsserts rest
  | .fieldDyn _ _ _ _ _ rest => memberAsserts rest

def specsList : Specs → List (Option String × Expr)
  | .nil => []
  | .for_ v e rest => (some v, e) :: specsList rest
  | .if_ c rest => (none, c) :: specsList rest

/-- `check_call_thunk_args`: already-built positional argument thunks bound to a function's parameters
    (deferred callback applications of `std.map` / `std.makeArray`): arity errors, then defaults. -/
def bindThunkArgs (fn : Func) (pos : List TId) : M (List TId) := do
  let slots ← match Bind.bindPlan (fn.params.map (fun p => (p.1, hasDefault p.2))) pos.length [] with
    | .error e => throw (bindErr e)
    | .ok slots => pure slots
  let needEnv := slots.any (· == .dflt)
  let argsEnv ← if needEnv then allocEnv { parent := none, vars := [], obj := none } else pure 0
  let mut argThunks : List TId := []
  for (slot, (_, pd)) in slots.zip fn.params do
    match slot with
    | .pos i =>
      match pos[i]? with
      | some t => argThunks := argThunks ++ [t]
      | none => throw (.internal "binding plan refers to a missing positional argument")
    | .named _ => throw (.internal "binding plan refers to a named argument")
    | .dflt =>
      match pd with
      | .some de => argThunks := argThunks ++ [← newThunk de argsEnv]
      | .none => throw (.internal "default slot without default expression")
  if needEnv then
    setEnv argsEnv { parent := some fn.env, vars := (fn.params.map Prod.fst).zip argThunks,
                     obj := (← getEnv fn.env).obj }
  pure argThunks

def boolOf (b : Bool) : Value := .bool b

section
variable (cfg : Cfg) (rec : Task → M Value)

def recStr (t : Task) : M String := do
  match ← rec t with
  | .str s => pure s
  | _ => throw (.internal "task did not return a string")

/-- `want_thunk_direct` -/
def wantThunk (t : TId) (d : Nat) : M Value := do
  match ← getThunk t with
  | .done v => pure v
  | _ =>
    checkDepth cfg (d + 1)
    rec (.force t (d + 1))

/-- `want_field` -/
def wantField (o : OId) (name : String) (d : Nat) : M Value := do
  match ← fieldThunk o 0 name with
  | none => throw (.rt "UnknownObjectField" name)
  | some t =>
    if (← getObj o).assertsChecked then
      wantThunk cfg rec t d
    else
      checkDepth cfg (d + 1)
      let _ ← rec (.asserts o (d + 1))
      rec (.force t (d + 1))

/-- `want_super_field` -/
def wantSuperField (env : EId) (name : String) (d : Nat) : M Value := do
  let r ← getObjRef env
  let ob ← getObj r.obj
  if r.layer + 1 == ob.layers.length then
    throw (.rt "SuperWithoutSuperObject" "")
  match ← fieldThunk r.obj (r.layer + 1) name with
  | some t => wantThunk cfg rec t d
  | none => throw (.rt "UnknownObjectField" name)

/-- `CoerceToString` -/
def coerceToString (v : Value) (d : Nat) : M String := do
  match v with
  | .str s => pure s
  | v => recStr rec (.manifest v d false)

/-- comprehension clauses: list of variable-binding sets -/
def evalSpecs (specs : List (Option String × Expr)) (env : EId) (d : Nat) :
    M (List (List (String × TId))) := do
  match specs with
  | [] => throw (.internal "empty comprehension")
  | (none, _) :: _ => throw (.internal "comprehension starting with if")
  | (some v0, e0) :: rest =>
    let first ← rec (.eval e0 env false d)
    let .arr items := first | throw (.rt "ForSpecValueIsNotArray" (typeName first))
    let mut sets : List (List (String × TId)) := items.map (fun t => [(v0, t)])
    for (var, e) in rest do
      -- evaluate the clause for every binding set first, then inspect the values
      let mut vals : List Value := []
      for vars in sets do
        let inner ← newEnv (some env) vars
        vals := vals ++ [← rec (.eval e inner false d)]
      let mut next : List (List (String × TId)) := []
      match var with
      | some v =>
        for (vars, value) in sets.zip vals do
          let .arr items := value | throw (.rt "ForSpecValueIsNotArray" (typeName value))
          for t in items do
            next := next ++ [(vars.filter (fun p => p.1 != v)) ++ [(v, t)]]
      | none =>
        for (vars, value) in sets.zip vals do
          let .bool b := value | throw (.rt "CondIsNotBool" (typeName value))
          if b then next := next ++ [vars]
      sets := next
    pure sets

def sliceRange (len : Nat) (a b c : Option Float) : M (Nat × Nat × Nat) := do
  let start ← match a with
    | none => pure 0
    | some f =>
      if !f.isFinite || f.floor != f then throw (.rt "Other" "slice start")
      if f < 0.0 then pure (len - (-f).toUInt64.toNat) else pure f.toUInt64.toNat
  let stop ← match b with
    | none => pure (2 ^ 64 - 1)
    | some f =>
      if !f.isFinite || f.floor != f then throw (.rt "Other" "slice end")
      let e := if f < 0.0 then len - (-f).toUInt64.toNat else f.toUInt64.toNat
      pure (max e start)
  let step ← match c with
    | none => pure 1
    | some f =>
      if !f.isFinite || f.floor != f || f < 1.0 then throw (.rt "Other" "slice step")
      pure f.toUInt64.toNat
  pure (start, stop, step)

/-- a slice bound or step: `null` = absent, otherwise a number -/
def sliceNum (v : Value) : M (Option Float) :=
  match v with
  | .null => pure none
  | .num f => pure (some f)
  | v => throw (.rt "SliceIndexOrStepIsNotNumber" (typeName v))

/-- a finite double as `mantissa * 2^exponent` with a natural mantissa below 2^53 (sign dropped) -/
def floatDecode (x : Float) : Nat × Int :=
  let bits := x.toBits.toNat
  let expField : Nat := (bits / 2 ^ 52) % 2048
  let frac : Nat := bits % 2 ^ 52
  if expField == 0 then (frac, -1074) else (frac + 2 ^ 52, Int.ofNat expField - 1075)

/-- C `fmod` on finite doubles with `b ≠ 0`: the exact remainder of the truncated division, computed
    on integers (the result is always representable, its mantissa is below 2^53) -/
def fmodExact (a b : Float) : Float :=
  let (ma, ea) := floatDecode a
  let (mb, eb) := floatDecode b
  let e := min ea eb
  let A := ma * 2 ^ (ea - e).toNat
  let B := mb * 2 ^ (eb - e).toNat
  let r := A % B
  let mag := (Float.ofNat r).scaleB e
  if a < 0.0 || (a == 0.0 && 1.0 / a < 0.0) then -mag else mag

/-- `try_to_i32_exact` then `usize::try_from`: an exact non-negative 32-bit integer -/
def makeArraySize (n : Float) : Option Nat :=
  if n.isFinite && n.floor == n && n ≥ 0.0 && n ≤ 2147483647.0 then some n.toUInt64.toNat else none

def stepBy {α} (l : List α) (k : Nat) : List α :=
  (l.zipIdx.filter (fun p => p.2 % k == 0)).map Prod.fst

/-- `do_binary_op` for the operators that reach it -/
def binaryOp (op : BinOp) (lhs rhs : Value) (d : Nat) (hasSpan : Bool) : M Value := do
  let bad : M Value := throw (.rt "InvalidBinaryOpTypes"
    (s!"{reprStr op}/{typeName lhs}/{typeName rhs}"))
  match op, lhs, rhs with
  | .land, .bool _, .bool r => pure (.bool r)
  | .lor, .bool _, .bool r => pure (.bool r)
  | .add, .num a, .num b => let r := a + b; checkNum r; pure (.num r)
  | .sub, .num a, .num b => let r := a - b; checkNum r; pure (.num r)
  | .mul, .num a, .num b => let r := a * b; checkNum r; pure (.num r)
  | .div, .num a, .num b =>
    if b == 0.0 then throw (.rt "DivByZero" "")
    let r := a / b; checkNum r; pure (.num r)
  | .rem, .num a, .num b =>
    if b == 0.0 then throw (.rt "DivByZero" "")
    -- Rust `%` on f64 is C `fmod`: exact, sign of the dividend
    let r := fmodExact a b
    checkNum r; pure (.num r)
  | .shl, .num a, .num b =>
    let l ← safeInt a
    if b < 0.0 || (b == 0.0 && 1.0 / b < 0.0) then throw (.rt "ShiftByNegative" "")
    let r ← safeInt b
    let sh := (r % 64).toNat
    let res := wrap64 (l * 2 ^ sh)
    if res / 2 ^ sh != l then throw (.rt "NumberNotBitwiseSafe" "")
    pure (.num (intToFloat res))
  | .shr, .num a, .num b =>
    let l ← safeInt a
    if b < 0.0 || (b == 0.0 && 1.0 / b < 0.0) then throw (.rt "ShiftByNegative" "")
    let r ← safeInt b
    pure (.num (intToFloat (l / 2 ^ (r % 64).toNat)))
  | .band, .num a, .num b => do
    let l ← safeInt a; let r ← safeInt b
    pure (.num (intToFloat (wrap64 (Int.ofNat ((l % 2 ^ 64).toNat &&& (r % 2 ^ 64).toNat)))))
  | .bor, .num a, .num b => do
    let l ← safeInt a; let r ← safeInt b
    pure (.num (intToFloat (wrap64 (Int.ofNat ((l % 2 ^ 64).toNat ||| (r % 2 ^ 64).toNat)))))
  | .bxor, .num a, .num b => do
    let l ← safeInt a; let r ← safeInt b
    pure (.num (intToFloat (wrap64 (Int.ofNat ((l % 2 ^ 64).toNat ^^^ (r % 2 ^ 64).toNat)))))
  | .add, .str a, .str b => pure (.str (a ++ b))
  | .add, .arr a, .arr b => pure (.arr (a ++ b))
  | .add, .obj a, .obj b => do
    let o ← allocObj (extendObject (← getObj a) (← getObj b))
    pure (.obj o)
  | .add, .str a, r => do
    if hasSpan then checkDepth cfg (d + 1)
    let s ← coerceToString rec r (if hasSpan then d + 1 else d)
    pure (.str (a ++ s))
  | .add, l, .str b => do
    if hasSpan then checkDepth cfg (d + 1)
    let s ← coerceToString rec l (if hasSpan then d + 1 else d)
    pure (.str (s ++ b))
  | .rem, .str _, _ => throw (.unsupported "string formatting")
  | .in_, .str f, .obj o => do
    pure (.bool ((findField (← getObj o) 0 f).isSome))
  | _, _, _ => bad

/-- one member of an object literal added to the layer under construction -/
def objectMember (env : EId) (d : Nat) (layer : Layer) (m : Members) : M Layer := do
  match m with
  | .fieldFix n plus vis ps ve _ =>
    addField layer n plus vis (bindExpr ps ve) none
  | .fieldDyn ne plus vis ps ve _ =>
    match ← rec (.eval ne env false d) with
    | .str n => addField layer n plus vis (bindExpr ps ve) none
    | .null => pure layer
    | v => throw (.rt "FieldNameIsNotString" (typeName v))
  | _ => pure layer

/-- an optional slice bound: absent = `null` -/
def sliceArg (env : EId) (d : Nat) (x : OptExpr) : M Value :=
  match x with
  | .none => pure .null
  | .some e => rec (.eval e env false d)

/-- `std.length` -/
def std_length (t : TId) (d1 : Nat) : M Value := do
  match ← rec (.force t d1) with
  | .str s => pure (.num (Float.ofNat s.length))
  | .arr items => pure (.num (Float.ofNat items.length))
  | .obj o => do pure (.num (Float.ofNat (visibleFields (← getObj o)).length))
  | .func f => do pure (.num (Float.ofNat (← getFunc f).params.length))
  | v => throw (.rt "InvalidStdFuncArgType" s!"length/0/{typeName v}")

/-- `std.type` -/
def std_type (t : TId) (d1 : Nat) : M Value := do
  pure (.str (typeStr (← rec (.force t d1))))

/-- `std.trace` -/
def std_trace (t0 : TId) (t1 : TId) (d1 : Nat) : M Value := do
  let rest ← rec (.force t1 d1)
  match ← rec (.force t0 d1) with
  | .str msg =>
    pushTrace msg
    pure rest
  | v => throw (.rt "InvalidStdFuncArgType" s!"trace/0/{typeName v}")

/-- `std.objectHasEx` -/
def std_objectHasEx (t0 : TId) (t1 : TId) (t2 : TId) (d1 : Nat) : M Value := do
  let ov ← rec (.force t0 d1)
  let fv ← rec (.force t1 d1)
  let hv ← rec (.force t2 d1)
  let .obj o := ov | throw (.rt "InvalidStdFuncArgType" s!"objectHasEx/0/{typeName ov}")
  let .str f := fv | throw (.rt "InvalidStdFuncArgType" s!"objectHasEx/1/{typeName fv}")
  let .bool h := hv | throw (.rt "InvalidStdFuncArgType" s!"objectHasEx/2/{typeName hv}")
  let ob ← getObj o
  pure (.bool (if h then (findField ob 0 f).isSome else hasVisibleField ob f))

/-- `std.objectFieldsEx` -/
def std_objectFieldsEx (t0 : TId) (t1 : TId) (d1 : Nat) : M Value := do
  let ov ← rec (.force t0 d1)
  let hv ← rec (.force t1 d1)
  let .obj o := ov | throw (.rt "InvalidStdFuncArgType" s!"objectFieldsEx/0/{typeName ov}")
  let .bool h := hv | throw (.rt "InvalidStdFuncArgType" s!"objectFieldsEx/1/{typeName hv}")
  let names := (fieldsOrder (← getObj o)).filterMap
    (fun p => if h || p.2 != .hidden then some p.1 else none)
  let mut out : List TId := []
  for n in names do
    out := out ++ [← allocThunk (.done (.str n))]
  pure (.arr out)

/-- `std.map` -/
def std_map (t0 : TId) (t1 : TId) (d1 : Nat) : M Value := do
  -- `do_std_map`: one deferred application per element; nothing is called yet
  let fv ← rec (.force t0 d1)
  let av ← rec (.force t1 d1)
  let .func f := fv | throw (.rt "InvalidStdFuncArgType" s!"map/0/{typeName fv}")
  match av with
  | .arr items =>
    let mut out : List TId := []
    for it in items do
      out := out ++ [← allocThunk (.pending (.call f [it]))]
    pure (.arr out)
  | .str s =>
    let mut out : List TId := []
    for c in s.toList do
      let a ← allocThunk (.done (.str (String.singleton c)))
      out := out ++ [← allocThunk (.pending (.call f [a]))]
    pure (.arr out)
  | v => throw (.rt "InvalidStdFuncArgType" s!"map/1/{typeName v}")

/-- `std.makeArray` -/
def std_makeArray (t0 : TId) (t1 : TId) (d1 : Nat) : M Value := do
  let sv ← rec (.force t0 d1)
  let fv ← rec (.force t1 d1)
  let .num n := sv | throw (.rt "InvalidStdFuncArgType" s!"makeArray/0/{typeName sv}")
  let .func f := fv | throw (.rt "InvalidStdFuncArgType" s!"makeArray/1/{typeName fv}")
  let some k := makeArraySize n | throw (.rt "Other" "invalid size value")
  if (← getFunc f).params.length != 1 then
    throw (.rt "Other" "function must have exactly 1 parameter")
  if k > 4096 then throw (.unsupported "large makeArray")
  let mut out : List TId := []
  for i in List.range k do
    let a ← allocThunk (.done (.num (Float.ofNat i)))
    out := out ++ [← allocThunk (.pending (.call f [a]))]
  pure (.arr out)

/-- the builtin applied to its argument thunks -/
def builtinCall (b : Builtin) (ts : List TId) (d1 : Nat) : M Value :=
  match b, ts with
  | .length, [t] => std_length rec t d1
  | .type_, [t] => std_type rec t d1
  | .trace, [t0, t1] => std_trace rec t0 t1 d1
  | .objectHasEx, [t0, t1, t2] => std_objectHasEx rec t0 t1 t2 d1
  | .objectFieldsEx, [t0, t1] => std_objectFieldsEx rec t0 t1 d1
  | .map, [t0, t1] => std_map rec t0 t1 d1
  | .makeArray, [t0, t1] => std_makeArray rec t0 t1 d1
  | _, _ => throw (.internal "builtin arity")

/-! ### More builtins whose evaluation interacts with laziness, frames or callbacks -/

/-- `check_thunk_args_and_execute_call` of a user function on already-built argument thunks, up to
    (not including) the `Call` trace item and the evaluation of the body: arity errors, defaults,
    the parameter environment (`execute_normal_call`).  Result: body and its environment. -/
def std_bindCall (f : FId) (args : List TId) : M (Expr × EId) := do
  let fn ← getFunc f
  let argThunks ← bindThunkArgs fn args
  let inner ← newEnv (some fn.env) ((fn.params.map Prod.fst).zip argThunks)
  pure (fn.body, inner)

/-- `str::find(needle).is_some()` -/
def std_isInfix (needle hay : List Char) : Bool :=
  (List.range (hay.length + 1)).any (fun i => needle.isPrefixOf (hay.drop i))

/-- `try_to_i32_exact` -/
def std_i32Exact (f : Float) : Option Int :=
  if f.isFinite && f.floor == f && f ≥ -2147483648.0 && f ≤ 2147483647.0 then some f.toInt64.toInt else none

/-- `std.filter`: `do_std_filter` prepares the application of the function to EVERY element (arity
    check, `Call` trace item) before the first one runs; the frames are popped one by one, so the
    element of index `i` is tested with `n - i` of them still there. -/
def std_filter (t0 t1 : TId) (d1 : Nat) : M Value := do
  let fv ← rec (.force t0 d1)
  let av ← rec (.force t1 d1)
  let .func f := fv | throw (.rt "InvalidStdFuncArgType" s!"filter/0/{typeName fv}")
  let .arr items := av | throw (.rt "InvalidStdFuncArgType" s!"filter/1/{typeName av}")
  let mut calls : List (Expr × EId) := []
  for it in items.reverse do
    calls := (← std_bindCall f [it]) :: calls
  let n := items.length
  checkDepth cfg (d1 + n)
  let mut out : List TId := []
  for ((it, (body, env)), i) in (items.zip calls).zipIdx do
    match ← rec (.eval body env true (d1 + n - i)) with
    | .bool true => out := out ++ [it]
    | .bool false => pure ()
    | v => throw (.rt "Other" s!"filter function must return a boolean, got {typeStr v}")
  pure (.arr out)

/-- `std.foldl`: one application (and one frame) at a time; the accumulator is a finished thunk -/
def std_foldl (t0 t1 t2 : TId) (d1 : Nat) : M Value := do
  let fv ← rec (.force t0 d1)
  let av ← rec (.force t1 d1)
  let .func f := fv | throw (.rt "InvalidStdFuncArgType" s!"foldl/0/{typeName fv}")
  let .arr items := av | throw (.rt "InvalidStdFuncArgType" s!"foldl/1/{typeName av}")
  match items with
  | [] => rec (.force t2 d1)
  | it0 :: rest =>
    let (body, env) ← std_bindCall f [t2, it0]
    checkDepth cfg (d1 + 1)
    let mut acc ← rec (.eval body env true (d1 + 1))
    for it in rest do
      let a ← allocThunk (.done acc)
      let (body, env) ← std_bindCall f [a, it]
      checkDepth cfg (d1 + 1)
      acc ← rec (.eval body env true (d1 + 1))
    pure acc

/-- `std.foldr` -/
def std_foldr (t0 t1 t2 : TId) (d1 : Nat) : M Value := do
  let fv ← rec (.force t0 d1)
  let av ← rec (.force t1 d1)
  let .func f := fv | throw (.rt "InvalidStdFuncArgType" s!"foldr/0/{typeName fv}")
  let .arr items := av | throw (.rt "InvalidStdFuncArgType" s!"foldr/1/{typeName av}")
  match items.reverse with
  | [] => rec (.force t2 d1)
  | last :: rest =>
    let (body, env) ← std_bindCall f [last, t2]
    checkDepth cfg (d1 + 1)
    let mut acc ← rec (.eval body env true (d1 + 1))
    for it in rest do
      let a ← allocThunk (.done acc)
      let (body, env) ← std_bindCall f [it, a]
      checkDepth cfg (d1 + 1)
      acc ← rec (.eval body env true (d1 + 1))
    pure acc

/-- `std.flatMap`: all applications are prepared up front, as in `std.filter` -/
def std_flatMap (t0 t1 : TId) (d1 : Nat) : M Value := do
  let fv ← rec (.force t0 d1)
  let av ← rec (.force t1 d1)
  let .func f := fv | throw (.rt "InvalidStdFuncArgType" s!"flatMap/0/{typeName fv}")
  match av with
  | .arr items =>
    let mut calls : List (Expr × EId) := []
    for it in items.reverse do
      calls := (← std_bindCall f [it]) :: calls
    let n := items.length
    checkDepth cfg (d1 + n)
    let mut out : List TId := []
    for ((body, env), i) in calls.zipIdx do
      match ← rec (.eval body env true (d1 + n - i)) with
      | .arr sub => out := out ++ sub
      | v => throw (.rt "Other" s!"function must return an array, got {typeStr v}")
    pure (.arr out)
  | .str s =>
    let cs := s.toList
    let mut calls : List (Expr × EId) := []
    for c in cs.reverse do
      let a ← allocThunk (.done (.str (String.singleton c)))
      calls := (← std_bindCall f [a]) :: calls
    let n := cs.length
    checkDepth cfg (d1 + n)
    let mut out : String := ""
    for ((body, env), i) in calls.zipIdx do
      match ← rec (.eval body env true (d1 + n - i)) with
      | .null => pure ()
      | .str part => out := out ++ part
      | v => throw (.rt "Other" s!"function must return a string, got {typeStr v}")
    pure (.str out)
  | v => throw (.rt "InvalidStdFuncArgType" s!"flatMap/1/{typeName v}")

/-- `std.mapWithIndex` -/
def std_mapWithIndex (t0 t1 : TId) (d1 : Nat) : M Value := do
  let fv ← rec (.force t0 d1)
  let av ← rec (.force t1 d1)
  let .func f := fv | throw (.rt "InvalidStdFuncArgType" s!"mapWithIndex/0/{typeName fv}")
  match av with
  | .arr items =>
    let mut out : List TId := []
    for (it, i) in items.zipIdx do
      let ix ← allocThunk (.done (.num (Float.ofNat i)))
      out := out ++ [← allocThunk (.pending (.call f [ix, it]))]
    pure (.arr out)
  | .str s =>
    let mut out : List TId := []
    for (c, i) in s.toList.zipIdx do
      let ix ← allocThunk (.done (.num (Float.ofNat i)))
      let a ← allocThunk (.done (.str (String.singleton c)))
      out := out ++ [← allocThunk (.pending (.call f [ix, a]))]
    pure (.arr out)
  | v => throw (.rt "InvalidStdFuncArgType" s!"mapWithIndex/1/{typeName v}")

/-- `std.mapWithKey`: a one-layer object of deferred applications (its asserts count as checked);
    the asserts of the source object are checked afterwards -/
def std_mapWithKey (t0 t1 : TId) (d1 : Nat) : M Value := do
  let fv ← rec (.force t0 d1)
  let ov ← rec (.force t1 d1)
  let .func f := fv | throw (.rt "InvalidStdFuncArgType" s!"mapWithKey/0/{typeName fv}")
  let .obj o := ov | throw (.rt "InvalidStdFuncArgType" s!"mapWithKey/1/{typeName ov}")
  let mut fields : List Field := []
  for name in visibleFields (← getObj o) do
    let some ft ← fieldThunk o 0 name | throw (.internal "visible field without thunk")
    let k ← allocThunk (.done (.str name))
    let t ← allocThunk (.pending (.call f [k, ft]))
    fields := fields ++ [{ name, vis := .default, baseEnv := none, expr := none, thunk := some t }]
  let r ← allocObj { layers := [{ isTop := false, locals := [], baseEnv := none, env := none,
                                  fields := fields, asserts := [] }], assertsChecked := true }
  let _ ← rec (.asserts o d1)
  pure (.obj r)

/-- `std.filterMap`: the filter function is applied as in `std.filter`; the map function is deferred -/
def std_filterMap (t0 t1 t2 : TId) (d1 : Nat) : M Value := do
  let ffv ← rec (.force t0 d1)
  let mfv ← rec (.force t1 d1)
  let av ← rec (.force t2 d1)
  let .func ff := ffv | throw (.rt "InvalidStdFuncArgType" s!"filterMap/0/{typeName ffv}")
  let .func mf := mfv | throw (.rt "InvalidStdFuncArgType" s!"filterMap/1/{typeName mfv}")
  let .arr items := av | throw (.rt "InvalidStdFuncArgType" s!"filterMap/2/{typeName av}")
  let mut calls : List (Expr × EId) := []
  for it in items.reverse do
    calls := (← std_bindCall ff [it]) :: calls
  let n := items.length
  checkDepth cfg (d1 + n)
  let mut out : List TId := []
  for ((it, (body, env)), i) in (items.zip calls).zipIdx do
    match ← rec (.eval body env true (d1 + n - i)) with
    | .bool true => out := out ++ [← allocThunk (.pending (.call mf [it]))]
    | .bool false => pure ()
    | v => throw (.rt "Other" s!"filter function must return a boolean, got {typeStr v}")
  pure (.arr out)

/-- `std.join`: the elements are forced one by one, without trace items -/
def std_join (t0 t1 : TId) (d1 : Nat) : M Value := do
  let sv ← rec (.force t0 d1)
  let av ← rec (.force t1 d1)
  let .arr items := av | throw (.rt "InvalidStdFuncArgType" s!"join/1/{typeName av}")
  match sv with
  | .str sep =>
    let mut out : String := ""
    let mut first := true
    for it in items do
      match ← rec (.force it d1) with
      | .null => pure ()
      | .str part =>
        out := if first then part else out ++ sep ++ part
        first := false
      | v => throw (.rt "Other" s!"array item must null or string, got {typeStr v}")
    pure (.str out)
  | .arr sep =>
    let mut out : List TId := []
    let mut first := true
    for it in items do
      match ← rec (.force it d1) with
      | .null => pure ()
      | .arr part =>
        out := if first then part else out ++ sep ++ part
        first := false
      | v => throw (.rt "Other" s!"array item must null or array, got {typeStr v}")
    pure (.arr out)
  | v => throw (.rt "InvalidStdFuncArgType" s!"join/0/{typeName v}")

/-- `std.range` -/
def std_range (t0 t1 : TId) (d1 : Nat) : M Value := do
  let fv ← rec (.force t0 d1)
  let tv ← rec (.force t1 d1)
  let .num a := fv | throw (.rt "InvalidStdFuncArgType" s!"range/0/{typeName fv}")
  let .num b := tv | throw (.rt "InvalidStdFuncArgType" s!"range/1/{typeName tv}")
  let some lo := std_i32Exact a | throw (.rt "Other" "invalid `from` value")
  let some hi := std_i32Exact b | throw (.rt "Other" "invalid `to` value")
  let k := (hi - lo + 1).toNat
  if k > 4096 then throw (.unsupported "large range")
  let mut out : List TId := []
  for i in List.range k do
    out := out ++ [← allocThunk (.done (.num (intToFloat (lo + Int.ofNat i))))]
  pure (.arr out)

/-- `std.member`: the needle is forced only when the first argument is a string or a non-empty array -/
def std_member (t0 t1 : TId) (d1 : Nat) : M Value := do
  match ← rec (.force t0 d1) with
  | .str s =>
    let nv ← rec (.force t1 d1)
    let .str needle := nv | throw (.rt "InvalidStdFuncArgType" s!"member/1/{typeName nv}")
    pure (.bool (std_isInfix needle.toList s.toList))
  | .arr items =>
    if items.isEmpty then return .bool false
    let x ← rec (.force t1 d1)
    for it in items do
      let iv ← rec (.force it d1)
      match ← rec (.equals x iv d1) with
      | .bool true => return .bool true
      | _ => pure ()
    pure (.bool false)
  | v => throw (.rt "InvalidStdFuncArgType" s!"member/0/{typeName v}")

/-- `std.count` -/
def std_count (t0 t1 : TId) (d1 : Nat) : M Value := do
  let av ← rec (.force t0 d1)
  let .arr items := av | throw (.rt "InvalidStdFuncArgType" s!"count/0/{typeName av}")
  if items.isEmpty then return .num 0.0
  let x ← rec (.force t1 d1)
  let mut k : Nat := 0
  for it in items do
    let iv ← rec (.force it d1)
    match ← rec (.equals x iv d1) with
    | .bool true => k := k + 1
    | _ => pure ()
  pure (.num (Float.ofNat k))

/-- `std.all` -/
def std_all (t : TId) (d1 : Nat) : M Value := do
  let av ← rec (.force t d1)
  let .arr items := av | throw (.rt "InvalidStdFuncArgType" s!"all/0/{typeName av}")
  for (it, i) in items.zipIdx do
    match ← rec (.force it d1) with
    | .bool true => pure ()
    | .bool false => return .bool false
    | v => throw (.rt "Other" s!"array item {i} must be a boolean, got {typeStr v}")
  pure (.bool true)

/-- `std.any` -/
def std_any (t : TId) (d1 : Nat) : M Value := do
  let av ← rec (.force t d1)
  let .arr items := av | throw (.rt "InvalidStdFuncArgType" s!"any/0/{typeName av}")
  for (it, i) in items.zipIdx do
    match ← rec (.force it d1) with
    | .bool true => return .bool true
    | .bool false => pure ()
    | v => throw (.rt "Other" s!"array item {i} must be a boolean, got {typeStr v}")
  pure (.bool false)

/-- `std.equals` -/
def std_equals (t0 t1 : TId) (d1 : Nat) : M Value := do
  let av ← rec (.force t0 d1)
  let bv ← rec (.force t1 d1)
  rec (.equals av bv d1)

/-- `std.__compare` -/
def std_compare (t0 t1 : TId) (d1 : Nat) : M Value := do
  let av ← rec (.force t0 d1)
  let bv ← rec (.force t1 d1)
  rec (.compare av bv d1)

/-- `std.primitiveEquals` -/
def std_primitiveEquals (t0 t1 : TId) (d1 : Nat) : M Value := do
  let av ← rec (.force t0 d1)
  let bv ← rec (.force t1 d1)
  match av, bv with
  | .null, .null => pure (.bool true)
  | .bool x, .bool y => pure (.bool (x == y))
  | .num x, .num y => pure (.bool (x == y))
  | .str x, .str y => pure (.bool (x == y))
  | .arr _, .arr _ => throw (.rt "PrimitiveEqualsNonPrimitive" "Array")
  | .obj _, .obj _ => throw (.rt "PrimitiveEqualsNonPrimitive" "Object")
  | .func _, .func _ => throw (.rt "CompareFunctions" "")
  | _, _ => pure (.bool false)

/-- `std.assertEqual`: on failure both values are manifested (left first) for the message -/
def std_assertEqual (t0 t1 : TId) (d1 : Nat) : M Value := do
  let av ← rec (.force t0 d1)
  let bv ← rec (.force t1 d1)
  match ← rec (.equals av bv d1) with
  | .bool true => pure (.bool true)
  | _ =>
    let ls ← recStr rec (.manifest av d1 false)
    let rs ← recStr rec (.manifest bv d1 false)
    throw (.rt "AssertEqualFailed" (ls ++ "/" ++ rs))

/-- `std.toString` -/
def std_toString (t : TId) (d1 : Nat) : M Value := do
  let v ← rec (.force t d1)
  pure (.str (← coerceToString rec v d1))

/-- the keys of `std.sort` / `std.set`: every application of `keyF` is prepared up front (arity check, `Call`
    trace item) as in `std.filter`; `none` is the default `keyF`, the identity (`FuncKind::Identity`: the element
    itself is forced under its `Call` trace item) -/
def std_sortKeys (kf : Option FId) (items : List TId) (d1 : Nat) : M (List Value) := do
  let n := items.length
  match kf with
  | none =>
    checkDepth cfg (d1 + n)
    let mut keys : List Value := []
    for (it, i) in items.zipIdx do
      keys := keys ++ [← rec (.force it (d1 + n - i))]
    pure keys
  | some f =>
    let mut calls : List (Expr × EId) := []
    for it in items.reverse do
      calls := (← std_bindCall f [it]) :: calls
    checkDepth cfg (d1 + n)
    let mut keys : List Value := []
    for ((body, env), i) in calls.zipIdx do
      keys := keys ++ [← rec (.eval body env true (d1 + n - i))]
    pure keys

/-- `StdSortQuickSort1/2` on element indices (ranges of at most 30 elements): every other element is compared
    with the first one, `<` go left (in order), the others right, then the left part and the right part -/
def std_qsort (keys : List Value) (d1 : Nat) : Nat → List Nat → M (List Nat)
  | 0, xs => pure xs
  | _ + 1, [] => pure []
  | _ + 1, [x] => pure [x]
  | fuel + 1, pivot :: rest => do
    let some kp := keys[pivot]? | throw (.internal "sort key not set")
    let mut lt : List Nat := []
    let mut ge : List Nat := []
    for it in rest do
      let some ki := keys[it]? | throw (.internal "sort key not set")
      match ← rec (.compare ki kp d1) with
      | .num c => if c < 0.0 then lt := lt ++ [it] else ge := ge ++ [it]
      | _ => throw (.internal "compare did not return a number")
    let l ← std_qsort keys d1 fuel lt
    let g ← std_qsort keys d1 fuel ge
    pure (l ++ pivot :: g)

/-- `std.sort` (`uniq = false`) and `std.set` (`uniq = true`: after sorting, an element is kept when its key differs
    from the key of its predecessor in the sorted order); `t1 = none`: `keyF` not given -/
def std_sortSet (uniq : Bool) (t0 : TId) (t1 : Option TId) (d1 : Nat) : M Value := do
  let name := if uniq then "set" else "sort"
  let av ← rec (.force t0 d1)
  let kv ← match t1 with
    | some t => do pure (some (← rec (.force t d1)))
    | none => pure none
  let .arr items := av | throw (.rt "InvalidStdFuncArgType" s!"{name}/0/{typeName av}")
  let kf ← match kv with
    | none => pure none
    | some (.func f) => pure (some f)
    | some v => throw (.rt "InvalidStdFuncArgType" s!"{name}/1/{typeName v}")
  if items.length ≤ 1 then return av
  if items.length > 30 then throw (.unsupported "merge sort")
  let keys ← std_sortKeys cfg rec kf items d1
  let order ← std_qsort rec keys d1 items.length (List.range items.length)
  let mut out : List TId := []
  let mut prev : Option Value := none
  for i in order do
    let some t := items[i]? | throw (.internal "sorted index out of range")
    let some k := keys[i]? | throw (.internal "sort key not set")
    let keep ← match (if uniq then prev else none) with
      | some pk => do
        match ← rec (.equals pk k d1) with
        | .bool true => pure false
        | _ => pure true
      | none => pure true
    if keep then out := out ++ [t]
    prev := some k
  pure (.arr out)

/-! ### The pure builtins: one generic path (specs: RsjModel/EvalPure.lean) -/

/-- the store-free view of a forced value that a pure builtin sees -/
def Value.view : Value → PArg
  | .null => .null
  | .bool b => .bool b
  | .num f => .num f
  | .str s => .str s
  | .arr items => .arr items.length
  | .obj _ => .obj
  | .func _ => .func

def Prim.toValue : Prim → Value
  | .null => .null
  | .bool b => .bool b
  | .num f => .num f
  | .str s => .str s

def PErr.toErr : PErr → Err
  | .rt k d => .rt k d
  | .unsupported m => .unsupported m
  | .panic _ => .internal "pure builtin panic"

/-- `do_std_modulo`: Rust `%` on f64 is C `fmod` -/
def spec_modulo : PureSpec where
  name := "modulo"
  arity := 2
  run := run2 fun a b => do
    let x ← argNum "modulo" 0 a
    let y ← argNum "modulo" 1 b
    if y == 0.0 then .error (.rt "DivByZero" "")
    let r := fmodExact x y
    pCheckNum r
    pure (outNum r)

/-- `f64::consts::PI` -/
def floatPi : Float := Float.ofBits 0x400921FB54442D18

/-- the table of the pure builtins -/
def pureSpec : PureB → PureSpec
  | .substr => spec_substr
  | .findSubstr => spec_findSubstr
  | .startsWith => spec_startsWith
  | .endsWith => spec_endsWith
  | .split => spec_split
  | .splitLimit => spec_splitLimit "splitLimit" Str.splitLimit
  | .splitLimitR => spec_splitLimit "splitLimitR" Str.splitLimitR
  | .strReplace => spec_strReplace
  | .stripChars => spec_strip "stripChars" Str.stripChars
  | .lstripChars => spec_strip "lstripChars" Str.lstripChars
  | .rstripChars => spec_strip "rstripChars" Str.rstripChars
  | .trim => spec_strMap "trim" Str.trim
  | .asciiUpper => spec_strMap "asciiUpper" Str.asciiUpper
  | .asciiLower => spec_strMap "asciiLower" Str.asciiLower
  | .stringChars => spec_stringChars
  | .codepoint => spec_codepoint
  | .char => spec_char
  | .equalsIgnoreCase => spec_equalsIgnoreCase
  | .floor => spec_num1 "floor" (fun x => pure (outNum x.floor))
  | .ceil => spec_num1 "ceil" (fun x => pure (outNum x.ceil))
  | .sqrt => spec_num1 "sqrt" (fun x => do let r := x.sqrt; pCheckNum r; pure (outNum r))
  | .isEven => spec_num1 "isEven" (fun x => pure (outBool (fmodExact x 2.0 == 0.0)))
  | .isOdd => spec_num1 "isOdd" (fun x => pure (outBool (fmodExact x 2.0 != 0.0)))
  | .isInteger => spec_num1 "isInteger" (fun x => pure (outBool (floatTrunc x == x)))
  | .isDecimal => spec_num1 "isDecimal" (fun x => pure (outBool (floatTrunc x != x)))
  | .modulo => spec_modulo
  | .exponent => spec_num1 "exponent" (fun x => pure (outNum (intFloat (frexpBits x).2)))
  | .mantissa => spec_num1 "mantissa" (fun x => pure (outNum (frexpBits x).1))
  | .pow => spec_libm2 "pow"
  | .exp => spec_libm1 "exp"
  | .log => spec_libm1 "log"
  | .log2 => spec_libm1 "log2"
  | .log10 => spec_libm1 "log10"
  | .sin => spec_libm1 "sin"
  | .cos => spec_libm1 "cos"
  | .tan => spec_libm1 "tan"
  | .asin => spec_libm1 "asin"
  | .acos => spec_libm1 "acos"
  | .atan => spec_libm1 "atan"
  | .atan2 => spec_libm2 "atan2"
  | .hypot => spec_libm2 "hypot"
  | .deg2rad => spec_num1 "deg2rad" (fun x => do let r := x * (floatPi / 180.0); pCheckNum r; pure (outNum r))
  | .rad2deg => spec_num1 "rad2deg" (fun x => do let r := x * (180.0 / floatPi); pCheckNum r; pure (outNum r))
  | .parseInt => spec_parseInt
  | .parseOctal => spec_parseRadix "parseOctal" .oct "octal integer without digits:" "invalid octal digit:"
  | .parseHex => spec_parseRadix "parseHex" .hex "hexadecimal integer without digits:" "invalid hexadecimal digit:"
  | .base64 => spec_base64
  | .base64Decode => spec_base64Decode
  | .base64DecodeBytes => spec_base64DecodeBytes
  | .encodeUTF8 => spec_encodeUTF8
  | .decodeUTF8 => spec_decodeUTF8
  | .escapeStringJson => spec_escape "escapeStringJson" Codec.escJson
  | .escapeStringPython => spec_escape "escapeStringPython" Codec.escJson
  | .escapeStringBash => spec_escape "escapeStringBash" Codec.escBash
  | .escapeStringDollars => spec_escape "escapeStringDollars" Codec.escDollars
  | .escapeStringXML => spec_escape "escapeStringXML" Codec.escXml
  | .format => spec_format

def pureBuiltin : Builtin → Option PureSpec
  | .pure p => some (pureSpec p)
  | _ => none

/-- the argument thunks forced in argument order (`State::DoThunk` of `arg0` is on top of the stack), no trace items -/
def forceAll (ts : List TId) (d1 : Nat) : M (List Value) := do
  let mut vals : List Value := []
  for t in ts do
    vals := vals ++ [← rec (.force t d1)]
  pure vals

/-- `State::CoerceToString` on every forced argument -/
def coerceAll (vals : List Value) (d1 : Nat) : M (List Value) := do
  let mut out : List Value := []
  for v in vals do
    out := out ++ [.str (← coerceToString rec v d1)]
  pure out

/-- `make_value_array`: one finished thunk per item -/
def allocPrims (items : List Prim) : M (List TId) := do
  let mut out : List TId := []
  for p in items do
    out := out ++ [← allocThunk (.done p.toValue)]
  pure out

/-- the result of a pure builtin as a value of the store -/
def pureOut (o : PureOut) : M Value :=
  match o with
  | .prim p => pure p.toValue
  | .arr items => do pure (.arr (← allocPrims items))

/-- the elements of an array forced one by one (no trace items), each checked right after it is forced -/
def forceBytes (items : List TId) (item : PArg → Except PErr Nat) (d1 : Nat) : M (List Nat) := do
  let mut bytes : List Nat := []
  for it in items do
    let v ← rec (.force it d1)
    match item v.view with
    | .ok b => bytes := bytes ++ [b]
    | .error e => throw e.toErr
  pure bytes

/-! #### `std.format` / `%`: the values are consumed, and forced, directive by directive (`eval/format.rs`) -/

/-- the thunk of a `*` width / precision, taken from the array (`do_std_format_codes_array_1`: nothing is forced yet) -/
def fmtTakeW (spec : Option Format.FW) (items : List TId) (i : Nat) : M (Option TId × Nat) :=
  match spec with
  | some .ext =>
    match items[i]? with
    | some t => pure (some t, i + 1)
    | none => throw (fmtErr (.notEnough items.length)).toErr
  | _ => pure (none, i)

def fmtForceOpt (t : Option TId) (d : Nat) : M (Option Value) :=
  match t with
  | some t => do pure (some (← rec (.force t d)))
  | none => pure none

/-- the forced value of a directive as `do_std_format_code` sees it: `%s` of a non-string goes through `ManifestJson` -/
def fmtItem (c : Format.Code) (v : Value) (d : Nat) : M Format.Val :=
  match v with
  | .str s => pure (.str s.toList)
  | v =>
    if c.conv == .str then do pure (fmtValOfS v.view (some (← coerceToString rec v d)))
    else pure (fmtValOf v.view)

/-- one directive on an array (`array_1` → `array_2` → `StdFormatCode` → `array_3`): the `*` thunks are taken, then
    forced (width first, the precision only if the conversion uses it), checked (precision first), then the item -/
def fmtArrayCode (c : Format.Code) (items : List TId) (i : Nat) (d : Nat) : M (List Char × Nat) := do
  let (fwT, i1) ← fmtTakeW c.fw items i
  let (precT, i2) ← fmtTakeW c.prec items i1
  let fwV ← fmtForceOpt rec fwT d
  let precV ← fmtForceOpt rec (if Format.usesPrec c.conv then precT else none) d
  let (fw, prec) ← match fmtPrecWidth c (fwV.map Value.view) (precV.map Value.view) with
    | .ok r => pure r
    | .error e => throw e.toErr
  if c.conv == .pct then pure (Format.padField c.flags.left fw ['%'], i2)
  else
    match items[i2]? with
    | none => throw (fmtErr (.notEnough items.length)).toErr
    | some t =>
      let v ← rec (.force t d)
      let fv ← fmtItem rec c v d
      match fmtRender c fw prec fv with
      | .ok s => pure (s, i2 + 1)
      | .error e => throw e.toErr

/-- one part of the format string on an array: the new `array_i` and the output so far -/
def fmtArrayPart (p : Format.Part) (items : List TId) (i : Nat) (out : List Char) (d : Nat) : M (Nat × List Char) :=
  match p with
  | .lit s => pure (i, out ++ s)
  | .code c => do
    let r ← fmtArrayCode rec c items i d
    pure (r.2, out ++ r.1)

/-- `want_format_array`: the parts in order; items left over at the end are an error (and are not forced) -/
def fmtArray (parts : List Format.Part) (items : List TId) (d : Nat) : M Value := do
  let mut st : Nat × List Char := (0, [])
  for p in parts do
    st ← fmtArrayPart rec p items st.1 st.2 d
  if st.1 < items.length then throw (fmtErr (.tooMany st.1 items.length)).toErr
  pure (.str (String.ofList st.2))

/-- one directive on an object (`object_1` → `StdFormatCode` → `object_2`): the asserts of the object are checked
    before the field is forced -/
def fmtObjectCode (c : Format.Code) (o : OId) (d : Nat) : M (List Char) := do
  let fw ← match Format.objWidth c.fw .objStarWidth with
    | .ok n => pure n
    | .error e => throw (fmtErr e).toErr
  let prec ← match Format.objWidth c.prec .objStarPrec with
    | .ok n => pure n
    | .error e => throw (fmtErr e).toErr
  if c.conv == .pct then pure (Format.padField c.flags.left fw ['%'])
  else
    match c.mkey with
    | none => throw (fmtErr .objNeedKey).toErr
    | some k =>
      match ← fieldThunk o 0 (String.ofList k) with
      | none => throw (fmtErr (.objMissingField k)).toErr
      | some t =>
        let _ ← rec (.asserts o d)
        let v ← rec (.force t d)
        let fv ← fmtItem rec c v d
        match fmtRender c fw prec fv with
        | .ok s => pure s
        | .error e => throw e.toErr

/-- one part of the format string on an object -/
def fmtObjectPart (p : Format.Part) (o : OId) (out : List Char) (d : Nat) : M (List Char) :=
  match p with
  | .lit s => pure (out ++ s)
  | .code c => do pure (out ++ (← fmtObjectCode rec c o d))

/-- `want_format_object` -/
def fmtObject (parts : List Format.Part) (o : OId) (d : Nat) : M Value := do
  let mut out : List Char := []
  for p in parts do
    out ← fmtObjectPart rec p o out d
  pure (.str (String.ofList out))

/-- the types of the forced arguments are checked and the result is computed by the (pure) `run`; array results are
    allocated; `elems`: the elements of one argument are forced and checked one by one in between; `fmt`: the second
    argument of `std.format` is an array, an object, or a single value (an array of one finished thunk) -/
def pureFinish (spec : PureSpec) (vals : List Value) (d1 : Nat) : M Value :=
  match spec.run (vals.map Value.view) with
  | .error e => throw e.toErr
  | .ok (.done out) => pureOut out
  | .ok (.elems i item finish) =>
    match vals[i]? with
    | some (.arr items) => do
      let bytes ← forceBytes rec items item d1
      match finish bytes with
      | .ok out => pureOut out
      | .error e => throw e.toErr
    | _ => throw (.unsupported "pure builtin: the element argument is not an array")
  | .ok (.fmt parts) =>
    match vals[(1 : Nat)]? with
    | some (.arr items) => fmtArray rec parts items d1
    | some (.obj o) => fmtObject rec parts o d1
    | some v => do
      let t ← allocThunk (.done v)
      fmtArray rec parts [t] d1
    | none => throw (.unsupported "pure builtin: std.format without values")

/-- `do_binary_op`: `%` with a string on the left is `std.format` (under the `Expr` trace item of the operator);
    everything else as before -/
def binaryOp3 (op : BinOp) (lhs rhs : Value) (d : Nat) (hasSpan : Bool) : M Value :=
  match op, lhs with
  | .rem, .str _ => do
    if hasSpan then checkDepth cfg (d + 1)
    pureFinish rec spec_format [lhs, rhs] (if hasSpan then d + 1 else d)
  | _, _ => binaryOp cfg rec op lhs rhs d hasSpan

/-- a pure builtin: the arguments are forced in order (and coerced to strings for `std.escapeString*`), then
    `pureFinish` -/
def std_pure (spec : PureSpec) (ts : List TId) (d1 : Nat) : M Value := do
  let forced ← forceAll rec ts d1
  let vals ← if spec.coerce then coerceAll rec forced d1 else pure forced
  pureFinish rec spec vals d1

/-- the builtins added after `std.makeArray` (they need the frame limit); the others as before -/
def builtinCall2 (b : Builtin) (ts : List TId) (d1 : Nat) : M Value :=
  match b, ts with
  | .filter, [t0, t1] => std_filter cfg rec t0 t1 d1
  | .foldl, [t0, t1, t2] => std_foldl cfg rec t0 t1 t2 d1
  | .foldr, [t0, t1, t2] => std_foldr cfg rec t0 t1 t2 d1
  | .flatMap, [t0, t1] => std_flatMap cfg rec t0 t1 d1
  | .mapWithIndex, [t0, t1] => std_mapWithIndex rec t0 t1 d1
  | .mapWithKey, [t0, t1] => std_mapWithKey rec t0 t1 d1
  | .filterMap, [t0, t1, t2] => std_filterMap cfg rec t0 t1 t2 d1
  | .join, [t0, t1] => std_join rec t0 t1 d1
  | .range, [t0, t1] => std_range rec t0 t1 d1
  | .member, [t0, t1] => std_member rec t0 t1 d1
  | .count, [t0, t1] => std_count rec t0 t1 d1
  | .all, [t] => std_all rec t d1
  | .any, [t] => std_any rec t d1
  | .equals, [t0, t1] => std_equals rec t0 t1 d1
  | .compare, [t0, t1] => std_compare rec t0 t1 d1
  | .primitiveEquals, [t0, t1] => std_primitiveEquals rec t0 t1 d1
  | .assertEqual, [t0, t1] => std_assertEqual rec t0 t1 d1
  | .toString, [t] => std_toString rec t d1
  | .sort, [t0] => std_sortSet cfg rec false t0 none d1
  | .sort, [t0, t1] => std_sortSet cfg rec false t0 (some t1) d1
  | .set, [t0] => std_sortSet cfg rec true t0 none d1
  | .set, [t0, t1] => std_sortSet cfg rec true t0 (some t1) d1
  | b, ts => builtinCall rec b ts d1

/-- the pure builtins through `std_pure` (`check_num_args`: the number of argument thunks is the arity); the others as before -/
def builtinCall3 (b : Builtin) (ts : List TId) (d1 : Nat) : M Value :=
  match pureBuiltin b with
  | some spec =>
    if ts.length = spec.arity then std_pure rec spec ts d1 else throw (.internal "builtin arity")
  | none => builtinCall2 cfg rec b ts d1

/-- the computation of a pending thunk (`State::DoThunk` on `ThunkState::Pending`) -/
def thunkBody (p : Pending) (d : Nat) : M Value :=
  match p with
  | .expr e env => rec (.eval e env false d)
  | .plus e field env => do
    let r ← getObjRef env
    match ← fieldThunk r.obj (r.layer + 1) field with
    | some st =>
      let sv ← wantThunk cfg rec st d
      let v ← rec (.eval e env false d)
      binaryOp cfg rec .add sv v d false
    | none => rec (.eval e env false d)
  | .call f args => do
    let fn ← getFunc f
    let argThunks ← bindThunkArgs fn args
    let inner ← newEnv (some fn.env) ((fn.params.map Prod.fst).zip argThunks)
    rec (.eval fn.body inner true d)

/-- `CompareArray`: element-wise, stops at the first non-equal pair. -/
def compareLists (d : Nat) : List TId → List TId → M Value
  | [], [] => pure (.num 0.0)
  | [], _ :: _ => pure (.num (-1.0))
  | _ :: _, [] => pure (.num 1.0)
  | x :: xs', y :: ys' => do
    checkDepth cfg (d + 1)
    let xv ← rec (.force x (d + 1))
    let yv ← rec (.force y (d + 1))
    match ← rec (.compare xv yv (d + 1)) with
    | .num c => if c == 0.0 then compareLists d xs' ys' else pure (.num c)
    | _ => throw (.internal "compare did not return a number")

/-- One level of the evaluator; `rec` is the evaluator with less fuel. -/
def step : Task → M Value
  | .force t d => do
    match ← switchState t with
    | .done v => pure v
    | .inProgress _ => throw .infiniteRecursion
    | .pending p =>
      let v ← thunkBody cfg rec p d
      finishThunk t v
      pure v
  | .asserts o d => do
    let ob ← getObj o
    if ob.assertsChecked then return .null
    let hasAsserts := ob.layers.any (fun l => !l.asserts.isEmpty)
    setObj o { ob with assertsChecked := true, assertsInProgress := hasAsserts }
    -- self layer first, then the super layers from the top down
    for (li, layer) in ob.layers.zipIdx.map (fun p => (p.2, p.1)) do
      for (c, m) in layer.asserts do
        let env ← layerEnv o li
        let cv ← rec (.eval c env false d)
        match cv with
        | .bool true => pure ()
        | .bool false =>
          match m with
          | .none => throw (.rt "AssertFailed" "")
          | .some me =>
            let mv ← rec (.eval me env false d)
            throw (.rt "AssertFailed" (← coerceToString rec mv d))
        | v => throw (.rt "CondIsNotBool" (typeName v))
    let ob ← getObj o
    setObj o { ob with assertsInProgress := false }
    pure .null
  | .deep v d => do
    match v with
    | .arr items =>
      for t in items do
        let need ← match ← getThunk t with
          | .done (.arr _) => pure true
          | .done (.obj _) => pure true
          | .done _ => pure false
          | _ => pure true
        if need then
          checkDepth cfg (d + 1)
          let iv ← rec (.force t (d + 1))
          let _ ← rec (.deep iv (d + 1))
      pure v
    | .obj o =>
      let _ ← rec (.asserts o d)
      for name in visibleFields (← getObj o) do
        let some t ← fieldThunk o 0 name | throw (.internal "visible field without thunk")
        let need ← match ← getThunk t with
          | .done (.arr _) => pure true
          | .done (.obj _) => pure true
          | .done _ => pure false
          | _ => pure true
        if need then
          checkDepth cfg (d + 1)
          let fv ← rec (.force t (d + 1))
          let _ ← rec (.deep fv (d + 1))
      pure v
    | v => pure v
  | .manifest v d canon => do
    match v with
    | .null => pure (.str "null")
    | .bool b => pure (.str (if b then "true" else "false"))
    | .num f => if canon then pure (.str ("n" ++ bitsHex f)) else pure (.str (← numText f))
    | .str s => if canon then pure (.str ("s" ++ strHex s)) else pure (.str (jsonEscape s))
    | .func _ => throw (.rt "ManifestFunction" "")
    | .arr items =>
      if items.isEmpty then return .str (if canon then "[]" else "[ ]")
      let mut parts : List String := []
      for t in items do
        checkDepth cfg (d + 1)
        let iv ← rec (.force t (d + 1))
        parts := parts ++ [← recStr rec (.manifest iv (d + 1) canon)]
      pure (.str ("[" ++ (if canon then "," else ", ").intercalate parts ++ "]"))
    | .obj o =>
      let _ ← rec (.asserts o d)
      let names := visibleFields (← getObj o)
      if names.isEmpty then return .str (if canon then "{}" else "{ }")
      let mut parts : List String := []
      for name in names do
        let some t ← fieldThunk o 0 name | throw (.internal "visible field without thunk")
        checkDepth cfg (d + 1)
        let fv ← rec (.force t (d + 1))
        let s ← recStr rec (.manifest fv (d + 1) canon)
        parts := parts ++ [if canon then strHex name ++ ":" ++ s else jsonEscape name ++ ": " ++ s]
      pure (.str ("{" ++ (if canon then "," else ", ").intercalate parts ++ "}"))
  | .equals a b d => do
    match a, b with
    | .null, .null => pure (.bool true)
    | .bool x, .bool y => pure (.bool (x == y))
    | .num x, .num y => pure (.bool (x == y))
    | .str x, .str y => pure (.bool (x == y))
    | .arr xs, .arr ys =>
      if xs.length != ys.length then return .bool false
      for (x, y) in xs.zip ys do
        checkDepth cfg (d + 1)
        let xv ← rec (.force x (d + 1))
        let yv ← rec (.force y (d + 1))
        match ← rec (.equals xv yv (d + 1)) with
        | .bool true => pure ()
        | _ => return .bool false
      pure (.bool true)
    | .obj x, .obj y =>
      let xf := visibleFields (← getObj x)
      let yf := visibleFields (← getObj y)
      if xf != yf then return .bool false
      let mut first := true
      for name in xf do
        checkDepth cfg (d + 1)
        if first then
          let _ ← rec (.asserts x (d + 1))
          let _ ← rec (.asserts y (d + 1))
          first := false
        let some xt ← fieldThunk x 0 name | throw (.internal "visible field without thunk")
        let some yt ← fieldThunk y 0 name | throw (.internal "visible field without thunk")
        let xv ← rec (.force xt (d + 1))
        let yv ← rec (.force yt (d + 1))
        match ← rec (.equals xv yv (d + 1)) with
        | .bool true => pure ()
        | _ => return .bool false
      pure (.bool true)
    | .func _, .func _ => throw (.rt "CompareFunctions" "")
    | _, _ => pure (.bool false)
  | .compare a b d => do
    -- result: num -1 / 0 / 1
    let ord (c : Ordering) : Value :=
      match c with | .lt => .num (-1.0) | .eq => .num 0.0 | .gt => .num 1.0
    match a, b with
    | .null, .null => throw (.rt "CompareNullInequality" "")
    | .bool _, .bool _ => throw (.rt "CompareBooleanInequality" "")
    | .num x, .num y =>
      if x < y then pure (ord .lt) else if x == y then pure (ord .eq)
      else if x > y then pure (ord .gt) else throw (.internal "partial_cmp of NaN")
    | .str x, .str y => pure (ord (compare x y))
    | .arr xs, .arr ys => compareLists cfg rec d xs ys
    | .obj _, .obj _ => throw (.rt "CompareObjectInequality" "")
    | .func _, .func _ => throw (.rt "CompareFunctions" "")
    | l, r => throw (.rt "CompareDifferentTypesInequality" (s!"{typeName l}/{typeName r}"))
  | .eval e env tail d => do
    match e with
    | .null => pure .null
    | .true_ => pure (.bool true)
    | .false_ => pure (.bool false)
    | .num f => checkNum f; pure (.num f)
    | .str s => pure (.str s)
    | .paren e => rec (.eval e env false d)
    | .self_ => do pure (.obj (← getObjRef env).obj)
    | .dollar => do pure (.obj (← getObjRef env).top)
    | .object ms => do
      let isTop := (← getEnv env).obj.isNone
      let mut layer : Layer := { isTop, locals := memberLocals ms, baseEnv := some env, env := none,
                                 fields := [], asserts := memberAsserts ms }
      for m in membersList ms do
        layer ← objectMember rec env d layer m
      let o ← allocObj { layers := [layer], assertsChecked := false }
      pure (.obj o)
    | .objectComp locals name plus body spec => do
      let isTop := (← getEnv env).obj.isNone
      let sets ← evalSpecs rec (specsList spec) env d
      let mut layer : Layer := { isTop, locals := bindsList locals, baseEnv := none, env := none,
                                 fields := [], asserts := [] }
      for vars in sets do
        let outer ← newEnv (some env) vars
        match ← rec (.eval name outer false d) with
        | .str n => layer ← addField layer n plus .default body (some outer)
        | .null => pure ()
        | v => throw (.rt "FieldNameIsNotString" (typeName v))
      let o ← allocObj { layers := [layer], assertsChecked := true }
      pure (.obj o)
    | .array items => do
      let mut ts : List TId := []
      for it in exprsList items do
        ts := ts ++ [← newThunk it env]
      pure (.arr ts)
    | .arrayComp body spec => do
      let sets ← evalSpecs rec (specsList spec) env d
      let mut ts : List TId := []
      for vars in sets do
        let ienv ← newEnv (some env) vars
        ts := ts ++ [← newThunk body ienv]
      pure (.arr ts)
    | .field oe name => do
      match ← rec (.eval oe env false d) with
      | .obj o => wantField cfg rec o name d
      | _ => throw (.rt "FieldOfNonObject" "")
    | .index oe ie => do
      let ov ← rec (.eval oe env false d)
      let iv ← rec (.eval ie env false d)
      match ov with
      | .str s =>
        let .num f := iv | throw (.rt "StringIndexIsNotNumber" (typeName iv))
        let some i := toIndex f | throw (.rt "NumericIndexIsNotValid" "?")
        match s.toList[i]? with
        | some c => pure (.str (String.singleton c))
        | none => throw (.rt "NumericIndexOutOfRange" s!"{i}/{s.length}")
      | .arr items =>
        let .num f := iv | throw (.rt "ArrayIndexIsNotNumber" (typeName iv))
        let some i := toIndex f | throw (.rt "NumericIndexIsNotValid" "?")
        match items[i]? with
        | some t => wantThunk cfg rec t d
        | none => throw (.rt "NumericIndexOutOfRange" s!"{i}/{items.length}")
      | .obj o =>
        let .str n := iv | throw (.rt "ObjectIndexIsNotString" (typeName iv))
        wantField cfg rec o n d
      | v => throw (.rt "InvalidIndexedType" (typeName v))
    | .slice oe a b c => do
      let ov ← rec (.eval oe env false d)
      let av ← sliceArg rec env d a
      let bv ← sliceArg rec env d b
      let cv ← sliceArg rec env d c
      let af ← sliceNum av
      let bf ← sliceNum bv
      let cf ← sliceNum cv
      match ov with
      | .str s =>
        let cs := s.toList
        let (st, en, sp) ← sliceRange cs.length af bf cf
        pure (.str (String.ofList (stepBy ((cs.drop st).take (en - st)) sp)))
      | .arr items =>
        let (st, en, sp) ← sliceRange items.length af bf cf
        pure (.arr (stepBy ((items.drop st).take (en - st)) sp))
      | v => throw (.rt "InvalidSlicedType" (typeName v))
    | .superField name => wantSuperField cfg rec env name d
    | .superIndex ie => do
      match ← rec (.eval ie env false d) with
      | .str n => wantSuperField cfg rec env n d
      | v => throw (.rt "ObjectIndexIsNotString" (typeName v))
    | .inSuper le => do
      match ← rec (.eval le env false d) with
      | .str n =>
        let r ← getObjRef env
        pure (.bool ((findField (← getObj r.obj) (r.layer + 1) n).isSome))
      | v => throw (.rt "InvalidBinaryOpTypes" s!"Rsj.Core.BinOp.in_/{typeName v}/Object")
    | .call ce args ts => do
      let cv ← rec (.eval ce env false d)
      let .func f := cv | throw (.rt "CalleeIsNotFunction" (typeName cv))
      let fn ← getFunc f
      let split := argsSplit args
      let posEs := split.filterMap (fun p => if p.1.isNone then some p.2 else none)
      let namedEs := split.filterMap (fun p => p.1.map (fun n => (n, p.2)))
      let slots ← match Bind.bindPlan (fn.params.map (fun p => (p.1, hasDefault p.2))) posEs.length
          (namedEs.map Prod.fst) with
        | .error e => throw (bindErr e)
        | .ok slots => pure slots
      let mut pos : List TId := []
      for ae in posEs do
        pos := pos ++ [← newThunk ae env]
      let mut named : List TId := []
      for (_, ae) in namedEs do
        named := named ++ [← newThunk ae env]
      -- an environment (all parameters visible) is needed only when a default is used
      let needEnv := slots.any (· == .dflt)
      let argsEnv ← if needEnv then allocEnv { parent := none, vars := [], obj := none } else pure 0
      let mut argThunks : List TId := []
      for (slot, (_, pd)) in slots.zip fn.params do
        match slot with
        | .pos i =>
          match pos[i]? with
          | some t => argThunks := argThunks ++ [t]
          | none => throw (.internal "binding plan refers to a missing positional argument")
        | .named j =>
          match named[j]? with
          | some t => argThunks := argThunks ++ [t]
          | none => throw (.internal "binding plan refers to a missing named argument")
        | .dflt =>
          match pd with
          | .some de => argThunks := argThunks ++ [← newThunk de argsEnv]
          | .none => throw (.internal "default slot without default expression")
      if needEnv then
        setEnv argsEnv { parent := some fn.env, vars := (fn.params.map Prod.fst).zip argThunks,
                         obj := (← getEnv fn.env).obj }
      if ts && tail then
        for t in argThunks do
          checkDepth cfg (d + 1)
          let _ ← rec (.force t (d + 1))
        let inner ← newEnv (some fn.env) ((fn.params.map Prod.fst).zip argThunks)
        rec (.eval fn.body inner true d)
      else
        checkDepth cfg (d + 1)
        let inner ← newEnv (some fn.env) ((fn.params.map Prod.fst).zip argThunks)
        rec (.eval fn.body inner true (d + 1))
    | .var n => do
      let t ← getVar env n
      if n.startsWith "$" then
        -- a library variable stands for `import "<lib>"`: the `Import` trace item is
        -- pushed even when the imported thunk is already evaluated
        checkDepth cfg (d + 1)
        rec (.force t (d + 1))
      else
        wantThunk cfg rec t d
    | .local_ bs body => do
      let e' ← allocEnv { parent := some env, vars := [], obj := (← getEnv env).obj }
      let mut vars : List (String × TId) := []
      for (n, be) in bindsList bs do
        vars := vars.filter (fun p => p.1 != n) ++ [(n, ← newThunk be e')]
      setEnv e' { parent := some env, vars := vars, obj := (← getEnv env).obj }
      rec (.eval body e' tail d)
    | .if_ c t el => do
      match ← rec (.eval c env false d) with
      | .bool true => rec (.eval t env tail d)
      | .bool false =>
        match el with
        | .some e => rec (.eval e env tail d)
        | .none => pure .null
      | v => throw (.rt "CondIsNotBool" (typeName v))
    | .binary op a b => do
      match op with
      | .lt | .le | .gt | .ge =>
        checkDepth cfg (d + 1)
        let av ← rec (.eval a env false (d + 1))
        let bv ← rec (.eval b env false (d + 1))
        match ← rec (.compare av bv (d + 1)) with
        | .num c =>
          pure (.bool (match op with
            | .lt => c < 0.0 | .le => c ≤ 0.0 | .gt => c > 0.0 | _ => c ≥ 0.0))
        | _ => throw (.internal "compare did not return a number")
      | .eq | .ne =>
        checkDepth cfg (d + 1)
        let av ← rec (.eval a env false (d + 1))
        let bv ← rec (.eval b env false (d + 1))
        match ← rec (.equals av bv (d + 1)) with
        | .bool r => pure (.bool (if op == .eq then r else !r))
        | _ => throw (.internal "equals did not return a bool")
      | .land =>
        match ← rec (.eval a env false d) with
        | .bool false => pure (.bool false)
        | av =>
          let bv ← rec (.eval b env false d)
          binaryOp cfg rec .land av bv d true
      | .lor =>
        match ← rec (.eval a env false d) with
        | .bool true => pure (.bool true)
        | av =>
          let bv ← rec (.eval b env false d)
          binaryOp cfg rec .lor av bv d true
      | op =>
        let av ← rec (.eval a env false d)
        let bv ← rec (.eval b env false d)
        binaryOp3 cfg rec op av bv d true
    | .unary op a => do
      let av ← rec (.eval a env false d)
      match op, av with
      | .minus, .num f => pure (.num (-f))
      | .plus, .num f => pure (.num f)
      | .bnot, .num f => do
        let i ← safeInt f
        pure (.num (intToFloat (-i - 1)))
      | .lnot, .bool b => pure (.bool (!b))
      | op, v => throw (.rt "InvalidUnaryOpType" s!"{reprStr op}/{typeName v}")
    | .objExt oe ms => do
      let av ← rec (.eval oe env false d)
      let bv ← rec (.eval (.object ms) env false d)
      binaryOp cfg rec .add av bv d true
    | .func ps body => do
      let f ← allocFunc { params := paramsList ps, body := body, env := env }
      pure (.func f)
    | .assert_ c m inner => do
      match ← rec (.eval c env false d) with
      | .bool true => rec (.eval inner env tail d)
      | .bool false =>
        match m with
        | .none => throw (.rt "AssertFailed" "")
        | .some me =>
          let mv ← rec (.eval me env false d)
          throw (.rt "AssertFailed" (← coerceToString rec mv d))
      | v => throw (.rt "CondIsNotBool" (typeName v))
    | .error_ me => do
      let mv ← rec (.eval me env false d)
      checkDepth cfg (d + 1)
      throw (.rt "ExplicitError" (← coerceToString rec mv (d + 1)))
    | .importLit _ | .importTextBlock _ | .importComputed _ _ =>
      throw (.unsupported "import")
    | .builtin b args => do
      -- `std.<b>(args)`: argument thunks, a `Call` trace item, then the builtin forces what it needs
      let mut ts : List TId := []
      for ae in exprsList args do
        ts := ts ++ [← newThunk ae env]
      checkDepth cfg (d + 1)
      let d1 := d + 1
      builtinCall3 cfg rec b ts d1

end

/-- one level, with the ghost note of the depth it starts at -/
def stepN (cfg : Cfg) (rec : Task → M Value) (t : Task) : M Value := do
  noteDepth t.depth
  step cfg rec t

/-- The evaluator with `fuel` levels of recursion. -/
def run (cfg : Cfg) : Nat → Task → M Value
  | 0, _ => bottom
  | n + 1, t => stepN cfg (run cfg n) t

/-- `Evaluator::eval` failing: thunks still in progress go back to pending. -/
def restoreInProgress (st : St) : St :=
  { st with
    thunks := st.thunks.map (fun s => match s with | .inProgress p => .pending p | s => s)
    -- asserts that did not all pass are checked again next time
    objs := st.objs.map (fun o =>
      if o.assertsInProgress then { o with assertsChecked := false, assertsInProgress := false } else o) }

def showErr : Err → String
  | .stackOverflow => "err eval StackOverflow -"
  | .infiniteRecursion => "err eval InfiniteRecursion -"
  | .internal m => "panic " ++ strHex m
  | .unsupported m => "unsupported " ++ strHex m
  | .rt k d => "err eval " ++ k ++ " " ++ strHex d

/-- one request on a thunk: evaluate it, force the value deeply, manifest it -/
def requestProg (cfg : Cfg) (fuel : Nat) (t : TId) : M String := do
  let v ← run cfg fuel (.force t 0)
  let _ ← run cfg fuel (.deep v 0)
  match ← run cfg fuel (.manifest v 0 true) with
  | .str s => pure s
  | _ => throw (.internal "manifest did not return a string")

/-- a fresh store with the program's root thunk, then one request on it -/
def programProg (cfg : Cfg) (fuel : Nat) (e : Expr) : M String := do
  let stdT ← allocThunk (.done .null)
  let root ← allocEnv { parent := none, vars := [("std", stdT)], obj := none }
  let t ← allocThunk (.pending (.expr e root))
  requestProg cfg fuel t

/-- `load_source` + `eval_value` + manifestation of a closed program; `std` is
    the only variable in scope (its thunk is never forced by the core model). -/
def evalProgram (cfg : Cfg) (fuel : Nat) (e : Expr) : String × St :=
  let prog : M String := programProg cfg fuel e
  match (prog.run).run {} with
  | none => ("gas", {})
  | some (.ok s, st) => ("ok " ++ s, st)
  | some (.error er, st) => (showErr er, restoreInProgress st)

def showTraces (st : St) : String :=
  " T" ++ ",".intercalate (st.traces.reverse.map strHex)

/-! ### Histories (C11): several requests against one long-lived store -/

inductive Req where
  | eval (k : Nat)
  | maxStack (n : Nat)
  | gc

/-- One request; a failure restores the thunks that were in progress. -/
def runRequest (cfg : Cfg) (fuel : Nat) (t : TId) (st : St) : String × St :=
  let prog : M String := requestProg cfg fuel t
  match (prog.run).run st with
  | none => ("gas", st)
  | some (.ok s, st') => ("ok " ++ s, st')
  | some (.error er, st') => (showErr er, restoreInProgress st')

/-- Libraries are closed expressions bound to variables of the root environment
    (they stand for `import "<name>"`, whose thunk the session caches). -/
def runHistory (maxStack fuel : Nat) (libs : List (String × Expr)) (srcs : List Expr) (reqs : List Req) :
    List String :=
  let init : M (List TId) := do
    let stdT ← allocThunk (.done .null)
    let root ← allocEnv { parent := none, vars := [("std", stdT)], obj := none }
    let mut vars : List (String × TId) := [("std", stdT)]
    for (n, e) in libs do
      vars := vars ++ [(n, ← allocThunk (.pending (.expr e root)))]
    setEnv root { parent := none, vars := vars, obj := none }
    let mut ts : List TId := []
    for e in srcs do
      ts := ts ++ [← allocThunk (.pending (.expr e root))]
    pure ts
  match (init.run).run {} with
  | some (.ok ts, st0) =>
    let rec go (reqs : List Req) (ms : Nat) (st : St) (acc : List String) : List String :=
      match reqs with
      | [] => acc.reverse
      | .maxStack n :: rest => go rest n st ("ms" :: acc)
      | .gc :: rest => go rest ms st ("gc" :: acc)
      | .eval k :: rest =>
        match ts[k]? with
        | none => go rest ms st ("skip" :: acc)
        | some t =>
          let (out, st') := runRequest { maxStack := ms } fuel t st
          go rest ms st' (out.replace " " "_" :: acc)
    go reqs maxStack st0 []
  | _ => ["init-failed"]

def splitOnBar (toks : List String) : List (List String) :=
  let rec go (toks : List String) (cur : List String) (acc : List (List String)) : List (List String) :=
    match toks with
    | [] => (cur.reverse :: acc).reverse
    | "|" :: rest => go rest [] (cur.reverse :: acc)
    | t :: rest => go rest (t :: cur) acc
  go toks [] []

def parseReq (s : String) : Option Req :=
  match s.splitOn ":" with
  | ["eval", k] => k.toNat?.map Req.eval
  | ["maxstack", n] => n.toNat?.map Req.maxStack
  | ["gc"] => some .gc
  | _ => none

/-- `core <maxStack> <fuel> <traces 0|1> <sexp tokens...>`
    `core hist <maxStack> <fuel> | lib <hexname> <sexp...> | src <sexp...> | req <r> <r> ...` -/
def handle (args : List String) : Option String := do
  match args with
  | "hist" :: ms :: fuel :: "|" :: rest =>
    let mut libs : List (String × Expr) := []
    let mut srcs : List Expr := []
    let mut reqs : List Req := []
    for grp in splitOnBar rest do
      match grp with
      | "lib" :: n :: toks => libs := libs ++ [(← hexStr n, ← parseProgram toks)]
      | "src" :: toks => srcs := srcs ++ [← parseProgram toks]
      | "req" :: rs => reqs := reqs ++ (← rs.mapM parseReq)
      | _ => none
    pure (";".intercalate (runHistory (← ms.toNat?) (← fuel.toNat?) libs srcs reqs))
  | ms :: fuel :: tr :: rest =>
    let e ← parseProgram rest
    let (out, st) := evalProgram { maxStack := ← ms.toNat? } (← fuel.toNat?) e
    pure (out ++ (if tr == "1" then showTraces st else ""))
  | _ => none

end Rsj.Eval
