/-
  Model module `Eval` (driver op `core`). Import-free apart from RsjModel.* modules.
-/
import RsjModel.Util
namespace Rsj.Eval

/-- `core <args...>` : one canonical answer line, or `none` for a malformed request. -/
def handle (_args : List String) : Option String := none

end Rsj.Eval
