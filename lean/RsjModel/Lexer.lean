/-
  Model module `Lexer` (driver op `lex`). Import-free apart from RsjModel.* modules.
-/
import RsjModel.Util
namespace Rsj.Lexer

/-- `lex <args...>` : one canonical answer line, or `none` for a malformed request. -/
def handle (_args : List String) : Option String := none

end Rsj.Lexer
