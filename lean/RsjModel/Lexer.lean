/-
  Model of `rsjsonnet-lang/src/lexer/mod.rs` (driver op `lex`).

  The input is a `List Nat` of bytes.  A cursor `Cur` is an explicit position
  together with the bytes from that position on (`rest = input.drop pos`), so
  `self.input.get(self.end_pos)` is `rest.head?`.  The lexer state
  (`start_pos`, `end_pos`) is a pair of cursors; `commit_token` returns the
  end cursor, which becomes the next start cursor.

  Loops whose step consumes a computed number of bytes (`eat_any_char`,
  `eat_slice(prefix)`) take explicit fuel; running out of fuel is the explicit
  outcome `.fuel` (proved unreachable in RsjProofs/Lexer*.lean).  Every
  `unwrap` is an explicit `.panic` outcome.
  usize subtraction (`self.end_pos - 2`) is `Nat` subtraction; at each such
  site at least that many bytes of the current token have been consumed.
  Assumption: fewer than 2^63 fractional digits (`implicit_exp` is `isize`).
-/
import RsjModel.Util
import RsjModel.Utf8
namespace Rsj.Lexer

/-! ### Tokens and errors (`token.rs`, `lexer/error.rs`) -/

inductive STok where
  | Assert | Else | Error | False | For | Function | If | Import | Importstr | Importbin
  | In | Local | Null | Tailstrict | Then | Self_ | Super | True
  | Exclam | ExclamEq | Dollar | Percent | Amp | AmpAmp | LeftParen | RightParen | Asterisk
  | Plus | PlusColon | PlusColonColon | PlusColonColonColon | Comma | Minus | Dot | Slash
  | Colon | ColonColon | ColonColonColon | Semicolon | Lt | LtLt | LtEq | Eq | EqEq | Gt | GtEq
  | GtGt | LeftBracket | RightBracket | Hat | LeftBrace | Pipe | PipePipe | RightBrace | Tilde
deriving Repr, DecidableEq

/-- `TokenKind`.  `ident`/`otherOp` carry the bytes of the lexeme, `string` /
    `textBlock` the scalar values of the decoded `String`, `number` the ASCII
    digits and the effective exponent. -/
inductive Kind where
  | eof | whitespace | comment
  | simple (k : STok)
  | otherOp (bytes : List Nat)
  | ident (bytes : List Nat)
  | number (digits : List Nat) (exp : Int)
  | string (chars : List Nat)
  | textBlock (chars : List Nat)
deriving Repr, DecidableEq

structure Token where
  kind : Kind
  start : Nat
  stop : Nat
deriving Repr, DecidableEq

inductive ErrKind where
  | InvalidChar (chr : Nat)
  | InvalidUtf8 (seq : List Nat)
  | UnfinishedMultilineComment
  | LeadingZeroInNumber
  | MissingFracDigits
  | MissingExpDigits
  | MissingDigitAfterUnderscore
  | ExpOverflow
  | InvalidEscapeInString (chr : Nat)
  | IncompleteUnicodeEscape
  | InvalidUtf16EscapeSequence (cu1 : Nat) (cu2 : Option Nat)
  | UnfinishedString
  | MissingLineBreakAfterTextBlockStart
  | MissingWhitespaceTextBlockStart
  | InvalidTextBlockTermination
deriving Repr, DecidableEq

structure LexErr where
  kind : ErrKind
  start : Nat
  stop : Nat
deriving Repr, DecidableEq

/-! ### Cursor and the `eat_*` primitives -/

structure Cur where
  pos : Nat
  rest : List Nat
deriving Repr, DecidableEq

namespace Cur

/-- `eat_byte` -/
def eatByte (c : Cur) (b : Nat) : Option Cur :=
  match c.rest with
  | x :: t => if x = b then some ⟨c.pos + 1, t⟩ else none
  | [] => none

/-- `eat_byte` as a state transformer: the returned `bool` and the new cursor. -/
def eatByteB (c : Cur) (b : Nat) : Bool × Cur :=
  match c.eatByte b with
  | some c' => (true, c')
  | none => (false, c)

/-- `eat_byte_if` -/
def eatByteIf (c : Cur) (p : Nat → Bool) : Option Cur :=
  match c.rest with
  | x :: t => if p x then some ⟨c.pos + 1, t⟩ else none
  | [] => none

/-- `eat_get_byte_if` -/
def eatGetByteIf (c : Cur) (p : Nat → Bool) : Option (Nat × Cur) :=
  match c.rest with
  | x :: t => if p x then some (x, ⟨c.pos + 1, t⟩) else none
  | [] => none

/-- `eat_map_byte` -/
def eatMapByte {α : Type} (c : Cur) (f : Nat → Option α) : Option (α × Cur) :=
  match c.rest with
  | x :: t =>
    match f x with
    | some r => some (r, ⟨c.pos + 1, t⟩)
    | none => none
  | [] => none

/-- `eat_slice` -/
def eatSlice (c : Cur) (s : List Nat) : Option Cur :=
  if s.isPrefixOf c.rest then some ⟨c.pos + s.length, c.rest.drop s.length⟩ else none

/-- `eat_any_byte` -/
def eatAnyByte (c : Cur) : Option (Nat × Cur) :=
  match c.rest with
  | x :: t => some (x, ⟨c.pos + 1, t⟩)
  | [] => none

def eatWhileAux (p : Nat → Bool) : Nat → List Nat → Cur
  | pos, [] => ⟨pos, []⟩
  | pos, x :: t => if p x then eatWhileAux p (pos + 1) t else ⟨pos, x :: t⟩

/-- `while self.eat_byte_if(p) {}` -/
def eatWhile (c : Cur) (p : Nat → Bool) : Cur := eatWhileAux p c.pos c.rest

end Cur

/-- `Result<char, usize>` of `eat_cont_any_char` -/
inductive CharRes where
  | ok (chr : Nat)
  | bad (errorLen : Nat)
deriving Repr, DecidableEq

/-- `chr.unwrap_or('\u{FFFD}')` -/
def CharRes.orRepl : CharRes → Nat
  | .ok c => c
  | .bad _ => 0xFFFD

/-- Outcome of `eat_cont_any_char`; `panic` = `char::from_u32(cp).unwrap()`. -/
inductive ContChar where
  | panic
  | some (r : CharRes) (c : Cur)
deriving Repr, DecidableEq

/-- Outcome of `eat_any_char` (`eof` = `None`). -/
inductive AnyChar where
  | eof
  | panic
  | some (r : CharRes) (c : Cur)
deriving Repr, DecidableEq

/-- `eat_cont_any_char(byte0)`; `c` is the cursor after `byte0`. -/
def eatContAnyChar (c : Cur) (byte0 : Nat) : ContChar :=
  match Utf8.decodeCont byte0 c.rest with
  | .chr n chr => .some (.ok chr) ⟨c.pos + n, c.rest.drop n⟩
  | .bad n => .some (.bad (n + 1)) ⟨c.pos + n, c.rest.drop n⟩
  | .panic => .panic

/-- `eat_any_char` -/
def eatAnyChar (c : Cur) : AnyChar :=
  match c.eatAnyByte with
  | none => .eof
  | some (byte0, c1) =>
    match eatContAnyChar c1 byte0 with
    | .panic => .panic
    | .some r c2 => .some r c2

/-- Outcome of scanning one token starting at a given cursor:
    `tok k c'` = `commit_token(k)` with `end_pos = c'.pos`. -/
inductive Res where
  | tok (k : Kind) (c : Cur)
  | err (k : ErrKind) (start stop : Nat)
  | panic (site : String)
  | fuel
deriving Repr, DecidableEq

def bytesOf (s : String) : List Nat := s.toList.map Char.toNat

/-! ### Comments -/

/-- `while !matches!(self.eat_any_byte(), None | Some(b'\n')) {}` -/
def slComment : Nat → List Nat → Cur
  | pos, [] => ⟨pos, []⟩
  | pos, x :: t => if x = 10 then ⟨pos + 1, t⟩ else slComment (pos + 1) t

def lexSingleLineComment (c : Cur) : Res := .tok .comment (slComment c.pos c.rest)

/-- `lex_multi_line_comment`: `eat_slice(b"*/")` else `eat_any_byte()`. -/
def mlComment (start : Nat) : Nat → List Nat → Res
  | pos, [] => .err .UnfinishedMultilineComment start pos
  | pos, x :: t =>
    match x, t with
    | 42, 47 :: t' => .tok .comment ⟨pos + 2, t'⟩
    | _, _ => mlComment start (pos + 1) t

def lexMultiLineComment (start : Nat) (c : Cur) : Res := mlComment start c.pos c.rest

/-! ### Operators -/

/-- bytes after which `sure_end_pos` is advanced -/
def isOpSure (b : Nat) : Bool :=
  b == 58 || b == 38 || b == 124 || b == 94 || b == 61 || b == 60 || b == 62 || b == 42 ||
  b == 47 || b == 37
/-- `+ - ~ ! $` -/
def isOpUnsure (b : Nat) : Bool :=
  b == 43 || b == 45 || b == 126 || b == 33 || b == 36

/-- The loop of `lex_operator`; returns the final `sure_end_pos` cursor. -/
def opLoop (sure : Cur) : Nat → List Nat → Cur
  | _, [] => sure
  | pos, x :: t =>
    if [124, 124, 124].isPrefixOf (x :: t) || [47, 47].isPrefixOf (x :: t)
        || [47, 42].isPrefixOf (x :: t) then sure
    else if isOpSure x then opLoop ⟨pos + 1, t⟩ (pos + 1) t
    else if isOpUnsure x then opLoop sure (pos + 1) t
    else sure

def opTable : List (List Nat × STok) :=
  [ (bytesOf ":", .Colon), (bytesOf "::", .ColonColon), (bytesOf ":::", .ColonColonColon),
    (bytesOf "+:", .PlusColon), (bytesOf "+::", .PlusColonColon),
    (bytesOf "+:::", .PlusColonColonColon), (bytesOf "=", .Eq), (bytesOf "$", .Dollar),
    (bytesOf "*", .Asterisk), (bytesOf "/", .Slash), (bytesOf "%", .Percent),
    (bytesOf "+", .Plus), (bytesOf "-", .Minus), (bytesOf "<<", .LtLt), (bytesOf ">>", .GtGt),
    (bytesOf "<", .Lt), (bytesOf "<=", .LtEq), (bytesOf ">", .Gt), (bytesOf ">=", .GtEq),
    (bytesOf "==", .EqEq), (bytesOf "!=", .ExclamEq), (bytesOf "&", .Amp), (bytesOf "^", .Hat),
    (bytesOf "|", .Pipe), (bytesOf "&&", .AmpAmp), (bytesOf "||", .PipePipe),
    (bytesOf "!", .Exclam), (bytesOf "~", .Tilde) ]

/-- `lex_operator`; `start` is the token start, `c` the cursor after the first byte. -/
def lexOperator (start c : Cur) : Res :=
  let e := opLoop c c.pos c.rest
  let op := start.rest.take (e.pos - start.pos)
  match opTable.lookup op with
  | some k => .tok (.simple k) e
  | none =>
    if Utf8.valid op then .tok (.otherOp op) e
    else .panic "lex_operator: from_utf8(op).unwrap()"

/-! ### Identifiers and keywords -/

def isDigit (b : Nat) : Bool := 48 ≤ b && b ≤ 57
def isAlnum (b : Nat) : Bool := isDigit b || (97 ≤ b && b ≤ 122) || (65 ≤ b && b ≤ 90)
def isIdentCont (b : Nat) : Bool := isAlnum b || b == 95

def kwTable : List (List Nat × STok) :=
  [ (bytesOf "assert", .Assert), (bytesOf "else", .Else), (bytesOf "error", .Error),
    (bytesOf "false", .False), (bytesOf "for", .For), (bytesOf "function", .Function),
    (bytesOf "if", .If), (bytesOf "import", .Import), (bytesOf "importstr", .Importstr),
    (bytesOf "importbin", .Importbin), (bytesOf "in", .In), (bytesOf "local", .Local),
    (bytesOf "null", .Null), (bytesOf "tailstrict", .Tailstrict), (bytesOf "then", .Then),
    (bytesOf "self", .Self_), (bytesOf "super", .Super), (bytesOf "true", .True) ]

/-- `lex_ident` -/
def lexIdent (start c : Cur) : Res :=
  let e := c.eatWhile isIdentCont
  let identBytes := start.rest.take (e.pos - start.pos)
  match kwTable.lookup identBytes with
  | some k => .tok (.simple k) e
  | none =>
    if Utf8.valid identBytes then .tok (.ident identBytes) e
    else .panic "lex_ident: from_utf8(ident_bytes).unwrap()"

/-! ### Numbers -/

inductive NState where
  | intDigits (underscore : Bool)
  | dot
  | fracDigits (underscore : Bool)
  | exp
  | expSign
  | expDigits (underscore : Bool)
deriving Repr, DecidableEq

structure NumAcc where
  leadingZero : Bool
  digits : List Nat            -- ASCII digits, in order
  implicitExp : Int
  explicitExp : Option Nat     -- `Option<u64>`
  explicitExpSign : Bool
deriving Repr, DecidableEq

def U64_LIM : Nat := 2 ^ 64
def I64_LIM : Nat := 2 ^ 63

/-- `explicit_exp.and_then(|e| e.checked_mul(10)).and_then(|e| e.checked_add(d))` -/
def expPush (e : Option Nat) (d : Nat) : Option Nat :=
  match e with
  | none => none
  | some e =>
    if e * 10 < U64_LIM then
      if e * 10 + d < U64_LIM then some (e * 10 + d) else none
    else none

inductive NumRes where
  | done (acc : NumAcc) (c : Cur)
  | err (k : ErrKind) (start stop : Nat)
deriving Repr, DecidableEq

def isExpChar (b : Nat) : Bool := b == 101 || b == 69

/-- The state machine loop of `lex_number`.  `pos`/`rest` is the cursor. -/
def numLoop : NState → NumAcc → Nat → List Nat → NumRes
  | st, acc, pos, [] =>
    -- every `eat_*` fails
    match st with
    | .intDigits u => if u then .err .MissingDigitAfterUnderscore (pos - 1) pos else .done acc ⟨pos, []⟩
    | .dot => .err .MissingFracDigits (pos - 1) pos
    | .fracDigits u => if u then .err .MissingDigitAfterUnderscore (pos - 1) pos else .done acc ⟨pos, []⟩
    | .exp => .err .MissingExpDigits (pos - 1) pos
    | .expSign => .err .MissingExpDigits (pos - 2) pos
    | .expDigits u => if u then .err .MissingDigitAfterUnderscore (pos - 1) pos else .done acc ⟨pos, []⟩
  | st, acc, pos, x :: t =>
    match st with
    | .intDigits u =>
      if isDigit x then
        let endPos := pos + 1
        if acc.digits.length == 1 && acc.leadingZero then
          .err .LeadingZeroInNumber (endPos - 2) (endPos - 1)
        else numLoop (.intDigits false) { acc with digits := acc.digits ++ [x] } endPos t
      else if !u && x == 95 then numLoop (.intDigits true) acc (pos + 1) t
      else if u then .err .MissingDigitAfterUnderscore (pos - 1) pos
      else if x == 46 then numLoop .dot acc (pos + 1) t
      else if isExpChar x then numLoop .exp acc (pos + 1) t
      else .done acc ⟨pos, x :: t⟩
    | .dot =>
      if isDigit x then
        numLoop (.fracDigits false)
          { acc with digits := acc.digits ++ [x], implicitExp := acc.implicitExp - 1 } (pos + 1) t
      else .err .MissingFracDigits (pos - 1) pos
    | .fracDigits u =>
      if isDigit x then
        numLoop (.fracDigits false)
          { acc with digits := acc.digits ++ [x], implicitExp := acc.implicitExp - 1 } (pos + 1) t
      else if !u && x == 95 then numLoop (.fracDigits true) acc (pos + 1) t
      else if u then .err .MissingDigitAfterUnderscore (pos - 1) pos
      else if isExpChar x then numLoop .exp acc (pos + 1) t
      else .done acc ⟨pos, x :: t⟩
    | .exp =>
      if x == 43 then numLoop .expSign acc (pos + 1) t
      else if x == 45 then numLoop .expSign { acc with explicitExpSign := true } (pos + 1) t
      else if isDigit x then
        numLoop (.expDigits false) { acc with explicitExp := some (x - 48) } (pos + 1) t
      else .err .MissingExpDigits (pos - 1) pos
    | .expSign =>
      if isDigit x then
        numLoop (.expDigits false) { acc with explicitExp := some (x - 48) } (pos + 1) t
      else .err .MissingExpDigits (pos - 2) pos
    | .expDigits u =>
      if isDigit x then
        numLoop (.expDigits false) { acc with explicitExp := expPush acc.explicitExp (x - 48) }
          (pos + 1) t
      else if !u && x == 95 then numLoop (.expDigits true) acc (pos + 1) t
      else if u then .err .MissingDigitAfterUnderscore (pos - 1) pos
      else .done acc ⟨pos, x :: t⟩

/-- The `eff_exp` computation (`None` = `ExpOverflow`). -/
def effExp (acc : NumAcc) : Option Int :=
  match acc.explicitExp with
  | none => none
  | some e =>
    if e < I64_LIM then                       -- i64::try_from(e)
      let r : Int := if acc.explicitExpSign then acc.implicitExp - e else acc.implicitExp + e
      if -(I64_LIM : Int) ≤ r ∧ r < (I64_LIM : Int) then some r else none   -- checked_sub / checked_add
    else none

/-- `lex_number(chr0)`; `c` is the cursor after `chr0`. -/
def lexNumber (start c : Cur) (chr0 : Nat) : Res :=
  let acc0 : NumAcc :=
    { leadingZero := chr0 == 48, digits := [chr0], implicitExp := 0,
      explicitExp := some 0, explicitExpSign := false }
  match numLoop (.intDigits false) acc0 c.pos c.rest with
  | .err k s e => .err k s e
  | .done acc c' =>
    match effExp acc with
    | none => .err .ExpOverflow start.pos c'.pos
    | some ee => .tok (.number acc.digits ee) c'

/-! ### Quoted and verbatim strings -/

/-- `hex_from_digit` -/
def hexFromDigit (b : Nat) : Option Nat :=
  if 48 ≤ b ∧ b ≤ 57 then some (b - 48)
  else if 97 ≤ b ∧ b ≤ 102 then some (b - 97 + 10)
  else if 65 ≤ b ∧ b ≤ 70 then some (b - 65 + 10)
  else none

/-- `eat_codeunit`: the cursor advances over the digits eaten even on failure. -/
def eatCodeunit (c : Cur) : Option Nat × Cur :=
  match c.eatMapByte hexFromDigit with
  | none => (none, c)
  | some (d0, c1) =>
    match c1.eatMapByte hexFromDigit with
    | none => (none, c1)
    | some (d1, c2) =>
      match c2.eatMapByte hexFromDigit with
      | none => (none, c2)
      | some (d2, c3) =>
        match c3.eatMapByte hexFromDigit with
        | none => (none, c3)
        | some (d3, c4) => (some ((d0 <<< 12) ||| (d1 <<< 8) ||| (d2 <<< 4) ||| d3), c4)

def isSurrogate (cu : Nat) : Bool := 0xD800 ≤ cu && cu ≤ 0xDFFF

/-- `char::decode_utf16([cu1, cu2]).next().unwrap()` for a surrogate `cu1`:
    `some chr` for `Ok(chr)`, `none` for `Err(_)`. -/
def decodeUtf16Pair (cu1 cu2 : Nat) : Option Nat :=
  if cu1 ≥ 0xDC00 then none
  else if cu2 < 0xDC00 ∨ cu2 > 0xDFFF then none
  else some ((((cu1 &&& 0x3FF) <<< 10) ||| (cu2 &&& 0x3FF)) + 0x10000)

/-- What one escape sequence does (the cursor is after the backslash). -/
inductive EscRes where
  | push (chr : Nat) (c : Cur)
  | err (k : ErrKind) (start stop : Nat)
  | panic
deriving Repr, DecidableEq

def simpleEscapes : List (Nat × Nat) :=
  [ (34, 34), (39, 39), (92, 92), (47, 47), (98, 8), (102, 12), (110, 10), (114, 13), (116, 9) ]

/-- The `\uXXXX` branch; `c` is the cursor after `u`. -/
def lexUnicodeEscape (escapeStart : Nat) (c : Cur) : EscRes :=
  match eatCodeunit c with
  | (none, c1) => .err .IncompleteUnicodeEscape escapeStart c1.pos
  | (some cu1, c1) =>
    match (if isSurrogate cu1 then c1.eatSlice [92, 117] else none) with
    | some c2 =>
      match eatCodeunit c2 with
      | (none, c3) => .err .IncompleteUnicodeEscape (escapeStart + 6) c3.pos
      | (some cu2, c3) =>
        match decodeUtf16Pair cu1 cu2 with
        | some chr => .push chr c3
        | none => .err (.InvalidUtf16EscapeSequence cu1 (some cu2)) escapeStart c3.pos
    | none =>
      if Utf8.isScalar cu1 then .push cu1 c1            -- char::from_u32(cu1)
      else .err (.InvalidUtf16EscapeSequence cu1 none) escapeStart c1.pos

/-- The escape branch of `lex_quoted_string`; `c` is the cursor after `\`.
    The nine `eat_byte` tests for the single-character escapes are one table lookup. -/
def lexEscape (start : Nat) (c : Cur) : EscRes :=
  let escapeStart := c.pos - 1
  match c.eatMapByte (fun b => simpleEscapes.lookup b) with
  | some (chr, c1) => .push chr c1
  | none =>
    match c.eatByte 117 with
    | some c1 => lexUnicodeEscape escapeStart c1
    | none =>
      match eatAnyChar c with
      | .eof => .err .UnfinishedString start c.pos
      | .panic => .panic
      | .some r c1 => .err (.InvalidEscapeInString r.orRepl) escapeStart c1.pos

/-- The loop of `lex_quoted_string`; `str` is the string built so far, reversed. -/
def quotedLoop (start delim : Nat) : Nat → Cur → List Nat → Res
  | 0, _, _ => .fuel
  | f + 1, c, str =>
    match c.eatByte delim with
    | some c1 => .tok (.string str.reverse) c1
    | none =>
      match c.eatByte 92 with
      | some c1 =>
        match lexEscape start c1 with
        | .push chr c2 => quotedLoop start delim f c2 (chr :: str)
        | .err k s e => .err k s e
        | .panic => .panic "decode_cont_char: from_u32(cp).unwrap()"
      | none =>
        match eatAnyChar c with
        | .eof => .err .UnfinishedString start c.pos
        | .panic => .panic "decode_cont_char: from_u32(cp).unwrap()"
        | .some r c1 => quotedLoop start delim f c1 (r.orRepl :: str)

def lexQuotedString (start c : Cur) (delim : Nat) : Res :=
  quotedLoop start.pos delim (c.rest.length + 1) c []

/-- The loop of `lex_verbatim_string`. -/
def verbatimLoop (start delim : Nat) : Nat → Cur → List Nat → Res
  | 0, _, _ => .fuel
  | f + 1, c, str =>
    match c.eatByte delim with
    | some c1 =>
      match c1.eatByte delim with
      | some c2 => verbatimLoop start delim f c2 (delim :: str)
      | none => .tok (.string str.reverse) c1
    | none =>
      match eatAnyChar c with
      | .eof => .err .UnfinishedString start c.pos
      | .panic => .panic "decode_cont_char: from_u32(cp).unwrap()"
      | .some r c1 => verbatimLoop start delim f c1 (r.orRepl :: str)

def lexVerbatimString (start c : Cur) (delim : Nat) : Res :=
  verbatimLoop start.pos delim (c.rest.length + 1) c []

/-! ### Text blocks -/

def isSpTab (b : Nat) : Bool := b == 32 || b == 9
def isSpTabCr (b : Nat) : Bool := b == 32 || b == 9 || b == 13

inductive TbFirst where
  | found (pfx : List Nat) (c : Cur) (str : List Nat)
  | err (k : ErrKind) (start stop : Nat)
  | fuel
deriving Repr, DecidableEq

/-- The first `loop` of `lex_text_block` (after the line break that follows
    `|||`): skips fully empty lines and captures the first line's `prefix`. -/
def tbFirst : Nat → Cur → List Nat → TbFirst
  | 0, _, _ => .fuel
  | f + 1, c, str =>
    let prefixStart := c.pos
    let c1 := c.eatWhile isSpTab
    let prefixEnd := c1.pos
    let pfx := c.rest.take (prefixEnd - prefixStart)
    let r := c1.eatByteB 13
    let c2 := r.2
    let str2 := if r.1 then 13 :: str else str
    if pfx.isEmpty then
      match c2.eatByte 10 with
      | some c3 => tbFirst f c3 (10 :: str2)
      | none => .err .MissingWhitespaceTextBlockStart prefixStart prefixEnd
    else .found pfx c2 str2

/-- "Handle fully empty lines": `eat_byte(b'\n')` / `eat_slice(b"\r\n")` loop. -/
def tbEmptyLines : Nat → List Nat → List Nat → Cur × List Nat
  | pos, [], str => (⟨pos, []⟩, str)
  | pos, x :: t, str =>
    if x = 10 then tbEmptyLines (pos + 1) t (10 :: str)
    else
      match x, t with
      | 13, 10 :: t' => tbEmptyLines (pos + 2) t' (10 :: 13 :: str)
      | _, _ => (⟨pos, x :: t⟩, str)

/-- The `'outer` loop of `lex_text_block`. -/
def tbLoop (start : Nat) (pfx : List Nat) (stripLastLf : Bool) : Nat → Cur → List Nat → Res
  | 0, _, _ => .fuel
  | f + 1, c, str =>
    match c.eatByte 10 with
    | some c1 =>
      let r := tbEmptyLines c1.pos c1.rest (10 :: str)
      let c2 := r.1
      let str2 := r.2
      match c2.eatSlice pfx with
      | some c3 => tbLoop start pfx stripLastLf f c3 str2
      | none =>
        let lineStart := c2.pos
        let c3 := c2.eatWhile isSpTab
        match c3.eatSlice [124, 124, 124] with
        | some c4 =>
          if stripLastLf then
            match str2 with
            | 10 :: s => .tok (.textBlock s.reverse) c4
            | _ => .panic "lex_text_block: strip_suffix('\\n').unwrap()"
          else .tok (.textBlock str2.reverse) c4
        | none => .err .InvalidTextBlockTermination lineStart c3.pos
    | none =>
      match eatAnyChar c with
      | .eof => .err .UnfinishedString start c.pos
      | .panic => .panic "decode_cont_char: from_u32(cp).unwrap()"
      | .some r c1 => tbLoop start pfx stripLastLf f c1 (r.orRepl :: str)

/-- `lex_text_block`; `c` is the cursor after `|||`. -/
def lexTextBlock (start c : Cur) : Res :=
  let r := c.eatByteB 45
  let strip := r.1
  let c1 := r.2
  let c2 := c1.eatWhile isSpTabCr
  match c2.eatByte 10 with
  | none => .err .MissingLineBreakAfterTextBlockStart start.pos c2.pos
  | some c3 =>
    match tbFirst (c3.rest.length + 1) c3 [] with
    | .fuel => .fuel
    | .err k s e => .err k s e
    | .found pfx c4 str => tbLoop start.pos pfx strip (c4.rest.length + 1) c4 str

/-! ### `next_token` and `lex_to_eof` -/

def isWs (b : Nat) : Bool := b == 32 || b == 9 || b == 10 || b == 13

def simpleByte : List (Nat × STok) :=
  [ (123, .LeftBrace), (125, .RightBrace), (91, .LeftBracket), (93, .RightBracket),
    (44, .Comma), (46, .Dot), (40, .LeftParen), (41, .RightParen), (59, .Semicolon) ]

/-- `! $ : ~ + - & ^ = < > * %` -/
def isOpStart (b : Nat) : Bool :=
  b == 33 || b == 36 || b == 58 || b == 126 || b == 43 || b == 45 || b == 38 || b == 94 ||
  b == 61 || b == 60 || b == 62 || b == 42 || b == 37

/-- `next_token` with `start_pos = end_pos = c.pos`. -/
def nextToken (c : Cur) : Res :=
  match c.rest with
  | [] => .tok .eof c
  | x :: t =>
    let c1 : Cur := ⟨c.pos + 1, t⟩
    match simpleByte.lookup x with
    | some k => .tok (.simple k) c1
    | none =>
      if x = 47 then
        match c1.eatByte 47 with
        | some c2 => lexSingleLineComment c2
        | none =>
          match c1.eatByte 42 with
          | some c2 => lexMultiLineComment c.pos c2
          | none => lexOperator c c1
      else if x = 124 then
        match c1.eatSlice [124, 124] with
        | some c2 => lexTextBlock c c2
        | none => lexOperator c c1
      else if isOpStart x then lexOperator c c1
      else if isWs x then .tok .whitespace (c1.eatWhile isWs)
      else if x = 35 then lexSingleLineComment c1
      else if isDigit x then lexNumber c c1 x
      else if x = 95 || (97 ≤ x && x ≤ 122) || (65 ≤ x && x ≤ 90) then lexIdent c c1
      else if x = 64 then
        match c1.eatByte 39 with
        | some c2 => lexVerbatimString c c2 39
        | none =>
          match c1.eatByte 34 with
          | some c2 => lexVerbatimString c c2 34
          | none => .err (.InvalidChar 64) c.pos c1.pos
      else if x = 39 then lexQuotedString c c1 39
      else if x = 34 then lexQuotedString c c1 34
      else
        match eatContAnyChar c1 x with
        | .panic => .panic "decode_cont_char: from_u32(cp).unwrap()"
        | .some (.ok chr) c2 => .err (.InvalidChar chr) c.pos c2.pos
        | .some (.bad _) c2 => .err (.InvalidUtf8 (c.rest.take (c2.pos - c.pos))) c.pos c2.pos

inductive Outcome where
  | ok (toks : List Token)
  | err (e : LexErr)
  | panic (site : String)
  | fuel
deriving Repr, DecidableEq

def isTrivia : Kind → Bool
  | .whitespace => true
  | .comment => true
  | _ => false

def notTrivia (t : Token) : Bool := !isTrivia t.kind

/-- The loop of `lex_to_eof`; `acc` is `tokens`, reversed. -/
def lexLoop (wsAndComments : Bool) : Nat → Cur → List Token → Outcome
  | 0, _, _ => .fuel
  | f + 1, c, acc =>
    match nextToken c with
    | .err k s e => .err ⟨k, s, e⟩
    | .panic s => .panic s
    | .fuel => .fuel
    | .tok k c' =>
      let token : Token := ⟨k, c.pos, c'.pos⟩
      let acc' := if wsAndComments || !isTrivia k then token :: acc else acc
      if k = .eof then .ok acc'.reverse      -- `is_eof`
      else lexLoop wsAndComments f c' acc'

/-- `Lexer::new(.., input).lex_to_eof(whitespaces_and_comments)` -/
def lexAll (input : List Nat) (wsAndComments : Bool) : Outcome :=
  lexLoop wsAndComments (input.length + 1) ⟨0, input⟩ []

/-! ### Driver -/

def STok.name (k : STok) : String :=
  -- `Repr` of a constructor prints its fully qualified name
  (((toString (repr k)).splitOn ".").getLast?).getD "?"

def utf8Encode (chars : List Nat) : List Nat := chars.flatMap Rsj.utf8EncodeChar

def showKind : Kind → String × Option String
  | .eof => ("EndOfFile", none)
  | .whitespace => ("Whitespace", none)
  | .comment => ("Comment", none)
  | .simple k => ("Simple", some k.name)
  | .otherOp b => ("OtherOp", some (Rsj.hexEnc b))
  | .ident b => ("Ident", some (Rsj.hexEnc b))
  | .number d e => ("Number", some (String.ofList (d.map Char.ofNat) ++ "," ++ toString e))
  | .string s => ("String", some (Rsj.hexEnc (utf8Encode s)))
  | .textBlock s => ("TextBlock", some (Rsj.hexEnc (utf8Encode s)))

def showToken (t : Token) : String :=
  match showKind t.kind with
  | (n, none) => s!"{n}:{t.start}:{t.stop}"
  | (n, some p) => s!"{n}:{t.start}:{t.stop}:{p}"

def showErrKind : ErrKind → String × Option String
  | .InvalidChar c => ("InvalidChar", some (toString c))
  | .InvalidUtf8 s => ("InvalidUtf8", some (Rsj.hexEnc s))
  | .UnfinishedMultilineComment => ("UnfinishedMultilineComment", none)
  | .LeadingZeroInNumber => ("LeadingZeroInNumber", none)
  | .MissingFracDigits => ("MissingFracDigits", none)
  | .MissingExpDigits => ("MissingExpDigits", none)
  | .MissingDigitAfterUnderscore => ("MissingDigitAfterUnderscore", none)
  | .ExpOverflow => ("ExpOverflow", none)
  | .InvalidEscapeInString c => ("InvalidEscapeInString", some (toString c))
  | .IncompleteUnicodeEscape => ("IncompleteUnicodeEscape", none)
  | .InvalidUtf16EscapeSequence a b =>
    ("InvalidUtf16EscapeSequence",
      some (toString a ++ "," ++ (match b with | some b => toString b | none => "-")))
  | .UnfinishedString => ("UnfinishedString", none)
  | .MissingLineBreakAfterTextBlockStart => ("MissingLineBreakAfterTextBlockStart", none)
  | .MissingWhitespaceTextBlockStart => ("MissingWhitespaceTextBlockStart", none)
  | .InvalidTextBlockTermination => ("InvalidTextBlockTermination", none)

def showOutcome : Outcome → String
  | .ok toks => ";".intercalate (toks.map showToken)
  | .err e =>
    match showErrKind e.kind with
    | (n, none) => s!"E{n}:{e.start}:{e.stop}"
    | (n, some d) => s!"E{n}:{e.start}:{e.stop}:{d}"
  | .panic s => "panic " ++ Rsj.hexEnc (bytesOf s)
  | .fuel => "fuel"

/-- `lex <hexbytes> <0|1>` : one canonical answer line, or `none` for a malformed request. -/
def handle (args : List String) : Option String :=
  match args with
  | [h, f] => do
    let input ← Rsj.hexDecode h
    let flag ← (if f == "1" then some true else if f == "0" then some false else none)
    pure (showOutcome (lexAll input flag))
  | _ => none

end Rsj.Lexer
