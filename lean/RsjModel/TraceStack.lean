/-
  Model module `TraceStack` (driver op `tstack`). Import-free apart from RsjModel.* modules.

  Depth accounting of the evaluator (`rsjsonnet-lang/src/program/eval/mod.rs`): the
  `state_stack` restricted to what matters for the frame counter `stack_trace_len`.

    push_trace_item   : push `State::TraceItem`,        counter + 1          (`Act.P`)
    delay_trace_item  : push `State::DelayedTraceItem`, counter - 1 (checked) (`Act.D`)
    state_stack.push  : any other state, counter unchanged                     (`Act.O`)
    run loop, pop     : `TraceItem` -> counter - 1 (checked); `DelayedTraceItem` -> counter + 1;
                        any other state -> its handler runs (a finite sequence of the three pushes,
                        possibly ending in `Err(report_error(..))`)
    after every step  : `if self.stack_trace_len > self.program.max_stack` -> StackOverflow
    get_stack_trace   : walk the state stack bottom-up; TraceItem -> push on the result,
                        DelayedTraceItem -> `result.pop().unwrap()`
    end of `eval`     : `assert_eq!(this.stack_trace_len, 0)`

  The panic sites (`checked_sub(1).unwrap()`, `pop().unwrap()`, the final `assert_eq!`) are explicit
  outcomes (`Panic`).  Also here: the little regular-expression language `Code` in which
  `tools/extract_tracesites.py` describes the push/delay structure of every Rust function
  (`RsjModel/TraceSites.lean`), and the executable bracketing criterion `lo`.
-/
import RsjModel.Util
namespace Rsj.TraceStack

/-- A state on `state_stack`, as far as depth accounting can see it. -/
inductive Item
  | trace      -- `State::TraceItem(_)`
  | delayed    -- `State::DelayedTraceItem`
  | other      -- every other `State::*`
deriving Repr, DecidableEq

/-- One push performed by a handler. -/
inductive Act
  | P   -- `push_trace_item(..)`
  | D   -- `delay_trace_item()`
  | O   -- `state_stack.push(<anything else>)`
deriving Repr, DecidableEq

/-- The three `unwrap`/`assert` sites of the accounting code. -/
inductive Panic
  | underflow     -- `dec_trace_len`: `self.stack_trace_len.checked_sub(1).unwrap()`
  | traceUnwrap   -- `get_stack_trace`: `stack_trace.pop().unwrap()`
  | assertLen     -- `eval`: `assert_eq!(this.stack_trace_len, 0)`
deriving Repr, DecidableEq

/-- `stack`: head = top of `state_stack`; `len` = `stack_trace_len`. -/
structure St where
  stack : List Item
  len : Nat
deriving Repr, DecidableEq

/-- `dec_trace_len` on the bare counter. -/
def decLen (n : Nat) : Except Panic Nat :=
  match n with
  | 0 => .error .underflow
  | k + 1 => .ok k

/-- One push (`push_trace_item` / `delay_trace_item` / plain push). -/
def act (s : St) : Act → Except Panic St
  | .P => .ok ⟨.trace :: s.stack, s.len + 1⟩
  | .D =>
    match decLen s.len with
    | .ok n => .ok ⟨.delayed :: s.stack, n⟩
    | .error p => .error p
  | .O => .ok ⟨.other :: s.stack, s.len⟩

/-- A handler body: pushes in order; stops at the first panic. -/
def acts (s : St) : List Act → Except Panic St
  | [] => .ok s
  | a :: rest =>
    match act s a with
    | .ok s' => acts s' rest
    | .error p => .error p

/-- `self.state_stack.pop()` plus the counter update of the `TraceItem` / `DelayedTraceItem` arms.
    `none`: the stack is empty (the `while let` loop ends). -/
def popItem (s : St) : Option (Item × Except Panic St) :=
  match s.stack with
  | [] => none
  | .trace :: r =>
    some (.trace, match decLen s.len with
                  | .ok n => .ok ⟨r, n⟩
                  | .error p => .error p)
  | .delayed :: r => some (.delayed, .ok ⟨r, s.len + 1⟩)
  | .other :: r => some (.other, .ok ⟨r, s.len⟩)

/-- `get_stack_trace` loop: `items` bottom-first, `i` = index of the next item, `acc` = the result
    vector with its *last* element first.  The result lists the stack positions (from the bottom)
    of the frames that are active. -/
def traceWalk : List Item → Nat → List Nat → Except Panic (List Nat)
  | [], _, acc => .ok acc.reverse
  | .trace :: r, i, acc => traceWalk r (i + 1) (i :: acc)
  | .delayed :: r, i, acc =>
    match acc with
    | [] => .error .traceUnwrap
    | _ :: acc' => traceWalk r (i + 1) acc'
  | .other :: r, i, acc => traceWalk r (i + 1) acc

/-- `get_stack_trace` (`state_stack.iter()` runs bottom to top). -/
def getStackTrace (s : St) : Except Panic (List Nat) :=
  traceWalk s.stack.reverse 0 []

/-! ### The machine -/

/-- How one run ends. `σ` is the rest of the evaluator state (value stacks, heap, ...). -/
inductive Outcome (σ : Type)
  | done (h : σ)                       -- `run` returned `Ok(())` and the final `assert_eq!` passed
  | stackOverflow (trace : List Nat)   -- `Err(report_error(StackOverflow))` from the limit check
  | evalError (trace : List Nat)       -- a handler returned `Err(report_error(..))` (any other kind)
  | panic (p : Panic)
  | outOfFuel
deriving Repr, DecidableEq

/-- `report_error`: builds the stack trace first. -/
def report {σ : Type} (s : St) (k : List Nat → Outcome σ) : Outcome σ :=
  match getStackTrace s with
  | .ok t => k t
  | .error p => .panic p

/-- Result of one iteration of the `while let` loop. -/
inductive StepRes (σ : Type)
  | next (h : σ) (s : St)
  | halt (o : Outcome σ)
deriving Repr, DecidableEq

/-- One iteration: pop, handler, limit check.  `H h` is the behaviour of the handler of the popped
    (non-trace) state in hidden state `h`: the pushes it performs, and the next hidden state, or
    `none` when it returns `Err(report_error(..))` after those pushes.  Handlers never see `max`. -/
def stepM {σ : Type} (H : σ → List Act × Option σ) (max : Nat) (h : σ) (s : St) : StepRes σ :=
  match popItem s with
  | none => .halt (if s.len = 0 then .done h else .panic .assertLen)
  | some (_, .error p) => .halt (.panic p)
  | some (.other, .ok s1) =>
    match acts s1 (H h).1 with
    | .error p => .halt (.panic p)
    | .ok s2 =>
      match (H h).2 with
      | none => .halt (report s2 .evalError)
      | some h' => if s2.len > max then .halt (report s2 .stackOverflow) else .next h' s2
  | some (_, .ok s1) =>
    if s1.len > max then .halt (report s1 .stackOverflow) else .next h s1

/-- The run loop with explicit fuel. -/
def run {σ : Type} (H : σ → List Act × Option σ) (max : Nat) : Nat → σ → St → Outcome σ
  | 0, _, _ => .outOfFuel
  | fuel + 1, h, s =>
    match stepM H max h s with
    | .halt o => o
    | .next h' s' => run H max fuel h' s'

/-! ### Counter semantics of a word of pushes, and the criterion on extracted code -/

/-- The counter along a word of pushes, relative to a start value; `none` = underflow. -/
def execA : List Act → Nat → Option Nat
  | [], n => some n
  | .P :: r, n => execA r (n + 1)
  | .D :: r, n =>
    match n with
    | 0 => none
    | k + 1 => execA r k
  | .O :: r, n => execA r n

/-- Push/delay structure of a Rust function body, as extracted from the source. -/
inductive Code
  | skip
  | P | D | O
  | seq (a b : Code)
  | alt (a b : Code)      -- `if`/`else`, `match` arms, `let .. else`
  | star (a : Code)       -- body of `for`/`while`/`loop`, or of a closure
  | call (f : String)     -- call of another function of the table
deriving Repr

def Code.seqs : List Code → Code
  | [] => .skip
  | [a] => a
  | a :: r => .seq a (Code.seqs r)

def Code.alts : List Code → Code
  | [] => .skip
  | [a] => a
  | a :: r => .alt a (Code.alts r)

/-- **The bracketing criterion.**  `lo c b = some b'`: started with at least `b` unmatched
    `push_trace_item`s of the current function invocation, no path through `c` performs a
    `delay_trace_item` without such a push to match, and at least `b'` remain afterwards.
    Both alternatives are followed; a loop/closure body must satisfy the criterion on its own
    (from 0) and is credited with nothing; so must every called function (checked as its own
    table entry), which is why `call` is neutral here. -/
def lo : Code → Nat → Option Nat
  | .skip, b => some b
  | .P, b => some (b + 1)
  | .D, b =>
    match b with
    | 0 => none
    | k + 1 => some k
  | .O, b => some b
  | .seq a c, b =>
    match lo a b with
    | some b1 => lo c b1
    | none => none
  | .alt a c, b =>
    match lo a b, lo c b with
    | some x, some y => some (min x y)
    | _, _ => none
  | .star a, b =>
    match lo a 0 with
    | some _ => some b
    | none => none
  | .call _, b => some b

/-- All entries of a table satisfy the criterion from 0. -/
def tableOK (tbl : List (String × Code)) : Bool :=
  tbl.all (fun e => (lo e.2 0).isSome)

/-! ### Cycle of self-dependent thunks (tiny local model of the thunk protocol)

  Thunk `i` (`i < k`) has the body "the variable bound to thunk `(i+1) % k`".
  `DoThunk(i)`: `Done` is impossible here; `Pending` -> mark `InProgress`, evaluate the body:
  `want_thunk_direct` pushes one trace frame (`TraceItem::Variable`) and `DoThunk(next)`, the
  limit check runs after that step; `InProgress` -> `InfiniteRecursion`. -/

inductive CycleOut
  | infiniteRecursion
  | stackOverflow
  | outOfFuel
deriving Repr, DecidableEq

/-- `next`: which thunk the body of thunk `i` forces. `inProg`: thunks currently `InProgress`.
    `len`: frame counter. -/
def forceChain (next : Nat → Nat) (max : Nat) : Nat → Nat → List Nat → Nat → CycleOut
  | 0, _, _, _ => .outOfFuel
  | fuel + 1, i, inProg, len =>
    if inProg.contains i then .infiniteRecursion
    else if len + 1 > max then .stackOverflow
    else forceChain next max fuel (next i) (i :: inProg) (len + 1)

/-! ### Driver -/

inductive Cmd | P | D | O | pop
deriving Repr, DecidableEq

def parseCmd : String → Option Cmd
  | "P" => some .P | "D" => some .D | "O" => some .O | "pop" => some .pop | _ => none

/-- Script semantics: pushes before the first `pop` are the initial pushes of `eval` (no check);
    every `pop` starts a new step, and the limit check of the previous step runs just before it
    (and once more at the end of the script).  `inStep`: a step is open. -/
def runScript (max : Nat) : List Cmd → St → Bool → List String → List String
  | [], s, inStep, out =>
    (if inStep && s.len > max then "overflow" :: out else out).reverse
  | c :: rest, s, inStep, out =>
    if inStep && c = .pop && s.len > max then ("overflow" :: out).reverse
    else
      match c with
      | .pop =>
        match popItem s with
        | none => ("empty" :: out).reverse
        | some (_, .error _) => ("panic:underflow" :: out).reverse
        | some (_, .ok s') => runScript max rest s' true (toString s'.len :: out)
      | .P =>
        match act s .P with
        | .ok s' => runScript max rest s' inStep (toString s'.len :: out)
        | .error _ => ("panic:underflow" :: out).reverse
      | .D =>
        match act s .D with
        | .ok s' => runScript max rest s' inStep (toString s'.len :: out)
        | .error _ => ("panic:underflow" :: out).reverse
      | .O =>
        match act s .O with
        | .ok s' => runScript max rest s' inStep (toString s'.len :: out)
        | .error _ => ("panic:underflow" :: out).reverse

/-- `tstack <max> <action> <action> ...` (actions `P`, `D`, `O`, `pop`): the counter after each
    action, comma separated; the answer ends early with `panic:underflow`, `overflow` (limit check
    at the end of a step failed; nothing further runs) or `empty` (pop on the empty stack). -/
def handle (args : List String) : Option String :=
  match args with
  | [] => none
  | m :: cmds => do
    let max ← m.toNat?
    let cs ← cmds.mapM parseCmd
    let out := runScript max cs ⟨[], 0⟩ false []
    pure (if out.isEmpty then "-" else ",".intercalate out)

end Rsj.TraceStack
