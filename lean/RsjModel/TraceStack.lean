/-
  Model module `TraceStack` (driver op `tstack`). Import-free apart from RsjModel.* modules.
-/
import RsjModel.Util
namespace Rsj.TraceStack

/-- `tstack <args...>` : one canonical answer line, or `none` for a malformed request. -/
def handle (_args : List String) : Option String := none

end Rsj.TraceStack
