/-
  Model of the TOML writer of rsjsonnet:

  * `rsjsonnet-lang/src/program/eval/manifest.rs`
      `prepare_manifest_toml_table`, `do_manifest_toml_peek_sub_table(_array_item)`,
      `do_manifest_toml_table`, `do_manifest_toml_value`, `escape_key_toml`,
      `escape_string_toml` (= `escape_string_json`)
  * `rsjsonnet-lang/src/program/eval/stdlib.rs`  `do_std_manifest_toml_ex`
  * `std.libsonnet`  `manifestToml(value):: self.manifestTomlEx(value, "  ")`

  Values are those of `RsjModel/Json.lean` (`JVal`; number = decimal text token,
  string = list of code points, object = visible fields in
  `get_visible_fields_order`).  The evaluator's explicit state stack is modelled
  by the equivalent structural recursion: states are pushed in reverse and popped
  in order, so the text is the concatenation in the order written below.

  `prepare_manifest_toml_table` / the `PeekSubTable` states only force the thunks
  that `do_manifest_toml_table` inspects afterwards (field values, and array items
  as long as they are objects); on already evaluated values they have no effect
  and emit nothing.

  Numbers are their `Display` text (as in `RsjModel/Json.lean`); the writer's test
  `n.abs() >= 2^63` is decided on that text (`bigInt`).

  Outcomes: the text, or the errors of the code — top level not an object
  (`expect_std_func_arg_object`), a `null` anywhere in value position ("cannot
  manifest null in TOML"; the partial text is discarded, so the place of the
  first `null` does not matter), and the two `unreachable!()` arms of
  `do_manifest_toml_table` as `Err.unreachable` (proved never to be the outcome:
  `RsjProofs/Toml.lean`, `manifestTomlEx_ne_unreachable`).  Not modelled: functions
  (`ManifestFunction`), trace items, object assertions.
-/
import RsjModel.Json
namespace Rsj.Toml
open Rsj.Json (Str JVal escape escapeKeyToml rep sTrue sFalse)

inductive Err where
  /-- `std.manifestTomlEx` on a non-object (`InvalidStdFuncArgType`) -/
  | notObject
  /-- "cannot manifest null in TOML" -/
  | nullValue
  /-- `unreachable!()` in `do_manifest_toml_table` -/
  | unreachable
deriving Repr, DecidableEq

abbrev R := Except Err Str

/-- `s` pushed before what `a` produces -/
def pre (s : Str) (a : R) : R :=
  match a with
  | .ok x => .ok (s ++ x)
  | .error e => .error e

/-- `a` then `b` (the first error wins; only one kind is reachable) -/
def cat (a b : R) : R :=
  match a, b with
  | .ok x, .ok y => .ok (x ++ y)
  | .error e, _ => .error e
  | .ok _, .error e => .error e

/-- `a` then the text `s` -/
def post (a : R) (s : Str) : R := cat a (.ok s)

/-! ## numbers: `write!(result, "{n}")`, then `".0"` if `n.abs() >= 2^63` -/

/-- the token without an optional leading `-` -/
def intBody : Str → Str
  | [] => []
  | c :: r => if c = 45 then r else c :: r

/-- is the token an integer literal (`-`? digits)?  (`Display for f64` prints
    `-?digits` for integral values and `-?digits.digits` otherwise, never an
    exponent.) -/
def isIntLit (t : Str) : Bool := !(intBody t).isEmpty && (intBody t).all Rsj.Json.isDigit

/-- 2^63 = 9223372036854775808 -/
def i64Limit : Nat := 2 ^ 63

/-- `n.abs() >= 9223372036854775808.0`, decided on the number's text: an integer
    literal whose digits denote at least 2^63.  (A finite double of that magnitude
    is integral, so `Display` prints an integer literal; it prints the shortest
    digits that round to the double, zero-padded, and 2^63 is itself a double with
    the neighbours 2^63 - 1024 and 2^63 + 2048, so the printed integer is ≥ 2^63
    exactly when the double is — this agreement of the two tests is part of the
    correspondence check, boundary values included.) -/
def bigInt (t : Str) : Bool :=
  isIntLit t && decide (i64Limit ≤ Rsj.Json.digitsVal (intBody t) 0)

/-- the `ValueData::Number(n)` arm: the number's text; TOML integers are 64-bit
    signed, so an integral value of larger magnitude is written as a float -/
def tomlNum (t : Str) : Str := if bigInt t then t ++ [46, 48] else t

/-! ## `do_manifest_toml_value` -/

/-- separator pushed after an array item that is not the last:
    `", "` (single line) or `",\n"` -/
def itemSep {α : Type} (single : Bool) : List α → Str
  | [] => []
  | _ :: _ => if single then [44, 32] else [44, 10]

/-- `"\n"` after an entry that is not the last -/
def nlAfter {α : Type} : List α → Str
  | [] => []
  | _ :: _ => [10]

/-- `", "` between the fields of an inline table -/
def fieldSep {α : Type} : List α → Str
  | [] => []
  | _ :: _ => [44, 32]

mutual
/-- `do_manifest_toml_value(indent, depth, single_line)` on the popped value -/
def tomlValue (ind : Str) (depth : Nat) (single : Bool) : JVal → R
  | .null => .error .nullValue
  | .bool true => .ok sTrue
  | .bool false => .ok sFalse
  | .num t => .ok (tomlNum t)
  | .str s => .ok (escape s)
  | .arr [] => .ok [91, 93]
  | .arr (x :: xs) =>
    if single then
      -- "[ " items " ]"
      pre [91, 32] (post (tomlItems ind depth single (x :: xs)) [32, 93])
    else
      -- "[\n" items "\n" indent*depth "]"
      pre [91, 10] (post (tomlItems ind depth single (x :: xs)) (10 :: (rep depth ind ++ [93])))
  | .obj [] => .ok [123, 32, 32, 125]
  | .obj (kx :: xs) => pre [123, 32] (post (tomlInline ind depth (kx :: xs)) [32, 125])
/-- the items of a non-empty array: `indent.repeat(depth + 1)` (multi-line only;
    `!indent.is_empty()` only skips pushing an empty string), the item with
    `depth + 1, single_line = true`, the separator -/
def tomlItems (ind : Str) (depth : Nat) (single : Bool) : List JVal → R
  | [] => .ok []
  | x :: xs =>
    pre (if single then [] else rep (depth + 1) ind)
      (cat (tomlValue ind (depth + 1) true x) (pre (itemSep single xs) (tomlItems ind depth single xs)))
/-- the fields of a non-empty inline table: key, `" = "`, value with
    `depth + 1, single_line = true` -/
def tomlInline (ind : Str) (depth : Nat) : List (Str × JVal) → R
  | [] => .ok []
  | (k, x) :: xs =>
    pre (escapeKeyToml k ++ [32, 61, 32])
      (cat (tomlValue ind (depth + 1) true x) (pre (fieldSep xs) (tomlInline ind depth xs)))
end

/-! ## `do_manifest_toml_table` -/

def isObj : JVal → Bool
  | .obj _ => true
  | _ => false

/-- `is_sub_table`: an object, or a non-empty array of objects only -/
def isSubTable : JVal → Bool
  | .obj _ => true
  | .arr xs => !xs.isEmpty && xs.all isObj
  | _ => false

/-- is there a field that is (not) a sub-table among `fs`? -/
def anySub (fs : List (Str × JVal)) : Bool := fs.any (fun f => isSubTable f.2)
def anyPlain (fs : List (Str × JVal)) : Bool := fs.any (fun f => !isSubTable f.2)

/-- `for part in path.iter() { push(escape_key_toml(part)); push('.') }` -/
def pathDots : List Str → Str
  | [] => []
  | p :: ps => escapeKeyToml p ++ (46 :: pathDots ps)

/-- `"\n" indent*path.len() "[" path. key "]"`, doubled brackets for an array item -/
def header (ind : Str) (path : List Str) (k : Str) (dbl : Bool) : Str :=
  10 :: (rep path.length ind ++ ((if dbl then [91, 91] else [91]) ++
    (pathDots path ++ (escapeKeyToml k ++ (if dbl then [93, 93] else [93])))))

/-- third loop of `do_manifest_toml_table`: the fields that are not sub-tables,
    `indent*path.len() key " = " value(depth = path.len(), single_line = false)`,
    a newline between consecutive ones -/
def tomlPlain (ind : Str) (path : List Str) : List (Str × JVal) → R
  | [] => .ok []
  | (k, v) :: rest =>
    if isSubTable v then tomlPlain ind path rest
    else
      pre (rep path.length ind ++ (escapeKeyToml k ++ [32, 61, 32]))
        (cat (tomlValue ind path.length false v)
          (pre (if anyPlain rest then [10] else []) (tomlPlain ind path rest)))

/-- the text of one table from the texts of its two loops:
    `if has_header && !visible_fields.is_empty() { "\n" }`, plain fields,
    `if has_sub_tables { "\n" }`, sub-tables -/
def tableOf (hasHeader : Bool) (fs : List (Str × JVal)) (plain subs : R) : R :=
  pre (if hasHeader && !fs.isEmpty then [10] else [])
    (cat plain (pre (if anySub fs then [10] else []) subs))

mutual
/-- first loop of `do_manifest_toml_table`: the sub-table fields in order, a
    newline between consecutive ones -/
def tomlSubs (ind : Str) (path : List Str) : List (Str × JVal) → R
  | [] => .ok []
  | (k, v) :: rest =>
    if isSubTable v then
      cat (tomlSubField ind path k v) (pre (if anySub rest then [10] else []) (tomlSubs ind path rest))
    else tomlSubs ind path rest
/-- `match field_value { Array(..) => …, Object(..) => …, _ => unreachable!() }`.
    Object: header `[path.key]`, then the table with `has_header = true` and the
    extended path.  Array of objects: see `tomlArrTables`. -/
def tomlSubField (ind : Str) (path : List Str) (k : Str) : JVal → R
  | .obj sub =>
    pre (header ind path k false)
      (tableOf true sub (tomlPlain ind (path ++ [k]) sub) (tomlSubs ind (path ++ [k]) sub))
  | .arr items => tomlArrTables ind path k items
  | _ => .error .unreachable
/-- the items of an array of tables: header `[[path.key]]` and the table for each
    item, a newline between consecutive ones -/
def tomlArrTables (ind : Str) (path : List Str) (k : Str) : List JVal → R
  | [] => .ok []
  | x :: rest =>
    pre (header ind path k true)
      (cat (tomlArrItem ind (path ++ [k]) x) (pre (nlAfter rest) (tomlArrTables ind path k rest)))
/-- `let ValueData::Object(sub_object) = item else { unreachable!() }`, then the
    table of the item (`has_header = true`; `path` already ends in the key) -/
def tomlArrItem (ind : Str) (path : List Str) : JVal → R
  | .obj sub => tableOf true sub (tomlPlain ind path sub) (tomlSubs ind path sub)
  | _ => .error .unreachable
end

/-- `do_manifest_toml_table(object, has_header, path, indent)` -/
def tomlTable (ind : Str) (hasHeader : Bool) (path : List Str) (fs : List (Str × JVal)) : R :=
  tableOf hasHeader fs (tomlPlain ind path fs) (tomlSubs ind path fs)

/-- `std.manifestTomlEx(value, indent)`: `expect_std_func_arg_object`, then the
    table with `has_header = false` and the empty path -/
def manifestTomlEx (indent : Str) : JVal → R
  | .obj fs => tomlTable indent false [] fs
  | _ => .error .notObject

/-- `std.manifestToml(value) = std.manifestTomlEx(value, "  ")` -/
def manifestToml (v : JVal) : R := manifestTomlEx [32, 32] v

/-! ## Driver (op `toml`) -/

def showErr : Err → String
  | .notObject => "notobject"
  | .nullValue => "null"
  | .unreachable => "unreachable"

def answer : R → String
  | .ok s => "ok " ++ Rsj.Json.encodeHexStr s
  | .error e => "err " ++ showErr e

/-- `toml toml <hexindent> <value>` | `toml toml0 <value>` (`std.manifestToml`);
    value in the wire syntax of `RsjModel/Json.lean` -/
def handle (args : List String) : Option String :=
  match args with
  | ["toml", i, val] => do
    let v ← Rsj.Json.decodeVal val
    let ind ← Rsj.Json.decodeHexStr i
    pure (answer (manifestTomlEx ind v))
  | ["toml0", val] => do
    let v ← Rsj.Json.decodeVal val
    pure (answer (manifestToml v))
  | _ => none

end Rsj.Toml
