/-
  Model module `Compare` (driver op `cmp`), property C08.

  Models, from `rsjsonnet-lang/src/program/eval/mod.rs`, the states
  `EqualsValue`, `EqualsArray`, `EqualsObject`, `CompareValue`, `CompareArray`,
  `BoolToValue`, `InvertBool`, `CmpOrdToBoolValueIs{Lt,Le,Gt,Ge}`,
  `CmpOrdToIntValueThreeWay`, `TraceItem`, `DoThunk`; from `eval/expr.rs` the
  lowering of `== != < <= > >=`; from `eval/call.rs` / `eval/stdlib.rs` the
  built-ins `std.equals`, `std.__compare`, `std.__compare_array`
  (`do_std_compare_array`).

  Abstractions (DESIGN.md §5 C08):
  * numbers are an abstract type `ν` with decidable equality and a three-way
    comparison (`NumOrd`); `-0` and `0` are the same element (IEEE `==` and
    `partial_cmp` do not distinguish them; NaN never reaches a value).
  * strings are lists of code points; Rust compares `str` bytewise, which is
    the same order (theorem `C08_str_order_is_codepoint`).
  * an object is the list of its *visible* fields sorted by name
    (`get_visible_fields_order`), each with its thunk; objects carry no `assert`s
    (`check_object_asserts` is a no-op).
  * a thunk either yields a value or fails (`DoThunk` on an already analysed
    thunk: evaluation of the thunk body is not part of this property).
-/
import RsjModel.Util
namespace Rsj.Compare

/-- `EvalErrorValueType` -/
inductive Ty where
  | null | bool | number | string | array | object | function
deriving Repr, DecidableEq

/-- The `EvalErrorKind`s that the modelled code can report. -/
inductive Err where
  /-- a lazily failing element (`error "x"`) was forced -/
  | explicit
  | compareFunctions
  | compareNull
  | compareBool
  | compareObject
  | compareDifferentTypes (lhs rhs : Ty)
  /-- `InvalidStdFuncArgType { func_name: "__compare_array", arg_index, got_type }` -/
  | compareArrayArg (index : Nat) (got : Ty)
deriving Repr, DecidableEq

mutual
inductive Value (ν : Type) where
  | null
  | bool (b : Bool)
  | num (n : ν)
  | str (s : List Nat)
  | arr (xs : List (Thunk ν))
  /-- visible fields, sorted by name -/
  | obj (fs : List (String × Thunk ν))
  | func
/-- `Except Err Value`, as its own inductive so that `Value` is a plain nested inductive. -/
inductive Thunk (ν : Type) where
  | val (v : Value ν)
  | fail (e : Err)
end

/-- Three-way comparison of numbers (`f64::partial_cmp`, never `None`) and the
    images of `-1, 0, 1` (`f64::from(i8)`). -/
class NumOrd (ν : Type) where
  cmp : ν → ν → Ordering
  ofOrdering : Ordering → ν

instance : NumOrd Int where
  cmp a b := compare a b
  ofOrdering
    | .lt => -1
    | .eq => 0
    | .gt => 1

def Thunk.force {ν : Type} : Thunk ν → Except Err (Value ν)
  | .val v => .ok v
  | .fail e => .error e

def Value.ty {ν : Type} : Value ν → Ty
  | .null => .null
  | .bool _ => .bool
  | .num _ => .number
  | .str _ => .string
  | .arr _ => .array
  | .obj _ => .object
  | .func => .function

/-- Lexicographic order of code point lists (`str::cmp`, see the header). -/
def cmpCps : List Nat → List Nat → Ordering
  | [], [] => .eq
  | [], _ :: _ => .lt
  | _ :: _, [] => .gt
  | a :: as, b :: bs =>
    if a < b then .lt else if b < a then .gt else cmpCps as bs

/-! ## Declarative specifications -/

section Spec
variable {ν : Type} [DecidableEq ν] [NumOrd ν]

mutual
/-- Structural equality: lazy, left to right, stops at the first difference.
    Array lengths / visible key lists are compared before anything is forced;
    of one pair both sides are forced (left first) before they are compared. -/
def structEq : Value ν → Value ν → Except Err Bool
  | .null, .null => .ok true
  | .bool a, .bool b => .ok (a == b)
  | .num a, .num b => .ok (decide (a = b))
  | .str a, .str b => .ok (decide (a = b))
  | .arr xs, .arr ys => if xs.length ≠ ys.length then .ok false else eqList xs ys
  | .obj fs, .obj gs =>
    if fs.map (·.1) ≠ gs.map (·.1) then .ok false else eqFields fs gs
  | .func, .func => .error .compareFunctions
  | _, _ => .ok false
def eqList : List (Thunk ν) → List (Thunk ν) → Except Err Bool
  | [], _ => .ok true
  | _ :: _, [] => .ok true
  | .fail e :: _, _ :: _ => .error e
  | .val _ :: _, .fail e :: _ => .error e
  | .val a :: xs, .val b :: ys =>
    match structEq a b with
    | .ok true => eqList xs ys
    | .ok false => .ok false
    | .error e => .error e
def eqFields : List (String × Thunk ν) → List (String × Thunk ν) → Except Err Bool
  | [], _ => .ok true
  | _ :: _, [] => .ok true
  | (_, .fail e) :: _, _ :: _ => .error e
  | (_, .val _) :: _, (_, .fail e) :: _ => .error e
  | (_, .val a) :: xs, (_, .val b) :: ys =>
    match structEq a b with
    | .ok true => eqFields xs ys
    | .ok false => .ok false
    | .error e => .error e
end

mutual
/-- Ordering: numbers, strings (code point order), arrays lexicographically;
    everything else is an error.  Elements after the deciding position are
    never forced. -/
def lexCompare : Value ν → Value ν → Except Err Ordering
  | .null, .null => .error .compareNull
  | .bool _, .bool _ => .error .compareBool
  | .num a, .num b => .ok (NumOrd.cmp a b)
  | .str a, .str b => .ok (cmpCps a b)
  | .arr xs, .arr ys => cmpThunks xs ys
  | .obj _, .obj _ => .error .compareObject
  | .func, .func => .error .compareFunctions
  | a, b => .error (.compareDifferentTypes a.ty b.ty)
def cmpThunks : List (Thunk ν) → List (Thunk ν) → Except Err Ordering
  | [], [] => .ok .eq
  | [], _ :: _ => .ok .lt
  | _ :: _, [] => .ok .gt
  | .fail e :: _, _ :: _ => .error e
  | .val _ :: _, .fail e :: _ => .error e
  | .val a :: xs, .val b :: ys =>
    match lexCompare a b with
    | .ok .eq => cmpThunks xs ys
    | .ok .lt => .ok .lt
    | .ok .gt => .ok .gt
    | .error e => .error e
end

/-- The nine observable operations, on thunks (an operand may itself fail). -/
inductive Op where
  | eq | ne | stdEquals | lt | le | gt | ge | stdCompare | stdCompareArray
deriving Repr, DecidableEq

/-- Result of an operation: a boolean or a number. -/
inductive Res (ν : Type) where
  | bool (b : Bool)
  | num (n : ν)

def forceBoth (a b : Thunk ν) : Except Err (Value ν × Value ν) :=
  match a.force, b.force with
  | .ok x, .ok y => .ok (x, y)
  | .error e, _ => .error e
  | .ok _, .error e => .error e

/-- Specification of the nine operations in terms of `structEq` / `lexCompare`. -/
def specOp (op : Op) (a b : Thunk ν) : Except Err (Res ν) :=
  match forceBoth a b with
  | .error e => .error e
  | .ok (x, y) =>
    match op with
    | .eq | .stdEquals => (structEq x y).map .bool
    | .ne => (structEq x y).map (fun r => .bool (!r))
    | .lt => (lexCompare x y).map (fun o => .bool o.isLT)
    | .le => (lexCompare x y).map (fun o => .bool o.isLE)
    | .gt => (lexCompare x y).map (fun o => .bool o.isGT)
    | .ge => (lexCompare x y).map (fun o => .bool o.isGE)
    | .stdCompare => (lexCompare x y).map (fun o => .num (NumOrd.ofOrdering o))
    | .stdCompareArray =>
      match x, y with
      | .arr _, .arr _ => (lexCompare x y).map (fun o => .num (NumOrd.ofOrdering o))
      | .arr _, _ => .error (.compareArrayArg 1 y.ty)
      | _, _ => .error (.compareArrayArg 0 x.ty)

end Spec

/-! ## The machine -/

/-- The interpreter states that take part in equality and ordering. -/
inductive St (ν : Type) where
  | doThunk (t : Thunk ν)
  /-- `State::TraceItem(CompareArrayItem{..} | CompareObjectField{..} | Expr{..})` -/
  | traceItem
  | boolToValue
  | invertBool
  | cmpOrdToBoolValueIsLt
  | cmpOrdToBoolValueIsLe
  | cmpOrdToBoolValueIsGt
  | cmpOrdToBoolValueIsGe
  | cmpOrdToIntValueThreeWay
  | equalsValue
  | equalsArray (lhs rhs : List (Thunk ν)) (index : Nat)
  /-- `rem` is `rem_fields`, head = the element `Vec::pop` returns next -/
  | equalsObject (lhs rhs : List (String × Thunk ν)) (rem : List String)
  | compareValue
  | compareArray (lhs rhs : List (Thunk ν)) (index : Nat)
  /-- `FnFallible(do_std_compare_array)` -/
  | fnCompareArray

/-- Head of each list = top of the stack. -/
structure M (ν : Type) where
  states : List (St ν)
  values : List (Value ν)
  bools : List Bool
  ords : List Ordering
  /-- `stack_trace_len` -/
  traceLen : Nat

inductive Fault where
  /-- `return Err(self.report_error(..))` -/
  | err (e : Err)
  /-- `unwrap()` on an empty stack, slice index out of range, `assert_eq!`,
      `usize` underflow -/
  | panic
deriving Repr, DecidableEq

/-- `find_object_field_thunk(object, 0, name)` on the visible-field list. -/
def lookupField {ν : Type} (name : String) : List (String × Thunk ν) → Option (Thunk ν)
  | [] => none
  | (k, t) :: fs => if k = name then some t else lookupField name fs

section Machine
variable {ν : Type} [DecidableEq ν] [NumOrd ν]

def M.pushBool (m : M ν) (b : Bool) : M ν := { m with bools := b :: m.bools }
def M.pushOrd (m : M ν) (o : Ordering) : M ν := { m with ords := o :: m.ords }
def M.pushValue (m : M ν) (v : Value ν) : M ν := { m with values := v :: m.values }

/-- `push(State::X{..}); push_trace_item(..); push(State::<Equals|Compare>Value);
    push(DoThunk(rhs)); push(DoThunk(lhs))` -/
def M.pushItem (m : M ν) (loop cmp : St ν) (l r : Thunk ν) : M ν :=
  { m with
    states := .doThunk l :: .doThunk r :: cmp :: .traceItem :: loop :: m.states
    traceLen := m.traceLen + 1 }

/-- Pop an ordering and push a value computed from it. -/
def M.ordToValue (m : M ν) (f : Ordering → Value ν) : Except Fault (M ν) :=
  match m.ords with
  | o :: os => .ok { m with ords := os, values := f o :: m.values }
  | [] => .error .panic

/-- One iteration of the main loop for the popped state `s`
    (`m.states` is the rest of the state stack). -/
def exec (s : St ν) (m : M ν) : Except Fault (M ν) :=
  match s with
  | .doThunk t =>
    match t with
    | .val v => .ok (m.pushValue v)
    | .fail e => .error (.err e)
  | .traceItem =>
    -- `dec_trace_len`: `checked_sub(1).unwrap()`
    match m.traceLen with
    | 0 => .error .panic
    | n + 1 => .ok { m with traceLen := n }
  | .boolToValue =>
    match m.bools with
    | b :: bs => .ok { m with bools := bs, values := .bool b :: m.values }
    | [] => .error .panic
  | .invertBool =>
    match m.bools with
    | b :: bs => .ok { m with bools := (!b) :: bs }
    | [] => .error .panic
  | .cmpOrdToBoolValueIsLt => m.ordToValue (fun o => .bool o.isLT)
  | .cmpOrdToBoolValueIsLe => m.ordToValue (fun o => .bool o.isLE)
  | .cmpOrdToBoolValueIsGt => m.ordToValue (fun o => .bool o.isGT)
  | .cmpOrdToBoolValueIsGe => m.ordToValue (fun o => .bool o.isGE)
  | .cmpOrdToIntValueThreeWay => m.ordToValue (fun o => .num (NumOrd.ofOrdering o))
  | .equalsValue =>
    match m.values with
    | rhs :: lhs :: vs =>
      let m := { m with values := vs }
      match lhs, rhs with
      | .null, .null => .ok (m.pushBool true)
      | .bool a, .bool b => .ok (m.pushBool (a == b))
      | .num a, .num b => .ok (m.pushBool (decide (a = b)))
      | .str a, .str b => .ok (m.pushBool (decide (a = b)))
      | .arr lhs, .arr rhs =>
        if lhs.length ≠ rhs.length then .ok (m.pushBool false)
        else if lhs.length = 0 then .ok (m.pushBool true)
        else
          match lhs[0]?, rhs[0]? with
          | some l, some r => .ok (m.pushItem (.equalsArray lhs rhs 0) .equalsValue l r)
          | _, _ => .error .panic
      | .obj lhs, .obj rhs =>
        if lhs.map (·.1) = rhs.map (·.1) then
          match lhs.map (·.1) with
          | first :: rem =>
            match lookupField first lhs, lookupField first rhs with
            | some l, some r => .ok (m.pushItem (.equalsObject lhs rhs rem) .equalsValue l r)
            | _, _ => .error .panic
          | [] => .ok (m.pushBool true)
        else .ok (m.pushBool false)
      | .func, .func => .error (.err .compareFunctions)
      | _, _ => .ok (m.pushBool false)
    | _ => .error .panic
  | .equalsArray lhs rhs index =>
    if lhs.length ≠ rhs.length then .error .panic          -- assert_eq!
    else if lhs.length = 0 then .error .panic              -- `lhs.len() - 1`
    else if index ≠ lhs.length - 1 then
      match m.bools with
      | itemEq :: bs =>
        if itemEq then
          let index := index + 1
          match lhs[index]?, rhs[index]? with
          | some l, some r =>
            .ok ({ m with bools := bs }.pushItem (.equalsArray lhs rhs index) .equalsValue l r)
          | _, _ => .error .panic
        else .ok { m with bools := false :: bs }
      | [] => .error .panic
    else .ok m
  | .equalsObject lhs rhs rem =>
    match rem with
    | next :: rem =>
      match m.bools with
      | fieldEq :: bs =>
        if fieldEq then
          match lookupField next lhs, lookupField next rhs with
          | some l, some r =>
            .ok ({ m with bools := bs }.pushItem (.equalsObject lhs rhs rem) .equalsValue l r)
          | _, _ => .error .panic
        else .ok { m with bools := false :: bs }
      | [] => .error .panic
    | [] => .ok m
  | .compareValue =>
    match m.values with
    | rhs :: lhs :: vs =>
      let m := { m with values := vs }
      match lhs, rhs with
      | .null, .null => .error (.err .compareNull)
      | .bool _, .bool _ => .error (.err .compareBool)
      | .num a, .num b => .ok (m.pushOrd (NumOrd.cmp a b))
      | .str a, .str b => .ok (m.pushOrd (cmpCps a b))
      | .arr lhs, .arr rhs =>
        match lhs.isEmpty, rhs.isEmpty with
        | true, true => .ok (m.pushOrd .eq)
        | true, false => .ok (m.pushOrd .lt)
        | false, true => .ok (m.pushOrd .gt)
        | false, false =>
          match lhs[0]?, rhs[0]? with
          | some l, some r => .ok (m.pushItem (.compareArray lhs rhs 0) .compareValue l r)
          | _, _ => .error .panic
      | .obj _, .obj _ => .error (.err .compareObject)
      | .func, .func => .error (.err .compareFunctions)
      | lhs, rhs => .error (.err (.compareDifferentTypes lhs.ty rhs.ty))
    | _ => .error .panic
  | .compareArray lhs rhs index =>
    match m.ords with
    | itemCmp :: os =>
      if itemCmp = .eq then
        if lhs.length = 0 ∨ rhs.length = 0 then .error .panic   -- `len() - 1`
        else
          match decide (index = lhs.length - 1), decide (index = rhs.length - 1) with
          | true, true => .ok { m with ords := .eq :: os }
          | true, false => .ok { m with ords := .lt :: os }
          | false, true => .ok { m with ords := .gt :: os }
          | false, false =>
            let index := index + 1
            match lhs[index]?, rhs[index]? with
            | some l, some r =>
              .ok ({ m with ords := os }.pushItem (.compareArray lhs rhs index) .compareValue l r)
            | _, _ => .error .panic
      else .ok { m with ords := itemCmp :: os }
    | [] => .error .panic
  | .fnCompareArray =>
    match m.values with
    | rhs :: lhs :: _ =>
      match lhs with
      | .arr _ =>
        match rhs with
        | .arr _ =>
          .ok { m with states := .compareValue :: .cmpOrdToIntValueThreeWay :: m.states }
        | _ => .error (.err (.compareArrayArg 1 rhs.ty))
      | _ => .error (.err (.compareArrayArg 0 lhs.ty))
    | _ => .error .panic

/-- `while let Some(state) = self.state_stack.pop() { .. }` — one iteration;
    an empty state stack is the halted machine. -/
def step1 (m : M ν) : Except Fault (M ν) :=
  match m.states with
  | [] => .ok m
  | s :: ks => exec s { m with states := ks }

/-- `n` iterations. -/
def stepN : Nat → M ν → Except Fault (M ν)
  | 0, m => .ok m
  | n + 1, m =>
    match step1 m with
    | .ok m' => stepN n m'
    | .error f => .error f

/-- Run with fuel until the state stack is empty; `none` = out of fuel. -/
def run : Nat → M ν → Except Fault (Option (M ν))
  | 0, m => .ok (if m.states.isEmpty then some m else none)
  | n + 1, m =>
    if m.states.isEmpty then .ok (some m)
    else
      match step1 m with
      | .ok m' => run n m'
      | .error f => .error f

/-- The states an operation pushes (top first), after its operands' thunks. -/
def Op.states : Op → List (St ν)
  | .eq => [.equalsValue, .boolToValue, .traceItem]
  | .ne => [.equalsValue, .invertBool, .boolToValue, .traceItem]
  | .stdEquals => [.equalsValue, .boolToValue]
  | .lt => [.compareValue, .cmpOrdToBoolValueIsLt, .traceItem]
  | .le => [.compareValue, .cmpOrdToBoolValueIsLe, .traceItem]
  | .gt => [.compareValue, .cmpOrdToBoolValueIsGt, .traceItem]
  | .ge => [.compareValue, .cmpOrdToBoolValueIsGe, .traceItem]
  | .stdCompare => [.compareValue, .cmpOrdToIntValueThreeWay]
  | .stdCompareArray => [.fnCompareArray]

/-- `push_trace_item(TraceItem::Expr{span})` happens for the binary operators only. -/
def Op.traceLen : Op → Nat
  | .stdEquals | .stdCompare | .stdCompareArray => 0
  | _ => 1

def initM (op : Op) (a b : Thunk ν) : M ν :=
  { states := .doThunk a :: .doThunk b :: op.states
    values := [], bools := [], ords := [], traceLen := op.traceLen }

inductive Outcome (ν : Type) where
  | res (r : Res ν)
  | err (e : Err)
  | panic
  | outOfFuel
  /-- halted with stacks not restored -/
  | unbalanced

def machineOp (fuel : Nat) (op : Op) (a b : Thunk ν) : Outcome ν :=
  match run fuel (initM op a b) with
  | .error (.err e) => .err e
  | .error .panic => .panic
  | .ok none => .outOfFuel
  | .ok (some m) =>
    match m.values, m.bools, m.ords, m.traceLen with
    | [.bool b], [], [], 0 => .res (.bool b)
    | [.num n], [], [], 0 => .res (.num n)
    | _, _, _, _ => .unbalanced

end Machine

/-! ## Driver: `cmp all <A> <B>` -/

def showTy : Ty → String
  | .null => "Null" | .bool => "Bool" | .number => "Number" | .string => "String"
  | .array => "Array" | .object => "Object" | .function => "Function"

def showErr : Err → String
  | .explicit => "EExplicitError"
  | .compareFunctions => "ECompareFunctions"
  | .compareNull => "ECompareNullInequality"
  | .compareBool => "ECompareBooleanInequality"
  | .compareObject => "ECompareObjectInequality"
  | .compareDifferentTypes l r => s!"ECompareDifferentTypesInequality:{showTy l}/{showTy r}"
  | .compareArrayArg i t => s!"EInvalidStdFuncArgType:__compare_array/{i}/{showTy t}"

def showOutcome : Outcome Int → String
  | .res (.bool b) => if b then "true" else "false"
  | .res (.num n) => toString n
  | .err e => showErr e
  | .panic => "Mpanic"
  | .outOfFuel => "Mfuel"
  | .unbalanced => "Munbalanced"

def showSpec : Except Err (Res Int) → String
  | .ok (.bool b) => if b then "true" else "false"
  | .ok (.num n) => toString n
  | .error e => showErr e

/-- Field visibility in the notation: `=` default, `~` hidden, `!` forced visible. -/
inductive Vis where
  | dflt | hidden | forced
deriving DecidableEq

abbrev RawObj := List (String × Vis × Thunk Int)

def rawLookup (k : String) : RawObj → Option (Vis × Thunk Int)
  | [] => none
  | (k', v, t) :: fs => if k' = k then some (v, t) else rawLookup k fs

/-- `A + B` without `self`/`super` references: the right field wins, a default
    (`:`) visibility on the right inherits the left one. -/
def rawPlus (a b : RawObj) : RawObj :=
  a.map (fun (k, v, t) =>
    match rawLookup k b with
    | some (v', t') => (k, (if v' = .dflt then v else v'), t')
    | none => (k, v, t))
  ++ b.filter (fun (k, _, _) => (rawLookup k a).isNone)

def insertField (f : String × Thunk Int) : List (String × Thunk Int) → List (String × Thunk Int)
  | [] => [f]
  | g :: gs => if f.1 < g.1 then f :: g :: gs else g :: insertField f gs

/-- visible fields, sorted by name -/
def rawFinish (o : RawObj) : Value Int :=
  .obj ((o.filter (fun (_, v, _) => v ≠ .hidden)).foldr (fun (k, _, t) acc => insertField (k, t) acc) [])

def isKeyChar (c : Char) : Bool := c.isLower || c.isDigit || c == '_'

def parseCps (s : String) : Option (List Nat) :=
  if s == "-" then some []
  else (s.splitOn ".").mapM (fun x => x.toNat?)

mutual
/-- Recursive-descent parser of the value notation (see `harness/src/ops_cmp.rs`);
    returns the thunk, the raw field list when the value is an object, and the rest. -/
def parseVal : Nat → List Char → Option (Thunk Int × Option RawObj × List Char)
  | 0, _ => none
  | fuel + 1, cs =>
    match cs with
    | 'n' :: 'u' :: 'l' :: 'l' :: rest => some (.val .null, none, rest)
    | 't' :: 'r' :: 'u' :: 'e' :: rest => some (.val (.bool true), none, rest)
    | 'f' :: 'a' :: 'l' :: 's' :: 'e' :: rest => some (.val (.bool false), none, rest)
    | 'f' :: rest => some (.val .func, none, rest)
    | 'E' :: rest => some (.fail .explicit, none, rest)
    | 'n' :: ':' :: rest =>
      let t := rest.takeWhile (fun c => c.isDigit || c == '-')
      match (String.ofList t).toInt? with
      | some i => some (.val (.num i), none, rest.dropWhile (fun c => c.isDigit || c == '-'))
      | none => none
    | 's' :: ':' :: rest =>
      let t := rest.takeWhile (fun c => c.isDigit || c == '.' || c == '-')
      match parseCps (String.ofList t) with
      | some cps =>
        some (.val (.str cps), none, rest.dropWhile (fun c => c.isDigit || c == '.' || c == '-'))
      | none => none
    | 'a' :: '[' :: ']' :: rest => some (.val (.arr []), none, rest)
    | 'a' :: '[' :: rest =>
      match parseItems fuel ']' rest [] with
      | some (xs, rest) => some (.val (.arr xs), none, rest)
      | none => none
    | 'o' :: '{' :: '}' :: rest => some (.val (rawFinish []), some [], rest)
    | 'o' :: '{' :: rest =>
      match parseFields fuel rest [] with
      | some (o, rest) => some (.val (rawFinish o), some o, rest)
      | none => none
    | 'p' :: '(' :: rest =>
      match parseVal fuel rest with
      | some (_, some a, ',' :: rest) =>
        match parseVal fuel rest with
        | some (_, some b, ')' :: rest) =>
          let o := rawPlus a b
          some (.val (rawFinish o), some o, rest)
        | _ => none
      | _ => none
    | _ => none
/-- items separated by `,` up to `close` -/
def parseItems : Nat → Char → List Char → List (Thunk Int) → Option (List (Thunk Int) × List Char)
  | 0, _, _, _ => none
  | fuel + 1, close, cs, acc =>
    match parseVal fuel cs with
    | some (t, _, c :: rest) =>
      if c = ',' then parseItems fuel close rest (t :: acc)
      else if c = close then some ((t :: acc).reverse, rest)
      else none
    | _ => none
def parseFields : Nat → List Char → RawObj → Option (RawObj × List Char)
  | 0, _, _ => none
  | fuel + 1, cs, acc =>
    let k := cs.takeWhile isKeyChar
    match cs.dropWhile isKeyChar with
    | v :: rest =>
      let vis? : Option Vis :=
        if v = '=' then some .dflt else if v = '~' then some .hidden
        else if v = '!' then some .forced else none
      match vis?, parseVal fuel rest with
      | some vis, some (t, _, c :: rest) =>
        if k.isEmpty || (rawLookup (String.ofList k) acc).isSome then none
        else
          let acc := acc ++ [(String.ofList k, vis, t)]
          if c = ',' then parseFields fuel rest acc
          else if c = '}' then some (acc, rest)
          else none
      | _, _ => none
    | [] => none
end

def parseValue (s : String) : Option (Thunk Int) :=
  match parseVal (2 * s.length + 2) s.toList with
  | some (t, _, []) => some t
  | _ => none

def allOps : List Op :=
  [.eq, .ne, .stdEquals, .lt, .le, .gt, .ge, .stdCompare, .stdCompareArray]

/-- `cmp all <A> <B>`: the nine machine results; `cmp spec <A> <B>`: the nine
    results of the declarative specification. -/
def handle (args : List String) : Option String :=
  match args with
  | ["all", a, b] => do
    let a ← parseValue a
    let b ← parseValue b
    pure (",".intercalate (allOps.map (fun op => showOutcome (machineOp 1000000 op a b))))
  | ["spec", a, b] => do
    let a ← parseValue a
    let b ← parseValue b
    pure (",".intercalate (allOps.map (fun op => showSpec (specOp op a b))))
  | _ => none

end Rsj.Compare
