/-
  Model module `Compare` (driver op `cmp`). Import-free apart from RsjModel.* modules.
-/
import RsjModel.Util
namespace Rsj.Compare

/-- `cmp <args...>` : one canonical answer line, or `none` for a malformed request. -/
def handle (_args : List String) : Option String := none

end Rsj.Compare
