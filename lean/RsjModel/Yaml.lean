/-
  Model of the YAML document emitter of rsjsonnet:

  * `rsjsonnet-lang/src/program/eval/manifest.rs`  `do_manifest_yaml_doc`
  * `rsjsonnet-lang/src/program/eval/stdlib.rs`    `do_std_manifest_yaml_doc`,
                                                   `do_std_manifest_yaml_stream`
  * `rsjsonnet-lang/src/program/stdlib.rs`         defaults of the optional parameters
      (`indent_array_in_object=false`, `c_document_end=true`, `quote_keys=true`)

  Values, strings and numbers are those of `RsjModel/Json.lean` (`JVal`; a number
  is its decimal text token, a string a list of code points; objects arrive as the
  list of visible fields in `get_visible_fields_order`).  The evaluator's explicit
  state stack (`State::ManifestYamlDoc`, `State::AppendToString`) is modelled by
  the equivalent structural recursion: the states are pushed in reverse and popped
  in order, so the text is the concatenation in source order.

  `depth - 1` (usize) in the array arm is only evaluated when `parent_is_object`,
  and the only call with `parent_is_object = true` (in `yamlFields`) passes
  `depth + 1`; the model's truncated subtraction therefore never truncates, as the
  Rust subtraction never underflows.  Not modelled: functions (`ManifestFunction`
  error), the trace items, object assertions (values here are already evaluated).
-/
import RsjModel.Json
namespace Rsj.Yaml
open Rsj.Json (Str JVal escape isSafeYamlPlain rep sNull sTrue sFalse)

/-- `let indent = "  ";` -/
def indent : Str := [32, 32]

/-- `str::strip_suffix('\n')` -/
def stripSuffixNl : Str → Option Str
  | [] => none
  | [c] => if c = 10 then some [] else none
  | c :: d :: r => (stripSuffixNl (d :: r)).map (c :: ·)

/-- `str::split('\n')` as (first piece, remaining pieces); there is always a
    first piece -/
def splitNl : Str → Str × List Str
  | [] => ([], [])
  | c :: r =>
    let p := splitNl r
    if c = 10 then ([], p.1 :: p.2) else (c :: p.1, p.2)

/-- the pieces of `s.split('\n')` as a list -/
def linesOf (s : Str) : List Str := (splitNl s).1 :: (splitNl s).2

/-- `for line in s.split('\n') { push('\n'); for _ in 0..sub_depth { push_str(indent) }; push_str(line) }` -/
def blockLines (subDepth : Nat) : List Str → Str
  | [] => []
  | line :: ls => 10 :: (rep subDepth indent ++ (line ++ blockLines subDepth ls))

/-- the `ValueData::String(s)` arm after the leading space -/
def yamlString (s : Str) (depth : Nat) (pArr pObj : Bool) : Str :=
  match stripSuffixNl s with
  | some body =>
    let subDepth := if pArr || pObj then depth else depth + 1
    124 :: blockLines subDepth (linesOf body)
  | none => escape s

/-- `if parent_is_array || parent_is_object { result.push(' ') }` -/
def lead (pArr pObj : Bool) : Str := if pArr || pObj then [32] else []

/-- the field name as pushed: bare when `!quote_keys && is_safe_yaml_plain(name)` -/
def yamlKey (quoteKeys : Bool) (k : Str) : Str :=
  if !quoteKeys && isSafeYamlPlain k then k else escape k

/-- `if i != array.len() - 1 { push "\n" }` / `if i != 0 { push "\n" }` (reversed
    iteration): a newline after every entry but the last -/
def nlAfter {α : Type} : List α → Str
  | [] => []
  | _ :: _ => [10]

mutual
/-- `do_manifest_yaml_doc(indent_array_in_object, quote_keys, depth,
    parent_is_array, parent_is_object)` on the popped value -/
def manifestYaml (iaio qk : Bool) (depth : Nat) (pArr pObj : Bool) : JVal → Str
  | .null => lead pArr pObj ++ sNull
  | .bool true => lead pArr pObj ++ sTrue
  | .bool false => lead pArr pObj ++ sFalse
  | .num t => lead pArr pObj ++ t
  | .str s => lead pArr pObj ++ yamlString s depth pArr pObj
  | .arr [] => lead pArr pObj ++ [91, 93]
  | .arr (x :: xs) =>
    -- "Arrays always start on their own line"
    (if pArr || pObj then [10] else []) ++
      yamlItems iaio qk (if pObj && !iaio then depth - 1 else depth) (x :: xs)
  | .obj [] => lead pArr pObj ++ [123, 125]
  | .obj (kx :: xs) =>
    (if pArr then [32] else if pObj then [10] else []) ++ yamlFields iaio qk depth pArr (kx :: xs)
/-- the items of a non-empty array at (already adjusted) `depth`:
    `indent.repeat(depth)`, `-`, the item with `depth + 1, parent_is_array` -/
def yamlItems (iaio qk : Bool) (depth : Nat) : List JVal → Str
  | [] => []
  | x :: xs =>
    rep depth indent ++ (45 :: (manifestYaml iaio qk (depth + 1) true false x ++
      (nlAfter xs ++ yamlItems iaio qk depth xs)))
/-- the fields of a non-empty object; `skipIndent` = "Skip indent for the first
    field to keep the first field in the same line as the `- ` of the parent array" -/
def yamlFields (iaio qk : Bool) (depth : Nat) (skipIndent : Bool) : List (Str × JVal) → Str
  | [] => []
  | (k, x) :: xs =>
    (if skipIndent then [] else rep depth indent) ++ (yamlKey qk k ++
      (58 :: (manifestYaml iaio qk (depth + 1) false true x ++
        (nlAfter xs ++ yamlFields iaio qk depth false xs))))
end

/-- `std.manifestYamlDoc(value, indent_array_in_object, quote_keys)`:
    `String::new()` then `ManifestYamlDoc { depth: 0, parent_is_array: false, parent_is_object: false }` -/
def manifestYamlDoc (indentArrayInObject quoteKeys : Bool) (v : JVal) : Str :=
  manifestYaml indentArrayInObject quoteKeys 0 false false v

/-- the documents of a stream, `"\n---\n"` between consecutive ones -/
def streamDocs (iaio qk : Bool) : List JVal → Str
  | [] => []
  | [x] => manifestYamlDoc iaio qk x
  | x :: y :: r => manifestYamlDoc iaio qk x ++ ([10, 45, 45, 45, 10] ++ streamDocs iaio qk (y :: r))

/-- `std.manifestYamlStream(value, indent_array_in_object, c_document_end, quote_keys)`:
    `"---\n"`, the documents, then `"\n...\n"` or `"\n"` -/
def manifestYamlStream (indentArrayInObject cDocumentEnd quoteKeys : Bool) (docs : List JVal) : Str :=
  [45, 45, 45, 10] ++ (streamDocs indentArrayInObject quoteKeys docs ++
    (if cDocumentEnd then [10, 46, 46, 46, 10] else [10]))

/-! ## Driver (op `yaml`) -/

def flag (c : Char) : Option Bool := if c = '1' then some true else if c = '0' then some false else none

/-- `yaml yamldoc <ab> <value>` | `yaml yamldoc - <value>` (defaults) |
    `yaml yamlstream <abc> <value>` | `yaml yamlstream - <value>` (defaults);
    flags in parameter order, value in the wire syntax of `RsjModel/Json.lean` -/
def handle (args : List String) : Option String :=
  match args with
  | ["yamldoc", flags, val] => do
    let v ← Rsj.Json.decodeVal val
    match flags.toList with
    | ['-'] => pure ("ok " ++ Rsj.Json.encodeHexStr (manifestYamlDoc false true v))
    | [a, b] => do pure ("ok " ++ Rsj.Json.encodeHexStr (manifestYamlDoc (← flag a) (← flag b) v))
    | _ => none
  | ["yamlstream", flags, val] => do
    let v ← Rsj.Json.decodeVal val
    match v with
    | .arr docs =>
      match flags.toList with
      | ['-'] => pure ("ok " ++ Rsj.Json.encodeHexStr (manifestYamlStream false true true docs))
      | [a, b, c] => do
        pure ("ok " ++ Rsj.Json.encodeHexStr (manifestYamlStream (← flag a) (← flag b) (← flag c) docs))
      | _ => none
    | _ => pure "err notarray"
  | _ => none

end Rsj.Yaml
