/-
  Model module `Cli` (driver op `cli`). Import-free apart from RsjModel.* modules.
-/
import RsjModel.Util
namespace Rsj.Cli

/-- `cli <args...>` : one canonical answer line, or `none` for a malformed request. -/
def handle (_args : List String) : Option String := none

end Rsj.Cli
