/-
  Model of `rsjsonnet/src/main.rs` (`main_inner`, `value_to_repr`,
  `get_opt_val`, the `ext_*_to_thunk` helpers) and of the argument value
  parsers of `rsjsonnet/src/cli.rs` (`VarOptVal`, `VarFile`).

  `mainInner : Args → World → Result` follows `main_inner` statement by
  statement.  Everything `main_inner` delegates to the library or to the
  operating system is a field of `World` (an abstract, pure stage result):
  reading stdin / the environment / files, loading (lex + parse + analyse),
  evaluation, manifestation of one value, writing a file, writing and
  flushing stdout.  A failed write is assumed to deliver nothing (true for
  `/dev/full`, a closed pipe, a missing directory; a disk that fills up in
  the middle of a write is outside the model).

  clap's own parsing (unknown flags, missing `<filename>`) happens before
  `main_inner` looks at anything and exits 2; the only usage error decided
  inside `main_inner` is `-S` together with `-y`, and the only argument-value
  parser that can reject is `VarFile` (no `=`): both are modelled.
-/
import RsjModel.Util
import RsjModel.Import
namespace Rsj.Cli
open Rsj.Import (pathJoin)

/-! ## cli.rs: `var[=val]` and `var=file` -/

structure VarOptVal where
  var : String
  val : Option String
deriving Repr, DecidableEq

structure VarFile where
  var : String
  file : String
deriving Repr, DecidableEq

/-- `str::split_once('=')` on characters. -/
def splitOnceEq : List Char → Option (List Char × List Char)
  | [] => none
  | c :: cs =>
    if c = '=' then some ([], cs)
    else
      match splitOnceEq cs with
      | some (a, b) => some (c :: a, b)
      | none => none

/-- `impl From<&str> for VarOptVal` -/
def parseVarOptVal (s : String) : VarOptVal :=
  match splitOnceEq s.toList with
  | some (k, v) => { var := String.ofList k, val := some (String.ofList v) }
  | none => { var := s, val := none }

/-- `impl FromStr for VarFile` (`none` = "argument not in form 'var=file'", a usage error). -/
def parseVarFile (s : String) : Option VarFile :=
  match splitOnceEq s.toList with
  | some (k, v) => some { var := String.ofList k, file := String.ofList v }
  | none => none

/-! ## Arguments (`cli::Cli`) -/

inductive Input where
  /-- `-e <code>` -/
  | exec (code : String)
  /-- `-` -/
  | stdin
  | file (path : String)
deriving Repr, DecidableEq

/-- `-J`, `-s`, `-t` are handed to the session and do not influence the control
    flow of `main_inner`; they are not part of the model's arguments. -/
structure Args where
  input : Input
  string : Bool := false
  yamlStream : Bool := false
  noTrailingNewline : Bool := false
  multi : Option String := none
  output : Option String := none
  extStr : List VarOptVal := []
  extStrFile : List VarFile := []
  extCode : List VarOptVal := []
  extCodeFile : List VarFile := []
  tlaStr : List VarOptVal := []
  tlaStrFile : List VarFile := []
  tlaCode : List VarOptVal := []
  tlaCodeFile : List VarFile := []
deriving Repr

/-! ## Values and the world -/

/-- What a thunk handed to the program was made from. Code thunks are *loaded*
    eagerly but evaluated only when the program forces them. -/
inductive ThunkSrc where
  /-- `value_to_thunk(Value::string(s))` -/
  | str (s : String)
  /-- `load_virt_file(repr_path, code)` -/
  | virt (reprPath : String) (code : String)
  /-- `load_real_file(path)` -/
  | real (path : String)
deriving Repr, DecidableEq

/-- A fully evaluated value as far as `main_inner` inspects it. -/
inductive Value where
  /-- null / boolean / number (opaque) -/
  | atom (n : Nat)
  | str (s : String)
  | arr (items : List Value)
  /-- visible fields in `get_fields_order` order (`Value::to_object`) -/
  | obj (fields : List (String × Value))
  /-- a function: identity and `(parameter name, has default)` -/
  | func (id : Nat) (params : List (String × Bool))
deriving Repr

inductive EnvRes where
  | undefined | notUnicode | val (s : String)
deriving Repr, DecidableEq

inductive FileRes where
  | readFail | notUtf8 | ok (s : String)
deriving Repr, DecidableEq

structure World where
  /-- `stdin().read_to_end` (`none` = error) -/
  stdin : Option String
  /-- `std::env::var_os` + `into_string` -/
  env : String → EnvRes
  /-- `std::fs::read` + `String::from_utf8` -/
  readStrFile : String → FileRes
  /-- `Session::load_virt_file(repr_path, data).is_some()` -/
  loadVirt : String → String → Bool
  /-- `Session::load_real_file(path).is_some()` -/
  loadReal : String → Bool
  /-- `Session::eval_value(root_thunk)` with the registered external variables -/
  evalRoot : ThunkSrc → List (String × ThunkSrc) → Option Value
  /-- evaluation of a function's body once the top-level arguments are bound -/
  evalBody : Value → List (String × ThunkSrc) → List (String × ThunkSrc) → Option Value
  /-- `Session::manifest_json(value, true)` -/
  manifest : Value → Option String
  /-- `std::fs::write(path, data).is_ok()` -/
  writeFile : String → String → Bool
  /-- `stdout.write_all(data).is_ok()` -/
  stdoutWrite : String → Bool
  /-- `stdout.flush().is_ok()` -/
  stdoutFlush : Bool

structure Result where
  exit : Nat
  stdout : String
  /-- `main_inner` itself or a stage printed a message -/
  stderrNonEmpty : Bool
  /-- files written by the `-m` loop, in order -/
  files : List (String × String)
  /-- the file written for `-o` -/
  outFile : Option (String × String)
deriving Repr, DecidableEq

/-- `Err(RunError::Generic)` after a message on stderr; `files` were already written by `-m`. -/
def fail (files : List (String × String)) : Result :=
  { exit := 1, stdout := "", stderrNonEmpty := true, files := files, outFile := none }

/-! ## The helpers of main.rs -/

/-- `get_opt_val` -/
def getOptVal (w : World) (a : VarOptVal) : Option String :=
  match a.val with
  | some v => some v
  | none =>
    match w.env a.var with
    | .val v => some v
    | .notUnicode => none
    | .undefined => none

/-- `ext_str_to_thunk` -/
def strThunk (w : World) (a : VarOptVal) : Option ThunkSrc :=
  match getOptVal w a with
  | some v => some (.str v)
  | none => none

/-- `ext_str_file_to_thunk` -/
def strFileThunk (w : World) (a : VarFile) : Option ThunkSrc :=
  match w.readStrFile a.file with
  | .ok s => some (.str s)
  | .readFail => none
  | .notUtf8 => none

/-- `ext_code_to_thunk(session, prefix, arg)` -/
def codeThunk (w : World) (pfx : String) (a : VarOptVal) : Option ThunkSrc :=
  match getOptVal w a with
  | none => none
  | some code =>
    let virtPath := "<" ++ pfx ++ ":" ++ a.var ++ ">"
    if w.loadVirt virtPath code then some (.virt virtPath code) else none

/-- `ext_code_file_to_thunk` -/
def codeFileThunk (w : World) (a : VarFile) : Option ThunkSrc :=
  if w.loadReal a.file then some (.real a.file) else none

/-- The four `--ext-*` loops in the order main.rs runs them: name and the
    result of the thunk constructor. -/
def extItems (args : Args) (w : World) : List (String × Option ThunkSrc) :=
  args.extStr.map (fun a => (a.var, strThunk w a)) ++
  args.extStrFile.map (fun a => (a.var, strFileThunk w a)) ++
  args.extCode.map (fun a => (a.var, codeThunk w "ext" a)) ++
  args.extCodeFile.map (fun a => (a.var, codeFileThunk w a))

def tlaItems (args : Args) (w : World) : List (String × Option ThunkSrc) :=
  args.tlaStr.map (fun a => (a.var, strThunk w a)) ++
  args.tlaStrFile.map (fun a => (a.var, strFileThunk w a)) ++
  args.tlaCode.map (fun a => (a.var, codeThunk w "tla" a)) ++
  args.tlaCodeFile.map (fun a => (a.var, codeFileThunk w a))

def hasName (env : List (String × ThunkSrc)) (v : String) : Bool := env.any (fun e => e.1 = v)

/-- One `--ext-*` loop body after another: a repeated name is fatal, then the
    thunk constructor may fail. `none` = `return Err(RunError::Generic)`. -/
def extLoop : List (String × Option ThunkSrc) → List (String × ThunkSrc) → Option (List (String × ThunkSrc))
  | [], env => some env
  | (v, t) :: rest, env =>
    if hasName env v then none
    else
      match t with
      | none => none
      | some th => extLoop rest (env ++ [(v, th)])

/-- The `--tla-*` loops: a repeated name only prints a message (second component). -/
def tlaLoop : List (String × Option ThunkSrc) → List (String × ThunkSrc) → Bool →
    Option (List (String × ThunkSrc) × Bool)
  | [], env, d => some (env, d)
  | (v, t) :: rest, env, d =>
    match t with
    | none => none
    | some th => tlaLoop rest (env ++ [(v, th)]) (d || hasName env v)

/-! ### Binding top-level arguments (`eval_call(func, &[], &tla)`, rule of C02) -/

inductive BindErr where
  | unknownParam (n : String)
  | repeatedParam (n : String)
  | paramNotBound (n : String)
deriving Repr, DecidableEq

def hasParam (params : List (String × Bool)) (n : String) : Bool := params.any (fun p => p.1 = n)

/-- The loop over the named arguments. -/
def bindNamed (params : List (String × Bool)) : List String → List String → Except BindErr (List String)
  | [], bound => .ok bound
  | n :: rest, bound =>
    if !hasParam params n then .error (.unknownParam n)
    else if bound.contains n then .error (.repeatedParam n)
    else bindNamed params rest (bound ++ [n])

/-- First parameter that is neither bound nor has a default. -/
def firstUnbound (bound : List String) : List (String × Bool) → Option String
  | [] => none
  | (n, hasDefault) :: rest =>
    if !hasDefault && !bound.contains n then some n else firstUnbound bound rest

/-- No positional arguments, the TLA names as named arguments. -/
def bind (params : List (String × Bool)) (names : List String) : Except BindErr Unit :=
  match bindNamed params names [] with
  | .error e => .error e
  | .ok bound =>
    match firstUnbound bound params with
    | some n => .error (.paramNotBound n)
    | none => .ok ()

/-- The `if root_value.is_function() { .. } else if !tla.is_empty() { .. }` block. -/
def callStage (w : World) (ext tla : List (String × ThunkSrc)) (v : Value) : Option Value :=
  match v with
  | .func _ params =>
    match bind params (tla.map (·.1)) with
    | .ok () => w.evalBody v ext tla
    | .error _ => none
  | _ => if tla.isEmpty then some v else none

/-! ### `value_to_repr` -/

/-- The loop over the array items of `-y` (first failing item aborts). -/
def manifestItems (w : World) : List Value → Option (List String)
  | [] => some []
  | v :: rest =>
    match w.manifest v with
    | none => none
    | some s =>
      match manifestItems w rest with
      | none => none
      | some ss => some (s :: ss)

def yamlBody : List String → String → String
  | [], acc => acc
  | m :: rest, acc => yamlBody rest (acc ++ "---\n" ++ m ++ "\n")

def yamlText (ntn : Bool) (ms : List String) : String :=
  if ms.isEmpty then "" else yamlBody ms "" ++ (if ntn then "..." else "...\n")

def valueToRepr (args : Args) (w : World) (v : Value) : Option String :=
  if args.string then
    match v with
    | .str s => some (if args.noTrailingNewline then s else s ++ "\n")
    | _ => none
  else if args.yamlStream then
    match v with
    | .arr items =>
      match manifestItems w items with
      | none => none
      | some ms => some (yamlText args.noTrailingNewline ms)
    | _ => none
  else
    match w.manifest v with
    | some s => some (if args.noTrailingNewline then s else s ++ "\n")
    | none => none

/-- The `-m` loop: files written so far, and the path list (`none` after a failure). -/
def multiLoop (args : Args) (w : World) (dir : String) :
    List (String × Value) → List (String × String) → String → List (String × String) × Option String
  | [], files, pathList => (files, some pathList)
  | (name, v) :: rest, files, pathList =>
    match valueToRepr args w v with
    | none => (files, none)
    | some repr =>
      let path := pathJoin dir name
      if w.writeFile path repr then
        multiLoop args w dir rest (files ++ [(path, repr)]) (pathList ++ path ++ "\n")
      else (files, none)

/-- `let output = if let Some(dir) = args.multi { .. } else { .. }` -/
def render (args : Args) (w : World) (v : Value) : List (String × String) × Option String :=
  match args.multi with
  | some dir =>
    match v with
    | .obj fields => multiLoop args w dir fields [] ""
    | _ => ([], none)
  | none => ([], valueToRepr args w v)

/-- Reading / loading the input. -/
def inputThunk (args : Args) (w : World) : Option ThunkSrc :=
  match args.input with
  | .exec code => if w.loadVirt "<cmdline>" code then some (.virt "<cmdline>" code) else none
  | .stdin =>
    match w.stdin with
    | none => none
    | some data => if w.loadVirt "<stdin>" data then some (.virt "<stdin>" data) else none
  | .file path => if w.loadReal path then some (.real path) else none

/-- `main_inner` from reading the input up to the value that is to be written
    (`root_value` after the optional top-level call); `none` = `Err(RunError::Generic)`
    after a message.  The `Bool` records the non-fatal "TLA defined more than once" message. -/
def evalStages (args : Args) (w : World) : Option (Value × Bool) :=
  match inputThunk args w with
  | none => none
  | some root =>
    match extLoop (extItems args w) [] with
    | none => none
    | some ext =>
      match tlaLoop (tlaItems args w) [] false with
      | none => none
      | some (tla, dupMsg) =>
        match w.evalRoot root ext with
        | none => none
        | some rootValue =>
          match callStage w ext tla rootValue with
          | none => none
          | some value => some (value, dupMsg)

/-- The rest of `main_inner`: manifestation (`-m` files are written on the way) and
    the final write to the `-o` file or to stdout (`write_all` then `flush`). -/
def finish (args : Args) (w : World) (value : Value) (dupMsg : Bool) : Result :=
  match render args w value with
  | (files, none) => fail files
  | (files, some output) =>
    match args.output with
    | some path =>
      if w.writeFile path output then
        { exit := 0, stdout := "", stderrNonEmpty := dupMsg, files := files, outFile := some (path, output) }
      else fail files
    | none =>
      if w.stdoutWrite output && w.stdoutFlush then
        { exit := 0, stdout := output, stderrNonEmpty := dupMsg, files := files, outFile := none }
      else fail files

/-- `main_inner` (after clap), with `main`'s mapping to the exit status. -/
def mainInner (args : Args) (w : World) : Result :=
  if args.string && args.yamlStream then
    { exit := 2, stdout := "", stderrNonEmpty := true, files := [], outFile := none }
  else
    match evalStages args w with
    | none => fail []
    | some (value, dupMsg) => finish args w value dupMsg

/-! ## Driver

  The driver instantiates `World` from a small expression language so that the
  external-variable environment and the top-level arguments built by `mainInner`
  are observable: the text of every piece of code is mapped to an `Expr`.
-/

inductive Expr where
  | atom (n : Nat)
  | str (s : String)
  | arr (items : List Expr)
  /-- `(name, hidden, value)` in field order -/
  | obj (fields : List (String × Bool × Expr))
  | func (id : Nat) (params : List (String × Option Expr)) (body : Expr)
  /-- `std.extVar(name)` -/
  | ext (name : String)
  /-- a parameter of the enclosing top-level function -/
  | param (name : String)
  /-- `error "..."` -/
  | err
deriving Repr

structure Tables where
  /-- code text ↦ its meaning -/
  code : List (String × Expr) := []
  /-- texts on which `load_source` fails -/
  badCode : List String := []
  /-- real files holding code: path ↦ text -/
  realFiles : List (String × String) := []
  funcs : List (Nat × List (String × Option Expr) × Expr) := []
  manifest : List (String × String) := []
  env : List (String × EnvRes) := []
  strFiles : List (String × FileRes) := []
  writeFail : List String := []
  stdin : Option String := some ""
  /-- stdout rejects every non-empty write -/
  full : Bool := false

def lookupS {α : Type} (l : List (String × α)) (k : String) : Option α :=
  match l with
  | [] => none
  | (k', v) :: rest => if k' = k then some v else lookupS rest k

def lookupN {α : Type} (l : List (Nat × α)) (k : Nat) : Option α :=
  match l with
  | [] => none
  | (k', v) :: rest => if k' = k then some v else lookupN rest k

/-- Parameter environment: a top-level argument or the default expression. -/
inductive PBind where
  | arg (t : ThunkSrc)
  | dflt (e : Expr)

def mapMOpt {α β : Type} (f : α → Option β) : List α → Option (List β)
  | [] => some []
  | a :: rest =>
    match f a with
    | none => none
    | some b =>
      match mapMOpt f rest with
      | none => none
      | some bs => some (b :: bs)

/-- Deep evaluation (what `eval_value` / `eval_call` deliver). -/
def evalE (tb : Tables) (ext : List (String × ThunkSrc)) : Nat → List (String × PBind) → Expr → Option Value
  | 0, _, _ => none
  | fuel + 1, penv, e =>
    let evalThunk := fun (t : ThunkSrc) =>
      match t with
      | .str s => some (Value.str s)
      | .virt _ code =>
        match lookupS tb.code code with
        | some e' => evalE tb ext fuel [] e'
        | none => none
      | .real path =>
        match lookupS tb.realFiles path with
        | some code =>
          match lookupS tb.code code with
          | some e' => evalE tb ext fuel [] e'
          | none => none
        | none => none
    match e with
    | .atom n => some (.atom n)
    | .str s => some (.str s)
    | .arr items =>
      match mapMOpt (evalE tb ext fuel penv) items with
      | some vs => some (.arr vs)
      | none => none
    | .obj fields =>
      match mapMOpt (fun (f : String × Bool × Expr) =>
          match evalE tb ext fuel penv f.2.2 with
          | some v => some (f.1, v)
          | none => none) (fields.filter (fun f => !f.2.1)) with
      | some fs => some (.obj fs)
      | none => none
    | .func id params _ => some (.func id (params.map (fun p => (p.1, p.2.isSome))))
    | .ext name =>
      match lookupS ext name with
      | some t => evalThunk t
      | none => none
    | .param name =>
      match lookupS penv name with
      | some (.arg t) => evalThunk t
      | some (.dflt d) => evalE tb ext fuel penv d
      | none => none
    | .err => none

def FUEL : Nat := 64

def Tables.loadOk (tb : Tables) (code : String) : Bool := !tb.badCode.contains code

/-- Canonical text of a value (key of the manifest table). -/
def showValue : Value → String
  | .atom n => "a" ++ toString n
  | .str s => "s" ++ Rsj.Import.hexStr s
  | .arr items => "[" ++ showValues items ++ "]"
  | .obj fields => "{" ++ showFields fields ++ "}"
  | .func id _ => "f" ++ toString id
where
  showValues : List Value → String
    | [] => ""
    | v :: rest => showValue v ++ "," ++ showValues rest
  showFields : List (String × Value) → String
    | [] => ""
    | (n, v) :: rest => Rsj.Import.hexStr n ++ ":" ++ showValue v ++ "," ++ showFields rest

def Tables.world (tb : Tables) : World :=
  { stdin := tb.stdin
    env := fun v => (lookupS tb.env v).getD .undefined
    readStrFile := fun p => (lookupS tb.strFiles p).getD .readFail
    loadVirt := fun _ code => tb.loadOk code
    loadReal := fun p =>
      match lookupS tb.realFiles p with
      | some code => tb.loadOk code
      | none => false
    evalRoot := fun root ext =>
      match root with
      | .str s => some (.str s)
      | .virt _ code =>
        match lookupS tb.code code with
        | some e => evalE tb ext FUEL [] e
        | none => none
      | .real p =>
        match lookupS tb.realFiles p with
        | some code =>
          match lookupS tb.code code with
          | some e => evalE tb ext FUEL [] e
          | none => none
        | none => none
    evalBody := fun f ext tla =>
      match f with
      | .func id _ =>
        match lookupN tb.funcs id with
        | some (params, body) =>
          let penv := params.filterMap (fun p =>
            match lookupS tla p.1, p.2 with
            | some t, _ => some (p.1, PBind.arg t)
            | none, some d => some (p.1, PBind.dflt d)
            | none, none => none)
          evalE tb ext FUEL penv body
        | none => none
      | _ => none
    manifest := fun v => lookupS tb.manifest (showValue v)
    writeFile := fun p _ => !tb.writeFail.contains p
    stdoutWrite := fun s => !(tb.full && !s.isEmpty)
    stdoutFlush := true }

/-! ### Request parsing -/

open Rsj.Import (unhexStr hexStr)

/-- Expression tokens (comma separated):
    `a<n>` `s<hex>` `[<k>` e… `{<k>` (`v<hex>`|`h<hex>`) e … `f<id>/<k>` (`p<hex>` | `d<hex>` e)… body
    `x<hex>` (extVar) `r<hex>` (parameter) `!` (error). -/
def parseE : Nat → List String → Option (Expr × List String)
  | 0, _ => none
  | _ + 1, [] => none
  | fuel + 1, tok :: rest =>
    let parseMany := fun (k : Nat) (toks : List String) =>
      (List.range k).foldlM (fun (acc : List Expr × List String) _ =>
        match parseE fuel acc.2 with
        | some (e, r) => some (acc.1 ++ [e], r)
        | none => none) ([], toks)
    match tok.toList with
    | ['!'] => some (.err, rest)
    | 'a' :: n => do pure (.atom (← (String.ofList n).toNat?), rest)
    | 's' :: h => do pure (.str (← unhexStr (String.ofList h)), rest)
    | 'x' :: h => do pure (.ext (← unhexStr (String.ofList h)), rest)
    | 'r' :: h => do pure (.param (← unhexStr (String.ofList h)), rest)
    | '[' :: n => do
      let k ← (String.ofList n).toNat?
      let (es, r) ← parseMany k rest
      pure (.arr es, r)
    | '{' :: n => do
      let k ← (String.ofList n).toNat?
      let (fs, r) ← (List.range k).foldlM (fun (acc : List (String × Bool × Expr) × List String) _ =>
        match acc.2 with
        | nameTok :: r1 =>
          match nameTok.toList with
          | c :: h =>
            match unhexStr (String.ofList h), parseE fuel r1 with
            | some name, some (e, r2) =>
              if c = 'v' then some (acc.1 ++ [(name, false, e)], r2)
              else if c = 'h' then some (acc.1 ++ [(name, true, e)], r2)
              else none
            | _, _ => none
          | [] => none
        | [] => none) ([], rest)
      pure (.obj fs, r)
    | 'f' :: spec => do
      match (String.ofList spec).splitOn "/" with
      | [ids, ks] =>
        let id ← ids.toNat?
        let k ← ks.toNat?
        let (ps, r) ← (List.range k).foldlM (fun (acc : List (String × Option Expr) × List String) _ =>
          match acc.2 with
          | ptok :: r1 =>
            match ptok.toList with
            | 'p' :: h =>
              match unhexStr (String.ofList h) with
              | some name => some (acc.1 ++ [(name, none)], r1)
              | none => none
            | 'd' :: h =>
              match unhexStr (String.ofList h), parseE fuel r1 with
              | some name, some (e, r2) => some (acc.1 ++ [(name, some e)], r2)
              | _, _ => none
            | _ => none
          | [] => none) ([], rest)
        let (body, r') ← parseE fuel r
        pure (.func id ps body, r')
      | _ => none
    | _ => none

def parseExpr (s : String) : Option Expr :=
  match parseE 64 (s.splitOn ",") with
  | some (e, []) => some e
  | _ => none

/-- All function literals of an expression (for `Tables.funcs`). -/
def collectFuncs : Nat → Expr → List (Nat × List (String × Option Expr) × Expr)
  | 0, _ => []
  | fuel + 1, e =>
    match e with
    | .arr items => items.flatMap (collectFuncs fuel)
    | .obj fields => fields.flatMap (fun f => collectFuncs fuel f.2.2)
    | .func id ps body =>
      (id, ps, body) :: (ps.flatMap (fun p => match p.2 with | some d => collectFuncs fuel d | none => [])
        ++ collectFuncs fuel body)
    | _ => []

structure Req where
  args : Args := { input := .stdin }
  usage : Bool := false
  tb : Tables := {}

def kv (tok : String) : Option (String × String) :=
  match tok.splitOn "=" with
  | [k, v] => some (k, v)
  | [k] => some (k, "")
  | _ => none

def pair (v : String) : Option (String × String) :=
  match v.splitOn ":" with
  | [a, b] => some (a, b)
  | _ => none

/-- Request tokens, see checks/c12.py (`model_line`). -/
def parseTok (r : Req) (tok : String) : Option Req := do
  let (k, v) ← kv tok
  let a := r.args
  let tb := r.tb
  match k with
  | "in" =>
    match v.splitOn ":" with
    | ["e", h] => pure { r with args := { a with input := .exec (← unhexStr h) } }
    | ["s"] => pure { r with args := { a with input := .stdin } }
    | ["f", h] => pure { r with args := { a with input := .file (← unhexStr h) } }
    | _ => none
  | "S" => pure { r with args := { a with string := true } }
  | "y" => pure { r with args := { a with yamlStream := true } }
  | "ntn" => pure { r with args := { a with noTrailingNewline := true } }
  | "m" => pure { r with args := { a with multi := some (← unhexStr v) } }
  | "o" => pure { r with args := { a with output := some (← unhexStr v) } }
  | "xs" => pure { r with args := { a with extStr := a.extStr ++ [parseVarOptVal (← unhexStr v)] } }
  | "xc" => pure { r with args := { a with extCode := a.extCode ++ [parseVarOptVal (← unhexStr v)] } }
  | "ts" => pure { r with args := { a with tlaStr := a.tlaStr ++ [parseVarOptVal (← unhexStr v)] } }
  | "tc" => pure { r with args := { a with tlaCode := a.tlaCode ++ [parseVarOptVal (← unhexStr v)] } }
  | "xsf" =>
    match parseVarFile (← unhexStr v) with
    | some f => pure { r with args := { a with extStrFile := a.extStrFile ++ [f] } }
    | none => pure { r with usage := true }
  | "xcf" =>
    match parseVarFile (← unhexStr v) with
    | some f => pure { r with args := { a with extCodeFile := a.extCodeFile ++ [f] } }
    | none => pure { r with usage := true }
  | "tsf" =>
    match parseVarFile (← unhexStr v) with
    | some f => pure { r with args := { a with tlaStrFile := a.tlaStrFile ++ [f] } }
    | none => pure { r with usage := true }
  | "tcf" =>
    match parseVarFile (← unhexStr v) with
    | some f => pure { r with args := { a with tlaCodeFile := a.tlaCodeFile ++ [f] } }
    | none => pure { r with usage := true }
  | "stdin" =>
    if v = "!" then pure { r with tb := { tb with stdin := none } }
    else pure { r with tb := { tb with stdin := some (← unhexStr v) } }
  | "env" => do
    let (n, x) ← pair v
    pure { r with tb := { tb with env := tb.env ++ [(← unhexStr n, .val (← unhexStr x))] } }
  | "envbad" => pure { r with tb := { tb with env := tb.env ++ [(← unhexStr v, .notUnicode)] } }
  | "sfile" => do
    let (p, x) ← pair v
    pure { r with tb := { tb with strFiles := tb.strFiles ++ [(← unhexStr p, .ok (← unhexStr x))] } }
  | "sfilebad" => pure { r with tb := { tb with strFiles := tb.strFiles ++ [(← unhexStr v, .notUtf8)] } }
  | "rfile" => do
    let (p, x) ← pair v
    pure { r with tb := { tb with realFiles := tb.realFiles ++ [(← unhexStr p, ← unhexStr x)] } }
  | "badcode" => pure { r with tb := { tb with badCode := tb.badCode ++ [← unhexStr v] } }
  | "code" => do
    let (c, x) ← pair v
    let e ← parseExpr x
    pure { r with tb := { tb with code := tb.code ++ [(← unhexStr c, e)],
                                  funcs := tb.funcs ++ collectFuncs 64 e } }
  | "mf" => do
    let (x, t) ← pair v
    let e ← parseExpr x
    let val ← evalE {} [] FUEL [] e
    pure { r with tb := { tb with manifest := tb.manifest ++ [(showValue val, ← unhexStr t)] } }
  | "wfail" => pure { r with tb := { tb with writeFail := tb.writeFail ++ [← unhexStr v] } }
  | "full" => pure { r with tb := { tb with full := true } }
  | _ => none

def showFiles (fs : List (String × String)) : String :=
  "[" ++ ",".intercalate (fs.map (fun f => hexStr f.1 ++ ":" ++ hexStr f.2)) ++ "]"

def showResult (r : Result) : String :=
  "exit=" ++ toString r.exit ++ " out=" ++ hexStr r.stdout ++ " err=" ++ (if r.stderrNonEmpty then "1" else "0")
    ++ " files=" ++ showFiles r.files ++ " ofile=" ++
    (match r.outFile with
     | some (p, c) => hexStr p ++ ":" ++ hexStr c
     | none => "none")

/-- `cli run <tok>...` : the whole tool; `cli optval <hex>` / `cli varfile <hex>` : the argument parsers. -/
def handle (args : List String) : Option String :=
  match args with
  | ["optval", h] => do
    let p := parseVarOptVal (← unhexStr h)
    pure (hexStr p.var ++ " " ++ (match p.val with | some v => "some:" ++ hexStr v | none => "none"))
  | ["varfile", h] => do
    match parseVarFile (← unhexStr h) with
    | some f => pure (hexStr f.var ++ " " ++ hexStr f.file)
    | none => pure "usage"
  | "run" :: toks => do
    let r ← toks.foldlM parseTok {}
    if r.usage then
      pure (showResult { exit := 2, stdout := "", stderrNonEmpty := true, files := [], outFile := none })
    else pure (showResult (mainInner r.args r.tb.world))
  | _ => none

end Rsj.Cli
