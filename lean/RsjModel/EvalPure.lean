/-
  The PURE builtins of the evaluator model (`RsjModel/Eval.lean`): what `execute_built_in_call`
  (eval/call.rs) and the `do_std_*` functions (eval/stdlib.rs) do AFTER the arguments are forced —
  the type checks of the arguments (`expect_std_func_arg_*`, in argument order), the conversion of
  numbers to indices, the pure core, the wrapping of the result.

  The pure cores are the component models that are proved separately: `RsjModel/Str.lean` (C18) and
  `RsjModel/Codec.lean` (C20).  This file is the glue: a builtin is a `PureSpec`, a function of a
  STORE-FREE view of the forced argument values (`PArg`: an array is seen by its length only) to a
  store-free result (`PureOut`: a primitive value or an array of primitive values), or to the request
  to force the elements of one argument array one by one (`PureStep.elems`, for `std.base64` of a byte
  array and `std.decodeUTF8`).  The generic helper `std_pure` of Eval.lean forces the arguments in
  order, applies `run` and allocates the result.
-/
import RsjModel.Core
import RsjModel.Str
import RsjModel.Codec
import RsjModel.Format
namespace Rsj.Eval
open Rsj.Core

/-- outcome of a pure builtin other than a value -/
inductive PErr where
  /-- `EvalErrorKind` variant name + the detail string the harness prints -/
  | rt (kind : String) (detail : String)
  /-- the model does not cover this behaviour (the check skips the case) -/
  | unsupported (msg : String)
  /-- a Rust panic site of the pure core (each proved unreachable: RsjProofs/EvalPureTable.lean) -/
  | panic (site : String)

/-- a value without references into the store -/
inductive Prim where
  | null
  | bool (b : Bool)
  | num (f : Float)
  | str (s : String)
deriving Inhabited

/-- the store-free view of a forced argument: an array shows its length only -/
inductive PArg where
  | null
  | bool (b : Bool)
  | num (f : Float)
  | str (s : String)
  | arr (len : Nat)
  | obj
  | func
deriving Inhabited

/-- `EvalErrorValueType` (Debug) -/
def PArg.typeName : PArg → String
  | .null => "Null" | .bool _ => "Bool" | .num _ => "Number" | .str _ => "String"
  | .arr _ => "Array" | .obj => "Object" | .func => "Function"

/-- `EvalErrorValueType::to_str` -/
def PArg.typeStr : PArg → String
  | .null => "null" | .bool _ => "boolean" | .num _ => "number" | .str _ => "string"
  | .arr _ => "array" | .obj => "object" | .func => "function"

inductive PureOut where
  | prim (p : Prim)
  /-- `make_value_array`: an array of finished thunks -/
  | arr (items : List Prim)

inductive PureStep where
  | done (out : PureOut)
  /-- the elements of the argument of index `arg` (an array) are forced one by one, each is checked by
      `item` right after it is forced (a byte), then `finish` is applied to the bytes -/
  | elems (arg : Nat) (item : PArg → Except PErr Nat) (finish : List Nat → Except PErr PureOut)
  /-- `std.format` / `%`: the parsed format string; the values (argument 1: an array, an object or a single value)
      are consumed — and forced — directive by directive (`fmtArray` / `fmtObject` of Eval.lean) -/
  | fmt (parts : List Format.Part)

structure PureSpec where
  /-- the name in `InvalidStdFuncArgType` -/
  name : String
  arity : Nat
  /-- the forced argument goes through `State::CoerceToString` (`std.escapeString*`) -/
  coerce : Bool := false
  run : List PArg → Except PErr PureStep

/-! ### Conversions between the evaluator's `String` / `Float` and the component models -/

/-- a string as `Str.Str` / `Codec` see it: its Unicode scalar values -/
def scalars (s : String) : List Nat := s.toList.map Char.toNat

def ofScalars (l : List Nat) : String := String.ofList (l.map Char.ofNat)

/-- sign bit, mantissa and exponent of a finite double: `|x| = m * 2^e` -/
def floatParts (x : Float) : Bool × Nat × Int :=
  let bits := x.toBits.toNat
  let expField : Nat := (bits / 2 ^ 52) % 2048
  let frac : Nat := bits % 2 ^ 52
  (decide (bits ≥ 2 ^ 63), if expField == 0 then frac else frac + 2 ^ 52,
   if expField == 0 then -1074 else Int.ofNat expField - 1075)

/-- the abstraction of a finite double used by RsjModel/Str.lean: sign bit, `⌊|x|⌋`, "has a fraction" -/
def toNum (x : Float) : Str.Num :=
  let (neg, m, e) := floatParts x
  if e ≥ 0 then ⟨neg, m * 2 ^ e.toNat, false⟩
  else ⟨neg, m / 2 ^ (-e).toNat, m % 2 ^ (-e).toNat != 0⟩

/-- `x.trunc()` -/
def floatTrunc (x : Float) : Float := if x < 0.0 then x.ceil else x.floor

/-! ### Argument checks (`expect_std_func_arg_*`) and results -/

def badArg (name : String) (i : Nat) (v : PArg) : PErr :=
  .rt "InvalidStdFuncArgType" s!"{name}/{i}/{v.typeName}"

def argStr (name : String) (i : Nat) : PArg → Except PErr String
  | .str s => .ok s
  | v => .error (badArg name i v)

def argNum (name : String) (i : Nat) : PArg → Except PErr Float
  | .num f => .ok f
  | v => .error (badArg name i v)

def argArr (name : String) (i : Nat) : PArg → Except PErr Nat
  | .arr n => .ok n
  | v => .error (badArg name i v)

def other (msg : String) : PErr := .rt "Other" msg

def outStr (s : List Nat) : PureStep := .done (.prim (.str (ofScalars s)))
def outBool (b : Bool) : PureStep := .done (.prim (.bool b))
def outNum (f : Float) : PureStep := .done (.prim (.num f))
def outStrs (l : List (List Nat)) : PureStep := .done (.arr (l.map (fun s => .str (ofScalars s))))
def outNats (l : List Nat) : PureStep := .done (.arr (l.map (fun n => .num (Float.ofNat n))))

/-- `check_number_value` -/
def pCheckNum (f : Float) : Except PErr Unit :=
  if f.isNaN then .error (.rt "NumberNan" "")
  else if f.isInf then .error (.rt "NumberOverflow" "")
  else .ok ()

/-- the run of a builtin applied to the wrong number of values: never happens (`builtinCall3` compares the
    number of argument thunks with `arity` first; the Rust site is `check_num_args`, modelled there) -/
def badArity : PErr := .unsupported "pure builtin applied to the wrong number of values"

def run1 (f : PArg → Except PErr PureStep) : List PArg → Except PErr PureStep
  | [a] => f a
  | _ => .error badArity

def run2 (f : PArg → PArg → Except PErr PureStep) : List PArg → Except PErr PureStep
  | [a, b] => f a b
  | _ => .error badArity

def run3 (f : PArg → PArg → PArg → Except PErr PureStep) : List PArg → Except PErr PureStep
  | [a, b, c] => f a b c
  | _ => .error badArity

/-! ### String functions (cores: RsjModel/Str.lean)

  The `Other` messages that contain a formatted number or a `{:?}`-quoted character are cut before that
  part (the check compares them up to there). -/

def strErr : Str.Err → PErr
  | .panic site => .panic site
  | .fuel => .panic "fuel"
  | .substrFrom => other "`from` value"
  | .substrLen => other "`len` value"
  | .sliceStart => other "slice start"
  | .sliceEnd => other "slice end"
  | .sliceStep => other "slice step"
  | .indexNotValid => .rt "NumericIndexIsNotValid" "?"
  | .indexOutOfRange i l => .rt "NumericIndexOutOfRange" s!"{i}/{l}"
  | .notSingleChar => other "string is not single-character"
  | .badCodepoint => other "is not a valid unicode codepoint"
  | .emptyDelim => other "split delimiter is empty"
  | .maxsplitsNotInt => other "`maxsplits` value, not an integer"
  | .maxsplitsNeg => other "`maxsplits` value, not -1 or non-negative"

def liftStr {α} (f : α → PureStep) : Except Str.Err α → Except PErr PureStep
  | .ok a => .ok (f a)
  | .error e => .error (strErr e)

/-- `do_std_substr` -/
def spec_substr : PureSpec where
  name := "substr"
  arity := 3
  run := run3 fun a b c => do
    let s ← argStr "substr" 0 a
    let f ← argNum "substr" 1 b
    let l ← argNum "substr" 2 c
    liftStr outStr (Str.substr (scalars s) (toNum f) (toNum l))

/-- `do_std_find_substr` -/
def spec_findSubstr : PureSpec where
  name := "findSubstr"
  arity := 2
  run := run2 fun a b => do
    let p ← argStr "findSubstr" 0 a
    let s ← argStr "findSubstr" 1 b
    liftStr outNats (Str.findSubstr (scalars p) (scalars s))

/-- `do_std_starts_with` -/
def spec_startsWith : PureSpec where
  name := "startsWith"
  arity := 2
  run := run2 fun a b => do
    let x ← argStr "startsWith" 0 a
    let y ← argStr "startsWith" 1 b
    pure (outBool (Str.startsWith (scalars x) (scalars y)))

/-- `do_std_ends_with` -/
def spec_endsWith : PureSpec where
  name := "endsWith"
  arity := 2
  run := run2 fun a b => do
    let x ← argStr "endsWith" 0 a
    let y ← argStr "endsWith" 1 b
    pure (outBool (Str.endsWith (scalars x) (scalars y)))

/-- `do_std_strip_chars` / `do_std_lstrip_chars` / `do_std_rstrip_chars` -/
def spec_strip (name : String) (f : Str.Str → Str.Str → Except Str.Err Str.Str) : PureSpec where
  name := name
  arity := 2
  run := run2 fun a b => do
    let s ← argStr name 0 a
    let cs ← argStr name 1 b
    liftStr outStr (f (scalars s) (scalars cs))

/-- `do_std_split` -/
def spec_split : PureSpec where
  name := "split"
  arity := 2
  run := run2 fun a b => do
    let s ← argStr "split" 0 a
    let c ← argStr "split" 1 b
    liftStr outStrs (Str.stdSplit (scalars s) (scalars c))

/-- `do_std_split_limit` / `do_std_split_limit_r` -/
def spec_splitLimit (name : String) (f : Str.Str → Str.Str → Str.Num → Except Str.Err (List Str.Str)) : PureSpec where
  name := name
  arity := 3
  run := run3 fun a b c => do
    let s ← argStr name 0 a
    let sep ← argStr name 1 b
    let n ← argNum name 2 c
    liftStr outStrs (f (scalars s) (scalars sep) (toNum n))

/-- `do_std_str_replace` -/
def spec_strReplace : PureSpec where
  name := "strReplace"
  arity := 3
  run := run3 fun a b c => do
    let s ← argStr "strReplace" 0 a
    let frm ← argStr "strReplace" 1 b
    let to ← argStr "strReplace" 2 c
    pure (outStr (Str.strReplace (scalars s) (scalars frm) (scalars to)))

/-- a total function of one string: `do_std_trim`, `do_std_ascii_upper`, `do_std_ascii_lower` -/
def spec_strMap (name : String) (f : Str.Str → Str.Str) : PureSpec where
  name := name
  arity := 1
  run := run1 fun a => do
    let s ← argStr name 0 a
    pure (outStr (f (scalars s)))

/-- `do_std_string_chars` -/
def spec_stringChars : PureSpec where
  name := "stringChars"
  arity := 1
  run := run1 fun a => do
    let s ← argStr "stringChars" 0 a
    pure (outStrs (Str.stringChars (scalars s)))

/-- `do_std_codepoint` -/
def spec_codepoint : PureSpec where
  name := "codepoint"
  arity := 1
  run := run1 fun a => do
    let s ← argStr "codepoint" 0 a
    liftStr (fun n => outNum (Float.ofNat n)) (Str.codepoint (scalars s))

/-- `do_std_char` -/
def spec_char : PureSpec where
  name := "char"
  arity := 1
  run := run1 fun a => do
    let n ← argNum "char" 0 a
    liftStr outStr (Str.char (toNum n))

/-- `do_std_equals_ignore_case`: `str::eq_ignore_ascii_case` -/
def spec_equalsIgnoreCase : PureSpec where
  name := "equalsIgnoreCase"
  arity := 2
  run := run2 fun a b => do
    let x ← argStr "equalsIgnoreCase" 0 a
    let y ← argStr "equalsIgnoreCase" 1 b
    pure (outBool (Str.asciiLower (scalars x) == Str.asciiLower (scalars y)))

/-! ### Codecs (cores: RsjModel/Codec.lean) -/

/-- the double whose exact value is the natural number `v` (as `parse_num_radix` / `str::parse` return it) -/
def natFloat (neg : Bool) (v : Nat) : Float :=
  let f := Float.ofNat v
  if neg then -f else f

/-- `do_std_parse_int` -/
def spec_parseInt : PureSpec where
  name := "parseInt"
  arity := 1
  run := run1 fun a => do
    let s ← argStr "parseInt" 0 a
    match Codec.parseInt (scalars s) with
    | .ok (neg, v) => pure (outNum (natFloat neg v))
    | .error .empty => .error (other "integer without digits:")
    | .error (.invalidDigit _) => .error (other "invalid base 10:")
    | .error .overflow => .error (.rt "NumberOverflow" "")
    | .error .panic => .error (.panic "parseInt")

/-- `do_std_parse_octal` / `do_std_parse_hex` -/
def spec_parseRadix (name : String) (r : Codec.Radix) (emptyMsg digitMsg : String) : PureSpec where
  name := name
  arity := 1
  run := run1 fun a => do
    let s ← argStr name 0 a
    match Codec.parseNumRadix r (scalars s) with
    | .ok v => pure (outNum (natFloat false v))
    | .error .empty => .error (other emptyMsg)
    | .error (.invalidDigit _) => .error (other digitMsg)
    | .error .overflow => .error (.rt "NumberOverflow" "")
    | .error .panic => .error (.panic "parse_num_radix")

/-- `do_std_encode_utf8` -/
def spec_encodeUTF8 : PureSpec where
  name := "encodeUTF8"
  arity := 1
  run := run1 fun a => do
    let s ← argStr "encodeUTF8" 0 a
    pure (outNats (Codec.encodeUtf8 (scalars s)))

/-- `try_to_u8_exact` -/
def u8Exact (f : Float) : Option Nat :=
  let n := toNum f
  if n.frac then none
  else if n.int == 0 then some 0
  else if n.neg then none
  else if n.int ≤ 255 then some n.int else none

/-- `do_std_decode_utf8_check_item` -/
def decodeUTF8Item : PArg → Except PErr Nat
  | .num f =>
    match u8Exact f with
    | some b => .ok b
    | none => .error (other "array item value, not a byte")
  | v => .error (other s!"array item must be a number, got {v.typeStr}")

/-- `do_std_decode_utf8`: the items are forced and checked one by one, `String::from_utf8_lossy` at the end -/
def spec_decodeUTF8 : PureSpec where
  name := "decodeUTF8"
  arity := 1
  run := run1 fun a => do
    let _ ← argArr "decodeUTF8" 0 a
    pure (.elems 0 decodeUTF8Item (fun bytes => .ok (.prim (.str (ofScalars (Codec.decodeLossy bytes))))))

/-- `u8::try_from(item_value as i32)`: the cast truncates towards zero (and saturates) -/
def base64Byte (f : Float) : Option Nat :=
  let n := toNum f
  if n.int == 0 then some 0
  else if n.neg then none
  else if n.int ≤ 255 then some n.int else none

/-- `do_std_base64_array`, one item -/
def base64Item : PArg → Except PErr Nat
  | .num f =>
    match base64Byte f with
    | some b => .ok b
    | none => .error (other "only numbers between 0 and 255 can be base64 encoded, got")
  | v => .error (other s!"array element must be a number, got {v.typeStr}")

def base64Finish (bytes : List Nat) : Except PErr PureOut :=
  match Codec.encode bytes with
  | some r => .ok (.prim (.str (ofScalars r)))
  | none => .error (.panic "encode_base64")

/-- `do_std_base64`: a string (code points up to 255) or an array of bytes (forced one by one; the empty
    array gives the empty string) -/
def spec_base64 : PureSpec where
  name := "base64"
  arity := 1
  run := run1 fun a =>
    match a with
    | .str s =>
      match Codec.encodeStr (scalars s) with
      | .ok r => .ok (outStr r)
      | .error .codepoint => .error (other "only codepoints up to 255 can be base64 encoded")
      | .error _ => .error (.panic "encode_base64")
    | .arr _ => .ok (.elems 0 base64Item base64Finish)
    | v => .error (badArg "base64" 0 v)

def b64Err : Codec.B64Err → PErr
  | .length => other "length of base64 string is not a multiple of 4"
  | .badChar _ => other "invalid base64 character:"
  | .codepoint => .panic "decode_base64"
  | .panic => .panic "decode_base64"

/-- `do_std_base64_decode`: the bytes as characters (`char::from(u8)`) -/
def spec_base64Decode : PureSpec where
  name := "base64Decode"
  arity := 1
  run := run1 fun a => do
    let s ← argStr "base64Decode" 0 a
    match Codec.decode (scalars s) with
    | .ok bs => pure (outStr bs)
    | .error e => .error (b64Err e)

/-- `do_std_base64_decode_bytes` -/
def spec_base64DecodeBytes : PureSpec where
  name := "base64DecodeBytes"
  arity := 1
  run := run1 fun a => do
    let s ← argStr "base64DecodeBytes" 0 a
    match Codec.decode (scalars s) with
    | .ok bs => pure (outNats bs)
    | .error e => .error (b64Err e)

/-- `std.escapeString*`: the argument is coerced to a string first, then the total escaper -/
def spec_escape (name : String) (f : List Nat → List Nat) : PureSpec where
  name := name
  arity := 1
  coerce := true
  run := run1 fun a => do
    let s ← argStr name 0 a
    pure (outStr (f (scalars s)))

/-! ### `std.format` and the `%` operator on strings (core: RsjModel/Format.lean)

  `do_std_format`: the format string is checked and parsed first; the values are looked at afterwards. -/

def fmtParseErr : Format.PErr → PErr
  | .truncated => other "truncated format code"
  | .widthTooLarge => other "format field width is too large"
  | .precTooLarge => other "format precision is too large"
  | .missingPrecDigits => other "missing format precision digits"
  | .invalidConv _ => other "invalid format conversion code"
  | .fuel => .panic "parse_format_codes"

def spec_format : PureSpec where
  name := "format"
  arity := 2
  run := run2 fun a _ => do
    let s ← argStr "format" 0 a
    match Format.parseFormat s.toList with
    | .ok parts => pure (.fmt parts)
    | .error e => .error (fmtParseErr e)

def fmtRenderErr : Format.RErr → PErr
  | .needNumber k ty =>
    other ((if k == 'd' then "'i' / 'd'" else if k == 'o' then "'o'" else if k == 'x' then "'x' / 'X'"
      else if k == 'e' then "'e' / 'E'" else if k == 'f' then "'f' / 'F'" else "'g' / 'G'")
      ++ " formatting requires a number, got " ++ ty)
  | .charLen n => other s!"'c' formatting requires a string of length 1, got {n}"
  | .charBadCodepoint => other "is not a valid unicode codepoint"
  | .charBadType ty => other ("'c' formatting requires a string or a number, got " ++ ty)
  | .hostPanic site => .panic s!"format host {site}"
  | .needHost k _ _ => .unsupported s!"number formatting by the host formatter ({k})"

def fmtErr : Format.Err → PErr
  | .parse e => fmtParseErr e
  | .render e => fmtRenderErr e
  | .notEnough got => other s!"not enough array items for format, got {got}"
  | .tooMany expected got => other s!"too many array items for format: expected {expected}, got {got}"
  | .precNotNumber ty => other ("format precision must be a number, got " ++ ty)
  | .precInvalid => other "invalid format precision value:"
  | .widthNotNumber ty => other ("format field width must be a number, got " ++ ty)
  | .widthInvalid => other "invalid format field width value:"
  | .objStarWidth => other "'*' field width cannot be used with object formatting"
  | .objStarPrec => other "'*' precision cannot be used with object formatting"
  | .objNeedKey => other "mapping keys are required with object formatting"
  | .objMissingField _ => other "missing field"
  | .fmtNotString ty => .rt "InvalidStdFuncArgType" ("format/0/" ++ ty)

/-- is the finite double with this bit pattern (sign cleared) integer-valued? -/
def bitsIsInt (ab : Nat) : Bool :=
  let e := ab / Format.TWO52
  let m := if e = 0 then ab % Format.TWO52 else ab % Format.TWO52 + Format.TWO52
  let e' := if e = 0 then 1 else e
  decide (e' ≥ 1075) || m % 2 ^ (1075 - e') == 0

/-- The host digit generators as far as Lean computes them exactly: `{:.p$}` of an integer-valued double is its
    exact decimal expansion followed by `p` zeros.  Everything else (`{:e}`, `log10`, the shortest-digits printer
    above 2^53) is not modelled: the evaluator answers `unsupported`. -/
def evalHost : Format.Host where
  fixed := fun ab p =>
    if bitsIsInt ab then
      let m := Format.truncAbs ab
      let ds := if m = 0 then ['0'] else Format.natDigits 10 Format.lowerNum m
      some (if p = 0 then ds else ds ++ '.' :: List.replicate p '0')
    else none
  exp := fun _ _ => none
  disp := fun _ => none
  log10floor := fun _ => none
  numStr := fun _ => none

/-- a forced value as the width / precision checks of the formatter see it -/
def fmtValOf : PArg → Format.Val
  | .num f => .num f.toBits.toNat
  | .str s => .str s.toList
  | v => .other v.typeStr []

/-- a forced value as `do_std_format_code` sees it; `rendered`: its `ManifestJson` text, asked for `%s` of a
    non-string only -/
def fmtValOfS (v : PArg) (rendered : Option String) : Format.Val :=
  match rendered, v with
  | _, .str s => .str s.toList
  | some r, v => .other v.typeStr r.toList
  | none, v => fmtValOf v

/-- `WidthTmp` after `do_std_format_codes_array_2` popped the forced value -/
def fmtWT (spec : Option Format.FW) (forced : Option PArg) : Format.WT :=
  match spec, forced with
  | none, _ => .none
  | some (.inline n), _ => .inline n
  | some .ext, some v => .val (fmtValOf v)
  | some .ext, none => .none

def liftFmt {α} : Except Format.Err α → Except PErr α
  | .ok a => .ok a
  | .error e => .error (fmtErr e)

/-- `array_2`: the precision is checked first, then the width -/
def fmtPrecWidth (c : Format.Code) (fwV precV : Option PArg) : Except PErr (Nat × Nat) := do
  let prec ← liftFmt (if c.prec.isSome && Format.usesPrec c.conv then Format.evalPrec (fmtWT c.prec precV) else .ok 0)
  let fw ← liftFmt (if c.fw.isSome then Format.evalWidth (fmtWT c.fw fwV) else .ok 0)
  pure (fw, prec)

/-- `StdFormatCode` + the padding of `array_3` / `object_2` -/
def fmtRender (c : Format.Code) (fw prec : Nat) (v : Format.Val) : Except PErr (List Char) :=
  match Format.renderCode evalHost c fw prec v with
  | .ok s => .ok (Format.padField c.flags.left fw s)
  | .error e => .error (fmtRenderErr e)

/-! ### Numbers: the operations that are the same IEEE operation in Rust and in Lean's `Float` -/

/-- a function of one number -/
def spec_num1 (name : String) (f : Float → Except PErr PureStep) : PureSpec where
  name := name
  arity := 1
  run := run1 fun a => do
    let x ← argNum name 0 a
    f x

/-- a `libm` function of one number: the argument check is modelled, the value is not -/
def spec_libm1 (name : String) : PureSpec :=
  spec_num1 name (fun _ => .error (.unsupported ("libm function " ++ name)))

/-- a `libm` function of two numbers -/
def spec_libm2 (name : String) : PureSpec where
  name := name
  arity := 2
  run := run2 fun a b => do
    let _ ← argNum name 0 a
    let _ ← argNum name 1 b
    .error (.unsupported ("libm function " ++ name))

/-- `float::frexp` on the bit pattern -/
def frexpBits (x : Float) : Float × Int :=
  let sub := x.toBits.toNat / 2 ^ 52 % 2048 == 0 && x.toBits.toNat % 2 ^ 52 != 0
  let norm := if sub then x * Float.ofBits 0x4330000000000000 else x
  let edelta : Int := if sub then -52 else 0
  let raw := norm.toBits.toNat
  let rawExp := raw / 2 ^ 52 % 2048
  if rawExp == 0 then
    (Float.ofBits (UInt64.ofNat (raw / 2 ^ 63 * 2 ^ 63)), 0)
  else
    (Float.ofBits (UInt64.ofNat (raw / 2 ^ 63 * 2 ^ 63 + 0x3FE * 2 ^ 52 + raw % 2 ^ 52)),
     Int.ofNat rawExp - 0x3FE + edelta)

def intFloat (i : Int) : Float :=
  if i ≥ 0 then Float.ofNat i.toNat else -(Float.ofNat (-i).toNat)

end Rsj.Eval
