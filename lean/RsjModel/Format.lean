/-
  Model module `Format` (driver op `fmt`). Import-free apart from RsjModel.* modules.
-/
import RsjModel.Util
namespace Rsj.Format

/-- `fmt <args...>` : one canonical answer line, or `none` for a malformed request. -/
def handle (_args : List String) : Option String := none

end Rsj.Format
