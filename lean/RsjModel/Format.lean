/-
  Model of `rsjsonnet-lang/src/program/eval/format.rs` (std.format / the `%` operator),
  driver op `fmt`.  Import-free apart from RsjModel.Util.

  Strings are `List Char` (Rust `&str`; every byte-length the code takes is of an
  ASCII string, so byte length = character count there; the one place where the two
  differ — the field padding in `do_std_format_codes_array_3/object_2` — counts chars).
  Numbers are IEEE-754 bit patterns (`Nat` < 2^64, always finite in Jsonnet); the model
  never uses `Float`: sign, zero-ness and the integer part are computed from the bits.

  Trusted base (parameters of the model, `Host`): the Rust formatter `{:.p$}` / `{:.p$e}`,
  `f64::to_string` of an integer-valued double >= 2^53, `f64::log10`, and the number
  printer used by `%s`.  The harness supplies exactly the strings Rust produced.
-/
import RsjModel.Util
namespace Rsj.Format

/-! ## Format codes -/

inductive Conv where
  | dec | oct | hexL | hexU | expL | expU | fltL | fltU | gL | gU | chr | str | pct
deriving Repr, DecidableEq

/-- `FieldWidth` -/
inductive FW where
  | inline (n : Nat)
  | ext
deriving Repr, DecidableEq

/-- `CFlags` -/
structure Flags where
  alt : Bool := false
  zero : Bool := false
  left : Bool := false
  blank : Bool := false
  plus : Bool := false
deriving Repr, DecidableEq

/-- `FormatCode` -/
structure Code where
  mkey : Option (List Char)
  flags : Flags
  fw : Option FW
  prec : Option FW
  lenMod : Option Char
  conv : Conv
deriving Repr, DecidableEq

/-- `FormatPart` -/
inductive Part where
  | lit (s : List Char)
  | code (c : Code)
deriving Repr, DecidableEq

/-- `FormatCode::uses_prec` -/
def usesPrec : Conv → Bool
  | .chr | .str | .pct => false
  | _ => true

/-! ## `parse_format_codes` -/

/-- Errors of the format-string parser (`fuel` is the explicit out-of-fuel outcome of
    the model's loop; `C19_parse_total` proves it never occurs). -/
inductive PErr where
  | truncated | widthTooLarge | precTooLarge | missingPrecDigits
  | invalidConv (c : Char)
  | fuel
deriving Repr, DecidableEq

/-- `str::find(c)` + split: text before the first `c` and text after it. -/
def splitAt1 (c : Char) : List Char → Option (List Char × List Char)
  | [] => none
  | x :: xs =>
    if x = c then some ([], xs)
    else match splitAt1 c xs with
      | none => none
      | some (a, b) => some (x :: a, b)

/-- `parse_format_mkey` -/
def parseMkey (rem : List Char) : Except PErr (Option (List Char) × List Char) :=
  match rem with
  | [] => .ok (none, [])
  | c :: cont =>
    if c = '(' then
      match splitAt1 ')' cont with
      | none => .error .truncated
      | some (key, rest) => .ok (some key, rest)
    else .ok (none, c :: cont)

/-- `parse_format_cflags` -/
def parseFlags : List Char → Flags → Flags × List Char
  | [], f => (f, [])
  | c :: r, f =>
    if c = '#' then parseFlags r { f with alt := true }
    else if c = '0' then parseFlags r { f with zero := true }
    else if c = '-' then parseFlags r { f with left := true }
    else if c = ' ' then parseFlags r { f with blank := true }
    else if c = '+' then parseFlags r { f with plus := true }
    else (f, c :: r)

def isDigit (c : Char) : Bool := 48 ≤ c.toNat && c.toNat ≤ 57

/-- the `while bytes.get(i).is_some_and(u8::is_ascii_digit)` loops -/
def takeDigits : List Char → List Char × List Char
  | [] => ([], [])
  | c :: cs =>
    if isDigit c then ((c :: (takeDigits cs).1), (takeDigits cs).2)
    else ([], c :: cs)

def digitsVal (ds : List Char) : Nat := ds.foldl (fun a c => a * 10 + (c.toNat - 48)) 0

def U32_LIMIT : Nat := 4294967296

/-- `parse_format_field_width` (`str::parse::<u32>` fails exactly on overflow here) -/
def parseWidth (rem : List Char) : Except PErr (Option FW × List Char) :=
  match rem with
  | [] => .ok (none, [])
  | c :: r =>
    if c = '*' then .ok (some .ext, r)
    else
      let d := takeDigits (c :: r)
      if d.1 = [] then .ok (none, c :: r)
      else if digitsVal d.1 ≥ U32_LIMIT then .error .widthTooLarge
      else .ok (some (.inline (digitsVal d.1)), d.2)

/-- `parse_format_prec` -/
def parsePrec (rem : List Char) : Except PErr (Option FW × List Char) :=
  match rem with
  | [] => .ok (none, [])
  | c :: r =>
    if c = '.' then
      match r with
      | [] => .error .truncated
      | c2 :: r2 =>
        if c2 = '*' then .ok (some .ext, r2)
        else
          let d := takeDigits (c2 :: r2)
          if d.1 = [] then .error .missingPrecDigits
          else if digitsVal d.1 ≥ U32_LIMIT then .error .precTooLarge
          else .ok (some (.inline (digitsVal d.1)), d.2)
    else .ok (none, c :: r)

/-- `parse_format_length_modifier` -/
def parseLenMod (rem : List Char) : Option Char × List Char :=
  match rem with
  | [] => (none, [])
  | c :: r => if c = 'h' ∨ c = 'l' ∨ c = 'L' then (some c, r) else (none, c :: r)

def convOf (c : Char) : Option Conv :=
  if c = 'd' ∨ c = 'i' ∨ c = 'u' then some .dec
  else if c = 'o' then some .oct
  else if c = 'x' then some .hexL
  else if c = 'X' then some .hexU
  else if c = 'e' then some .expL
  else if c = 'E' then some .expU
  else if c = 'f' then some .fltL
  else if c = 'F' then some .fltU
  else if c = 'g' then some .gL
  else if c = 'G' then some .gU
  else if c = 'c' then some .chr
  else if c = 's' then some .str
  else if c = '%' then some .pct
  else none

/-- `parse_format_conv_type` -/
def parseConv (rem : List Char) : Except PErr (Conv × List Char) :=
  match rem with
  | [] => .error .truncated
  | c :: r =>
    match convOf c with
    | some k => .ok (k, r)
    | none => .error (.invalidConv c)

/-- One directive, after its `%`. -/
def parseCode (rem : List Char) : Except PErr (Code × List Char) :=
  match parseMkey rem with
  | .error e => .error e
  | .ok (mkey, r1) =>
    let fl := parseFlags r1 {}
    match parseWidth fl.2 with
    | .error e => .error e
    | .ok (fw, r3) =>
      match parsePrec r3 with
      | .error e => .error e
      | .ok (prec, r4) =>
        let lm := parseLenMod r4
        match parseConv lm.2 with
        | .error e => .error e
        | .ok (conv, r6) =>
          .ok ({ mkey := mkey, flags := fl.1, fw := fw, prec := prec, lenMod := lm.1, conv := conv }, r6)

/-- The `while !rem.is_empty()` loop of `parse_format_codes`, with explicit fuel. -/
def parseParts : Nat → List Char → Except PErr (List Part)
  | 0, _ => .error .fuel
  | fuel + 1, rem =>
    if rem = [] then .ok []
    else
      match splitAt1 '%' rem with
      | none => .ok [.lit rem]
      | some (pre, rest) =>
        match parseCode rest with
        | .error e => .error e
        | .ok (c, rest') =>
          match parseParts fuel rest' with
          | .error e => .error e
          | .ok ps => .ok ((if pre = [] then [] else [Part.lit pre]) ++ Part.code c :: ps)

/-- `parse_format_codes` -/
def parseFormat (s : List Char) : Except PErr (List Part) := parseParts (s.length + 1) s

/-! ## Values -/

/-- A fully evaluated Jsonnet value as the formatter sees it.  `other` covers null,
    booleans, arrays and objects: their type name (for error messages) and their
    `std.toString` rendering (for `%s`), both supplied by the driver. -/
inductive Val where
  | num (bits : Nat)
  | str (s : List Char)
  | other (ty : String) (rendered : List Char)
deriving Repr, DecidableEq

/-- `EvalErrorValueType::from_value(..).to_str()` -/
def typeOf : Val → String
  | .num _ => "number"
  | .str _ => "string"
  | .other ty _ => ty

def TWO63 : Nat := 9223372036854775808
def TWO52 : Nat := 4503599627370496
def TWO53 : Nat := 9007199254740992

def signBit (b : Nat) : Bool := decide (b ≥ TWO63)
def absBits (b : Nat) : Nat := b % TWO63
def isZero (b : Nat) : Bool := absBits b = 0

/-- `|value.trunc()|` as an exact integer, from the bit pattern. -/
def truncAbs (b : Nat) : Nat :=
  let e := absBits b / TWO52
  let m := if e = 0 then b % TWO52 else b % TWO52 + TWO52
  let e' := if e = 0 then 1 else e
  if e' ≥ 1075 then m * 2 ^ (e' - 1075) else m / 2 ^ (1075 - e')

/-- `value.trunc().is_sign_negative() && value.trunc() != 0.0` -/
def isNegInt (b : Nat) : Bool := signBit b && truncAbs b != 0

/-- `value.is_sign_negative() && value != 0.0` -/
def isNegFlt (b : Nat) : Bool := signBit b && !isZero b

/-- `float::try_to_u32` -/
def tryU32 (b : Nat) : Option Nat :=
  if isNegInt b then none
  else if truncAbs b < U32_LIMIT then some (truncAbs b) else none

/-! ## Errors and the host formatter -/

/-- Outcomes of rendering one directive (`do_std_format_code` and below). -/
inductive RErr where
  | needNumber (conv : Char) (ty : String)
  | charLen (n : Nat)
  | charBadCodepoint
  | charBadType (ty : String)
  /-- a panic inside format.rs: site 0 = the host formatter refusing a precision above
      65535; 1, 2 = an `unwrap()` on the host's `{:e}` output failing; 3 = `unreachable!()` -/
  | hostPanic (site : Nat)
  /-- driver-level: the request did not supply this host string -/
  | needHost (kind : Char) (bits : Nat) (prec : Nat)
deriving Repr, DecidableEq

/-- Outcomes of `std.format` as a whole. -/
inductive Err where
  | parse (e : PErr)
  | render (e : RErr)
  | notEnough (got : Nat)
  | tooMany (expected got : Nat)
  | precNotNumber (ty : String)
  | precInvalid
  | widthNotNumber (ty : String)
  | widthInvalid
  | objStarWidth | objStarPrec | objNeedKey
  | objMissingField (key : List Char)
  | fmtNotString (ty : String)
deriving Repr, DecidableEq

/-- The trusted host digit generators (all on `|value|`, keyed by its bit pattern). -/
structure Host where
  /-- `format!("{v:.p$}")` -/
  fixed : Nat → Nat → Option (List Char)
  /-- `format!("{v:.p$e}")` -/
  exp : Nat → Nat → Option (List Char)
  /-- `v.trunc().to_string()` (consulted only for |trunc v| ≥ 2^53) -/
  disp : Nat → Option (List Char)
  /-- `v.log10().floor()` -/
  log10floor : Nat → Option Int
  /-- the number printer behind `%s` (keyed by the full bit pattern, sign included) -/
  numStr : Nat → Option (List Char)

/-- Largest precision the Rust formatter accepts (`u16::MAX`); above it, it panics. -/
def HOST_LIMIT : Nat := 65535
/-- `MAX_HOST_PREC` -/
def MAX_HOST_PREC : Nat := 1100

def callFixed (h : Host) (ab p : Nat) : Except RErr (List Char) :=
  if p > HOST_LIMIT then .error (.hostPanic 0)
  else match h.fixed ab p with
    | some s => .ok s
    | none => .error (.needHost 'F' ab p)

def callExp (h : Host) (ab p : Nat) : Except RErr (List Char) :=
  if p > HOST_LIMIT then .error (.hostPanic 0)
  else match h.exp ab p with
    | some s => .ok s
    | none => .error (.needHost 'E' ab p)

def callLog (h : Host) (ab : Nat) : Except RErr Int :=
  match h.log10floor ab with
  | some e => .ok e
  | none => .error (.needHost 'L' ab 0)

/-! ## Digit loops -/

def lowerNum (d : Nat) : Char := hexDigit d
def upperNum (d : Nat) : Char := if d < 10 then Char.ofNat (48 + d) else Char.ofNat (55 + d)

/-- `while mag != 0 { digit = mag % radix; insert at front; mag = trunc(mag / radix) }`
    (exact in binary floating point on integer-valued doubles).  Fuel `m` suffices
    (`digitLoop_spec`). -/
def digitLoop (radix : Nat) (num : Nat → Char) : Nat → Nat → List Char → List Char
  | 0, _, acc => acc
  | fuel + 1, m, acc =>
    if m = 0 then acc else digitLoop radix num fuel (m / radix) (num (m % radix) :: acc)

def natDigits (radix : Nat) (num : Nat → Char) (m : Nat) : List Char :=
  digitLoop radix num m m []

/-- `value_abs.to_string()` of an integer-valued double: exact decimal digits below
    2^53 (contract of the shortest-round-trip printer, validated by the differential
    run on every case), the host's string above. -/
def displayInt (h : Host) (ab : Nat) : Except RErr (List Char) :=
  let m := truncAbs ab
  if m = 0 then .ok ['0']
  else if m < TWO53 then .ok (natDigits 10 lowerNum m)
  else match h.disp ab with
    | some s => .ok s
    | none => .error (.needHost 'D' ab 0)

/-! ## Rendering -/

def signStr (neg plus blank : Bool) : List Char :=
  if neg then ['-'] else if plus then ['+'] else if blank then [' '] else []

/-- `decorate_digits` -/
def decorate (digits : List Char) (neg : Bool) (minChars minDigits : Nat) (plus blank : Bool) :
    List Char :=
  let s := signStr neg plus blank
  let pad := max (minDigits - digits.length) (minChars - (s.length + digits.length))
  s ++ List.replicate pad '0' ++ digits

/-- digits part of `render_int` (radix 8, prefix "0" with `#`) -/
def octDigits (m : Nat) (zeroPrefix : List Char) : List Char :=
  if m = 0 then ['0'] else zeroPrefix ++ natDigits 8 lowerNum m

/-- `render_int` -/
def renderInt (neg : Bool) (m minChars minDigits : Nat) (blank plus : Bool)
    (zeroPrefix : List Char) : List Char :=
  let ds := octDigits m zeroPrefix
  let res := signStr neg plus blank
  let pad := max (minDigits - ds.length) (minChars - (res.length + ds.length))
  res ++ List.replicate pad '0' ++ ds

def hexDigits (m : Nat) (capitals : Bool) : List Char :=
  if m = 0 then ['0'] else natDigits 16 (if capitals then upperNum else lowerNum) m

def hexPrefix (addZerox capitals : Bool) : List Char :=
  if addZerox then (if capitals then ['0', 'X'] else ['0', 'x']) else []

/-- `render_hex` -/
def renderHex (b minChars minDigits : Nat) (blank plus addZerox capitals : Bool) : List Char :=
  let ds := hexDigits (truncAbs b) capitals
  let res := signStr (isNegInt b) plus blank ++ hexPrefix addZerox capitals
  let pad := max (minDigits - ds.length) (minChars - (res.length + ds.length))
  res ++ List.replicate pad '0' ++ ds

/-- `trim_end_matches('0')` -/
def trimEnd0 (s : List Char) : List Char := (s.reverse.dropWhile (· = '0')).reverse

/-- `strip_suffix('.').unwrap_or(..)` -/
def stripDot (s : List Char) : List Char := if s.getLast? = some '.' then s.dropLast else s

def trimZeros (s : List Char) (ensurePt : Bool) : List Char :=
  if ensurePt then trimEnd0 s else stripDot (trimEnd0 s)

/-- `render_float_def` -/
def renderFloatDef (h : Host) (b prec zp : Nat) (plus blank ensurePt trimZ : Bool) :
    Except RErr (List Char) :=
  let hp := min prec MAX_HOST_PREC
  match callFixed h (absBits b) hp with
  | .error e => .error e
  | .ok d0 =>
    let d1 := d0 ++ List.replicate (prec - hp) '0'
    let d2 :=
      if prec = 0 && ensurePt then d1 ++ ['.']
      else if prec != 0 && trimZ then trimZeros d1 ensurePt
      else d1
    .ok (decorate d2 (isNegFlt b) zp 0 plus blank)

/-- `str::parse::<i32>()`: optional sign, at least one digit, only digits, in range. -/
def parseI32 (s : List Char) : Option Int :=
  let body (ds : List Char) (neg : Bool) : Option Int :=
    if ds = [] ∨ !ds.all isDigit then none
    else
      let v : Int := if neg then -(digitsVal ds : Int) else (digitsVal ds : Int)
      if v < -2147483648 ∨ v > 2147483647 then none else some v
  match s with
  | [] => none
  | c :: r => if c = '-' then body r true else if c = '+' then body r false else body (c :: r) false

/-- `{exp_int:+03}` -/
def fmtExpInt (e : Int) : List Char :=
  let ds := if e.natAbs = 0 then ['0'] else natDigits 10 lowerNum e.natAbs
  (if e < 0 then '-' else '+') :: (if ds.length < 2 then '0' :: ds else ds)

/-- `render_float_exp` -/
def renderFloatExp (h : Host) (b prec zp : Nat) (plus blank ensurePt trimZ upper : Bool) :
    Except RErr (List Char) :=
  let hp := min prec MAX_HOST_PREC
  match callExp h (absBits b) hp with
  | .error e => .error e
  | .ok ds =>
    match splitAt1 'e' ds with
    | none => .error (.hostPanic 1)      -- `.position(..).unwrap()`
    | some (mant, expS) =>
      let mant1 := mant ++ List.replicate (prec - hp) '0'
      let mant2 := if prec != 0 && trimZ then trimZeros mant1 ensurePt else mant1
      match parseI32 expS with
      | none => .error (.hostPanic 2)    -- `.parse::<i32>().unwrap()`
      | some e =>
        let dot := if prec = 0 && ensurePt then ['.'] else []
        let digits := mant2 ++ dot ++ [if upper then 'E' else 'e'] ++ fmtExpInt e
        .ok (decorate digits (isNegFlt b) zp 0 plus blank)

/-- the `%g` / `%G` arm of `do_std_format_code` -/
def renderFloatG (h : Host) (b fpprec zp : Nat) (plus blank alt upper : Bool) :
    Except RErr (List Char) :=
  match (if isZero b then .ok 0 else callLog h (absBits b)) with
  | .error e => .error e
  | .ok exponent =>
    if exponent < -4 ∨ (exponent ≥ 0 ∧ exponent ≥ (fpprec : Int)) then
      renderFloatExp h b (max fpprec 1 - 1) zp plus blank alt (!alt) upper
    else
      match (if truncAbs b = 0 then .ok 1
             else match displayInt h (absBits b) with
               | .ok d => .ok d.length
               | .error e => .error e : Except RErr Nat) with
      | .error e => .error e
      | .ok dbp => renderFloatDef h b (fpprec - dbp) zp plus blank alt (!alt)

def validScalar (n : Nat) : Bool := n < 0xD800 || (0xDFFF < n && n < 0x110000)

def needNum (k : Char) (v : Val) : Except RErr Nat :=
  match v with
  | .num b => .ok b
  | v => .error (.needNumber k (typeOf v))

/-- `do_std_format_code` (`fw`, `prec`: the resolved numbers; `Percent` never gets here) -/
def renderCode (h : Host) (c : Code) (fw prec : Nat) (v : Val) : Except RErr (List Char) :=
  let fpprec := if c.prec.isSome then prec else 6
  let iprec := if c.prec.isSome then prec else 0
  let zp := if c.flags.zero && !c.flags.left then fw else 0
  match c.conv with
  | .dec =>
    match needNum 'd' v with
    | .error e => .error e
    | .ok b =>
      match displayInt h (absBits b) with
      | .error e => .error e
      | .ok ds => .ok (decorate ds (isNegInt b) zp iprec c.flags.plus c.flags.blank)
  | .oct =>
    match needNum 'o' v with
    | .error e => .error e
    | .ok b =>
      .ok (renderInt (isNegInt b) (truncAbs b) zp iprec c.flags.blank c.flags.plus
            (if c.flags.alt then ['0'] else []))
  | .hexL =>
    match needNum 'x' v with
    | .error e => .error e
    | .ok b => .ok (renderHex b zp iprec c.flags.blank c.flags.plus c.flags.alt false)
  | .hexU =>
    match needNum 'x' v with
    | .error e => .error e
    | .ok b => .ok (renderHex b zp iprec c.flags.blank c.flags.plus c.flags.alt true)
  | .expL =>
    match needNum 'e' v with
    | .error e => .error e
    | .ok b => renderFloatExp h b fpprec zp c.flags.plus c.flags.blank c.flags.alt false false
  | .expU =>
    match needNum 'e' v with
    | .error e => .error e
    | .ok b => renderFloatExp h b fpprec zp c.flags.plus c.flags.blank c.flags.alt false true
  | .fltL =>
    match needNum 'f' v with
    | .error e => .error e
    | .ok b => renderFloatDef h b fpprec zp c.flags.plus c.flags.blank c.flags.alt false
  | .fltU =>
    match needNum 'f' v with
    | .error e => .error e
    | .ok b => renderFloatDef h b fpprec zp c.flags.plus c.flags.blank c.flags.alt false
  | .gL =>
    match needNum 'g' v with
    | .error e => .error e
    | .ok b => renderFloatG h b fpprec zp c.flags.plus c.flags.blank c.flags.alt false
  | .gU =>
    match needNum 'g' v with
    | .error e => .error e
    | .ok b => renderFloatG h b fpprec zp c.flags.plus c.flags.blank c.flags.alt true
  | .chr =>
    match v with
    | .str s => if s.length ≠ 1 then .error (.charLen s.length) else .ok s
    | .num b =>
      match tryU32 b with
      | none => .error .charBadCodepoint
      | some n => if validScalar n then .ok [Char.ofNat n] else .error .charBadCodepoint
    | .other ty _ => .error (.charBadType ty)
  | .str =>
    match v with
    | .str s => .ok s
    | .other _ r => .ok r
    | .num b =>
      match h.numStr b with
      | some s => .ok s
      | none => .error (.needHost 'S' b 0)
  | .pct => .error (.hostPanic 3)        -- `unreachable!()`

/-- The padding step of `do_std_format_codes_array_3` / `object_2`:
    `s.chars().count()` against the width. -/
def padField (left : Bool) (fw : Nat) (s : List Char) : List Char :=
  if s.length < fw then
    if left then s ++ List.replicate (fw - s.length) ' '
    else List.replicate (fw - s.length) ' ' ++ s
  else s

/-! ## Argument consumption: arrays -/

/-- `WidthTmp` -/
inductive WT where
  | none
  | inline (n : Nat)
  | val (v : Val)
deriving Repr, DecidableEq

/-- the `match code.fw` / `match code.prec` of `do_std_format_codes_array_1` -/
def takeW (spec : Option FW) (arr : List Val) (i : Nat) : Except Err (WT × Nat) :=
  match spec with
  | none => .ok (.none, i)
  | some (.inline v) => .ok (.inline v, i)
  | some .ext =>
    match arr[i]? with
    | some v => .ok (.val v, i + 1)
    | none => .error (.notEnough arr.length)

/-- the value popped in `array_2` for a precision (`PushU32AsValue(v)` yields `v`) -/
def evalPrec (w : WT) : Except Err Nat :=
  match w with
  | .none => .ok 0
  | .inline v => .ok v
  | .val (.num b) => match tryU32 b with
    | some n => .ok n
    | none => .error .precInvalid
  | .val v => .error (.precNotNumber (typeOf v))

def evalWidth (w : WT) : Except Err Nat :=
  match w with
  | .none => .ok 0
  | .inline v => .ok v
  | .val (.num b) => match tryU32 b with
    | some n => .ok n
    | none => .error .widthInvalid
  | .val v => .error (.widthNotNumber (typeOf v))

/-- One directive of the array machine (`array_1` → `array_2` → `StdFormatCode` →
    `array_3`): returns the padded field and the new `array_i`. -/
def stepArray (h : Host) (c : Code) (arr : List Val) (i : Nat) : Except Err (List Char × Nat) :=
  match takeW c.fw arr i with
  | .error e => .error e
  | .ok (fwT, i1) =>
    match takeW c.prec arr i1 with
    | .error e => .error e
    | .ok (precT, i2) =>
      match (if c.prec.isSome && usesPrec c.conv then evalPrec precT else .ok 0) with
      | .error e => .error e
      | .ok prec =>
        match (if c.fw.isSome then evalWidth fwT else .ok 0) with
        | .error e => .error e
        | .ok fw =>
          if c.conv = .pct then .ok (padField c.flags.left fw ['%'], i2)
          else
            match arr[i2]? with
            | none => .error (.notEnough arr.length)
            | some item =>
              match renderCode h c fw prec item with
              | .error e => .error (.render e)
              | .ok s => .ok (padField c.flags.left fw s, i2 + 1)

/-- The array machine from `(part_i, array_i)` with the output accumulated so far. -/
def fmtArrayGo (h : Host) (arr : List Val) : List Part → Nat → List Char → Except Err (List Char)
  | [], i, acc =>
    if i < arr.length then .error (.tooMany i arr.length) else .ok acc
  | .lit s :: ps, i, acc => fmtArrayGo h arr ps i (acc ++ s)
  | .code c :: ps, i, acc =>
    match stepArray h c arr i with
    | .error e => .error e
    | .ok (s, i') => fmtArrayGo h arr ps i' (acc ++ s)

/-! ## Argument consumption: objects -/

def lookupField (o : List (List Char × Val)) (k : List Char) : Option Val :=
  match o with
  | [] => none
  | (k', v) :: r => if k' = k then some v else lookupField r k

/-- the `match code.fw` / `match code.prec` of `do_std_format_codes_object_1`
    (`usize::try_from(u32)` cannot fail on a 64-bit target) -/
def objWidth (spec : Option FW) (star : Err) : Except Err Nat :=
  match spec with
  | none => .ok 0
  | some (.inline v) => .ok v
  | some .ext => .error star

/-- One directive of `do_std_format_codes_object_1` + `object_2`. -/
def stepObject (h : Host) (c : Code) (o : List (List Char × Val)) : Except Err (List Char) :=
  match objWidth c.fw .objStarWidth with
  | .error e => .error e
  | .ok fw =>
    match objWidth c.prec .objStarPrec with
    | .error e => .error e
    | .ok prec =>
      if c.conv = .pct then .ok (padField c.flags.left fw ['%'])
      else
        match c.mkey with
        | none => .error .objNeedKey
        | some k =>
          match lookupField o k with
          | none => .error (.objMissingField k)
          | some item =>
            match renderCode h c fw prec item with
            | .error e => .error (.render e)
            | .ok s => .ok (padField c.flags.left fw s)

def fmtObjectGo (h : Host) (o : List (List Char × Val)) : List Part → List Char → Except Err (List Char)
  | [], acc => .ok acc
  | .lit s :: ps, acc => fmtObjectGo h o ps (acc ++ s)
  | .code c :: ps, acc =>
    match stepObject h c o with
    | .error e => .error e
    | .ok s => fmtObjectGo h o ps (acc ++ s)

/-! ## `do_std_format` -/

inductive Vals where
  | arr (l : List Val)
  | obj (l : List (List Char × Val))
  | one (v : Val)
deriving Repr

/-- `std.format(f, vals)` / `f % vals` -/
def format (h : Host) (f : Val) (vals : Vals) : Except Err (List Char) :=
  match f with
  | .str s =>
    match parseFormat s with
    | .error e => .error (.parse e)
    | .ok parts =>
      match vals with
      | .arr l => fmtArrayGo h l parts 0 []
      | .obj o => fmtObjectGo h o parts []
      | .one v => fmtArrayGo h [v] parts 0 []
  | v => .error (.fmtNotString (typeOf v))

/-! ## Driver -/

def utf8DecodeAux : Nat → List Nat → List Char → List Char
  | 0, _, acc => acc.reverse
  | _, [], acc => acc.reverse
  | fuel + 1, b :: rest, acc =>
    if b < 0x80 then utf8DecodeAux fuel rest (Char.ofNat b :: acc)
    else if b < 0xE0 then
      match rest with
      | c1 :: r => utf8DecodeAux fuel r (Char.ofNat ((b % 32) * 64 + c1 % 64) :: acc)
      | _ => acc.reverse
    else if b < 0xF0 then
      match rest with
      | c1 :: c2 :: r =>
        utf8DecodeAux fuel r (Char.ofNat ((b % 16) * 4096 + (c1 % 64) * 64 + c2 % 64) :: acc)
      | _ => acc.reverse
    else
      match rest with
      | c1 :: c2 :: c3 :: r =>
        utf8DecodeAux fuel r
          (Char.ofNat ((b % 8) * 262144 + (c1 % 64) * 4096 + (c2 % 64) * 64 + c3 % 64) :: acc)
      | _ => acc.reverse

def utf8Decode (bs : List Nat) : List Char := utf8DecodeAux bs.length bs []

def encodeChars (s : List Char) : String := hexEnc (s.flatMap (fun c => utf8EncodeChar c.toNat))

def decodeHexStr (s : String) : Option (List Char) := (hexDecode s).map utf8Decode

def parseHexNat (s : String) : Option Nat :=
  s.toList.foldl (fun a c => match a, hexVal c with
    | some a, some d => some (a * 16 + d)
    | _, _ => none) (some 0)

def hex16 (n : Nat) : String :=
  String.ofList ((List.range 16).reverse.map (fun i => hexDigit (n / 16 ^ i % 16)))

def parseVal (tok : String) : Option Val :=
  match tok.splitOn ":" with
  | ["n", b] => if b.length = 16 then (parseHexNat b).map Val.num else none
  | ["s", hx] => (decodeHexStr hx).map Val.str
  | ["o", ty, _src, rend] => (decodeHexStr rend).map (Val.other ty)
  | _ => none

structure Req where
  vals : List Val := []
  fields : List (List Char × Val) := []
  table : List (String × String) := []

def parseRest : List String → Req → Option Req
  | [], r => some { r with vals := r.vals.reverse, fields := r.fields.reverse }
  | a :: rest, r =>
    if a.startsWith "H:" then
      match (a.drop 2).toString.splitOn "=" with
      | [k, v] => parseRest rest { r with table := (k, v) :: r.table }
      | _ => none
    else if a.startsWith "v:" then
      match parseVal (a.drop 2).toString with
      | some v => parseRest rest { r with vals := v :: r.vals }
      | none => none
    else if a.startsWith "k:" then
      match (a.drop 2).toString.splitOn "=" with
      | [k, v] =>
        match decodeHexStr k, parseVal v with
        | some k, some v => parseRest rest { r with fields := (k, v) :: r.fields }
        | _, _ => none
      | _ => none
    else none

def tableHost (t : List (String × String)) : Host where
  fixed ab p := (t.lookup s!"F:{hex16 ab}:{p}").bind decodeHexStr
  exp ab p := (t.lookup s!"E:{hex16 ab}:{p}").bind decodeHexStr
  disp ab := (t.lookup s!"D:{hex16 ab}").bind decodeHexStr
  log10floor ab := (t.lookup s!"L:{hex16 ab}").bind String.toInt?
  numStr b := (t.lookup s!"S:{hex16 b}").bind decodeHexStr

def showPErr : PErr → String
  | .truncated => "truncated"
  | .widthTooLarge => "widthTooLarge"
  | .precTooLarge => "precTooLarge"
  | .missingPrecDigits => "missingPrecDigits"
  | .invalidConv c => s!"invalidConv:{c.toNat}"
  | .fuel => "modelFuel"

def showRErr : RErr → String
  | .needNumber k ty => s!"err needNumber:{k}:{ty}"
  | .charLen n => s!"err charLen:{n}"
  | .charBadCodepoint => "err charBadCodepoint"
  | .charBadType ty => s!"err charBadType:{ty}"
  | .hostPanic n => s!"panic site{n}"
  | .needHost k b p =>
    if k = 'F' ∨ k = 'E' then s!"needhost {hex16 b} {k}:{p}" else s!"needhost {hex16 b} {k}"

def showErr : Err → String
  | .parse e => "err " ++ showPErr e
  | .render e => showRErr e
  | .notEnough g => s!"err notEnough:{g}"
  | .tooMany e g => s!"err tooMany:{e}:{g}"
  | .precNotNumber ty => s!"err precNotNumber:{ty}"
  | .precInvalid => "err precInvalid"
  | .widthNotNumber ty => s!"err widthNotNumber:{ty}"
  | .widthInvalid => "err widthInvalid"
  | .objStarWidth => "err objStarWidth"
  | .objStarPrec => "err objStarPrec"
  | .objNeedKey => "err objNeedKey"
  | .objMissingField k => "err objMissingField:" ++ encodeChars k
  | .fmtNotString ty => s!"err fmtNotString:{ty}"

/-- `fmt render via=<fmt|pct> f=<val> arr|obj|one <v:..|k:..|H:..>...` -/
def handleRender (args : List String) : Option String :=
  match args with
  | via :: f :: shape :: rest =>
    if via ≠ "via=fmt" ∧ via ≠ "via=pct" then none
    else if !f.startsWith "f=" then none
    else
      match parseVal (f.drop 2).toString, parseRest rest {} with
      | some fv, some r =>
        let h := tableHost r.table
        let vals : Option Vals :=
          if shape = "arr" then some (.arr r.vals)
          else if shape = "obj" then some (.obj r.fields)
          else if shape = "one" then
            match r.vals with
            | [.other ty s] => if ty = "array" ∨ ty = "object" then none else some (.one (.other ty s))
            | [v] => some (.one v)
            | _ => none
          else none
        match vals with
        | none => none
        | some vals =>
          match format h fv vals with
          | .ok s => some ("ok " ++ encodeChars s)
          | .error e => some (showErr e)
      | _, _ => none
  | _ => none

/-- `fmt <sub> <args...>` : one canonical answer line, or `none` for a malformed request. -/
def handle (args : List String) : Option String :=
  match args with
  | "render" :: rest => handleRender rest
  | _ => none

end Rsj.Format
