import RsjProofs.EvalNoNaNTasks
/-!
  "partial_cmp of NaN": `step` on the evaluation of an expression, objects, arrays, locals, operators, builtins.
-/
open Std.Do
set_option mvcgen.warning false
namespace Rsj.Eval.NoNaN
open Rsj.Core Rsj.Eval Rsj.Eval.Scope

section
variable (F : FloatNaNFacts) (hp : PureNaNFree) (cfg : Cfg) (rec : Task → M Value) (hrec : RecOk3 rec)
include F hp hrec

set_option maxHeartbeats 2000000 in
theorem eval_object_nn (ms : Members) (env : EId) (tail : Bool) (d : Nat) :
    ⦃fun st => ⌜NN st⌝⦄ step cfg rec (.eval (.object ms) env tail d) ⦃Q3 VNN⦄ := by
  have hT : True := trivial
  have hr := rec_nn F rec hrec
  have hb := builtinCall3_nn F cfg rec hrec hp
  have hc := binaryOp3_nn F cfg rec hrec
  have ho := ord_nn F
  scase

set_option maxHeartbeats 2000000 in
theorem eval_objectComp_nn (l : Binds) (n : Expr) (p : Bool) (b : Expr) (sp : Specs) (env : EId) (tail : Bool) (d : Nat) :
    ⦃fun st => ⌜NN st⌝⦄ step cfg rec (.eval (.objectComp l n p b sp) env tail d) ⦃Q3 VNN⦄ := by
  have hT : True := trivial
  have hr := rec_nn F rec hrec
  have hb := builtinCall3_nn F cfg rec hrec hp
  have hc := binaryOp3_nn F cfg rec hrec
  have ho := ord_nn F
  scase

set_option maxHeartbeats 2000000 in
theorem eval_array_nn (items : Exprs) (env : EId) (tail : Bool) (d : Nat) :
    ⦃fun st => ⌜NN st⌝⦄ step cfg rec (.eval (.array items) env tail d) ⦃Q3 VNN⦄ := by
  have hT : True := trivial
  have hr := rec_nn F rec hrec
  have hb := builtinCall3_nn F cfg rec hrec hp
  have hc := binaryOp3_nn F cfg rec hrec
  have ho := ord_nn F
  scase

set_option maxHeartbeats 2000000 in
theorem eval_arrayComp_nn (b : Expr) (sp : Specs) (env : EId) (tail : Bool) (d : Nat) :
    ⦃fun st => ⌜NN st⌝⦄ step cfg rec (.eval (.arrayComp b sp) env tail d) ⦃Q3 VNN⦄ := by
  have hT : True := trivial
  have hr := rec_nn F rec hrec
  have hb := builtinCall3_nn F cfg rec hrec hp
  have hc := binaryOp3_nn F cfg rec hrec
  have ho := ord_nn F
  scase

set_option maxHeartbeats 2000000 in
theorem eval_local_nn (bs : Binds) (body : Expr) (env : EId) (tail : Bool) (d : Nat) :
    ⦃fun st => ⌜NN st⌝⦄ step cfg rec (.eval (.local_ bs body) env tail d) ⦃Q3 VNN⦄ := by
  have hT : True := trivial
  have hr := rec_nn F rec hrec
  have hb := builtinCall3_nn F cfg rec hrec hp
  have hc := binaryOp3_nn F cfg rec hrec
  have ho := ord_nn F
  scase

set_option maxHeartbeats 2000000 in
theorem eval_objExt_nn (e : Expr) (ms : Members) (env : EId) (tail : Bool) (d : Nat) :
    ⦃fun st => ⌜NN st⌝⦄ step cfg rec (.eval (.objExt e ms) env tail d) ⦃Q3 VNN⦄ := by
  have hT : True := trivial
  have hr := rec_nn F rec hrec
  have hb := builtinCall3_nn F cfg rec hrec hp
  have hc := binaryOp3_nn F cfg rec hrec
  have ho := ord_nn F
  scase

set_option maxHeartbeats 2000000 in
theorem eval_binary_nn (op : BinOp) (a b : Expr) (env : EId) (tail : Bool) (d : Nat) :
    ⦃fun st => ⌜NN st⌝⦄ step cfg rec (.eval (.binary op a b) env tail d) ⦃Q3 VNN⦄ := by
  have hT : True := trivial
  have hr := rec_nn F rec hrec
  have hb := builtinCall3_nn F cfg rec hrec hp
  have hc := binaryOp3_nn F cfg rec hrec
  have ho := ord_nn F
  scase

set_option maxHeartbeats 2000000 in
theorem eval_builtin_nn (b : Builtin) (args : Exprs) (env : EId) (tail : Bool) (d : Nat) :
    ⦃fun st => ⌜NN st⌝⦄ step cfg rec (.eval (.builtin b args) env tail d) ⦃Q3 VNN⦄ := by
  have hT : True := trivial
  have hr := rec_nn F rec hrec
  have hb := builtinCall3_nn F cfg rec hrec hp
  have hc := binaryOp3_nn F cfg rec hrec
  have ho := ord_nn F
  scase

end
end Rsj.Eval.NoNaN
