/-
  SPECIFICATION (not a model of Rust code): a reader of the YAML sub-language that
  `std.manifestYamlDoc` writes, following YAML 1.2.2 for everything it accepts:

  * block sequences (`- ` entries) and block mappings (`key:` entries); the
    indentation of a nested collection is DETECTED from its first line and must be
    larger than the parent's — except that a block sequence may sit at the same
    indentation as the mapping key it belongs to (spec §8.2.1/8.2.2, `seq-space`);
    a compact mapping or sequence may start on the line of a `- ` (§8.2.1, the `- `
    counts as indentation);
  * flow scalars on one line: `null`, `true`, `false`, numbers (the JSON number
    grammar, a subset of the core-schema int/float forms), double-quoted scalars
    with the JSON escapes (a subset of the YAML escapes), the empty flow
    collections `[]` and `{}`;
  * literal block scalars with the header `|` alone: clip chomping, indentation
    auto-detected from the first non-empty line (§8.1.1.1; leading empty lines with
    more spaces are an error), content restricted to `nb-char`s;
  * mapping keys: double-quoted, or plain scalars over `[0-9A-Za-z/_.-]` that the
    core schema resolves to a string (a key resolving to null/bool/int/float is
    not representable and rejected), followed by `:` and a space or the line end;
    duplicate keys are an error (§3.2.1.1).
  Everything else (comments, anchors, tags, folded scalars, multi-line flow
  collections, plain string values, `---`/`...` markers, tabs as separation …) is
  outside the sub-language and rejected (`none`).

  `fuel` only makes the mutual recursion structural; `readYaml` supplies more than
  any text can use (`RsjProofs/YamlRoundtrip.lean`).
-/
import RsjModel.Yaml
import RsjProofs.JsonKeys
namespace Rsj.Yaml
open Rsj.Json

/-- number of leading spaces of a line -/
def countSp : Str → Nat
  | [] => 0
  | c :: r => if c = 32 then countSp r + 1 else 0

/-- the line without its leading spaces -/
def dropSp : Str → Str
  | [] => []
  | c :: r => if c = 32 then dropSp r else c :: r

/-- `n` spaces -/
def spaces (n : Nat) : Str := List.replicate n 32

/-! ## one-line flow scalars -/

def readScalar (s : Str) : Option JVal :=
  if s = sNull then some .null
  else if s = sTrue then some (.bool true)
  else if s = sFalse then some (.bool false)
  else if s = [91, 93] then some (.arr [])
  else if s = [123, 125] then some (.obj [])
  else
    match s with
    | [] => none
    | c :: _ =>
      if c = 34 then
        match lexString s with
        | .ok (some (str, [])) => some (.str str)
        | _ => none
      else
        match lexNumber s with
        | .ok (some (t, [])) => some (.num t)
        | _ => none

/-! ## literal block scalars -/

/-- YAML 1.2 `nb-char`: printable, not a line break, not the byte order mark -/
def nbChar (c : Nat) : Bool :=
  c == 9 || (0x20 ≤ c && c ≤ 0x7E) || c == 0x85 || (0xA0 ≤ c && c ≤ 0xD7FF) ||
    (0xE000 ≤ c && c ≤ 0xFFFD && c != 0xFEFF) || (0x10000 ≤ c && c ≤ 0x10FFFF)

/-- indentation of the first non-empty line (a line of spaces only is empty) -/
def blockIndent : List Str → Option Nat
  | [] => none
  | l :: ls => if dropSp l = [] then blockIndent ls else some (countSp l)

/-- do the empty lines before the first non-empty line have at most `m` spaces? -/
def leadingOk (m : Nat) : List Str → Bool
  | [] => true
  | l :: ls => if dropSp l = [] then decide (countSp l ≤ m) && leadingOk m ls else true

/-- the lines of the scalar (`m` columns of indentation removed) and the lines after
    it: the scalar extends over empty lines and lines indented by at least `m` -/
def takeBlock (m : Nat) : List Str → List Str × List Str
  | [] => ([], [])
  | l :: ls =>
    if dropSp l = [] ∨ m ≤ countSp l then
      let p := takeBlock m ls
      (l.drop m :: p.1, p.2)
    else ([], l :: ls)

/-- remove the trailing empty lines -/
def stripTrailing : List Str → List Str
  | [] => []
  | l :: ls =>
    match stripTrailing ls with
    | [] => if l = [] then [] else [l]
    | r => l :: r

def joinNl : List Str → Str
  | [] => []
  | [l] => l
  | l :: m :: ls => l ++ 10 :: joinNl (m :: ls)

/-- the value of a `|` scalar whose content starts on `ls`; content indentation must
    be at least `minIndent`.  Clip chomping: the line break after the last
    non-empty content line is kept if there is one (the text does not end there),
    later empty lines are dropped. -/
def readBlockScalar (minIndent : Nat) (ls : List Str) : Option (Str × List Str) :=
  match blockIndent ls with
  | none => some ([], [])                       -- only empty lines up to the end of the text
  | some m =>
    if m < minIndent then
      -- the scalar is empty; the empty lines before the less indented line belong to it
      some ([], ls.dropWhile (fun l => dropSp l = []))
    else if !leadingOk m ls then none
    else
      let p := takeBlock m ls
      let content := stripTrailing p.1
      if !(content.all (fun l => l.all nbChar)) then none
      else
        some (joinNl content ++ (if content.length < p.1.length ∨ p.2 ≠ [] then [10] else []), p.2)

/-! ## keys -/

/-- `key:` at the start of a line's content: the key and what follows the colon -/
def readKey (s : Str) : Option (Str × Str) :=
  match s with
  | [] => none
  | c :: _ =>
    if c = 34 then
      match lexString s with
      | .ok (some (k, 58 :: r)) => some (k, r)
      | _ => none
    else
      match s.dropWhile yPlainChar with
      | 58 :: r =>
        let k := s.takeWhile yPlainChar
        if k = [45] ∨ coreNonString k then none else some (k, r)
      | _ => none

/-- does the content of a line start a block sequence entry (`-` then space or end)? -/
def isSeqLine : Str → Bool
  | [45] => true
  | 45 :: 32 :: _ => true
  | _ => false

/-! ## block collections -/

mutual
/-- a block collection starting on the first of `ls`; its indentation is that of the
    first line and must be at least `seqMin` for a sequence, `mapMin` for a mapping -/
def readBlock : Nat → Nat → Nat → List Str → Option (JVal × List Str)
  | 0, _, _, _ => none
  | _ + 1, _, _, [] => none
  | f + 1, seqMin, mapMin, l :: ls =>
    if dropSp l = [] then none                  -- an empty line is not a collection (an empty node is `null`)
    else if isSeqLine (dropSp l) then
      if seqMin ≤ countSp l then
        match readSeq f (countSp l) (l :: ls) with
        | some (xs, r) => some (.arr xs, r)
        | none => none
      else none
    else if mapMin ≤ countSp l then
      match readMap f (countSp l) (l :: ls) with
      | some (fs, r) => some (.obj fs, r)
      | none => none
    else none
termination_by structural f _ _ _ => f
/-- the entries of a block sequence at indentation `i` -/
def readSeq : Nat → Nat → List Str → Option (List JVal × List Str)
  | 0, _, _ => none
  | _ + 1, _, [] => some ([], [])
  | f + 1, i, l :: ls =>
    if countSp l = i ∧ isSeqLine (dropSp l) then
      match readEntry f i ((dropSp l).drop 1) ls with
      | some (x, r) =>
        match readSeq f i r with
        | some (xs, r') => some (x :: xs, r')
        | none => none
      | none => none
    else some ([], l :: ls)
termination_by structural f _ _ => f
/-- the node of a sequence entry: `rem` is the rest of the line after the `-` -/
def readEntry : Nat → Nat → Str → List Str → Option (JVal × List Str)
  | 0, _, _, _ => none
  | f + 1, i, [], ls => readBlock f (i + 1) (i + 1) ls
  | f + 1, i, c :: r, ls =>
    if c ≠ 32 then none
    else
      match readScalar r with
      | some v => some (v, ls)
      | none =>
        if r = [124] then
          match readBlockScalar (i + 1) ls with
          | some (s, rest) => some (.str s, rest)
          | none => none
        else
          -- compact collection: the `- ` counts as indentation
          readBlock f (i + 2) (i + 2) ((spaces (i + 2) ++ r) :: ls)
termination_by structural f _ _ _ => f
/-- the entries of a block mapping at indentation `i` -/
def readMap : Nat → Nat → List Str → Option (List (Str × JVal) × List Str)
  | 0, _, _ => none
  | _ + 1, _, [] => some ([], [])
  | f + 1, i, l :: ls =>
    if dropSp l = [] then some ([], l :: ls)     -- an empty line ends the mapping (only empty lines may follow)
    else if countSp l = i then
      match readKey (dropSp l) with
      | some (k, rem) =>
        match readField f i rem ls with
        | some (x, r) =>
          match readMap f i r with
          | some (fs, r') => if hasKey k fs then none else some ((k, x) :: fs, r')
          | none => none
        | none => none
      | none => none
    else some ([], l :: ls)
termination_by structural f _ _ => f
/-- the value of a mapping entry: `rem` is the rest of the line after the `:` -/
def readField : Nat → Nat → Str → List Str → Option (JVal × List Str)
  | 0, _, _, _ => none
  | f + 1, i, [], ls => readBlock f i (i + 1) ls
  | _ + 1, i, c :: r, ls =>
    if c ≠ 32 then none
    else
      match readScalar r with
      | some v => some (v, ls)
      | none =>
        if r = [124] then
          match readBlockScalar (i + 1) ls with
          | some (s, rest) => some (.str s, rest)
          | none => none
        else none
termination_by structural f _ _ _ => f
end

/-- only empty lines (spaces only): what may follow the document's node -/
def allBlank (ls : List Str) : Bool := ls.all (fun l => dropSp l = [])

/-- a YAML document of the sub-language: a flow scalar on one line, a `|` scalar,
    or a block collection; only empty lines may follow (a text that ends with a line
    break has an empty last line) -/
def readYaml (text : Str) : Option JVal :=
  match linesOf text with
  | [] => none
  | l :: ls =>
    match (if allBlank ls then readScalar l else none) with
    | some v => some v
    | none =>
      if l = [124] then
        match readBlockScalar 0 ls with
        | some (s, rest) => if allBlank rest then some (.str s) else none
        | none => none
      else
        match readBlock (4 * text.length + 4) 0 0 (l :: ls) with
        | some (v, rest) => if allBlank rest then some v else none
        | none => none

end Rsj.Yaml
