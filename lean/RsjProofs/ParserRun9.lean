/-
  C15 print/parse, part 9: `parse_expr` and `parse_root_expr` on printed fragment trees.
-/
import RsjProofs.ParserRun8
namespace Rsj.Parser

section
variable {toks : List Token}

theorem Br.imp {Q Q' : Expr → Prop} (hq : ∀ i, Q i → Q' i) {e : Expr} (h : Br Q e) : Br Q' e := by
  induction h with
  | null sp => exact .null sp
  | bool b sp => exact .bool b sp
  | selfObj sp => exact .selfObj sp
  | dollar sp => exact .dollar sp
  | str s sp => exact .str s sp
  | textBlock s sp => exact .textBlock s sp
  | number n sp => exact .number n sp
  | ident i sp => exact .ident i sp
  | superField ssp name sp => exact .superField ssp name sp
  | superIndex ssp sp hi hh => exact .superIndex ssp sp hi (hq _ hh)
  | paren sp _ ih => exact .paren sp ih
  | unary op sp _ ih => exact .unary op sp ih
  | binary op sp _ _ ihl ihr => exact .binary op sp ihl ihr
  | field name sp _ ih => exact .field name sp ih
  | index sp _ hi hh ih => exact .index sp ih hi (hq _ hh)
  | inSuper ssp sp _ ih => exact .inSuper ssp sp ih
  | call args ts sp _ ha ih => exact .call args ts sp ih (fun a hm => ⟨(ha a hm).1, hq _ (ha a hm).2⟩)

/-- `parse_expr` (with enough fuel) reads back a printed fragment tree -/
def MainP (toks : List Token) (e : Expr) : Prop :=
  ∀ (f0 : Nat) (st : PState toks) (tk : TokKind) (T : List TokKind), st.kinds = P e 0 ++ tk :: T →
    StopTok tk → 50 * st.kinds.length + 10 ≤ f0 →
    ∃ e' st', parseExprF f0 st = .ok (e', st') ∧ e'.erase = e.erase ∧ st'.kinds = tk :: T

theorem main_of_br {e : Expr} (h : Br (MainP toks) e) : MainP toks e := by
  intro f0 st tk T hk hstop hf
  obtain ⟨f, rfl⟩ : ∃ f, f0 = f + 1 := ⟨f0 - 1, by omega⟩
  have hbr : Br (Handles (parseExprF (toks := toks) f) st.kinds.length) e := by
    refine Br.imp (fun i hi => ?_) h
    intro sti tk' T' hk' hlen hstop'
    exact hi f sti tk' T' hk' hstop' (by omega)
  obtain ⟨S', e', st', n, hb, he, hk', hn, hr⟩ := (frag_all (parseExprF f) st.kinds.length hbr).2.2.2 initKind
    initKind [] st tk T (Nat.le_refl _) (by rw [initKind_prec]; exact hk) (Nat.le_refl _) hstop.1
    (fun j _ => hstop.2 j)
  have := Below_self hb
  subst this
  obtain ⟨st'', hstep, hk''⟩ := binaryRhs_miss (k := initKind) e' [] (st := st')
    (by rw [cur_kind_of_kinds hk']; exact hstop.2 _)
  have hreach := Reach.trans (parseExprF f) hr (Reach.binaryRhs (parseExprF f) (B := st.kinds.length + 2) hstep)
  have hlenP : (P e 0).length ≤ st.kinds.length := by rw [hk]; simp
  rw [initKind_prec] at hn
  refine ⟨e', st'', ?_, he, by rw [hk'', hk']⟩
  obtain ⟨g, hg⟩ : ∃ g, f = (g + 1) + (n + 1) := ⟨f - (n + 1) - 1, by omega⟩
  have hrun := hreach (g + 1) (by omega)
  rw [← hg] at hrun
  rw [parseExprF]
  show exprLoop (parseExprF f) f [] (.binary initKind) st = _
  rw [hrun, exprLoop]
  rfl

theorem frag_main {e : Expr} (h : Frag e) : Br (MainP toks) e ∧ MainP toks e := by
  induction h with
  | null sp => exact ⟨.null sp, main_of_br (.null sp)⟩
  | bool b sp => exact ⟨.bool b sp, main_of_br (.bool b sp)⟩
  | selfObj sp => exact ⟨.selfObj sp, main_of_br (.selfObj sp)⟩
  | dollar sp => exact ⟨.dollar sp, main_of_br (.dollar sp)⟩
  | str s sp => exact ⟨.str s sp, main_of_br (.str s sp)⟩
  | textBlock s sp => exact ⟨.textBlock s sp, main_of_br (.textBlock s sp)⟩
  | number n sp => exact ⟨.number n sp, main_of_br (.number n sp)⟩
  | ident i sp => exact ⟨.ident i sp, main_of_br (.ident i sp)⟩
  | superField ssp name sp => exact ⟨.superField ssp name sp, main_of_br (.superField ssp name sp)⟩
  | superIndex ssp sp hi ih =>
    have hb : Br (MainP toks) _ := .superIndex ssp sp hi ih.2
    exact ⟨hb, main_of_br hb⟩
  | paren sp _ ih =>
    have hb : Br (MainP toks) _ := .paren sp ih.1
    exact ⟨hb, main_of_br hb⟩
  | unary op sp _ ih =>
    have hb : Br (MainP toks) _ := .unary op sp ih.1
    exact ⟨hb, main_of_br hb⟩
  | binary op sp _ _ ihl ihr =>
    have hb : Br (MainP toks) _ := .binary op sp ihl.1 ihr.1
    exact ⟨hb, main_of_br hb⟩
  | field name sp _ ih =>
    have hb : Br (MainP toks) _ := .field name sp ih.1
    exact ⟨hb, main_of_br hb⟩
  | index sp _ hi ihe ihi =>
    have hb : Br (MainP toks) _ := .index sp ihe.1 hi ihi.2
    exact ⟨hb, main_of_br hb⟩
  | inSuper ssp sp _ ih =>
    have hb : Br (MainP toks) _ := .inSuper ssp sp ih.1
    exact ⟨hb, main_of_br hb⟩
  | call args ts sp _ ha ihf iha =>
    have hb : Br (MainP toks) _ := .call args ts sp ihf.1 (fun a hm => ⟨ha a hm, (iha a hm).2⟩)
    exact ⟨hb, main_of_br hb⟩

end

theorem eatEof_hit {toks : List Token} {st : PState toks} (h : st.kinds = [.eof]) :
    ∃ st', eatEof true st = .ok (true, st') := by
  have hc : st.cur.kind = .eof := cur_kind_of_kinds h
  have hr : st.rem = [] := by
    have := (PState.kinds_cons h).2
    cases hrem : st.rem with
    | nil => rfl
    | cons a l => rw [hrem] at this; cases this
  refine ⟨{ st with expected := [] }, ?_⟩
  have hemp : st.rem.isEmpty = true := by rw [hr]; rfl
  unfold eatEof
  rw [if_pos hc, if_pos hemp]

/-- **print / parse on the operator fragment**: any token list whose kinds are the minimal
    printing of a fragment tree followed by end-of-file parses to that tree (up to spans and
    `Paren` nodes) -/
theorem parse_printMin_frag {e : Expr} (h : Frag e) (toks : List Token)
    (hk : toks.map (·.kind) = printMin e ++ [.eof]) :
    ∃ e', parse toks = .ok e' ∧ e'.erase = e.erase := by
  unfold parse parseWithFuel
  split
  · simp at hk
  · next t r =>
    dsimp only
    have hk0 : ({ cur := t, rem := r, expected := [], suffix := List.suffix_refl _ } :
        PState (t :: r)).kinds = P e 0 ++ .eof :: [] := hk
    obtain ⟨e', st', hp, he, hk'⟩ := (frag_main (toks := t :: r) h).2 (fuelFor (t :: r)) _ .eof [] hk0 stopTok_eof
      (by
        have : ({ cur := t, rem := r, expected := [], suffix := List.suffix_refl _ } :
          PState (t :: r)).kinds.length = (t :: r).length := by
          unfold PState.kinds; simp
        rw [this]; unfold fuelFor; omega)
    obtain ⟨st'', hEof⟩ := eatEof_hit hk'
    refine ⟨e', ?_, he⟩
    unfold parseRootF
    rw [hp]
    simp only [bind, Except.bind]
    rw [hEof]
    rfl

end Rsj.Parser
