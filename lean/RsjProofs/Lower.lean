import RsjModel.Lower
/-!
  Inversion lemmas for the lowering `Rsj.Lower.lowerE` (RsjModel/Lower.lean): what the core image
  of each sugared source form is.  Used by RsjProps/C02Pipeline.lean to connect the desugaring
  laws of the evaluator model (RsjProps/C02.lean, C02Eval.lean) with source programs.
-/
namespace Rsj.Lower

theorem bind_ok {α β} {x : R α} {f : α → R β} {b : β} (h : (x >>= f) = .ok b) :
    ∃ a, x = .ok a ∧ f a = .ok b := by
  cases x with
  | error e => cases h
  | ok a => exact ⟨a, rfl, h⟩

variable (libs : List (String × String))

/-! ### objects -/

theorem lowerE_object (o : Parser.ObjInside) (sp : Parser.Span) (lib tail : Bool) :
    lowerE libs (.object o sp) lib tail = lowerObj libs o lib := by
  rw [lowerE]

theorem lowerObj_members {ms : List Parser.Member} {lib : Bool} {c : Core.Expr}
    (h : lowerObj libs (.members ms) lib = .ok c) :
    ∃ ms', lowerMembers libs ms lib (lib && !membersBindStd ms) = .ok ms' ∧ c = .object ms' := by
  rw [lowerObj] at h
  obtain ⟨ms', hm, h⟩ := bind_ok h
  cases h
  exact ⟨ms', hm, rfl⟩

/-- `e { … }` (any object inside) -/
theorem lowerE_objExt {e : Parser.Expr} {o : Parser.ObjInside} {osp sp : Parser.Span} {lib tail : Bool}
    {c : Core.Expr} (h : lowerE libs (.objExt e o osp sp) lib tail = .ok c) :
    ∃ e' o', lowerE libs e lib false = .ok e' ∧ lowerObj libs o lib = .ok o' ∧ c = extend e' o' := by
  rw [lowerE] at h
  obtain ⟨e', he, h⟩ := bind_ok h
  obtain ⟨o', ho, h⟩ := bind_ok h
  cases h
  exact ⟨e', o', he, ho, rfl⟩

/-- `e { members }`: the image is `Core.objExt` of the images, and the members are lowered exactly as
    those of the object `{ members }` in the same scope -/
theorem lowerE_objExt_members {e : Parser.Expr} {ms : List Parser.Member} {osp sp : Parser.Span}
    {lib tail : Bool} {c : Core.Expr} (h : lowerE libs (.objExt e (.members ms) osp sp) lib tail = .ok c) :
    ∃ e' ms', lowerE libs e lib false = .ok e' ∧
      (∀ sp' tail', lowerE libs (.object (.members ms) sp') lib tail' = .ok (.object ms')) ∧
      c = .objExt e' ms' := by
  obtain ⟨e', o', he, ho, hc⟩ := lowerE_objExt libs h
  obtain ⟨ms', hm, rfl⟩ := lowerObj_members libs ho
  refine ⟨e', ms', he, ?_, hc⟩
  intro sp' tail'
  rw [lowerE_object, ho]

/-! ### `local` and functions -/

theorem lowerE_local {binds : List Parser.Bind} {body : Parser.Expr} {sp : Parser.Span} {lib tail : Bool}
    {c : Core.Expr} (h : lowerE libs (.local_ binds body sp) lib tail = .ok c) :
    ∃ bs body', lowerBinds libs binds (lib && !bindsBindStd binds) = .ok bs ∧
      lowerE libs body (lib && !bindsBindStd binds) tail = .ok body' ∧ c = .local_ bs body' := by
  rw [lowerE] at h
  obtain ⟨bs, hb, h⟩ := bind_ok h
  obtain ⟨b', hbody, h⟩ := bind_ok h
  cases h
  exact ⟨bs, b', hb, hbody, rfl⟩

theorem lowerE_func {params : List Parser.Param} {body : Parser.Expr} {sp : Parser.Span} {lib tail : Bool}
    {ps : Core.Params} {v : Core.Expr}
    (hp : lowerParams libs params (lib && !paramsBindStd params) = .ok ps)
    (hv : lowerE libs body (lib && !paramsBindStd params) true = .ok v) :
    lowerE libs (.func params body sp) lib tail = .ok (.func ps v) := by
  rw [lowerE]
  simp only [hp, hv, bind, Except.bind, pure, Except.pure]

/-- a function binding `f(params) = value` at the head of a binding list -/
theorem lowerBinds_cons_fn {name : Parser.Ident} {params : List Parser.Param} {psp : Parser.Span}
    {value : Parser.Expr} {rest : List Parser.Bind} {lib : Bool} {bs : Core.Binds}
    (h : lowerBinds libs (.mk name true params psp value :: rest) lib = .ok bs) :
    ∃ n ps v r, decStr name.value = .ok n ∧
      lowerParams libs params (lib && !paramsBindStd params) = .ok ps ∧
      lowerE libs value (lib && !paramsBindStd params) true = .ok v ∧
      lowerBinds libs rest lib = .ok r ∧ bs = .cons n (.some ps) v r := by
  rw [lowerBinds] at h
  obtain ⟨n, hn, h⟩ := bind_ok h
  simp only [if_true] at h
  obtain ⟨ps, hps, h⟩ := bind_ok h
  obtain ⟨v, hv, h⟩ := bind_ok h
  obtain ⟨r, hr, h⟩ := bind_ok h
  cases h
  exact ⟨n, ps, v, r, hn, hps, hv, hr, rfl⟩

/-- the same list with the head written `f = function(params) value` has the image with the explicit
    function (no parameters on the binding) -/
theorem lowerBinds_cons_plain {name : Parser.Ident} {psp : Parser.Span} {value : Parser.Expr}
    {rest : List Parser.Bind} {lib : Bool} {n : String} {v : Core.Expr} {r : Core.Binds}
    (hn : decStr name.value = .ok n) (hv : lowerE libs value lib false = .ok v)
    (hr : lowerBinds libs rest lib = .ok r) :
    lowerBinds libs (.mk name false [] psp value :: rest) lib = .ok (.cons n .none v r) := by
  rw [lowerBinds]
  simp only [hn, hv, hr, bind, Except.bind, pure, Except.pure, Bool.false_eq_true, if_false]

/-! ### members -/

/-- a method field `name(params): e` / `::` / `:::` at the head of a member list -/
theorem lowerMembers_cons_method {fname : Parser.FieldName} {params : List Parser.Param} {psp : Parser.Span}
    {v : Parser.Visibility} {e : Parser.Expr} {rest : List Parser.Member} {outer inner : Bool}
    {m : Core.Members}
    (h : lowerMembers libs (.field (.func fname params psp v e) :: rest) outer inner = .ok m) :
    ∃ n ps e' r, lowerFieldName libs fname outer = .ok n ∧
      lowerParams libs params (inner && !paramsBindStd params) = .ok ps ∧
      lowerE libs e (inner && !paramsBindStd params) true = .ok e' ∧
      lowerMembers libs rest outer inner = .ok r ∧ m = mkField n false (vis v) (.some ps) e' r := by
  rw [lowerMembers] at h
  obtain ⟨ps, hps, h⟩ := bind_ok h
  obtain ⟨e', he, h⟩ := bind_ok h
  obtain ⟨n, hn, h⟩ := bind_ok h
  obtain ⟨r, hr, h⟩ := bind_ok h
  cases h
  exact ⟨n, ps, e', r, hn, hps, he, hr, rfl⟩

/-- a value field `name: e` (with or without `+`, any visibility) at the head of a member list -/
theorem lowerMembers_cons_value {fname : Parser.FieldName} {plus : Bool} {v : Parser.Visibility}
    {e : Parser.Expr} {rest : List Parser.Member} {outer inner : Bool} {m : Core.Members}
    (h : lowerMembers libs (.field (.value fname plus v e) :: rest) outer inner = .ok m) :
    ∃ n e' r, lowerFieldName libs fname outer = .ok n ∧ lowerE libs e inner false = .ok e' ∧
      lowerMembers libs rest outer inner = .ok r ∧ m = mkField n plus (vis v) .none e' r := by
  rw [lowerMembers] at h
  obtain ⟨e', he, h⟩ := bind_ok h
  obtain ⟨n, hn, h⟩ := bind_ok h
  obtain ⟨r, hr, h⟩ := bind_ok h
  cases h
  exact ⟨n, e', r, hn, he, hr, rfl⟩

/-- an identifier, a string and a text block are FIXED names -/
theorem lowerFieldName_ident {i : Parser.Ident} {outer : Bool} {n : FName}
    (h : lowerFieldName libs (.ident i) outer = .ok n) : ∃ s, decStr i.value = .ok s ∧ n = .fix s := by
  rw [lowerFieldName] at h
  obtain ⟨s, hs, h⟩ := bind_ok h
  cases h
  exact ⟨s, hs, rfl⟩

theorem lowerFieldName_str {s : String} {sp : Parser.Span} {outer : Bool} {n : FName}
    (h : lowerFieldName libs (.str s sp) outer = .ok n) : ∃ t, decStr s = .ok t ∧ n = .fix t := by
  rw [lowerFieldName] at h
  obtain ⟨t, ht, h⟩ := bind_ok h
  cases h
  exact ⟨t, ht, rfl⟩

/-- `[e]` is a computed name, lowered in the scope OUTSIDE the object -/
theorem lowerFieldName_expr {e : Parser.Expr} {sp : Parser.Span} {outer : Bool} {n : FName}
    (h : lowerFieldName libs (.expr e sp) outer = .ok n) :
    ∃ e', lowerE libs e outer false = .ok e' ∧ n = .dyn e' := by
  rw [lowerFieldName] at h
  obtain ⟨e', he, h⟩ := bind_ok h
  cases h
  exact ⟨e', he, rfl⟩

/-- an object-level `assert` -/
theorem lowerMembers_cons_assert {asp : Parser.Span} {cond : Parser.Expr} {msg : Option Parser.Expr}
    {rest : List Parser.Member} {outer inner : Bool} {m : Core.Members}
    (h : lowerMembers libs (.assert_ (.mk asp cond msg) :: rest) outer inner = .ok m) :
    ∃ c' m' r, lowerE libs cond inner false = .ok c' ∧ lowerOpt libs msg inner false = .ok m' ∧
      lowerMembers libs rest outer inner = .ok r ∧ m = .assert_ c' m' r := by
  rw [lowerMembers] at h
  obtain ⟨c', hc, h⟩ := bind_ok h
  obtain ⟨m', hm, h⟩ := bind_ok h
  obtain ⟨r, hr, h⟩ := bind_ok h
  cases h
  exact ⟨c', m', r, hc, hm, hr, rfl⟩

/-! ### `assert`, `if`, parentheses, calls -/

theorem lowerE_assert {asp sp : Parser.Span} {cond body : Parser.Expr} {msg : Option Parser.Expr}
    {lib tail : Bool} {c : Core.Expr}
    (h : lowerE libs (.assert_ (.mk asp cond msg) body sp) lib tail = .ok c) :
    ∃ c' m' b', lowerE libs cond lib false = .ok c' ∧ lowerOpt libs msg lib false = .ok m' ∧
      lowerE libs body lib tail = .ok b' ∧ c = .assert_ c' m' b' := by
  rw [lowerE] at h
  obtain ⟨c', hc, h⟩ := bind_ok h
  obtain ⟨m', hm, h⟩ := bind_ok h
  obtain ⟨b', hb, h⟩ := bind_ok h
  cases h
  exact ⟨c', m', b', hc, hm, hb, rfl⟩

theorem lowerOpt_none (lib tail : Bool) : lowerOpt libs none lib tail = .ok .none := by
  rw [lowerOpt]

theorem lowerOpt_some {e : Parser.Expr} {lib tail : Bool} {e' : Core.Expr}
    (h : lowerE libs e lib tail = .ok e') : lowerOpt libs (some e) lib tail = .ok (.some e') := by
  rw [lowerOpt]
  simp only [h, bind, Except.bind, pure, Except.pure]

theorem lowerE_if {c t : Parser.Expr} {el : Option Parser.Expr} {sp : Parser.Span} {lib tail : Bool}
    {r : Core.Expr} (h : lowerE libs (.ite_ c t el sp) lib tail = .ok r) :
    ∃ c' t' el', lowerE libs c lib false = .ok c' ∧ lowerE libs t lib tail = .ok t' ∧
      lowerOpt libs el lib tail = .ok el' ∧ r = .if_ c' t' el' := by
  rw [lowerE] at h
  obtain ⟨c', hc, h⟩ := bind_ok h
  obtain ⟨t', ht, h⟩ := bind_ok h
  obtain ⟨el', hel, h⟩ := bind_ok h
  cases h
  exact ⟨c', t', el', hc, ht, hel, rfl⟩

theorem lowerE_if_intro {c t : Parser.Expr} {el : Option Parser.Expr} {sp : Parser.Span} {lib tail : Bool}
    {c' t' : Core.Expr} {el' : Core.OptExpr}
    (hc : lowerE libs c lib false = .ok c') (ht : lowerE libs t lib tail = .ok t')
    (hel : lowerOpt libs el lib tail = .ok el') :
    lowerE libs (.ite_ c t el sp) lib tail = .ok (.if_ c' t' el') := by
  rw [lowerE]
  simp only [hc, ht, hel, bind, Except.bind, pure, Except.pure]

theorem lowerE_null (sp : Parser.Span) (lib tail : Bool) : lowerE libs (.null sp) lib tail = .ok .null := by
  rw [lowerE]

/-- parentheses are kept and end a tail position -/
theorem lowerE_paren {e : Parser.Expr} {sp : Parser.Span} {lib tail : Bool} {c : Core.Expr}
    (h : lowerE libs (.paren e sp) lib tail = .ok c) :
    ∃ e', lowerE libs e lib false = .ok e' ∧ c = .paren e' := by
  rw [lowerE] at h
  obtain ⟨e', he, h⟩ := bind_ok h
  cases h
  exact ⟨e', he, rfl⟩

/-- an ordinary call keeps `tailstrict` only in tail position (`can_be_tailstrict && tailstrict`) -/
theorem lowerE_call {f : Parser.Expr} {args : List Parser.Arg} {ts : Bool} {sp : Parser.Span}
    {lib tail : Bool} {c : Core.Expr} (hf : (if lib then stdCallee f else none) = none)
    (h : lowerE libs (.call f args ts sp) lib tail = .ok c) :
    ∃ f' as', lowerE libs f lib false = .ok f' ∧ lowerArgs libs args lib = .ok as' ∧
      c = .call f' as' (tail && ts) := by
  rw [lowerE] at h
  simp only [hf] at h
  obtain ⟨f', hf', h⟩ := bind_ok h
  obtain ⟨as', ha, h⟩ := bind_ok h
  cases h
  exact ⟨f', as', hf', ha, rfl⟩

/-- a library call becomes `Core.builtin` only with an accepted number of positional arguments and
    without `tailstrict` -/
theorem lowerE_std_call {f : Parser.Expr} {args : List Parser.Arg} {ts : Bool} {sp : Parser.Span}
    {tail : Bool} {nameHex : String} {c : Core.Expr} (hf : stdCallee f = some nameHex)
    (h : lowerE libs (.call f args ts sp) true tail = .ok c) :
    ∃ b as', builtinOf nameHex args ts = .ok b ∧ lowerArgExprs libs args true = .ok as' ∧
      c = .builtin b as' := by
  rw [lowerE] at h
  simp only [hf, if_true] at h
  obtain ⟨b, hb, h⟩ := bind_ok h
  obtain ⟨as', ha, h⟩ := bind_ok h
  cases h
  exact ⟨b, as', hb, ha, rfl⟩

theorem builtinOf_ok {nameHex : String} {args : List Parser.Arg} {ts : Bool} {b : Core.Builtin}
    (h : builtinOf nameHex args ts = .ok b) :
    ∃ name, decStr nameHex = .ok name ∧ Core.parseBuiltin name = some b ∧ allPositional args = true ∧
      ts = false ∧ builtinArityOk b args.length = true := by
  unfold builtinOf at h
  obtain ⟨name, hn, h⟩ := bind_ok h
  refine ⟨name, hn, ?_⟩
  cases hb : Core.parseBuiltin name with
  | none => simp [hb] at h
  | some b' =>
    simp only [hb] at h
    by_cases h1 : allPositional args = true
    · by_cases h2 : ts = true
      · simp [h1, h2] at h
      · by_cases h3 : builtinArityOk b' args.length = true
        · simp [h1, h2, h3] at h
          cases h
          exact ⟨rfl, h1, by simpa using h2, h3⟩
        · simp [h1, h2, h3] at h
    · simp [h1] at h

/-- where an enclosing binder rebinds `std`, the identifier is an ordinary variable -/
theorem lowerE_ident_rebound {id : Parser.Ident} {sp : Parser.Span} {tail : Bool} {n : String}
    (hn : decStr id.value = .ok n) : lowerE libs (.ident id sp) false tail = .ok (.var n) := by
  rw [lowerE]
  simp only [Bool.false_and, Bool.false_eq_true, if_false, hn, bind, Except.bind, pure, Except.pure]

/-! ### introduction forms (the image of the DESUGARED source text) -/

theorem lowerE_local_intro {binds : List Parser.Bind} {body : Parser.Expr} {sp : Parser.Span} {lib tail : Bool}
    {bs : Core.Binds} {body' : Core.Expr}
    (hb : lowerBinds libs binds (lib && !bindsBindStd binds) = .ok bs)
    (hbody : lowerE libs body (lib && !bindsBindStd binds) tail = .ok body') :
    lowerE libs (.local_ binds body sp) lib tail = .ok (.local_ bs body') := by
  rw [lowerE]
  simp only [hb, hbody, bind, Except.bind, pure, Except.pure]

theorem lowerE_binary_intro {l r : Parser.Expr} {op : Parser.BinaryOp} {sp : Parser.Span} {lib tail : Bool}
    {l' r' : Core.Expr} (hl : lowerE libs l lib false = .ok l') (hr : lowerE libs r lib false = .ok r') :
    lowerE libs (.binary l op r sp) lib tail = .ok (.binary (binOp op) l' r') := by
  rw [lowerE]
  simp only [hl, hr, bind, Except.bind, pure, Except.pure]

theorem lowerObj_members_intro {ms : List Parser.Member} {lib : Bool} {ms' : Core.Members}
    (h : lowerMembers libs ms lib (lib && !membersBindStd ms) = .ok ms') :
    lowerObj libs (.members ms) lib = .ok (.object ms') := by
  rw [lowerObj]
  simp only [h, bind, Except.bind, pure, Except.pure]

theorem lowerMembers_cons_value_intro {fname : Parser.FieldName} {plus : Bool} {v : Parser.Visibility}
    {e : Parser.Expr} {rest : List Parser.Member} {outer inner : Bool} {n : FName} {e' : Core.Expr}
    {r : Core.Members} (hn : lowerFieldName libs fname outer = .ok n) (he : lowerE libs e inner false = .ok e')
    (hr : lowerMembers libs rest outer inner = .ok r) :
    lowerMembers libs (.field (.value fname plus v e) :: rest) outer inner =
      .ok (mkField n plus (vis v) .none e' r) := by
  rw [lowerMembers]
  simp only [hn, he, hr, bind, Except.bind, pure, Except.pure]

theorem membersBindStd_field (f : Parser.Field) (rest : List Parser.Member) :
    membersBindStd (.field f :: rest) = membersBindStd rest := by
  rw [membersBindStd]
  intro _ _ _ _ _ h
  cases h

theorem bindsBindStd_cons (name : Parser.Ident) (hp : Bool) (ps : List Parser.Param) (psp : Parser.Span)
    (v : Parser.Expr) (rest : List Parser.Bind) :
    bindsBindStd (.mk name hp ps psp v :: rest) = (isStd name || bindsBindStd rest) := by
  rw [bindsBindStd]

end Rsj.Lower
