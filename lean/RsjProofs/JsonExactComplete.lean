/-
  C20 / C05 — exactness of `parse_json.rs` against the RFC 8259 grammar (`JText`),
  part 3: COMPLETENESS.  By induction on the derivation of `JValue` / `JElements` /
  `JMembers`, generalised to "the parser in state (stack, text ++ tail) reaches the state
  after the value" (`cont`), for every stack and every tail that starts with a delimiter.
  Generalises the round-trip lemmas of JsonParse.lean from manifested text to arbitrary
  grammatical text.
-/
import RsjProofs.JsonExactLex
import RsjProofs.JsonFuel
namespace Rsj.Json
open Rsj.Codec

/-! ### fuel is irrelevant once it suffices -/

theorem run_fuel_succ : ∀ (n : Nat) (st : List Frame) (rem : Str) (R : Except Err JVal),
    run n st rem = R → R ≠ .error .fuel → run (n + 1) st rem = R
  | 0, _, _, R, h, hne => by rw [run] at h; exact absurd h.symm hne
  | n + 1, st, rem, R, h, hne => by
    rw [run] at h ⊢
    split
    · next e he => rw [he] at h; exact h
    · next f r hs =>
      rw [hs] at h
      exact run_fuel_succ n _ _ R h hne
    · next v r hs =>
      rw [hs] at h
      dsimp only at h ⊢
      split
      · next e he => rw [he] at h; exact h
      · next v' hd => rw [hd] at h; exact h
      · next st' r' hm =>
        rw [hm] at h
        exact run_fuel_succ n _ _ R h hne

theorem run_fuel_le {n m : Nat} {st : List Frame} {rem : Str} {R : Except Err JVal}
    (h : run n st rem = R) (hne : R ≠ .error .fuel) (hle : n ≤ m) : run m st rem = R := by
  induction hle with
  | refl => exact h
  | step _ ih => exact run_fuel_succ _ _ _ _ ih hne

/-! ### first character of a value -/

theorem jvalue_head {body : Str} {v : JVal} (h : JValue body v) :
    ∃ c t, body = c :: t ∧ isWs c = false ∧ c ≠ 93 ∧ c ≠ 125 := by
  cases h with
  | null => exact ⟨110, _, rfl, by decide, by decide, by decide⟩
  | «true» => exact ⟨116, _, rfl, by decide, by decide, by decide⟩
  | «false» => exact ⟨102, _, rfl, by decide, by decide, by decide⟩
  | num hn _ =>
    obtain ⟨c, t', rfl, hc⟩ := jsonNumber_head (jsonNumber_iff.mpr hn)
    have := isWs_of_digit_or_minus hc
    exact ⟨c, t', rfl, this.1, this.2.1, this.2.2⟩
  | str _ => exact ⟨34, _, rfl, by decide, by decide, by decide⟩
  | arrEmpty _ => exact ⟨91, _, rfl, by decide, by decide, by decide⟩
  | arr _ => exact ⟨91, _, rfl, by decide, by decide, by decide⟩
  | objEmpty _ => exact ⟨123, _, rfl, by decide, by decide, by decide⟩
  | obj _ => exact ⟨123, _, rfl, by decide, by decide, by decide⟩

theorem skip_to_jvalue {body : Str} {v : JVal} (h : JValue body v) {w : Str} (hw : IsWs w) (t : Str) :
    skipSpaces (w ++ (body ++ t)) = body ++ t := by
  obtain ⟨c, t', rfl, hc, _⟩ := jvalue_head h
  rw [skipSpaces_ws_append _ (isWs_of_IsWs hw), List.cons_append, skipSpaces_cons_nonws _ hc]

theorem delim_ws_then {w : Str} (hw : IsWs w) {c : Nat} (t : Str) (hc : c = 44 ∨ c = 93 ∨ c = 125) :
    Delim (w ++ c :: t) :=
  Delim.ws_append (isWs_of_IsWs hw) (Or.inr ⟨c, t, rfl, Or.inr hc⟩)

theorem skip_ws_then {w : Str} (hw : IsWs w) {c : Nat} (t : Str) (hc : isWs c = false) :
    skipSpaces (w ++ c :: t) = c :: t := by
  rw [skipSpaces_ws_append _ (isWs_of_IsWs hw), skipSpaces_cons_nonws _ hc]

theorem startValue_jstr {src str : Str} (h : JChars src str) (r : Str) :
    startValue (34 :: (src ++ 34 :: r)) = .ok (.value (.str str) (skipSpaces r)) := by
  have hl := lexString_complete h r
  have hn : lexNumber (34 :: (src ++ 34 :: r)) = .ok none := lexNumber_nonnum _ (by decide)
  unfold startValue
  rw [hn, hl]
  simp [sNull, sTrue, sFalse, stripPrefix]

/-! ### the goals of the mutual induction -/

def VGoal (body : Str) (v : JVal) : Prop :=
  ∀ (n : Nat) (st : List Frame) (r : Str), NoDupKeys v → Delim r →
    run (n + steps v) st (body ++ r) = cont n v st (skipSpaces r)

/-- the parser is about to read the first of the remaining items of an array -/
def EGoal (src : Str) (items : List JVal) : Prop :=
  ∀ (n : Nat) (st : List Frame) (r : Str) (acc : List JVal), (∀ v ∈ items, NoDupKeys v) →
    (∃ c t, skipSpaces (src ++ 93 :: r) = c :: t ∧ c ≠ 93) ∧
    run (n + stepsL items) (.arr acc :: st) (skipSpaces (src ++ 93 :: r))
      = cont n (.arr (acc ++ items)) st (skipSpaces r)

/-- the parser is about to read the name of the first of the remaining members -/
def MGoal (src : Str) (fields : List (Str × JVal)) : Prop :=
  ∀ (n : Nat) (st : List Frame) (r : Str) (acc : List (Str × JVal)), (∀ p ∈ fields, NoDupKeys p.2) →
    (keysOf acc ++ keysOf fields).Nodup →
    ∃ k r', (∃ t, skipSpaces (src ++ 125 :: r) = 34 :: t) ∧
      lexKeyColon (skipSpaces (src ++ 125 :: r)) = .ok (k, r') ∧
      run (n + stepsF fields) (.obj acc k :: st) r' = cont n (.obj (acc ++ fields)) st (skipSpaces r)

/-! ### scalars -/

theorem vgoal_null : VGoal sNull .null := by
  intro n st r _ _
  exact run_value (startValue_null r)

theorem vgoal_true : VGoal sTrue (.bool true) := by
  intro n st r _ _
  exact run_value (startValue_true r)

theorem vgoal_false : VGoal sFalse (.bool false) := by
  intro n st r _ _
  exact run_value (startValue_false r)

theorem vgoal_num {t : Str} (hn : JNumber t) (hov : overflows t = false) : VGoal t (.num t) := by
  intro n st r _ hr
  exact run_value (startValue_num r (numTok_of_jsonNumber (jsonNumber_iff.mpr hn) hov) hr)

theorem vgoal_str {src s : Str} (h : JChars src s) : VGoal (34 :: (src ++ [34])) (.str s) := by
  intro n st r _ _
  have e : 34 :: (src ++ [34]) ++ r = 34 :: (src ++ 34 :: r) := by simp
  rw [e]
  exact run_value (startValue_jstr h r)

theorem vgoal_arrEmpty {w : Str} (hw : IsWs w) : VGoal (91 :: (w ++ [93])) (.arr []) := by
  intro n st r _ _
  have e : 91 :: (w ++ [93]) ++ r = 91 :: (w ++ 93 :: r) := by simp
  rw [e]
  exact run_value (startValue_arr_empty (skip_ws_then hw r (by decide)))

theorem vgoal_objEmpty {w : Str} (hw : IsWs w) : VGoal (123 :: (w ++ [125])) (.obj []) := by
  intro n st r _ _
  have e : 123 :: (w ++ [125]) ++ r = 123 :: (w ++ 125 :: r) := by simp
  rw [e]
  exact run_value (startValue_obj_empty (skip_ws_then hw r (by decide)))

/-! ### arrays -/

theorem vgoal_arr {src : Str} {items : List JVal} (h : EGoal src items) :
    VGoal (91 :: (src ++ [93])) (.arr items) := by
  intro n st r hnd _
  have hitems : ∀ v ∈ items, NoDupKeys v := by cases hnd with | arr h => exact h
  obtain ⟨⟨c, t, hsk, hc⟩, hrun⟩ := h n st r [] hitems
  have e : 91 :: (src ++ [93]) ++ r = 91 :: (src ++ 93 :: r) := by simp
  have hs : n + steps (.arr items) = (n + stepsL items) + 1 := by rw [steps]; omega
  rw [e, hs, run_push (startValue_arr_open hsk hc), ← hsk, hrun, List.nil_append]

theorem egoal_one {w1 body w2 : Str} {v : JVal} (h1 : IsWs w1) (h2 : IsWs w2) (hb : JValue body v)
    (hv : VGoal body v) : EGoal (w1 ++ body ++ w2) [v] := by
  intro n st r acc hnd
  have e : w1 ++ body ++ w2 ++ 93 :: r = w1 ++ (body ++ (w2 ++ 93 :: r)) := by simp
  have hsk := skip_to_jvalue hb h1 (w2 ++ 93 :: r)
  rw [e, hsk]
  constructor
  · obtain ⟨c, t, rfl, _, hc, _⟩ := jvalue_head hb
    exact ⟨c, _, rfl, hc⟩
  · have hs : n + stepsL [v] = n + steps v := by simp [stepsL]
    rw [hs, hv n _ _ (hnd v (by simp)) (delim_ws_then h2 r (by simp)), skip_ws_then h2 r (by decide),
      cont_arr_close]

theorem egoal_cons {w1 body w2 rest : Str} {v : JVal} {vs : List JVal} (h1 : IsWs w1) (h2 : IsWs w2)
    (hb : JValue body v) (hv : VGoal body v) (hrest : EGoal rest vs) :
    EGoal (w1 ++ body ++ w2 ++ 44 :: rest) (v :: vs) := by
  intro n st r acc hnd
  have e : w1 ++ body ++ w2 ++ 44 :: rest ++ 93 :: r = w1 ++ (body ++ (w2 ++ 44 :: (rest ++ 93 :: r))) := by simp
  have hsk := skip_to_jvalue hb h1 (w2 ++ 44 :: (rest ++ 93 :: r))
  rw [e, hsk]
  constructor
  · obtain ⟨c, t, rfl, _, hc, _⟩ := jvalue_head hb
    exact ⟨c, _, rfl, hc⟩
  · have hs : n + stepsL (v :: vs) = (n + stepsL vs) + steps v := by rw [stepsL]; omega
    have hvs : ∀ x ∈ vs, NoDupKeys x := fun x hx => hnd x (List.mem_cons_of_mem _ hx)
    rw [hs, hv _ _ _ (hnd v (by simp)) (delim_ws_then h2 _ (by simp)), skip_ws_then h2 _ (by decide),
      cont_arr_comma, (hrest n st r (acc ++ [v]) hvs).2]
    simp only [List.append_assoc, List.cons_append, List.nil_append]

/-! ### objects -/

theorem vgoal_obj {src : Str} {fields : List (Str × JVal)} (h : MGoal src fields) :
    VGoal (123 :: (src ++ [125])) (.obj fields) := by
  intro n st r hnd _
  have hf : (fields.map (·.1)).Pairwise (· ≠ ·) ∧ ∀ p ∈ fields, NoDupKeys p.2 := by
    cases hnd with | obj h1 h2 => exact ⟨h1, h2⟩
  obtain ⟨k, r', ⟨t, hsk⟩, hk, hrun⟩ := h n st r [] hf.2 hf.1
  have e : 123 :: (src ++ [125]) ++ r = 123 :: (src ++ 125 :: r) := by simp
  have hs : n + steps (.obj fields) = (n + stepsF fields) + 1 := by rw [steps]; omega
  rw [hsk] at hk
  rw [e, hs, run_push (startValue_obj_open hsk (by decide) hk), hrun, List.nil_append]

theorem member_text {w1 ksrc w2 w3 body tail : Str} :
    w1 ++ 34 :: (ksrc ++ [34]) ++ w2 ++ 58 :: (w3 ++ body ++ tail)
      = w1 ++ (34 :: (ksrc ++ [34]) ++ w2 ++ 58 :: (w3 ++ (body ++ tail))) := by
  simp only [List.cons_append, List.append_assoc, List.nil_append]

/-- reading `ws string ws ":" ws` in front of a value -/
theorem key_then_value {w1 ksrc k w2 w3 body : Str} {v : JVal} (h1 : IsWs w1) (h2 : IsWs w2) (h3 : IsWs w3)
    (hk : JChars ksrc k) (hb : JValue body v) (tail : Str) :
    (∃ t, skipSpaces (w1 ++ (34 :: (ksrc ++ [34]) ++ w2 ++ 58 :: (w3 ++ (body ++ tail)))) = 34 :: t) ∧
    lexKeyColon (skipSpaces (w1 ++ (34 :: (ksrc ++ [34]) ++ w2 ++ 58 :: (w3 ++ (body ++ tail)))))
      = .ok (k, body ++ tail) := by
  have e : skipSpaces (w1 ++ (34 :: (ksrc ++ [34]) ++ w2 ++ 58 :: (w3 ++ (body ++ tail))))
      = 34 :: (ksrc ++ [34]) ++ w2 ++ 58 :: (w3 ++ (body ++ tail)) := by
    rw [skipSpaces_ws_append _ (isWs_of_IsWs h1)]
    simp only [List.cons_append]
    rw [skipSpaces_cons_nonws _ (by decide)]
  rw [e]
  refine ⟨⟨_, by simp only [List.cons_append]; rfl⟩, ?_⟩
  rw [lexKeyColon_complete hk h2 h3, ← List.nil_append (body ++ tail), skip_to_jvalue hb IsWs.nil]
  rfl

theorem nodup_head_not_mem {acc : List Str} {k : Str} {ks : List Str} (h : (acc ++ k :: ks).Nodup) :
    k ∉ acc := by
  intro hmem
  exact (List.nodup_append.mp h).2.2 k hmem k List.mem_cons_self rfl

theorem mgoal_one {w1 ksrc k w2 w3 body w4 : Str} {v : JVal} (h1 : IsWs w1) (h2 : IsWs w2) (h3 : IsWs w3)
    (h4 : IsWs w4) (hk : JChars ksrc k) (hb : JValue body v) (hv : VGoal body v) :
    MGoal (w1 ++ 34 :: (ksrc ++ [34]) ++ w2 ++ 58 :: (w3 ++ body ++ w4)) [(k, v)] := by
  intro n st r acc hnd hkeys
  have e : w1 ++ 34 :: (ksrc ++ [34]) ++ w2 ++ 58 :: (w3 ++ body ++ w4) ++ 125 :: r
      = w1 ++ (34 :: (ksrc ++ [34]) ++ w2 ++ 58 :: (w3 ++ (body ++ (w4 ++ 125 :: r)))) := by
    simp only [List.cons_append, List.append_assoc, List.nil_append]
  obtain ⟨hq, hl⟩ := key_then_value h1 h2 h3 hk hb (w4 ++ 125 :: r)
  rw [e]
  refine ⟨k, _, hq, hl, ?_⟩
  have hkacc : hasKey k acc = false := by
    rw [hasKey_eq_false]; exact nodup_head_not_mem (by simpa [keysOf] using hkeys)
  have hs : n + stepsF [(k, v)] = n + steps v := by simp [stepsF]
  rw [hs, hv n _ _ (hnd (k, v) (by simp)) (delim_ws_then h4 r (by simp)), skip_ws_then h4 r (by decide),
    cont_obj_close _ _ _ _ _ _ hkacc]

theorem mgoal_cons {w1 ksrc k w2 w3 body w4 rest : Str} {v : JVal} {fs : List (Str × JVal)} (h1 : IsWs w1)
    (h2 : IsWs w2) (h3 : IsWs w3) (h4 : IsWs w4) (hk : JChars ksrc k) (hb : JValue body v)
    (hv : VGoal body v) (hrest : MGoal rest fs) :
    MGoal (w1 ++ 34 :: (ksrc ++ [34]) ++ w2 ++ 58 :: (w3 ++ body ++ w4) ++ 44 :: rest) ((k, v) :: fs) := by
  intro n st r acc hnd hkeys
  have e : w1 ++ 34 :: (ksrc ++ [34]) ++ w2 ++ 58 :: (w3 ++ body ++ w4) ++ 44 :: rest ++ 125 :: r
      = w1 ++ (34 :: (ksrc ++ [34]) ++ w2 ++ 58 :: (w3 ++ (body ++ (w4 ++ 44 :: (rest ++ 125 :: r))))) := by
    simp only [List.cons_append, List.append_assoc, List.nil_append]
  obtain ⟨hq, hl⟩ := key_then_value h1 h2 h3 hk hb (w4 ++ 44 :: (rest ++ 125 :: r))
  rw [e]
  refine ⟨k, _, hq, hl, ?_⟩
  have hkeys' : (keysOf acc ++ k :: keysOf fs).Nodup := by simpa [keysOf] using hkeys
  have hkacc : hasKey k acc = false := by
    rw [hasKey_eq_false]; exact nodup_head_not_mem hkeys'
  have hfs : ∀ p ∈ fs, NoDupKeys p.2 := fun p hp => hnd p (List.mem_cons_of_mem _ hp)
  have hkeys2 : (keysOf (acc ++ [(k, v)]) ++ keysOf fs).Nodup := by
    have : keysOf (acc ++ [(k, v)]) = keysOf acc ++ [k] := by simp [keysOf]
    rw [this]
    simpa only [List.append_assoc, List.cons_append, List.nil_append] using hkeys'
  obtain ⟨k', r', _, hl', hrun⟩ := hrest n st r (acc ++ [(k, v)]) hfs hkeys2
  have hs : n + stepsF ((k, v) :: fs) = (n + stepsF fs) + steps v := by rw [stepsF]; omega
  rw [hs, hv _ _ _ (hnd (k, v) (by simp)) (delim_ws_then h4 _ (by simp)), skip_ws_then h4 _ (by decide),
    cont_obj_comma _ _ _ _ _ _ hkacc hl', hrun]
  simp only [List.append_assoc, List.cons_append, List.nil_append]

/-! ### the induction on the derivation -/

mutual
theorem vgoal_of_jvalue : ∀ {body : Str} {v : JVal}, JValue body v → VGoal body v
  | _, _, .null => vgoal_null
  | _, _, .true => vgoal_true
  | _, _, .false => vgoal_false
  | _, _, .num hn hov => vgoal_num hn hov
  | _, _, .str h => vgoal_str h
  | _, _, .arrEmpty hw => vgoal_arrEmpty hw
  | _, _, .arr h => vgoal_arr (egoal_of_jelements h)
  | _, _, .objEmpty hw => vgoal_objEmpty hw
  | _, _, .obj h => vgoal_obj (mgoal_of_jmembers h)
theorem egoal_of_jelements : ∀ {src : Str} {items : List JVal}, JElements src items → EGoal src items
  | _, _, .one h1 h2 hb => egoal_one h1 h2 hb (vgoal_of_jvalue hb)
  | _, _, .cons h1 h2 hb hr => egoal_cons h1 h2 hb (vgoal_of_jvalue hb) (egoal_of_jelements hr)
theorem mgoal_of_jmembers : ∀ {src : Str} {fields : List (Str × JVal)}, JMembers src fields → MGoal src fields
  | _, _, .one h1 h2 h3 h4 hk hb => mgoal_one h1 h2 h3 h4 hk hb (vgoal_of_jvalue hb)
  | _, _, .cons h1 h2 h3 h4 hk hb hr =>
    mgoal_cons h1 h2 h3 h4 hk hb (vgoal_of_jvalue hb) (mgoal_of_jmembers hr)
end

/-- **Completeness of `parse_json`**: every JSON text of RFC 8259 whose objects have
    pairwise distinct member names is accepted, with the value it denotes. -/
theorem parseJson_complete {s : Str} {v : JVal} (h : JText s v) (hnd : NoDupKeys v) : parseJson s = .ok v := by
  obtain ⟨w1, body, w2, hw1, hw2, rfl, hb⟩ := h
  have hd : Delim w2 := by
    cases w2 with
    | nil => exact Or.inl rfl
    | cons c t => exact Or.inr ⟨c, t, rfl, Or.inl (isWs_of_IsWs hw2 c List.mem_cons_self)⟩
  have hsk : skipSpaces (w1 ++ body ++ w2) = body ++ w2 := by
    rw [List.append_assoc]; exact skip_to_jvalue hb hw1 w2
  have hrun : run (0 + steps v) [] (body ++ w2) = .ok v := by
    rw [vgoal_of_jvalue hb 0 [] w2 hnd hd]
    have : skipSpaces w2 = [] := by
      have := skipSpaces_ws_append [] (isWs_of_IsWs hw2)
      rw [List.append_nil] at this
      rw [this]; rfl
    rw [this, cont, unwind]
    rfl
  have hnf := parseJson_nf (w1 ++ body ++ w2)
  unfold parseJson at hnf ⊢
  rw [hsk] at hnf ⊢
  rcases Nat.le_total (0 + steps v) ((w1 ++ body ++ w2).length + 1) with hle | hle
  · exact run_fuel_le hrun (by intro hc; cases hc) hle
  · have := run_fuel_le rfl hnf hle
    rw [hrun] at this
    exact this.symm

end Rsj.Json
