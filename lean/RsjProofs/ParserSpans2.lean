/-
  C15 span claims, part 2: object bodies, index / slice, postfix loop, atoms.
-/
import RsjProofs.ParserSpans1
namespace Rsj.Parser
variable {toks : List Token}

theorem spec_liftFault {α : Type} (r : Except Fault α) (st : PState toks) :
    Ok (liftFault r st) (fun a st' => r = .ok a ∧ st' = st) := by
  unfold liftFault
  cases r with
  | error f => exact Ok.error
  | ok a => exact Ok.ok ⟨rfl, rfl⟩

section
variable (hord : Ord toks) {pe : PState toks → Except (Err toks) (Expr × PState toks)} (hpe : PeOK pe)
include hord hpe

theorem spec_objLoop : ∀ (fuel : Nat) (members : List Member) (c h : Bool) (st : PState toks) (L : Nat),
    L ≤ st.pos → WFMembers toks members L st.prev → st.prev ≤ st.pos →
    Ok (objLoop pe fuel members c h st) (fun r st' => r.1.WF toks L st'.prev ∧ End st r.2 st') := by
  intro fuel
  induction fuel with
  | zero => intro members c h st L _ _ _; exact Ok.error
  | succ fuel ih =>
    intro members c h st L hL hms hst
    unfold objLoop
    refine Ok.bind (spec_maybeParseObjLocal hord hpe fuel st L hL) ?_
    intro ol st1 h1
    dsimp only
    refine Ok.bind (P := fun r st3 => WFMembers toks r.1 L st3.prev ∧ Fwd st st3) ?_ ?_
    · cases ol with
      | some b =>
        obtain ⟨hb, f1, _⟩ := h1
        exact Ok.pure ⟨WFMembers.append (hms.mono (Nat.le_refl _) (by nums)) hb, f1⟩
      | none =>
        dsimp only
        refine Ok.bind (spec_maybeParseField hord hpe fuel st1 L (by nums)) ?_
        intro fl st2 h2
        cases fl with
        | some f =>
          obtain ⟨hf, f2, _⟩ := h2
          exact Ok.pure ⟨WFMembers.append (hms.mono (Nat.le_refl _) (by nums)) hf, by nums⟩
        | none =>
          dsimp only
          refine Ok.bind (spec_maybeParseAssert hord hpe true st2) ?_
          intro a st3 h3
          cases a with
          | none => exact Ok.error
          | some p =>
            obtain ⟨sp, a⟩ := p
            obtain ⟨_, _, ha, f3, _⟩ := h3
            refine Ok.pure ⟨WFMembers.append (hms.mono (Nat.le_refl _) (by nums)) (ha.mono (by nums) (Nat.le_refl _)), by nums⟩
    · intro r st3 h3
      obtain ⟨members', c', h'⟩ := r
      obtain ⟨hms', f3⟩ := h3
      dsimp only at hms' ⊢
      refine Ok.bind (spec_eatSimple hord .RightBrace true st3) ?_
      intro rb st4 h4
      have f4 := h4.fwd hord
      cases rb with
      | some endSp => exact Ok.pure ⟨hms'.mono (Nat.le_refl _) (by nums), (Tok.toEnd h4).weaken f3⟩
      | none =>
        dsimp only
        refine Ok.bind (spec_eatSimple hord .Comma true st4) ?_
        intro cm st5 h5
        have f5 := h5.fwd hord
        -- the comprehension tail shared by both branches
        have comp : ∀ st6 : PState toks, Fwd st5 st6 → ∀ spec, WFSpecs toks spec L st6.prev →
            Ok (do
              let (endSp, st) ← expectSimple .RightBrace true st6
              let (o, st) ← liftFault (makeComp members' spec) st
              pure ((o, endSp), st))
              (fun r st' => r.1.WF toks L st'.prev ∧ End st r.2 st') := by
          intro st6 f6 spec hspec
          refine Ok.bind (spec_expectSimple hord .RightBrace true st6) ?_
          intro endSp st7 h7
          have f7 := h7.fwd
          dsimp only
          refine Ok.bind (spec_liftFault _ st7) ?_
          intro o st8 h8
          obtain ⟨hmk, rfl⟩ := h8
          refine Ok.pure ⟨?_, (Tok.toEnd h7).weaken (by nums)⟩
          exact spec_makeComp members' spec o (hms'.mono (Nat.le_refl _) (by nums))
            (hspec.mono (Nat.le_refl _) (by nums)) hmk
        cases cm with
        | some _ =>
          dsimp only
          refine Ok.bind (spec_eatSimple hord .RightBrace true st5) ?_
          intro rb2 st6 h6
          have f6 := h6.fwd hord
          cases rb2 with
          | some endSp => exact Ok.pure ⟨hms'.mono (Nat.le_refl _) (by nums), (Tok.toEnd h6).weaken (by nums)⟩
          | none =>
            dsimp only
            have again : Ok (objLoop pe fuel members' c' h' st6)
                (fun r st' => r.1.WF toks L st'.prev ∧ End st r.2 st') := by
              refine Ok.mono (ih members' c' h' st6 L (by nums) (hms'.mono (Nat.le_refl _) (by nums)) (by nums)) ?_
              intro r s hr
              exact ⟨hr.1, hr.2.weaken (by nums)⟩
            split
            · refine Ok.bind (spec_maybeParseCompSpec hord hpe fuel st6 L (by nums)) ?_
              intro cs st7 h7
              cases cs with
              | some spec =>
                obtain ⟨hspec, f7, _⟩ := h7
                exact Ok.mono (comp st7 (by nums) spec hspec) (fun r s hr => hr)
              | none =>
                dsimp only
                have hsame : Same st6 st7 := h7
                refine Ok.mono (ih members' c' h' st7 L (by nums) (hms'.mono (Nat.le_refl _) (by nums)) (by nums)) ?_
                intro r s hr
                exact ⟨hr.1, hr.2.weaken (by nums)⟩
            · exact again
        | none =>
          dsimp only
          split
          · refine Ok.bind (spec_maybeParseCompSpec hord hpe fuel st5 L (by nums)) ?_
            intro cs st6 h6
            cases cs with
            | some spec =>
              obtain ⟨hspec, f6, _⟩ := h6
              exact Ok.mono (comp st6 (by nums) spec hspec) (fun r s hr => hr)
            | none => exact Ok.error
          · exact Ok.error

theorem spec_parseObjInside (fuel : Nat) (st : PState toks) (L : Nat) (hL : L ≤ st.pos) :
    Ok (parseObjInside pe fuel st) (fun r st' => r.1.WF toks L st'.prev ∧ End st r.2 st') := by
  unfold parseObjInside
  refine Ok.bind (spec_eatSimple hord .RightBrace true st) ?_
  intro rb st1 h1
  have f1 := h1.fwd hord
  cases rb with
  | some endSp => exact Ok.pure ⟨trivial, Tok.toEnd h1⟩
  | none =>
    dsimp only
    refine Ok.mono (spec_objLoop hord hpe fuel [] true false st1 L (by nums) trivial (by nums)) ?_
    intro r s hr
    exact ⟨hr.1, hr.2.weaken f1⟩


theorem spec_sliceLast (st : PState toks) (L : Nat) (hL : L ≤ st.pos) :
    Ok (sliceLast pe st) (fun r st' => WFOpt toks r.1 L st'.prev ∧ End st r.2 st') := by
  unfold sliceLast
  refine Ok.bind (spec_eatSimple hord .RightBracket true st) ?_
  intro rb st1 h1
  have f1 := h1.fwd hord
  cases rb with
  | some endSp => exact Ok.pure ⟨trivial, Tok.toEnd h1⟩
  | none =>
    dsimp only
    refine Ok.bind (hpe st1) ?_
    intro i3 st2 h2
    have f2 := h2.fwd
    dsimp only
    refine Ok.bind (spec_expectSimple hord .RightBracket true st2) ?_
    intro endSp st3 h3
    have f3 := h3.fwd
    exact Ok.pure ⟨h2.wf (by nums) (by nums), (Tok.toEnd h3).weaken (by nums)⟩

theorem spec_sliceAfterColon (st : PState toks) (L : Nat) (hL : L ≤ st.pos) :
    Ok (sliceAfterColon pe st)
      (fun r st' => WFOpt toks r.1 L st'.prev ∧ WFOpt toks r.2.1 L st'.prev ∧ End st r.2.2 st') := by
  unfold sliceAfterColon
  refine Ok.bind (spec_eatSimple hord .RightBracket true st) ?_
  intro rb st1 h1
  have f1 := h1.fwd hord
  cases rb with
  | some endSp => exact Ok.pure ⟨trivial, trivial, Tok.toEnd h1⟩
  | none =>
    dsimp only
    refine Ok.bind (spec_eatSimple hord .Colon true st1) ?_
    intro c st2 h2
    have f2 := h2.fwd hord
    cases c with
    | some _ =>
      dsimp only
      refine Ok.bind (spec_sliceLast hord hpe st2 L (by nums)) ?_
      intro r st3 h3
      obtain ⟨i3, endSp⟩ := r
      exact Ok.pure ⟨trivial, h3.1, h3.2.weaken (by nums)⟩
    | none =>
      dsimp only
      refine Ok.bind (hpe st2) ?_
      intro i2 st3 h3
      have f3 := h3.fwd
      dsimp only
      refine Ok.bind (spec_eatSimple hord .RightBracket true st3) ?_
      intro rb2 st4 h4
      have f4 := h4.fwd hord
      cases rb2 with
      | some endSp =>
        exact Ok.pure ⟨h3.wf (by nums) (by nums), trivial, (Tok.toEnd h4).weaken (by nums)⟩
      | none =>
        dsimp only
        refine Ok.bind (spec_eatSimple hord .Colon true st4) ?_
        intro c2 st5 h5
        have f5 := h5.fwd hord
        cases c2 with
        | none => exact Ok.error
        | some _ =>
          dsimp only
          refine Ok.bind (spec_sliceLast hord hpe st5 L (by nums)) ?_
          intro r st6 h6
          obtain ⟨i3, endSp⟩ := r
          have f6 := h6.2.fwd
          exact Ok.pure ⟨h3.wf (by nums) (by nums), h6.1, h6.2.weaken (by nums)⟩

/-- an expression already parsed, ending at or before the last consumed token of `st` -/
def LhsOK (lhs : Expr) (st : PState toks) : Prop :=
  lhs.WF toks lhs.span.start lhs.span.stop ∧ lhs.span.stop ≤ st.prev ∧ st.prev ≤ st.pos

/-- a postfix form built on `lhs` -/
def SufPost (lhs : Expr) (st : PState toks) (e : Expr) (st' : PState toks) : Prop :=
  e.WF toks e.span.start e.span.stop ∧ e.span.start = lhs.span.start ∧ e.span.stop = st'.prev ∧
    Fwd st st'

omit hord hpe in
theorem LhsOK.start_le {lhs : Expr} {st : PState toks} (h : LhsOK lhs st) : lhs.span.start ≤ lhs.span.stop :=
  h.1.spanOK.2.1

theorem spec_parseIndexExpr (lhs : Expr) (st : PState toks) (hl : LhsOK lhs st) :
    Ok (parseIndexExpr pe lhs st) (SufPost lhs st) := by
  have hle := hl.start_le
  obtain ⟨hwf, hstop, hst⟩ := hl
  have hS := hwf.spanOK.2.2.2.1
  unfold parseIndexExpr
  refine Ok.bind (spec_eatSimple hord .Colon true st) ?_
  intro c st1 h1
  have f1 := h1.fwd hord
  cases c with
  | some _ =>
    dsimp only
    refine Ok.bind (spec_sliceAfterColon hord hpe st1 lhs.span.start (by nums)) ?_
    intro r st2 h2
    obtain ⟨i2, i3, endSp⟩ := r
    obtain ⟨h2a, h2b, hend⟩ := h2
    have f2 := hend.fwd
    refine Ok.pure ⟨⟨surround_ok hS hend.isStop (Nat.le_refl _) (by nums) (Nat.le_refl _), ?_, trivial, ?_, ?_, rfl⟩,
      rfl, by nums, by nums⟩
    · exact hwf.mono (Nat.le_refl _) (by nums)
    · exact h2a.mono (Nat.le_refl _) (by nums)
    · exact h2b.mono (Nat.le_refl _) (by nums)
  | none =>
    dsimp only
    refine Ok.bind (spec_eatSimple hord .ColonColon true st1) ?_
    intro cc st2 h2
    have f2 := h2.fwd hord
    cases cc with
    | some _ =>
      dsimp only
      refine Ok.bind (spec_sliceLast hord hpe st2 lhs.span.start (by nums)) ?_
      intro r st3 h3
      obtain ⟨i3, endSp⟩ := r
      obtain ⟨h3a, hend⟩ := h3
      have f3 := hend.fwd
      refine Ok.pure ⟨⟨surround_ok hS hend.isStop (Nat.le_refl _) (by nums) (Nat.le_refl _), ?_, trivial, trivial, ?_, rfl⟩,
        rfl, by nums, by nums⟩
      · exact hwf.mono (Nat.le_refl _) (by nums)
      · exact h3a.mono (Nat.le_refl _) (by nums)
    | none =>
      dsimp only
      refine Ok.bind (hpe st2) ?_
      intro i1 st3 h3
      have f3 := h3.fwd
      dsimp only
      refine Ok.bind (spec_eatSimple hord .RightBracket true st3) ?_
      intro rb st4 h4
      have f4 := h4.fwd hord
      cases rb with
      | some endSp =>
        refine Ok.pure ⟨⟨surround_ok hS h4.isStop (Nat.le_refl _) (by nums) (Nat.le_refl _), ?_, ?_, rfl⟩,
          rfl, by nums, by nums⟩
        · exact hwf.mono (Nat.le_refl _) (by nums)
        · exact h3.wf (by nums) (by nums)
      | none =>
        dsimp only
        refine Ok.bind (spec_eatSimple hord .Colon true st4) ?_
        intro c2 st5 h5
        have f5 := h5.fwd hord
        cases c2 with
        | some _ =>
          dsimp only
          refine Ok.bind (spec_sliceAfterColon hord hpe st5 lhs.span.start (by nums)) ?_
          intro r st6 h6
          obtain ⟨i2, i3, endSp⟩ := r
          obtain ⟨h6a, h6b, hend⟩ := h6
          have f6 := hend.fwd
          refine Ok.pure ⟨⟨surround_ok hS hend.isStop (Nat.le_refl _) (by nums) (Nat.le_refl _), ?_, ?_, ?_, ?_, rfl⟩,
            rfl, by nums, by nums⟩
          · exact hwf.mono (Nat.le_refl _) (by nums)
          · exact h3.wf (by nums) (by nums)
          · exact h6a.mono (Nat.le_refl _) (by nums)
          · exact h6b.mono (Nat.le_refl _) (by nums)
        | none =>
          dsimp only
          refine Ok.bind (spec_eatSimple hord .ColonColon true st5) ?_
          intro cc2 st6 h6
          have f6 := h6.fwd hord
          cases cc2 with
          | none => exact Ok.error
          | some _ =>
            dsimp only
            refine Ok.bind (spec_sliceLast hord hpe st6 lhs.span.start (by nums)) ?_
            intro r st7 h7
            obtain ⟨i3, endSp⟩ := r
            obtain ⟨h7a, hend⟩ := h7
            have f7 := hend.fwd
            refine Ok.pure ⟨⟨surround_ok hS hend.isStop (Nat.le_refl _) (by nums) (Nat.le_refl _), ?_, ?_, trivial, ?_, rfl⟩,
              rfl, by nums, by nums⟩
            · exact hwf.mono (Nat.le_refl _) (by nums)
            · exact h3.wf (by nums) (by nums)
            · exact h7a.mono (Nat.le_refl _) (by nums)


omit hord hpe in
theorem SufPost.trans {lhs e e' : Expr} {st st1 st' : PState toks} (h1 : SufPost lhs st e st1)
    (h2 : SufPost e st1 e' st') : SufPost lhs st e' st' :=
  ⟨h2.1, by rw [h2.2.1, h1.2.1], h2.2.2.1, h1.2.2.2.trans h2.2.2.2⟩

theorem spec_parseSuffixExpr : ∀ (fuel : Nat) (lhs : Expr) (st : PState toks),
    lhs.WF toks lhs.span.start lhs.span.stop → lhs.span.stop = st.prev → st.prev ≤ st.pos →
    Ok (parseSuffixExpr pe fuel lhs st) (SufPost lhs st) := by
  intro fuel
  induction fuel with
  | zero => intro lhs st _ _ _; exact Ok.error
  | succ fuel ih =>
    intro lhs st hwf hstop hst
    have hle := hwf.spanOK.2.1
    have hS := hwf.spanOK.2.2.2.1
    -- continue the loop with a new postfix form `e` reached at `st1`
    have cont : ∀ (e : Expr) (st1 : PState toks), SufPost lhs st e st1 →
        Ok (parseSuffixExpr pe fuel e st1) (SufPost lhs st) := by
      intro e st1 h
      refine Ok.mono (ih e st1 h.1 h.2.2.1 (by have := h.2.2.2; nums)) ?_
      intro e' s hr
      exact h.trans hr
    unfold parseSuffixExpr
    refine Ok.bind (spec_eatSimple hord .Dot true st) ?_
    intro dot st1 h1
    have f1 := h1.fwd hord
    cases dot with
    | some _ =>
      dsimp only
      refine Ok.bind (spec_expectIdent hord true st1) ?_
      intro name st2 h2
      have f2 := h2.fwd
      dsimp only
      refine cont _ st2 ⟨⟨surround_ok hS h2.isStop (Nat.le_refl _) (by nums) (Nat.le_refl _), ?_, ?_, rfl, rfl⟩, rfl, by nums, by nums⟩
      · exact hwf.mono (Nat.le_refl _) (by nums)
      · exact h2.spanOK (by nums) (by nums)
    | none =>
      dsimp only
      refine Ok.bind (spec_eatSimple hord .LeftBracket true st1) ?_
      intro lb st2 h2
      have f2 := h2.fwd hord
      cases lb with
      | some _ =>
        dsimp only
        refine Ok.bind (spec_parseIndexExpr hord hpe lhs st2 ⟨hwf, by nums, by nums⟩) ?_
        intro e st3 h3
        dsimp only
        refine cont e st3 ⟨h3.1, h3.2.1, h3.2.2.1, ?_⟩
        have := h3.2.2.2
        nums
      | none =>
        dsimp only
        refine Ok.bind (spec_eatSimple hord .LeftParen true st2) ?_
        intro lp st3 h3
        have f3 := h3.fwd hord
        cases lp with
        | some _ =>
          dsimp only
          refine Ok.bind (spec_eatSimple hord .RightParen true st3) ?_
          intro rp st4 h4
          have f4 := h4.fwd hord
          dsimp only
          refine Ok.bind (P := fun r st5 => WFArgs toks r.1 lhs.span.start st5.prev ∧ End st3 r.2 st5) ?_ ?_
          · cases rp with
            | some endSp => exact Ok.pure ⟨trivial, (Tok.toEnd h4)⟩
            | none =>
              dsimp only
              refine Ok.mono (spec_parseArgs hord hpe fuel st4 lhs.span.start (by nums)) ?_
              intro r s hr
              exact ⟨hr.1, hr.2.weaken (by nums)⟩
          · intro r st5 h5
            obtain ⟨args, endSp⟩ := r
            obtain ⟨hargs, hend⟩ := h5
            have f5 := hend.fwd
            dsimp only at hargs hend ⊢
            refine Ok.bind (spec_eatSimple hord .Tailstrict true st5) ?_
            intro ts st6 h6
            have f6 := h6.fwd hord
            dsimp only
            cases ts with
            | some tsp =>
              simp only [Option.getD, Option.isSome]
              refine cont _ st6 ⟨⟨surround_ok hS h6.isStop (Nat.le_refl _) (by nums) (Nat.le_refl _), ?_, ?_, rfl⟩, rfl, by nums, by nums⟩
              · exact hwf.mono (Nat.le_refl _) (by nums)
              · exact hargs.mono (Nat.le_refl _) (by nums)
            | none =>
              simp only [Option.getD, Option.isSome]
              refine cont _ st6 ⟨⟨surround_ok hS hend.isStop (Nat.le_refl _) (by nums) (Nat.le_refl _), ?_, ?_, rfl⟩, rfl, by nums, by nums⟩
              · exact hwf.mono (Nat.le_refl _) (by nums)
              · exact hargs.mono (Nat.le_refl _) (by nums)
        | none =>
          dsimp only
          refine Ok.bind (spec_eatSimple hord .LeftBrace true st3) ?_
          intro lbr st4 h4
          have f4 := h4.fwd hord
          cases lbr with
          | none => exact Ok.pure ⟨hwf, rfl, by nums, by nums⟩
          | some objStart =>
            dsimp only
            refine Ok.bind (spec_parseObjInside hord hpe fuel st4 objStart.start (by nums)) ?_
            intro r st5 h5
            obtain ⟨o, objEnd⟩ := r
            obtain ⟨ho, hend⟩ := h5
            have f5 := hend.fwd
            dsimp only at ho hend ⊢
            refine cont _ st5 ⟨⟨surround_ok hS hend.isStop (Nat.le_refl _) (by nums) (Nat.le_refl _), ?_, ?_, ?_, rfl, rfl⟩, rfl, by nums, by nums⟩
            · exact hwf.mono (Nat.le_refl _) (by nums)
            · exact surround_ok h4.isStart hend.isStop (by nums) (by nums) (by nums)
            · exact ho.mono (Nat.le_refl _) (by nums)

theorem spec_bindsLoop : ∀ (fuel : Nat) (acc : List Bind) (st : PState toks) (L : Nat),
    L ≤ st.pos → WFBinds toks acc L st.prev → st.prev ≤ st.pos →
    Ok (bindsLoop pe fuel acc st) (fun r st' => WFBinds toks r L st'.prev ∧ Fwd st st') := by
  intro fuel
  induction fuel with
  | zero => intro acc st L _ _ _; exact Ok.error
  | succ fuel ih =>
    intro acc st L hL hacc hst
    unfold bindsLoop
    refine Ok.bind (spec_eatSimple hord .Comma true st) ?_
    intro c st1 h1
    have f1 := h1.fwd hord
    cases c with
    | none => exact Ok.pure ⟨hacc.mono (Nat.le_refl _) (by nums), by nums⟩
    | some _ =>
      dsimp only
      refine Ok.bind (spec_parseBind hord hpe fuel st1 L (by nums)) ?_
      intro b st2 h2
      obtain ⟨hb, f2, _⟩ := h2
      dsimp only
      refine Ok.mono (ih _ st2 L (by nums) (WFBinds.append (hacc.mono (Nat.le_refl _) (by nums)) hb) (by nums)) ?_
      intro r s hr
      exact ⟨hr.1, by have := hr.2; nums⟩

end
end Rsj.Parser
