/-
  C15: the slice grammar of `parse_index_expr` — all token layouts `[ e1? : e2? : e3? ]` with the
  second colon optional and `::` lexed as one token.
-/
import RsjProofs.ParserRun9
namespace Rsj.Parser
set_option linter.unusedSimpArgs false

section
variable {toks : List Token} (pe : PState toks → Except (Err toks) (Expr × PState toks)) (R : Nat)

/-- an operand of a slice: its tokens and the tree `parse_expr` (`pe`) makes of them (up to spans) -/
structure Operand where
  tks : Toks
  e : Expr

/-- the tokens that can follow an operand inside `[ … ]` -/
def SliceStop (b : TokKind) : Prop := b = sim .Colon ∨ b = sim .ColonColon ∨ b = sim .RightBracket

/-- `pe` parses the operand wherever it stands inside the brackets (at most `R` tokens left), and
    the operand does not begin with a token that the slice grammar looks for -/
def Operand.OK (x : Operand) : Prop :=
  (∃ a l, x.tks = a :: l ∧ a ≠ sim .Colon ∧ a ≠ sim .ColonColon ∧ a ≠ sim .RightBracket) ∧
  ∀ (st : PState toks) (b : TokKind) (ks : List TokKind), st.kinds = x.tks ++ b :: ks →
    st.kinds.length ≤ R → SliceStop b →
    ∃ e' st', pe st = .ok (e', st') ∧ e'.erase = x.e.erase ∧ st'.kinds = b :: ks

/-- after a colon that can be the last one: `]` or `e3 ]` -/
inductive Last where
  | none
  | some (z : Operand)

def Last.tks : Last → Toks
  | .none => []
  | .some z => z.tks
def Last.e : Last → Option Expr
  | .none => Option.none
  | .some z => Option.some z.e
def Last.OK : Last → Prop
  | .none => True
  | .some z => z.OK pe R

/-- after `[ e1? :` -/
inductive AfterColon where
  | close                         -- `]`
  | colon (l : Last)              -- `: ]`, `: e3 ]`
  | expr (y : Operand)            -- `e2 ]`
  | exprColon (y : Operand) (l : Last)   -- `e2 : ]`, `e2 : e3 ]`

def AfterColon.tks : AfterColon → Toks
  | .close => []
  | .colon l => sim .Colon :: l.tks
  | .expr y => y.tks
  | .exprColon y l => y.tks ++ sim .Colon :: l.tks
def AfterColon.e2 : AfterColon → Option Expr
  | .expr y | .exprColon y _ => some y.e
  | _ => none
def AfterColon.e3 : AfterColon → Option Expr
  | .colon l | .exprColon _ l => l.e
  | _ => none
def AfterColon.OK : AfterColon → Prop
  | .close => True
  | .colon l => l.OK pe R
  | .expr y => y.OK pe R
  | .exprColon y l => y.OK pe R ∧ l.OK pe R

/-- the 16 layouts between `[` and `]` -/
inductive SliceLayout where
  | colon (a : AfterColon)                 -- `[ : …`            (6 layouts)
  | dcolon (l : Last)                      -- `[ :: ]`, `[ :: e3 ]`
  | e1colon (x : Operand) (a : AfterColon) -- `[ e1 : …`         (6 layouts)
  | e1dcolon (x : Operand) (l : Last)      -- `[ e1 :: ]`, `[ e1 :: e3 ]`

def SliceLayout.tks : SliceLayout → Toks
  | .colon a => sim .Colon :: a.tks
  | .dcolon l => sim .ColonColon :: l.tks
  | .e1colon x a => x.tks ++ sim .Colon :: a.tks
  | .e1dcolon x l => x.tks ++ sim .ColonColon :: l.tks
def SliceLayout.e1 : SliceLayout → Option Expr
  | .e1colon x _ | .e1dcolon x _ => some x.e
  | _ => none
def SliceLayout.e2 : SliceLayout → Option Expr
  | .colon a | .e1colon _ a => a.e2
  | _ => none
def SliceLayout.e3 : SliceLayout → Option Expr
  | .colon a | .e1colon _ a => a.e3
  | .dcolon l | .e1dcolon _ l => l.e
def SliceLayout.OK : SliceLayout → Prop
  | .colon a => a.OK pe R
  | .dcolon l => l.OK pe R
  | .e1colon x a => x.OK pe R ∧ a.OK pe R
  | .e1dcolon x l => x.OK pe R ∧ l.OK pe R

theorem sliceLast_fwd (l : Last) (hl : l.OK pe R) {st : PState toks} {b : TokKind} {ks : List TokKind}
    (hk : st.kinds = l.tks ++ sim .RightBracket :: b :: ks) (hlen : st.kinds.length ≤ R) :
    ∃ o sp st', sliceLast pe st = .ok ((o, sp), st') ∧ eraseOpt o = eraseOpt l.e ∧ st'.kinds = b :: ks := by
  cases l with
  | none =>
    obtain ⟨st', he, hk'⟩ := eatSimple_hit (k := .RightBracket) true (by simpa [Last.tks, sim] using hk)
    refine ⟨none, st.cur.span, st', ?_, rfl, hk'⟩
    unfold sliceLast
    rw [he]; rfl
  | some z =>
    obtain ⟨⟨a, l, hz, _, _, hne⟩, hp⟩ := hl
    have hc : st.cur.kind = a := by
      apply cur_kind_of_kinds (T := l ++ sim .RightBracket :: b :: ks)
      rw [hk]; simp [Last.tks, hz]
    have hm : eatSimple .RightBracket true st = .ok (none, st.pushIf true (.simple .RightBracket)) :=
      eatSimple_miss true (by rw [hc]; simpa [sim] using hne)
    obtain ⟨e', st1, hp1, hee, hk1⟩ := hp (st.pushIf true (.simple .RightBracket)) (sim .RightBracket) (b :: ks)
      (by rw [kinds_pushIf]; simpa [Last.tks] using hk) (by rw [kinds_pushIf]; exact hlen) (Or.inr (Or.inr rfl))
    obtain ⟨st2, he2, hk2⟩ := expectSimple_hit true hk1
    refine ⟨some e', st1.cur.span, st2, ?_, by simp [eraseOpt, Last.e, hee], hk2⟩
    unfold sliceLast
    rw [hm]; simp only [bind, Except.bind]
    rw [hp1]; simp only []
    rw [he2]; rfl

theorem sliceAfterColon_fwd (a : AfterColon) (ha : a.OK pe R) {st : PState toks} {b : TokKind} {ks : List TokKind}
    (hk : st.kinds = a.tks ++ sim .RightBracket :: b :: ks) (hlen : st.kinds.length ≤ R) :
    ∃ o2 o3 sp st', sliceAfterColon pe st = .ok ((o2, o3, sp), st') ∧ eraseOpt o2 = eraseOpt a.e2 ∧
      eraseOpt o3 = eraseOpt a.e3 ∧ st'.kinds = b :: ks := by
  cases a with
  | close =>
    obtain ⟨st', he, hk'⟩ := eatSimple_hit (k := .RightBracket) true (by simpa [AfterColon.tks, sim] using hk)
    refine ⟨none, none, st.cur.span, st', ?_, rfl, rfl, hk'⟩
    unfold sliceAfterColon
    rw [he]; rfl
  | colon l =>
    have hk0 : st.kinds = sim .Colon :: (l.tks ++ sim .RightBracket :: b :: ks) := by
      simpa [AfterColon.tks] using hk
    have hc := cur_kind_of_kinds hk0
    have hm : eatSimple .RightBracket true st = .ok (none, st.pushIf true (.simple .RightBracket)) :=
      eatSimple_miss true (by rw [hc]; simp [sim])
    obtain ⟨x, X, hx⟩ : ∃ x X, l.tks ++ sim .RightBracket :: b :: ks = x :: X := by
      cases hlt : l.tks with
      | nil => exact ⟨_, _, rfl⟩
      | cons x X => exact ⟨x, X ++ sim .RightBracket :: b :: ks, rfl⟩
    rw [hx] at hk0
    obtain ⟨st1, he1, hk1⟩ := eatSimple_hit (st := st.pushIf true (.simple .RightBracket)) true
      (by rw [kinds_pushIf]; exact hk0)
    rw [← hx] at hk1
    obtain ⟨o3, sp, st2, hl2, ho3, hk2⟩ := sliceLast_fwd pe R l ha hk1 (by have h1 := congrArg List.length hk1; have h2 := congrArg List.length hk; simp [AfterColon.tks] at h1 h2; omega)
    refine ⟨none, o3, sp, st2, ?_, rfl, ho3, hk2⟩
    unfold sliceAfterColon
    rw [hm]; simp only [bind, Except.bind]
    rw [he1]; simp only []
    rw [hl2]; rfl
  | expr y =>
    obtain ⟨⟨a, l, hy, hn1, _, hn3⟩, hp⟩ := ha
    have hc : st.cur.kind = a := by
      apply cur_kind_of_kinds (T := l ++ sim .RightBracket :: b :: ks)
      rw [hk]; simp [AfterColon.tks, hy]
    have hm : eatSimple .RightBracket true st = .ok (none, st.pushIf true (.simple .RightBracket)) :=
      eatSimple_miss true (by rw [hc]; simpa [sim] using hn3)
    have hm2 : eatSimple .Colon true (st.pushIf true (.simple .RightBracket)) =
        .ok (none, (st.pushIf true (.simple .RightBracket)).pushIf true (.simple .Colon)) :=
      eatSimple_miss true (by rw [cur_pushIf, hc]; simpa [sim] using hn1)
    obtain ⟨e', st1, hp1, hee, hk1⟩ := hp ((st.pushIf true (.simple .RightBracket)).pushIf true (.simple .Colon))
      (sim .RightBracket) (b :: ks) (by rw [kinds_pushIf, kinds_pushIf]; simpa [AfterColon.tks] using hk)
      (by rw [kinds_pushIf, kinds_pushIf]; exact hlen) (Or.inr (Or.inr rfl))
    obtain ⟨st2, he2, hk2⟩ := eatSimple_hit true hk1
    refine ⟨some e', none, st1.cur.span, st2, ?_, by simp [eraseOpt, AfterColon.e2, hee], rfl, hk2⟩
    unfold sliceAfterColon
    rw [hm]; simp only [bind, Except.bind]
    rw [hm2]; simp only []
    rw [hp1]; simp only []
    rw [he2]; rfl
  | exprColon y l =>
    obtain ⟨⟨⟨a, l', hy, hn1, _, hn3⟩, hp⟩, hl⟩ := ha
    have hc : st.cur.kind = a := by
      apply cur_kind_of_kinds (T := l' ++ sim .Colon :: (l.tks ++ sim .RightBracket :: b :: ks))
      rw [hk]; simp [AfterColon.tks, hy]
    have hm : eatSimple .RightBracket true st = .ok (none, st.pushIf true (.simple .RightBracket)) :=
      eatSimple_miss true (by rw [hc]; simpa [sim] using hn3)
    have hm2 : eatSimple .Colon true (st.pushIf true (.simple .RightBracket)) =
        .ok (none, (st.pushIf true (.simple .RightBracket)).pushIf true (.simple .Colon)) :=
      eatSimple_miss true (by rw [cur_pushIf, hc]; simpa [sim] using hn1)
    obtain ⟨x, X, hx⟩ : ∃ x X, l.tks ++ sim .RightBracket :: b :: ks = x :: X := by
      cases hlt : l.tks with
      | nil => exact ⟨_, _, rfl⟩
      | cons x X => exact ⟨x, X ++ sim .RightBracket :: b :: ks, rfl⟩
    obtain ⟨e', st1, hp1, hee, hk1⟩ := hp ((st.pushIf true (.simple .RightBracket)).pushIf true (.simple .Colon))
      (sim .Colon) (x :: X) (by rw [kinds_pushIf, kinds_pushIf, hk, ← hx]; simp [AfterColon.tks])
      (by rw [kinds_pushIf, kinds_pushIf]; exact hlen) (Or.inl rfl)
    have hc1 := cur_kind_of_kinds hk1
    have hm3 : eatSimple .RightBracket true st1 = .ok (none, st1.pushIf true (.simple .RightBracket)) :=
      eatSimple_miss true (by rw [hc1]; simp [sim])
    obtain ⟨st2, he2, hk2⟩ := eatSimple_hit (st := st1.pushIf true (.simple .RightBracket)) true
      (by rw [kinds_pushIf]; exact hk1)
    rw [← hx] at hk2
    obtain ⟨o3, sp, st3, hl3, ho3, hk3⟩ := sliceLast_fwd pe R l hl hk2 (by have h1 := congrArg List.length hk2; have h2 := congrArg List.length hk; simp [AfterColon.tks] at h1 h2; omega)
    refine ⟨some e', o3, sp, st3, ?_, by simp [eraseOpt, AfterColon.e2, hee], ho3, hk3⟩
    unfold sliceAfterColon
    rw [hm]; simp only [bind, Except.bind]
    rw [hm2]; simp only []
    rw [hp1]; simp only []
    rw [hm3]; simp only []
    rw [he2]; simp only []
    rw [hl3]; rfl

/-- **All slice layouts.** After the `[`, for each of the 16 layouts, `parse_index_expr` builds the
    `Slice` node with every operand in its own position. -/
theorem parseIndexExpr_slice (lay : SliceLayout) (hok : lay.OK pe R) (lhs : Expr) {st : PState toks}
    {b : TokKind} {ks : List TokKind} (hk : st.kinds = lay.tks ++ sim .RightBracket :: b :: ks)
    (hlen : st.kinds.length ≤ R) :
    ∃ o1 o2 o3 sp st', parseIndexExpr pe lhs st = .ok (.slice lhs o1 o2 o3 sp, st') ∧
      eraseOpt o1 = eraseOpt lay.e1 ∧ eraseOpt o2 = eraseOpt lay.e2 ∧ eraseOpt o3 = eraseOpt lay.e3 ∧
      st'.kinds = b :: ks := by
  cases lay with
  | colon a =>
    obtain ⟨x, X, hx⟩ : ∃ x X, a.tks ++ sim .RightBracket :: b :: ks = x :: X := by
      cases hlt : a.tks with
      | nil => exact ⟨_, _, rfl⟩
      | cons x X => exact ⟨x, X ++ sim .RightBracket :: b :: ks, rfl⟩
    obtain ⟨st1, he1, hk1⟩ := eatSimple_hit (k := .Colon) (st := st) (b := x) (ks := X) true
      (by rw [hk, ← hx]; simp [SliceLayout.tks, sim])
    rw [← hx] at hk1
    obtain ⟨o2, o3, sp, st2, h2, ho2, ho3, hk2⟩ := sliceAfterColon_fwd pe R a hok hk1 (by have h1 := congrArg List.length hk1; have h2 := congrArg List.length hk; simp [SliceLayout.tks] at h1 h2; omega)
    refine ⟨none, o2, o3, surround lhs.span sp, st2, ?_, rfl, ho2, ho3, hk2⟩
    unfold parseIndexExpr
    rw [he1]; simp only [bind, Except.bind]
    rw [h2]; rfl
  | dcolon l =>
    have hk0 : st.kinds = sim .ColonColon :: (l.tks ++ sim .RightBracket :: b :: ks) := by
      simpa [SliceLayout.tks] using hk
    have hc := cur_kind_of_kinds hk0
    have hm : eatSimple .Colon true st = .ok (none, st.pushIf true (.simple .Colon)) :=
      eatSimple_miss true (by rw [hc]; simp [sim])
    obtain ⟨x, X, hx⟩ : ∃ x X, l.tks ++ sim .RightBracket :: b :: ks = x :: X := by
      cases hlt : l.tks with
      | nil => exact ⟨_, _, rfl⟩
      | cons x X => exact ⟨x, X ++ sim .RightBracket :: b :: ks, rfl⟩
    rw [hx] at hk0
    obtain ⟨st1, he1, hk1⟩ := eatSimple_hit (st := st.pushIf true (.simple .Colon)) true
      (by rw [kinds_pushIf]; exact hk0)
    rw [← hx] at hk1
    obtain ⟨o3, sp, st2, h2, ho3, hk2⟩ := sliceLast_fwd pe R l hok hk1 (by have h1 := congrArg List.length hk1; have h2 := congrArg List.length hk; simp [SliceLayout.tks] at h1 h2; omega)
    refine ⟨none, none, o3, surround lhs.span sp, st2, ?_, rfl, rfl, ho3, hk2⟩
    unfold parseIndexExpr
    rw [hm]; simp only [bind, Except.bind]
    rw [he1]; simp only []
    rw [h2]; rfl
  | e1colon x a =>
    obtain ⟨⟨⟨c, l', hxt, hn1, hn2, hn3⟩, hp⟩, ha⟩ := hok
    have hc : st.cur.kind = c := by
      apply cur_kind_of_kinds (T := l' ++ sim .Colon :: (a.tks ++ sim .RightBracket :: b :: ks))
      rw [hk]; simp [SliceLayout.tks, hxt]
    have hm1 : eatSimple .Colon true st = .ok (none, st.pushIf true (.simple .Colon)) :=
      eatSimple_miss true (by rw [hc]; simpa [sim] using hn1)
    have hm2 : eatSimple .ColonColon true (st.pushIf true (.simple .Colon)) =
        .ok (none, (st.pushIf true (.simple .Colon)).pushIf true (.simple .ColonColon)) :=
      eatSimple_miss true (by rw [cur_pushIf, hc]; simpa [sim] using hn2)
    obtain ⟨y, Y, hy⟩ : ∃ y Y, a.tks ++ sim .RightBracket :: b :: ks = y :: Y := by
      cases hlt : a.tks with
      | nil => exact ⟨_, _, rfl⟩
      | cons y Y => exact ⟨y, Y ++ sim .RightBracket :: b :: ks, rfl⟩
    obtain ⟨e1', st1, hp1, hee, hk1⟩ := hp ((st.pushIf true (.simple .Colon)).pushIf true (.simple .ColonColon))
      (sim .Colon) (y :: Y) (by rw [kinds_pushIf, kinds_pushIf, hk, ← hy]; simp [SliceLayout.tks])
      (by rw [kinds_pushIf, kinds_pushIf]; exact hlen) (Or.inl rfl)
    have hc1 := cur_kind_of_kinds hk1
    have hm3 : eatSimple .RightBracket true st1 = .ok (none, st1.pushIf true (.simple .RightBracket)) :=
      eatSimple_miss true (by rw [hc1]; simp [sim])
    obtain ⟨st2, he2, hk2⟩ := eatSimple_hit (st := st1.pushIf true (.simple .RightBracket)) true
      (by rw [kinds_pushIf]; exact hk1)
    rw [← hy] at hk2
    obtain ⟨o2, o3, sp, st3, h3, ho2, ho3, hk3⟩ := sliceAfterColon_fwd pe R a ha hk2 (by have h1 := congrArg List.length hk2; have h2 := congrArg List.length hk; simp [SliceLayout.tks] at h1 h2; omega)
    refine ⟨some e1', o2, o3, surround lhs.span sp, st3, ?_, by simp [eraseOpt, SliceLayout.e1, hee], ho2, ho3, hk3⟩
    unfold parseIndexExpr
    rw [hm1]; simp only [bind, Except.bind]
    rw [hm2]; simp only []
    rw [hp1]; simp only []
    rw [hm3]; simp only []
    rw [he2]; simp only []
    rw [h3]; rfl
  | e1dcolon x l =>
    obtain ⟨⟨⟨c, l', hxt, hn1, hn2, hn3⟩, hp⟩, hl⟩ := hok
    have hc : st.cur.kind = c := by
      apply cur_kind_of_kinds (T := l' ++ sim .ColonColon :: (l.tks ++ sim .RightBracket :: b :: ks))
      rw [hk]; simp [SliceLayout.tks, hxt]
    have hm1 : eatSimple .Colon true st = .ok (none, st.pushIf true (.simple .Colon)) :=
      eatSimple_miss true (by rw [hc]; simpa [sim] using hn1)
    have hm2 : eatSimple .ColonColon true (st.pushIf true (.simple .Colon)) =
        .ok (none, (st.pushIf true (.simple .Colon)).pushIf true (.simple .ColonColon)) :=
      eatSimple_miss true (by rw [cur_pushIf, hc]; simpa [sim] using hn2)
    obtain ⟨y, Y, hy⟩ : ∃ y Y, l.tks ++ sim .RightBracket :: b :: ks = y :: Y := by
      cases hlt : l.tks with
      | nil => exact ⟨_, _, rfl⟩
      | cons y Y => exact ⟨y, Y ++ sim .RightBracket :: b :: ks, rfl⟩
    obtain ⟨e1', st1, hp1, hee, hk1⟩ := hp ((st.pushIf true (.simple .Colon)).pushIf true (.simple .ColonColon))
      (sim .ColonColon) (y :: Y) (by rw [kinds_pushIf, kinds_pushIf, hk, ← hy]; simp [SliceLayout.tks])
      (by rw [kinds_pushIf, kinds_pushIf]; exact hlen) (Or.inr (Or.inl rfl))
    have hc1 := cur_kind_of_kinds hk1
    have hm3 : eatSimple .RightBracket true st1 = .ok (none, st1.pushIf true (.simple .RightBracket)) :=
      eatSimple_miss true (by rw [hc1]; simp [sim])
    have hm4 : eatSimple .Colon true (st1.pushIf true (.simple .RightBracket)) =
        .ok (none, (st1.pushIf true (.simple .RightBracket)).pushIf true (.simple .Colon)) :=
      eatSimple_miss true (by rw [cur_pushIf, hc1]; simp [sim])
    obtain ⟨st2, he2, hk2⟩ := eatSimple_hit
      (st := (st1.pushIf true (.simple .RightBracket)).pushIf true (.simple .Colon)) true
      (by rw [kinds_pushIf, kinds_pushIf]; exact hk1)
    rw [← hy] at hk2
    obtain ⟨o3, sp, st3, h3, ho3, hk3⟩ := sliceLast_fwd pe R l hl hk2 (by have h1 := congrArg List.length hk2; have h2 := congrArg List.length hk; simp [SliceLayout.tks] at h1 h2; omega)
    refine ⟨some e1', none, o3, surround lhs.span sp, st3, ?_, by simp [eraseOpt, SliceLayout.e1, hee], rfl, ho3, hk3⟩
    unfold parseIndexExpr
    rw [hm1]; simp only [bind, Except.bind]
    rw [hm2]; simp only []
    rw [hp1]; simp only []
    rw [hm3]; simp only []
    rw [hm4]; simp only []
    rw [he2]; simp only []
    rw [h3]; rfl

end

theorem stopTok_colon : StopTok (sim .Colon) :=
  ⟨by simp [NotSuffixStart, sim], noOp_of_not_binop (by intro k hk; simp only [sim, TokKind.simple.injEq] at hk; subst hk; decide)⟩

theorem stopTok_coloncolon : StopTok (sim .ColonColon) :=
  ⟨by simp [NotSuffixStart, sim], noOp_of_not_binop (by intro k hk; simp only [sim, TokKind.simple.injEq] at hk; subst hk; decide)⟩

/-- the printed form of a fragment tree is an admissible slice operand for the real `parse_expr`
    (given enough fuel for `R` remaining tokens) -/
theorem Operand.ok_of_frag {toks : List Token} {x : Expr} (hx : Frag x) (R f : Nat) (hf : 50 * R + 10 ≤ f) :
    Operand.OK (toks := toks) (parseExprF f) R ⟨P x 0, x⟩ := by
  refine ⟨?_, ?_⟩
  · have := (first_tok hx 0).1
    cases hp : P x 0 with
    | nil => rw [hp] at this; exact this.elim
    | cons a l =>
      rw [hp] at this
      have h1 := this.1
      refine ⟨a, l, rfl, ?_, ?_, ?_⟩ <;> (intro h; rw [h] at h1; simp [ExprStart, sim] at h1)
  · intro st b ks hk hlen hstop
    have hs : StopTok b := by
      rcases hstop with rfl | rfl | rfl
      · exact stopTok_colon
      · exact stopTok_coloncolon
      · exact stopTok_rbracket
    have hle : 50 * st.kinds.length + 10 ≤ f := by
      have : 50 * st.kinds.length ≤ 50 * R := Nat.mul_le_mul_left _ hlen
      omega
    exact (frag_main (toks := toks) hx).2 f st b ks hk hs hle

end Rsj.Parser
