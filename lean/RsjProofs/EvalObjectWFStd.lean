/-
  Object algebra of the evaluator model, part 6b: `StoreWF` through the builtins added after
  `std.makeArray` (`builtinCall2`).  Only `std.mapWithKey` stores an object: one layer whose
  fields are named by the visible fields of the source object, each once — `ObjWF` because
  `visibleFields` has no duplicates (`visibleFields_sorted`).
-/
import RsjProofs.EvalObjectWFStep
open Std.Do
set_option mvcgen.warning false
set_option linter.unusedSimpArgs false
set_option linter.unusedVariables false
namespace Rsj.Eval
open Rsj.Core

attribute [local spec] allocThunk_w allocEnv_w allocFunc_w allocObj_w getThunk_w getEnv_w getFunc_w getObj_w
  setEnv_w setObj_w noteDepth_w pushTrace_w switchState_w finishThunk_w
  newEnv_w getVar_w getObjRef_w checkNum_w newThunk_w checkDepth_w sliceNum_w safeInt_w
  numText_w sliceRange_w bindThunkArgs_w initObjectEnv_w layerEnv_w fieldThunk_w addField_w

theorem std_bindCall_w (f : FId) (args : List TId) : ⦃fun st => ⌜StoreWF st⌝⦄ std_bindCall f args ⦃QT⦄ := by
  unfold std_bindCall; wauto
attribute [local spec] std_bindCall_w

theorem mwk_step {b : List Field} {pref : List String} (h : b.map (fun f => f.name) = pref) (f : Field) :
    (b ++ [f]).map (fun f => f.name) = pref ++ [f.name] := by simp [h]

theorem layerNodup_of_visibleFields {l : Layer} {ob : Obj}
    (h : l.fields.map (fun f => f.name) = visibleFields ob) : LayerNodup l := by
  unfold LayerNodup; rw [h]; exact pairwise_lt_nodup (visibleFields_sorted ob)

section
variable (cfg : Cfg) (rec : Task → M Value) (hrec : RecW rec)
include hrec

theorem std_filter_w (t0 t1 : TId) (d1 : Nat) :
    ⦃fun st => ⌜StoreWF st⌝⦄ std_filter cfg rec t0 t1 d1 ⦃QT⦄ := by
  have h := rec_w rec hrec
  have h1 := recStr_w rec hrec
  have h5 := coerceToString_w rec hrec
  unfold std_filter; mvcgen [h, h1, h5]; wfin

theorem std_foldl_w (t0 t1 t2 : TId) (d1 : Nat) :
    ⦃fun st => ⌜StoreWF st⌝⦄ std_foldl cfg rec t0 t1 t2 d1 ⦃QT⦄ := by
  have h := rec_w rec hrec
  have h1 := recStr_w rec hrec
  have h5 := coerceToString_w rec hrec
  unfold std_foldl; mvcgen [h, h1, h5]; wfin

theorem std_foldr_w (t0 t1 t2 : TId) (d1 : Nat) :
    ⦃fun st => ⌜StoreWF st⌝⦄ std_foldr cfg rec t0 t1 t2 d1 ⦃QT⦄ := by
  have h := rec_w rec hrec
  have h1 := recStr_w rec hrec
  have h5 := coerceToString_w rec hrec
  unfold std_foldr; mvcgen [h, h1, h5]; wfin

theorem std_flatMap_w (t0 t1 : TId) (d1 : Nat) :
    ⦃fun st => ⌜StoreWF st⌝⦄ std_flatMap cfg rec t0 t1 d1 ⦃QT⦄ := by
  have h := rec_w rec hrec
  have h1 := recStr_w rec hrec
  have h5 := coerceToString_w rec hrec
  unfold std_flatMap; mvcgen [h, h1, h5]; wfin

theorem std_filterMap_w (t0 t1 t2 : TId) (d1 : Nat) :
    ⦃fun st => ⌜StoreWF st⌝⦄ std_filterMap cfg rec t0 t1 t2 d1 ⦃QT⦄ := by
  have h := rec_w rec hrec
  have h1 := recStr_w rec hrec
  have h5 := coerceToString_w rec hrec
  unfold std_filterMap; mvcgen [h, h1, h5]; wfin

theorem std_mapWithIndex_w (t0 t1 : TId) (d1 : Nat) :
    ⦃fun st => ⌜StoreWF st⌝⦄ std_mapWithIndex rec t0 t1 d1 ⦃QT⦄ := by
  have h := rec_w rec hrec
  have h1 := recStr_w rec hrec
  have h5 := coerceToString_w rec hrec
  unfold std_mapWithIndex; mvcgen [h, h1, h5]; wfin

theorem std_join_w (t0 t1 : TId) (d1 : Nat) :
    ⦃fun st => ⌜StoreWF st⌝⦄ std_join rec t0 t1 d1 ⦃QT⦄ := by
  have h := rec_w rec hrec
  have h1 := recStr_w rec hrec
  have h5 := coerceToString_w rec hrec
  unfold std_join; mvcgen [h, h1, h5]; wfin

theorem std_range_w (t0 t1 : TId) (d1 : Nat) :
    ⦃fun st => ⌜StoreWF st⌝⦄ std_range rec t0 t1 d1 ⦃QT⦄ := by
  have h := rec_w rec hrec
  have h1 := recStr_w rec hrec
  have h5 := coerceToString_w rec hrec
  unfold std_range; mvcgen [h, h1, h5]; wfin

theorem std_member_w (t0 t1 : TId) (d1 : Nat) :
    ⦃fun st => ⌜StoreWF st⌝⦄ std_member rec t0 t1 d1 ⦃QT⦄ := by
  have h := rec_w rec hrec
  have h1 := recStr_w rec hrec
  have h5 := coerceToString_w rec hrec
  unfold std_member; mvcgen [h, h1, h5]; wfin

theorem std_count_w (t0 t1 : TId) (d1 : Nat) :
    ⦃fun st => ⌜StoreWF st⌝⦄ std_count rec t0 t1 d1 ⦃QT⦄ := by
  have h := rec_w rec hrec
  have h1 := recStr_w rec hrec
  have h5 := coerceToString_w rec hrec
  unfold std_count; mvcgen [h, h1, h5]; wfin

theorem std_all_w (t : TId) (d1 : Nat) :
    ⦃fun st => ⌜StoreWF st⌝⦄ std_all rec t d1 ⦃QT⦄ := by
  have h := rec_w rec hrec
  have h1 := recStr_w rec hrec
  have h5 := coerceToString_w rec hrec
  unfold std_all; mvcgen [h, h1, h5]; wfin

theorem std_any_w (t : TId) (d1 : Nat) :
    ⦃fun st => ⌜StoreWF st⌝⦄ std_any rec t d1 ⦃QT⦄ := by
  have h := rec_w rec hrec
  have h1 := recStr_w rec hrec
  have h5 := coerceToString_w rec hrec
  unfold std_any; mvcgen [h, h1, h5]; wfin

theorem std_equals_w (t0 t1 : TId) (d1 : Nat) :
    ⦃fun st => ⌜StoreWF st⌝⦄ std_equals rec t0 t1 d1 ⦃QT⦄ := by
  have h := rec_w rec hrec
  have h1 := recStr_w rec hrec
  have h5 := coerceToString_w rec hrec
  unfold std_equals; mvcgen [h, h1, h5]; wfin

theorem std_compare_w (t0 t1 : TId) (d1 : Nat) :
    ⦃fun st => ⌜StoreWF st⌝⦄ std_compare rec t0 t1 d1 ⦃QT⦄ := by
  have h := rec_w rec hrec
  have h1 := recStr_w rec hrec
  have h5 := coerceToString_w rec hrec
  unfold std_compare; mvcgen [h, h1, h5]; wfin

theorem std_primitiveEquals_w (t0 t1 : TId) (d1 : Nat) :
    ⦃fun st => ⌜StoreWF st⌝⦄ std_primitiveEquals rec t0 t1 d1 ⦃QT⦄ := by
  have h := rec_w rec hrec
  have h1 := recStr_w rec hrec
  have h5 := coerceToString_w rec hrec
  unfold std_primitiveEquals; mvcgen [h, h1, h5]; wfin

theorem std_assertEqual_w (t0 t1 : TId) (d1 : Nat) :
    ⦃fun st => ⌜StoreWF st⌝⦄ std_assertEqual rec t0 t1 d1 ⦃QT⦄ := by
  have h := rec_w rec hrec
  have h1 := recStr_w rec hrec
  have h5 := coerceToString_w rec hrec
  unfold std_assertEqual; mvcgen [h, h1, h5]; wfin

theorem std_toString_w (t : TId) (d1 : Nat) :
    ⦃fun st => ⌜StoreWF st⌝⦄ std_toString rec t d1 ⦃QT⦄ := by
  have h := rec_w rec hrec
  have h1 := recStr_w rec hrec
  have h5 := coerceToString_w rec hrec
  unfold std_toString; mvcgen [h, h1, h5]; wfin

theorem std_mapWithKey_w (t0 t1 : TId) (d1 : Nat) :
    ⦃fun st => ⌜StoreWF st⌝⦄ std_mapWithKey rec t0 t1 d1 ⦃QT⦄ := by
  have h := rec_w rec hrec
  unfold std_mapWithKey; mvcgen [h]
  case inv1 => exact QW (fun p => p.2.map (fun f => f.name) = p.1.prefix)
  all_goals try wclose
  all_goals (intros; wflat; first
    | exact ⟨by assumption, mwk_step (by assumption) _⟩
    | exact objWF_single (layerNodup_of_visibleFields (ob := _) (by assumption)) _ _)

theorem std_sortKeys_w (kf : Option FId) (items : List TId) (d1 : Nat) :
    ⦃fun st => ⌜StoreWF st⌝⦄ std_sortKeys cfg rec kf items d1 ⦃QT⦄ := by
  have h := rec_w rec hrec
  unfold std_sortKeys; mvcgen [h]; wfin

theorem std_qsort_w (keys : List Value) (d1 : Nat) (fuel : Nat) (xs : List Nat) :
    ⦃fun st => ⌜StoreWF st⌝⦄ std_qsort rec keys d1 fuel xs ⦃QT⦄ := by
  have h := rec_w rec hrec
  induction fuel generalizing xs with
  | zero => unfold std_qsort; wauto
  | succ k ih =>
    cases xs with
    | nil => unfold std_qsort; wauto
    | cons p rest =>
      cases rest with
      | nil => unfold std_qsort; wauto
      | cons q rest =>
        unfold std_qsort
        mvcgen [h, ih]; wfin

theorem std_sortSet_w (u : Bool) (t0 : TId) (t1 : Option TId) (d1 : Nat) :
    ⦃fun st => ⌜StoreWF st⌝⦄ std_sortSet cfg rec u t0 t1 d1 ⦃QT⦄ := by
  have h := rec_w rec hrec
  have h1 := std_sortKeys_w cfg rec hrec
  have h2 := std_qsort_w rec hrec
  unfold std_sortSet; mvcgen [h, h1, h2]; wfin

theorem builtinCall2_w (b : Builtin) (ts : List TId) (d1 : Nat) :
    ⦃fun st => ⌜StoreWF st⌝⦄ builtinCall2 cfg rec b ts d1 ⦃QT⦄ := by
  have g := builtinCall_w rec hrec
  have k0 := std_filter_w cfg rec hrec
  have k1 := std_foldl_w cfg rec hrec
  have k2 := std_foldr_w cfg rec hrec
  have k3 := std_flatMap_w cfg rec hrec
  have k4 := std_mapWithIndex_w rec hrec
  have k5 := std_mapWithKey_w rec hrec
  have k6 := std_filterMap_w cfg rec hrec
  have k7 := std_join_w rec hrec
  have k8 := std_range_w rec hrec
  have k9 := std_member_w rec hrec
  have k10 := std_count_w rec hrec
  have k11 := std_all_w rec hrec
  have k12 := std_any_w rec hrec
  have k13 := std_equals_w rec hrec
  have k14 := std_compare_w rec hrec
  have k15 := std_primitiveEquals_w rec hrec
  have k16 := std_assertEqual_w rec hrec
  have k17 := std_toString_w rec hrec
  have ks := std_sortSet_w cfg rec hrec
  unfold builtinCall2
  mvcgen [g, ks, k0, k1, k2, k3, k4, k5, k6, k7, k8, k9, k10, k11, k12, k13, k14, k15, k16, k17]; wfin

omit hrec in
theorem allocPrims_w (items : List Prim) : ⦃fun st => ⌜StoreWF st⌝⦄ allocPrims items ⦃QT⦄ := by
  unfold allocPrims; mvcgen; wfin

omit hrec in
theorem pureOut_w (o : PureOut) : ⦃fun st => ⌜StoreWF st⌝⦄ pureOut o ⦃QT⦄ := by
  have g0 := allocPrims_w
  unfold pureOut; mvcgen [g0]; wfin

theorem forceAll_w (ts : List TId) (d1 : Nat) : ⦃fun st => ⌜StoreWF st⌝⦄ forceAll rec ts d1 ⦃QT⦄ := by
  have h := rec_w rec hrec
  unfold forceAll; mvcgen [h]; wfin

theorem coerceAll_w (vals : List Value) (d1 : Nat) : ⦃fun st => ⌜StoreWF st⌝⦄ coerceAll rec vals d1 ⦃QT⦄ := by
  have h5 := coerceToString_w rec hrec
  unfold coerceAll; mvcgen [h5]; wfin

theorem forceBytes_w (items : List TId) (item : PArg → Except PErr Nat) (d1 : Nat) :
    ⦃fun st => ⌜StoreWF st⌝⦄ forceBytes rec items item d1 ⦃QT⦄ := by
  have h := rec_w rec hrec
  unfold forceBytes; mvcgen [h]; wfin

omit hrec in
theorem fmtTakeW_w (spec : Option Format.FW) (items : List TId) (i : Nat) :
    ⦃fun st => ⌜StoreWF st⌝⦄ fmtTakeW spec items i ⦃QT⦄ := by
  unfold fmtTakeW; mvcgen; wfin

theorem fmtForceOpt_w (t : Option TId) (d : Nat) : ⦃fun st => ⌜StoreWF st⌝⦄ fmtForceOpt rec t d ⦃QT⦄ := by
  have h := rec_w rec hrec
  unfold fmtForceOpt; mvcgen [h]; wfin

theorem fmtItem_w (c : Format.Code) (v : Value) (d : Nat) : ⦃fun st => ⌜StoreWF st⌝⦄ fmtItem rec c v d ⦃QT⦄ := by
  have h5 := coerceToString_w rec hrec
  unfold fmtItem; mvcgen [h5]; wfin

theorem fmtArrayCode_w (c : Format.Code) (items : List TId) (i d : Nat) :
    ⦃fun st => ⌜StoreWF st⌝⦄ fmtArrayCode rec c items i d ⦃QT⦄ := by
  have h := rec_w rec hrec
  have g0 := fmtTakeW_w
  have g1 := fmtForceOpt_w rec hrec
  have g2 := fmtItem_w rec hrec
  unfold fmtArrayCode; mvcgen [h, g0, g1, g2]; wfin

theorem fmtArrayPart_w (p : Format.Part) (items : List TId) (i : Nat) (out : List Char) (d : Nat) :
    ⦃fun st => ⌜StoreWF st⌝⦄ fmtArrayPart rec p items i out d ⦃QT⦄ := by
  have g := fmtArrayCode_w rec hrec
  cases p <;> (unfold fmtArrayPart; mvcgen [g]; wfin)

theorem fmtArray_w (parts : List Format.Part) (items : List TId) (d : Nat) :
    ⦃fun st => ⌜StoreWF st⌝⦄ fmtArray rec parts items d ⦃QT⦄ := by
  have g := fmtArrayPart_w rec hrec
  unfold fmtArray; mvcgen [g]; wfin

theorem fmtObjectCode_w (c : Format.Code) (o : OId) (d : Nat) :
    ⦃fun st => ⌜StoreWF st⌝⦄ fmtObjectCode rec c o d ⦃QT⦄ := by
  have h := rec_w rec hrec
  have g2 := fmtItem_w rec hrec
  unfold fmtObjectCode; mvcgen [h, g2]; wfin

theorem fmtObjectPart_w (p : Format.Part) (o : OId) (out : List Char) (d : Nat) :
    ⦃fun st => ⌜StoreWF st⌝⦄ fmtObjectPart rec p o out d ⦃QT⦄ := by
  have g := fmtObjectCode_w rec hrec
  cases p <;> (unfold fmtObjectPart; mvcgen [g]; wfin)

theorem fmtObject_w (parts : List Format.Part) (o : OId) (d : Nat) :
    ⦃fun st => ⌜StoreWF st⌝⦄ fmtObject rec parts o d ⦃QT⦄ := by
  have g := fmtObjectPart_w rec hrec
  unfold fmtObject; mvcgen [g]; wfin

theorem pureFinish_w (spec : PureSpec) (vals : List Value) (d1 : Nat) :
    ⦃fun st => ⌜StoreWF st⌝⦄ pureFinish rec spec vals d1 ⦃QT⦄ := by
  have g2 := forceBytes_w rec hrec
  have g3 := pureOut_w
  have g4 := fmtArray_w rec hrec
  have g5 := fmtObject_w rec hrec
  unfold pureFinish; mvcgen [g2, g3, g4, g5]; wfin

theorem binaryOp3_w (op : BinOp) (l r : Value) (d : Nat) (hs : Bool) :
    ⦃fun st => ⌜StoreWF st⌝⦄ binaryOp3 cfg rec op l r d hs ⦃QT⦄ := by
  have g0 := binaryOp_w cfg rec hrec
  have g1 := pureFinish_w rec hrec
  unfold binaryOp3; mvcgen [g0, g1]; wfin

/-- the generic pure builtin stores no object -/
theorem std_pure_w (spec : PureSpec) (ts : List TId) (d1 : Nat) :
    ⦃fun st => ⌜StoreWF st⌝⦄ std_pure rec spec ts d1 ⦃QT⦄ := by
  have g0 := forceAll_w rec hrec
  have g1 := coerceAll_w rec hrec
  have g2 := pureFinish_w rec hrec
  unfold std_pure; mvcgen [g0, g1, g2]; wfin

theorem builtinCall3_w (b : Builtin) (ts : List TId) (d1 : Nat) :
    ⦃fun st => ⌜StoreWF st⌝⦄ builtinCall3 cfg rec b ts d1 ⦃QT⦄ := by
  have g := builtinCall2_w cfg rec hrec
  have k := std_pure_w rec hrec
  unfold builtinCall3; mvcgen [g, k]; wfin

end
end Rsj.Eval
