/-
  Facts about the number lexer of `parse_json.rs` (model `numScan` / `lexNumber`)
  used by the YAML and TOML readers: the token it returns is a prefix of the input
  and consists of number characters only (`0-9 - + . e E`).
-/
import RsjProofs.JsonParse
namespace Rsj.Json

def numChar (c : Nat) : Bool :=
  isDigit c || c == 45 || c == 43 || c == 46 || c == 101 || c == 69

theorem numStep_next_numChar {st st' : NState} {c : Nat} (h : numStep st (some c) = .next st') :
    numChar c = true := by
  unfold numChar
  cases st <;> simp only [numStep] at h <;> (repeat' split at h) <;>
    simp_all [isDigit, isDigit19] <;> omega

theorem numScan_split : ∀ (s : Str) (st : NState) (tok rem : Str),
    numScan st s = .ok (tok, rem) → s = tok ++ rem ∧ ∀ c ∈ tok, numChar c = true
  | [], st, tok, rem, h => by
    rw [numScan] at h
    split at h
    · cases h
    · injection h with h; injection h with h1 h2; subst h1; subst h2; exact ⟨rfl, by simp⟩
  | c :: r, st, tok, rem, h => by
    rw [numScan] at h
    split at h
    · next st' hst =>
      cases hrec : numScan st' r with
      | error e => rw [hrec] at h; cases h
      | ok p =>
        obtain ⟨t', r'⟩ := p
        rw [hrec] at h
        simp only [consTok] at h
        injection h with h; injection h with h1 h2; subst h1; subst h2
        have ih := numScan_split r st' t' r' hrec
        refine ⟨by rw [ih.1]; rfl, ?_⟩
        intro x hx
        rcases List.mem_cons.mp hx with rfl | hx
        · exact numStep_next_numChar hst
        · exact ih.2 x hx
    · injection h with h; injection h with h1 h2; subst h1; subst h2; exact ⟨rfl, by simp⟩
    · cases h

/-- `lex_number` returning a token: the input is token ++ rest, the token is
    non-empty and made of number characters -/
theorem lexNumber_some {s t r : Str} (h : lexNumber s = .ok (some (t, r))) :
    s = t ++ r ∧ t ≠ [] ∧ ∀ c ∈ t, numChar c = true := by
  unfold lexNumber at h
  split at h
  · cases h
  · cases h
  · next c t' r' hs =>
    split at h
    · cases h
    · injection h with h; injection h with h; injection h with h1 h2; subst h1; subst h2
      have := numScan_split s .start _ _ hs
      exact ⟨this.1, by simp, this.2⟩

theorem numTok_chars {t : Str} (ht : NumTok t) : t ≠ [] ∧ ∀ c ∈ t, numChar c = true := by
  have h := ht.2 [] (Or.inl rfl)
  rw [List.append_nil] at h
  have := lexNumber_some h
  exact ⟨this.2.1, this.2.2⟩

theorem numTok_lex {t : Str} (ht : NumTok t) : lexNumber t = .ok (some (t, [])) := by
  have h := ht.2 [] (Or.inl rfl)
  rwa [List.append_nil] at h

/-- a text containing a character that is not a number character is never lexed
    as a number in full -/
theorem lexNumber_not_all {s : Str} {c : Nat} (hc : c ∈ s) (hn : numChar c = false) (t : Str) :
    lexNumber s ≠ .ok (some (t, [])) := by
  intro h
  have := lexNumber_some h
  rw [List.append_nil] at this
  have h2 := this.2.2 c (this.1 ▸ hc)
  rw [hn] at h2; cases h2

end Rsj.Json
