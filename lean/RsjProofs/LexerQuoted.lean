/-
  Whole quoted strings: a body made of raw byte segments and escape sequences
  lexes to the concatenation of the lossily decoded segments and the escaped
  scalars.
-/
import RsjProofs.LexerEscapes
namespace Rsj.Lexer
open Rsj.Utf8

/-! ### Whole quoted strings: raw segments and escapes -/

/-- The bytes after a backslash denote the scalar `chr` (JSON-style escapes of Jsonnet). -/
def EscSpec (bytes : List Nat) (chr : Nat) : Prop :=
  (∃ x, bytes = [x] ∧ (x, chr) ∈ simpleEscapes) ∨
  (∃ hex, bytes = 117 :: hex ∧ Hex4 hex chr ∧ ¬ (0xD800 ≤ chr ∧ chr ≤ 0xDFFF)) ∨
  (∃ hex1 hex2 hi lo, bytes = 117 :: (hex1 ++ 92 :: 117 :: hex2) ∧ Hex4 hex1 hi ∧ Hex4 hex2 lo ∧
    (0xD800 ≤ hi ∧ hi ≤ 0xDBFF) ∧ (0xDC00 ≤ lo ∧ lo ≤ 0xDFFF) ∧
    chr = 0x10000 + (hi - 0xD800) * 0x400 + (lo - 0xDC00))

theorem Hex4.length {bs : List Nat} {v : Nat} (h : Hex4 bs v) : bs.length = 4 := by
  obtain ⟨b0, b1, b2, b3, _, _, _, _, rfl, _⟩ := h; rfl

theorem lexEscape_of_spec {bytes : List Nat} {chr : Nat} (h : EscSpec bytes chr) (start p : Nat)
    (tail : List Nat) :
    lexEscape start ⟨p, bytes ++ tail⟩ = .push chr ⟨p + bytes.length, tail⟩ := by
  rcases h with ⟨x, rfl, hx⟩ | ⟨hex, rfl, hh, hns⟩ | ⟨hex1, hex2, hi, lo, rfl, h1, h2, hhi, hlo, hchr⟩
  · exact lexEscape_simple start p x chr tail hx
  · have := lexEscape_unicode_bmp start p hex tail chr hh hns
    simp only [List.cons_append, List.length_cons, hh.length]
    exact this
  · have := lexEscape_unicode_pair start p hex1 hex2 tail hi lo h1 h2 hhi hlo
    rw [hchr]
    simp only [List.cons_append, List.append_assoc, List.length_cons, List.length_append, h1.length,
      h2.length]
    exact this

inductive Seg where
  | raw (bs : List Nat)
  | esc (bytes : List Nat) (chr : Nat)

/-- Source bytes of a string body. -/
def segBytes : List Seg → List Nat
  | [] => []
  | .raw bs :: rest => bs ++ segBytes rest
  | .esc bytes _ :: rest => 92 :: (bytes ++ segBytes rest)

/-- Well-formed body: raw segments are bytes without the delimiter and backslash
    and are maximal (no two adjacent); escape segments satisfy `EscSpec`. -/
def SegsWF (delim : Nat) : List Seg → Prop
  | [] => True
  | .raw bs :: rest => IsBytes bs ∧ (∀ b ∈ bs, b ≠ delim ∧ b ≠ 92) ∧
      (match rest with | .raw _ :: _ => False | _ => True) ∧ SegsWF delim rest
  | .esc bytes chr :: rest => EscSpec bytes chr ∧ SegsWF delim rest

/-- The string a body denotes: raw segments lossily decoded, escapes replaced by their scalar. -/
inductive SegsValue : List Seg → List Nat → Prop
  | nil : SegsValue [] []
  | raw {bs o : List Nat} {rest : List Seg} {out : List Nat} :
      Lossy bs o → SegsValue rest out → SegsValue (.raw bs :: rest) (o ++ out)
  | esc {bytes : List Nat} {chr : Nat} {rest : List Seg} {out : List Nat} :
      SegsValue rest out → SegsValue (.esc bytes chr :: rest) (chr :: out)

theorem quotedLoop_raw (start delim : Nat) (x : Nat) (hx : x < 128)
    (tail : List Nat) :
    ∀ (f : Nat) (body : List Nat) (p : Nat) (str : List Nat), IsBytes body →
      (∀ b ∈ body, b ≠ delim ∧ b ≠ 92) → body.length < f →
      ∃ out f', Lossy body out ∧ f' ≤ f ∧ f ≤ f' + body.length ∧
        quotedLoop start delim f ⟨p, body ++ x :: tail⟩ str =
          quotedLoop start delim f' ⟨p + body.length, x :: tail⟩ (out.reverse ++ str) := by
  intro f
  induction f with
  | zero => intro body p str _ _ h; omega
  | succ f ih =>
    intro body p str hb hne hf
    cases body with
    | nil => exact ⟨[], f + 1, Lossy.nil, by omega, by simp, by simp⟩
    | cons b t =>
      have hb1 := (hne b (by simp)).1
      have hb2 := (hne b (by simp)).2
      obtain ⟨n, r, hn, hstep, cr, hcr, hea⟩ := eatAnyChar_plain (p := p) (tail := tail) hb hx
      obtain ⟨out, f', hl, hf1, hf2, hq⟩ := ih (t.drop n) (p + 1 + n) (cr.orRepl :: str)
        (hb.tail.drop n) (fun y hy => hne y (List.mem_cons_of_mem _ (List.mem_of_mem_drop hy)))
        (by simp only [List.length_drop, List.length_cons] at hf ⊢; omega)
      refine ⟨r.getD 0xFFFD :: out, f', Lossy.step (by simp) hstep (by simpa using hl), by omega,
        by simp only [List.length_drop, List.length_cons] at hf2 ⊢; omega, ?_⟩
      have e1 : Cur.eatByte ⟨p, (b :: t) ++ x :: tail⟩ delim = none := by simp [Cur.eatByte, hb1]
      have e2 : Cur.eatByte ⟨p, (b :: t) ++ x :: tail⟩ 92 = none := by simp [Cur.eatByte, hb2]
      conv => lhs; unfold quotedLoop
      simp only [e1, e2, hea]
      rw [hq, hcr]
      simp only [List.reverse_cons, List.append_assoc, List.singleton_append, List.length_drop,
        List.length_cons]
      congr 2
      omega

theorem segBytes_head_ascii (delim : Nat) (hd : delim < 128) (rest : List Seg) (tail : List Nat)
    (h : match rest with | .raw _ :: _ => False | _ => True) :
    ∃ x tl, x < 128 ∧ segBytes rest ++ delim :: tail = x :: tl := by
  cases rest with
  | nil => exact ⟨delim, tail, hd, rfl⟩
  | cons s r =>
    cases s with
    | raw bs => exact absurd h (by simp)
    | esc bytes chr => exact ⟨92, bytes ++ segBytes r ++ delim :: tail, by omega, by simp [segBytes]⟩

/-- The loop of `lex_quoted_string` over a well-formed body. -/
theorem quotedLoop_segs (start delim : Nat) (hd : delim = 34 ∨ delim = 39) (tail : List Nat) :
    ∀ (segs : List Seg) (f p : Nat) (str : List Nat), SegsWF delim segs →
      (segBytes segs).length < f →
      ∃ out, SegsValue segs out ∧
        quotedLoop start delim f ⟨p, segBytes segs ++ delim :: tail⟩ str =
          .tok (.string (str.reverse ++ out)) ⟨p + (segBytes segs).length + 1, tail⟩ := by
  intro segs
  induction segs with
  | nil =>
    intro f p str _ hf
    obtain ⟨f, rfl⟩ : ∃ f', f = f' + 1 := ⟨f - 1, by omega⟩
    exact ⟨[], SegsValue.nil, by simp [segBytes, quotedLoop, Cur.eatByte]⟩
  | cons s rest ih =>
    intro f p str hwf hf
    cases s with
    | raw bs =>
      obtain ⟨hb, hne, hadj, hwf'⟩ := hwf
      obtain ⟨x, tl, hx, htl⟩ := segBytes_head_ascii delim (by omega) rest tail hadj
      simp only [segBytes, List.length_append] at hf
      obtain ⟨o, f', hl, hf1, hf2, hq⟩ := quotedLoop_raw start delim x hx tl f bs p str hb hne
        (by omega)
      obtain ⟨out, hv, hq2⟩ := ih f' (p + bs.length) (o.reverse ++ str) hwf' (by omega)
      refine ⟨o ++ out, SegsValue.raw hl hv, ?_⟩
      simp only [segBytes, List.append_assoc]
      rw [htl, hq, ← htl, hq2]
      simp only [List.reverse_append, List.reverse_reverse, List.append_assoc, List.length_append]
      congr 2
      omega
    | esc bytes chr =>
      obtain ⟨hes, hwf'⟩ := hwf
      simp only [segBytes, List.length_cons, List.length_append] at hf
      obtain ⟨f, rfl⟩ : ∃ f', f = f' + 1 := ⟨f - 1, by omega⟩
      obtain ⟨out, hv, hq2⟩ := ih f (p + 1 + bytes.length) (chr :: str) hwf' (by omega)
      refine ⟨chr :: out, SegsValue.esc hv, ?_⟩
      have e1 : Cur.eatByte ⟨p, 92 :: (bytes ++ segBytes rest) ++ delim :: tail⟩ delim = none := by
        rcases hd with rfl | rfl <;> simp [Cur.eatByte]
      have e2 : Cur.eatByte ⟨p, 92 :: (bytes ++ segBytes rest) ++ delim :: tail⟩ 92 =
          some ⟨p + 1, bytes ++ (segBytes rest ++ delim :: tail)⟩ := by simp [Cur.eatByte]
      conv => lhs; unfold quotedLoop
      simp only [segBytes, e1, e2, lexEscape_of_spec hes]
      rw [hq2]
      simp only [List.reverse_cons, List.append_assoc, List.singleton_append, List.length_cons,
        List.length_append]
      congr 2
      omega

/-- A quoted string with a well-formed body lexes to the value of the body. -/
theorem nextToken_quoted (p delim : Nat) (hd : delim = 34 ∨ delim = 39) (segs : List Seg)
    (tail : List Nat) (hwf : SegsWF delim segs) :
    ∃ out, SegsValue segs out ∧
      nextToken ⟨p, delim :: (segBytes segs ++ delim :: tail)⟩ =
        .tok (.string out) ⟨p + (segBytes segs).length + 2, tail⟩ := by
  obtain ⟨out, hv, hq⟩ := quotedLoop_segs p delim hd tail segs
    ((segBytes segs ++ delim :: tail).length + 1) (p + 1) [] hwf (by simp; omega)
  refine ⟨out, hv, ?_⟩
  simp only [List.reverse_nil, List.nil_append] at hq
  rw [nextToken_quote p _ delim hd]
  unfold lexQuotedString
  simp only
  rw [hq]
  congr 2
  omega

end Rsj.Lexer
