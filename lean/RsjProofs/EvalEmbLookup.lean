/-
  The environment-chain lookup `lookupVar` of the evaluator model does not depend on its fuel
  once the fuel exceeds the number of environments.

  The parent chain of an arbitrary `Array Env` may be cyclic, so the argument is a pigeonhole
  one.  `LookupExact m envs e n t` says that `m + 1` is the least fuel with which the lookup from `e`
  answers `some t`.  Along a successful walk the exact fuels decrease by one at every step, so
  the environments visited are pairwise different; they are all valid indices, hence there are
  at most `envs.size` of them.
-/
import RsjModel.Eval
namespace Rsj.Eval

/-- one more unit of fuel does not change a successful lookup -/
theorem lookupVar_succ_of_some (envs : Array Env) (n : String) :
    ∀ (k : Nat) (e : EId) (t : TId), lookupVar k envs e n = some t → lookupVar (k + 1) envs e n = some t := by
  intro k
  induction k with
  | zero => intro e t h; simp [lookupVar] at h
  | succ k ih =>
    intro e t h
    unfold lookupVar at h ⊢
    split
    · rename_i h1; simp only [h1] at h; exact h
    · rename_i env h1
      simp only [h1] at h
      split
      · rename_i p h2; simp only [h2] at h; exact h
      · rename_i h2
        simp only [h2] at h
        split
        · rename_i p h3; simp only [h3] at h; exact ih p t h
        · rename_i h3; simp only [h3] at h; exact h

/-- a successful lookup stays the same with any larger fuel -/
theorem lookupVar_mono_of_some (envs : Array Env) (n : String) (e : EId) (t : TId) (k k' : Nat) (hkk : k ≤ k')
    (h : lookupVar k envs e n = some t) : lookupVar k' envs e n = some t := by
  induction k' with
  | zero =>
    have : k = 0 := by omega
    subst this; exact h
  | succ k' ih =>
    by_cases hk : k = k' + 1
    · subst hk; exact h
    · exact lookupVar_succ_of_some envs n k' e t (ih (by omega))

/-- `m + 1` is the least fuel with which the lookup from `e` answers `some t` -/
def LookupExact (m : Nat) (envs : Array Env) (e : EId) (n : String) (t : TId) : Prop :=
  lookupVar (m + 1) envs e n = some t ∧ lookupVar m envs e n = none

theorem LookupExact.lt_size {m : Nat} {envs : Array Env} {e : EId} {n : String} {t : TId}
    (h : LookupExact m envs e n t) : e < envs.size := by
  have h1 := h.1
  unfold lookupVar at h1
  split at h1
  · simp at h1
  · rename_i env he
    have := Array.getElem?_eq_some_iff.mp he
    exact this.1

theorem LookupExact.unique {m m' : Nat} {envs : Array Env} {e : EId} {n : String} {t t' : TId}
    (h : LookupExact m envs e n t) (h' : LookupExact m' envs e n t') : m = m' := by
  apply Nat.le_antisymm
  · apply Nat.le_of_not_lt
    intro hlt
    have := lookupVar_mono_of_some envs n e t' (m' + 1) m (by omega) h'.1
    rw [h.2] at this; simp at this
  · apply Nat.le_of_not_lt
    intro hlt
    have := lookupVar_mono_of_some envs n e t (m + 1) m' (by omega) h.1
    rw [h'.2] at this; simp at this

/-- a successful lookup has a least fuel -/
theorem exists_lookupExact (envs : Array Env) (n : String) (e : EId) (t : TId) :
    ∀ k, lookupVar k envs e n = some t → ∃ m, m < k ∧ LookupExact m envs e n t := by
  intro k
  induction k with
  | zero => intro h; simp [lookupVar] at h
  | succ k ih =>
    intro h
    cases hk : lookupVar k envs e n with
    | none => exact ⟨k, by omega, h, hk⟩
    | some t' =>
      have := lookupVar_succ_of_some envs n k e t' hk
      rw [h] at this
      have ht : t = t' := by simpa using this
      subst ht
      obtain ⟨m, hm, hex⟩ := ih hk
      exact ⟨m, by omega, hex⟩

/-- the walk continues: with least fuel `m + 2` the next environment has least fuel `m + 1` -/
theorem LookupExact.step {m : Nat} {envs : Array Env} {e : EId} {n : String} {t : TId}
    (h : LookupExact (m + 1) envs e n t) : ∃ p, LookupExact m envs p n t := by
  obtain ⟨h1, h2⟩ := h
  unfold lookupVar at h1 h2
  split at h1
  · simp at h1
  · rename_i env he
    simp only [he] at h2
    split at h1
    · rename_i q hq; simp only [hq] at h2; simp at h2
    · rename_i hq
      simp only [hq] at h2
      split at h1
      · rename_i p hp
        simp only [hp] at h2
        exact ⟨p, h1, h2⟩
      · simp at h1

/-- pigeonhole: a duplicate-free list of numbers below `s` has at most `s` elements -/
theorem nodup_lt_length_le (s : Nat) : ∀ (l : List Nat), l.Nodup → (∀ v ∈ l, v < s) → l.length ≤ s := by
  induction s with
  | zero =>
    intro l _ hb
    cases l with
    | nil => simp
    | cons a l => have := hb a (by simp); omega
  | succ s ih =>
    intro l hnd hb
    have h1 : (l.erase s).length ≤ s := by
      apply ih _ (hnd.erase s)
      intro v hv
      have hm := (hnd.mem_erase_iff).mp hv
      have hlt := hb v hm.2
      have hne := hm.1
      omega
    rw [List.length_erase] at h1
    split at h1 <;> omega

/-- the environments visited by a walk of least fuel `m + 1`: `m + 1` different valid indices -/
theorem LookupExact.path (envs : Array Env) (n : String) (t : TId) :
    ∀ (m : Nat) (e : EId), LookupExact m envs e n t →
      ∃ l : List Nat, l.length = m + 1 ∧ l.Nodup ∧ ∀ v ∈ l, v < envs.size ∧ ∃ j, j ≤ m ∧ LookupExact j envs v n t := by
  intro m
  induction m with
  | zero =>
    intro e h
    refine ⟨[e], rfl, by simp, ?_⟩
    intro v hv
    have : v = e := by simpa using hv
    subst this
    exact ⟨h.lt_size, 0, Nat.le_refl _, h⟩
  | succ m ih =>
    intro e h
    obtain ⟨p, hp⟩ := h.step
    obtain ⟨l, hlen, hnd, hall⟩ := ih p hp
    refine ⟨e :: l, by simp [hlen], ?_, ?_⟩
    · rw [List.nodup_cons]
      refine ⟨?_, hnd⟩
      intro hmem
      obtain ⟨_, j, hj, hex⟩ := hall e hmem
      have := hex.unique h
      omega
    · intro v hv
      rcases List.mem_cons.mp hv with hv | hv
      · subst hv
        exact ⟨h.lt_size, m + 1, Nat.le_refl _, h⟩
      · obtain ⟨hlt, j, hj, hex⟩ := hall v hv
        exact ⟨hlt, j, by omega, hex⟩

/-- a successful lookup already succeeds with fuel `envs.size` -/
theorem lookupVar_some_size (envs : Array Env) (e : EId) (n : String) (t : TId) (k : Nat)
    (h : lookupVar k envs e n = some t) : lookupVar envs.size envs e n = some t := by
  obtain ⟨m, _, hex⟩ := exists_lookupExact envs n e t k h
  obtain ⟨l, hlen, hnd, hall⟩ := LookupExact.path envs n t m e hex
  have := nodup_lt_length_le envs.size l hnd (fun v hv => (hall v hv).1)
  exact lookupVar_mono_of_some envs n e t (m + 1) envs.size (by omega) hex.1

/-- the environment-chain lookup does not depend on its fuel once the fuel exceeds the number of environments -/
theorem lookupVar_fuel_indep (envs : Array Env) (e : EId) (n : String) (k : Nat) (hk : envs.size + 1 ≤ k) :
    lookupVar k envs e n = lookupVar (envs.size + 1) envs e n := by
  cases h : lookupVar k envs e n with
  | some t =>
    have := lookupVar_some_size envs e n t k h
    exact (lookupVar_mono_of_some envs n e t envs.size (envs.size + 1) (by omega) this).symm
  | none =>
    cases h' : lookupVar (envs.size + 1) envs e n with
    | none => rfl
    | some t =>
      have := lookupVar_mono_of_some envs n e t (envs.size + 1) k hk h'
      rw [h] at this; simp at this

theorem lookupVar_fuel_indep' (envs : Array Env) (e : EId) (n : String) (k k' : Nat)
    (hk : envs.size + 1 ≤ k) (hk' : envs.size + 1 ≤ k') : lookupVar k envs e n = lookupVar k' envs e n := by
  rw [lookupVar_fuel_indep envs e n k hk, lookupVar_fuel_indep envs e n k' hk']

/-- non-vacuity: a one-environment cycle (`parent = some 0`), the variable is never found, with any fuel -/
example : lookupVar 7 #[{ parent := some 0, vars := [("x", 3)], obj := none }] 0 "y" = none := by
  rw [lookupVar_fuel_indep _ _ _ 7 (by simp)]; rfl

example : lookupVar 7 #[{ parent := some 1, vars := [] , obj := none }, { parent := some 0, vars := [("x", 3)], obj := none }] 0 "x" = some 3 := by
  rw [lookupVar_fuel_indep _ _ _ 7 (by simp)]; rfl

end Rsj.Eval
