import RsjProofs.EvalEmbRewrite4
/-!
  C04 on the evaluator model, rewrites at the root of a program, part 5: the rewrite `deadArg`
  (`e ↦ (function(x) e)(d)`): the body `e` runs in the frame of the call (an extra environment frame binding
  `x`, as for `deadLocal`), one trace item deeper, and in TAIL position — hence the hypothesis `TailInsens e`.
-/
set_option linter.unusedVariables false
set_option linter.unusedSectionVars false
namespace Rsj.Eval
open Rsj.Core

/-- `(function(x) e)(d)` -/
def wrapDA (x : String) (d e : Expr) : Expr :=
  .call (.func (.cons x .none .nil) e) (.pos d .nil) false

section
variable [Mode]

/-- `(function(x) e)(d)`: the store after the administrative steps of the call (`d` arbitrary: its thunk, and
    possibly its closure, are appended) -/
theorem run_eval_wrapDA (cfg : Cfg) (m : Nat) (x : String) (dd e : Expr) (env : EId) (d : Nat) (st : St)
    (cell : Env) (h : st.envs[env]? = some cell) (hd : ¬ d + 1 > cfg.maxStack) :
    ∃ td st2, run cfg (m + 2) (.eval (wrapDA x dd e) env false d) st =
        run cfg (m + 1) (.eval e st.envs.size true (d + 1)) st2 ∧
      st2.envs = st.envs.push { parent := some env, vars := [(x, td)], obj := cell.obj } ∧
      st2.traces = st.traces ∧ st2.objs = st.objs ∧
      (∀ i, i < st.thunks.size → st2.thunks[i]? = st.thunks[i]?) ∧
      (∀ i, i < st.funcs.size → st2.funcs[i]? = st.funcs[i]?) := by
  show ∃ td st2, stepN cfg (run cfg (m + 1)) _ st = _ ∧ _
  unfold stepN wrapDA step
  simp only [Task.depth]
  rw [M_bind_app, noteDepth_apply]
  simp only []
  rw [M_bind_app, run_eval_func]
  simp only []
  rw [M_bind_app, getFunc_apply]
  simp only [Array.getElem?_push_size, paramsList, List.map, hasDefault, argsSplit, List.filterMap, Option.isNone,
    if_true, Option.map, List.length]
  have hb : Bind.bindPlan [(x, false)] 1 [] = .ok [.pos 0] := by
    simp [Bind.bindPlan, Bind.assignNamed, Bind.fillRest]
  simp only [hb]
  simp only [pure_bind, List.any, Bool.or_false, Bool.and_self, Bool.false_eq_true, if_false,
    show (Bind.Slot.pos 0 == Bind.Slot.dflt) = false from rfl, List.zip_cons_cons, List.zip_nil_left]
  rw [M_bind_app, List.forIn_cons, M_bind_app, M_bind_app]
  obtain ⟨td, st1, hn, he, htr, ho, hth, hf⟩ := newThunk_frame dd env
    { st with deepest := max (max st.deepest d) d,
              funcs := st.funcs.push { params := [(x, .none)], body := e, env := env } }
  rw [hn]
  simp only [pure_app, List.forIn_nil, List.nil_append]
  simp only [pure_bind, List.forIn_cons, List.forIn_nil, List.getElem?_cons_zero, List.nil_append,
    List.zip_cons_cons, List.zip_nil_left]
  rw [M_bind_app, checkDepth_ok cfg (d + 1) hd]
  simp only []
  unfold newEnv
  simp only [bind_assoc, pure_bind]
  rw [M_bind_app, getEnv_apply, he]
  simp only [h]
  rw [M_bind_app, allocEnv_apply, he]
  simp only []
  refine ⟨td, _, rfl, by simp, htr, ho, hth, fun i hi => ?_⟩
  simp only []
  rw [hf i (by simp; omega)]
  simp [Array.getElem?_push, Nat.ne_of_lt hi]

end
end Rsj.Eval

/-! ### C04: a dead argument at the root (`e ↦ (function(x) e)(d)`) -/
namespace Rsj.Eval
open Rsj.Core

section DeadArg
attribute [local instance] Mode.c041

theorem force_root_deadArg (cfg cfg' : Cfg) [RCfg cfg cfg'] (k k' : Nat) (hk : k ≤ k') (x : String) (dd e : Expr)
    (hx : x ≠ "std") (hti : TailInsens e) :
    ORel (embDL x) [] [] RVal (run cfg (k + 1) (.force 1 0) (freshStore e))
      (run cfg' (k' + 2) (.force 1 0) (freshStore (wrapDA x dd e))) := by
  have hle : cfg.maxStack + 1 ≤ cfg'.maxStack := (inferInstance : RCfg cfg cfg').le
  have hms1 : ¬ 0 + 1 > cfg'.maxStack := by omega
  rw [run_force_pending cfg k 1 0 (freshStore e) (.expr e 0) rfl,
    run_force_pending cfg' (k' + 1) 1 0 (freshStore (wrapDA x dd e)) (.expr (wrapDA x dd e) 0) rfl]
  simp only [thunkBody_expr]
  generalize hB1 : ({ freshStore (wrapDA x dd e) with
      deepest := max (freshStore (wrapDA x dd e)).deepest 0,
      thunks := (freshStore (wrapDA x dd e)).thunks.setIfInBounds 1 (.inProgress (.expr (wrapDA x dd e) 0)),
      runs := (freshStore (wrapDA x dd e)).runs.modify 1 (· + 1) } : St) = B1
  cases k' with
  | zero =>
    -- then `k = 0`: the left run is out of fuel
    have : k = 0 := by omega
    subst this
    rw [M_bind_app]
    exact .inl trivial
  | succ k' =>
  obtain ⟨td, B2, hrun, henv, htr, hobj, hth, hfn⟩ :=
    run_eval_wrapDA cfg' k' x dd e 0 0 B1 rootCell (by subst hB1; rfl) hms1
  have hsz : B1.envs.size = 1 := by subst hB1; rfl
  rw [hsz] at hrun
  have hright : ∀ g : Value → M Value,
      (run cfg' (k' + 2) (.eval (wrapDA x dd e) 0 false 0) >>= g) B1 =
      (run cfg' (k' + 1) (.eval e 1 true 1) >>= g) B2 := by
    intro g; rw [M_bind_app, M_bind_app, hrun]
  rw [hright]
  refine ORel.bind (run_rel_le cfg cfg' k (k' + 1) hk (.inr trivial) (embDL x) _ _
    (.eval e false 0 (show RE (embDL x) 0 1 from rfl) (htl := .inr hti)) [] [] _ B2 ?_) ?_
  · have hB1t : ∀ i : Nat, B1.thunks[i]? =
        (#[TState.done .null, TState.inProgress (.expr (wrapDA x dd e) 0)] : Array TState)[i]? := by
      intro i; subst hB1; rfl
    have hB1sz : B1.thunks.size = 2 := by subst hB1; rfl
    have hB1tr : B1.traces = [] := by subst hB1; rfl
    have hB2e1 : B2.envs[1]? = some { parent := some 0, vars := [(x, td)], obj := none } := by
      rw [henv]; subst hB1; simp [rootCell, freshStore]
    have hB2e0 : B2.envs[0]? = some rootCell := by
      rw [henv]; subst hB1; simp [freshStore, rootCell]
    refine {
      thunks := ⟨fun i j k hi hj => ?_, fun i k hik => ?_⟩
      envs := ⟨fun i j k hi hj => ?_, fun i k hik => ?_⟩
      objs := ⟨fun i j k hi _ => (by cases hi), fun i k hik => (by cases hik)⟩
      funcs := ⟨fun i j k hi _ => (by cases hi), fun i k hik => (by cases hik)⟩
      traces := ⟨[], rfl, by rw [htr, hB1tr]; rfl⟩
      wkcell := fun w hw => ?_
      rsvok := fun t ht => by cases ht }
    · simp only [embDL] at hi hj
      split at hi <;> split at hj <;> (try split at hi) <;> (try split at hj) <;> simp_all <;> omega
    · simp only [embDL] at hik
      split at hik
      · cases hik; subst_vars
        refine ⟨.done .null, .done .null, rfl, ?_, .done .null⟩
        rw [hth 0 (by omega), hB1t]; rfl
      · split at hik
        · cases hik; subst_vars
          refine ⟨.inProgress (.expr e 0), .inProgress (.expr (wrapDA x dd e) 0), rfl, ?_, .inProgressLoose trivial⟩
          rw [hth 1 (by omega), hB1t]; rfl
        · cases hik
    · simp only [embDL] at hi hj
      split at hi <;> split at hj <;> simp_all
    · simp only [embDL] at hik
      split at hik
      · cases hik; subst_vars
        refine ⟨_, _, rfl, hB2e1, .inr ⟨⟨x, 0, rootCell⟩, td, rfl, rfl, rfl, .none, ?_, rfl, ?_⟩⟩
        · exact ⟨.none, .cons ⟨rfl, rfl⟩ .nil, .none⟩
        · intro p hp
          simp [freshStore] at hp
          subst hp
          exact fun h => hx h.symm
      · cases hik
    · cases hw
      refine ⟨hB2e0, fun j => ?_, .inr rfl⟩
      simp only [embDL]
      split <;> simp
  · intro ρ' hle v w hvw
    have ht : RT ρ' 1 1 := hle.t 1 1 rfl
    mbind (finishThunk_rel ht hvw) with u u' hu
    exact MRel_pure hvw


theorem requestProg_root_deadArg (cfg cfg' : Cfg) [RCfg cfg cfg'] (k k' : Nat) (hk : k ≤ k') (x : String)
    (dd e : Expr) (hx : x ≠ "std") (hti : TailInsens e) :
    ORel (embDL x) [] [] REq (requestProg cfg (k + 1) 1 (freshStore e))
      (requestProg cfg' (k' + 2) 1 (freshStore (wrapDA x dd e))) := by
  unfold requestProg
  refine ORel.bind' (force_root_deadArg cfg cfg' k k' hk x dd e hx hti) ?_
  intro ρ' v w a' b' hle _ _ hs hvw
  have hms : cfg.maxStack ≤ cfg'.maxStack := by
    have h1 : cfg.maxStack + 1 ≤ cfg'.maxStack := (inferInstance : RCfg cfg cfg').le
    omega
  exact ORel.c04s (request_tail_rel cfg cfg' hms (k + 1) (k' + 2) (by omega) hvw [] [] a' b' (Sim.c04s hs))

end DeadArg

/-- **C04, dead argument at the root** (`e ↦ (function(x) e)(d)`, `d` arbitrary, `x ≠ "std"`), for an `e`
    whose evaluation does not depend on the tail flag (`TailInsens`: no `tailstrict` call in tail position —
    on the right `e` is the body of a function, i.e. in tail position) -/
theorem deadArg_root (x : String) (dd e : Expr) (hx : x ≠ "std") (hti : TailInsens e) (ms fuel : Nat)
    (h1 : (evalP ms fuel e).1 ≠ "gas") (h2 : (evalP ms fuel e).1 ≠ showErr .stackOverflow)
    (h3 : (evalP ms fuel e).1 ≠ showErr (.internal "variable not found")) :
    ∀ ms' fuel', ms + 1 ≤ ms' → fuel + 1 ≤ fuel' → evalP ms' fuel' (wrapDA x dd e) = evalP ms fuel e := by
  intro ms' fuel' hms hf
  cases fuel with
  | zero => exact absurd (by rw [evalP_eq]; rfl) h1
  | succ k =>
    obtain ⟨k', rfl⟩ : ∃ k', fuel' = k' + 2 := ⟨fuel' - 2, by omega⟩
    letI : Mode := Mode.c041
    haveI : RCfg ⟨ms⟩ ⟨ms'⟩ := ⟨hms, fun h => absurd (.inl rfl) h⟩
    exact evalP_eq_of_ORel (c := 1) (requestProg_root_deadArg ⟨ms⟩ ⟨ms'⟩ k k' (by omega) x dd e hx hti) h1 h2 h3

end Rsj.Eval
