/-
  C15 print/parse, part 6: definitions for the main induction (head / postfix split, the
  statements proved for every fragment tree) and printing equations.
-/
import RsjProofs.ParserRun5
namespace Rsj.Parser

/-! ### printing equations on the fragment -/

theorem P_paren (e : Expr) (sp : Span) (lvl : Nat) : P (.paren e sp) lvl = parens (P e 0) := by
  simp [P, pr, sub_false]

theorem P_superField (ssp : Span) (name : Ident) (sp : Span) (lvl : Nat) :
    P (.superField ssp name sp) lvl = [sim .Super, sim .Dot, .ident name.value] := by
  simp [P, pr]

theorem P_superIndex (ssp : Span) (i : Expr) (sp : Span) (lvl : Nat) :
    P (.superIndex ssp i sp) lvl = sim .Super :: sim .LeftBracket :: (P i 0 ++ [sim .RightBracket]) := by
  simp [P, pr, sub_false]

theorem P_field {e : Expr} (he : Frag e) (name : Ident) (sp : Span) (lvl : Nat) :
    P (.field e name sp) lvl = P e suffixPrec ++ [sim .Dot, .ident name.value] := by
  simp only [P, pr, sub_false]; rw [pr_indep he]

theorem P_index {e : Expr} (he : Frag e) (i : Expr) (sp : Span) (lvl : Nat) :
    P (.index e i sp) lvl = P e suffixPrec ++ sim .LeftBracket :: (P i 0 ++ [sim .RightBracket]) := by
  simp only [P, pr, sub_false]; rw [pr_indep he]

theorem P_unary_bare {e : Expr} (op : UnaryOp) (sp : Span) {lvl : Nat} (h : ¬ unaryPrec < lvl) :
    P (.unary op e sp) lvl = sim op.tok :: P e unaryPrec := by
  simp [P, pr, sub_false, h]

theorem P_unary_par {e : Expr} (op : UnaryOp) (sp : Span) {lvl : Nat} (h : unaryPrec < lvl) :
    P (.unary op e sp) lvl = parens (sim op.tok :: P e unaryPrec) := by
  simp [P, pr, sub_false, h]

theorem P_binary_bare {l r : Expr} (hl : Frag l) (op : BinaryOp) (sp : Span) {lvl : Nat} (h : ¬ op.prec < lvl) :
    P (.binary l op r sp) lvl = P l op.prec ++ sim op.tok :: P r (op.prec + 1) := by
  simp only [P, pr, sub_false, h, if_false]; rw [pr_indep hl]

theorem P_binary_par {l r : Expr} (hl : Frag l) (op : BinaryOp) (sp : Span) {lvl : Nat} (h : op.prec < lvl) :
    P (.binary l op r sp) lvl = parens (P l op.prec ++ sim op.tok :: P r (op.prec + 1)) := by
  simp only [P, pr, sub_false, h, if_true]; rw [pr_indep hl]

theorem P_inSuper_bare {e : Expr} (he : Frag e) (ssp sp : Span) {lvl : Nat} (h : ¬ inSuperKind.prec < lvl) :
    P (.inSuper e ssp sp) lvl = P e inSuperKind.prec ++ [sim .In, sim .Super] := by
  simp only [P, pr, sub_false, h, if_false]; rw [pr_indep he]; rfl

theorem P_inSuper_par {e : Expr} (he : Frag e) (ssp sp : Span) {lvl : Nat} (h : inSuperKind.prec < lvl) :
    P (.inSuper e ssp sp) lvl = parens (P e inSuperKind.prec ++ [sim .In, sim .Super]) := by
  simp only [P, pr, sub_false, h, if_true]; rw [pr_indep he]; rfl

/-! ### head / postfix split of a tree printed at postfix level -/

def headOf : Expr → Expr
  | .field e _ _ => headOf e
  | .index e _ _ => headOf e
  | .call f _ _ _ => headOf f
  | e => e

def sufToks : Expr → Toks
  | .field e n _ => sufToks e ++ [sim .Dot, .ident n.value]
  | .index e i _ => sufToks e ++ sim .LeftBracket :: (P i 0 ++ [sim .RightBracket])
  | .call f args ts _ =>
    sufToks f ++ sim .LeftParen :: (prArgs false args ++ sim .RightParen :: (if ts then [sim .Tailstrict] else []))
  | _ => []

theorem P_split {e : Expr} (h : Frag e) : P e suffixPrec = P (headOf e) suffixPrec ++ sufToks e := by
  induction h with
  | field name sp he ih => rw [P_field he, ih]; simp [headOf, sufToks]
  | index sp he hi ihe ihi => rw [P_index he, ihe]; simp [headOf, sufToks]
  | call args ts sp hf ha ihf iha => rw [P_call hf, ihf]; simp [headOf, sufToks]
  | _ => simp [headOf, sufToks]

end Rsj.Parser
