/-
  Invariant of the phase "Count" of `GcContext::gc` (`phase1`).
  `done` = the objects already examined (`objs[..i]`), `todo` = the rest.
-/
import RsjProofs.GcCore
namespace Rsj.Gc

structure Inv1 (G done todo : Heap) : Prop where
  core : Core G (done ++ todo)
  /-- an examined object with a view is marked -/
  viewsDone : ∀ o ∈ done, o.views > 0 → o.mark = true
  /-- `visits` counts handles from examined objects only, and at least all handles held by
      examined objects that are (still) unmarked -/
  sandwich : ∀ o ∈ done ++ todo, unmarkedIn done o.id ≤ o.visits ∧ o.visits ≤ inDeg done o.id

theorem Inv1.init {G : Heap} (hG : WF G) (hc : Clean G) : Inv1 G [] G := by
  refine ⟨⟨hG, ?_, ?_, ?_, ?_⟩, ?_, ?_⟩
  · intro o ho; rw [resetObj_of_clean (hc o ho).1 (hc o ho).2]; exact ho
  · intro o ho hn; exact absurd (mem_ids_of_mem ho) hn
  · intro m hm hmk; rw [(hc m hm).2] at hmk; cases hmk
  · intro m hm hmk; rw [(hc m hm).2] at hmk; cases hmk
  · intro o ho; cases ho
  · intro o ho
    simp only [List.nil_append] at ho
    simp [unmarkedIn, inDeg, (hc o ho).1]

theorem Inv1.perm {G done todo done' todo' : Heap} (hd : done.Perm done') (ht : todo.Perm todo')
    (h : Inv1 G done todo) : Inv1 G done' todo' := by
  refine ⟨h.core.perm (hd.append ht), ?_, ?_⟩
  · intro o ho; exact h.viewsDone o (hd.mem_iff.mpr ho)
  · intro o ho
    have := h.sandwich o ((hd.append ht).mem_iff.mpr ho)
    rw [← unmarkedIn_perm hd, ← inDeg_perm hd]; exact this

/-- The examined object is already marked (with or without view): nothing changes. -/
theorem Inv1.skip {G done rest : Heap} {cur : Obj} (h : Inv1 G done (cur :: rest))
    (hm : cur.mark = true) : Inv1 G (done ++ [cur]) rest := by
  have heq : (done ++ [cur]) ++ rest = done ++ cur :: rest := by simp
  refine ⟨by rw [heq]; exact h.core, ?_, ?_⟩
  · intro o ho hv
    rcases List.mem_append.mp ho with ho | ho
    · exact h.viewsDone o ho hv
    · rw [List.mem_singleton.mp ho]; exact hm
  · intro o ho
    rw [heq] at ho
    have := h.sandwich o ho
    rw [unmarkedIn_append, inDeg_append, unmarkedIn_single, hm]
    simp only [if_true]
    omega

/-- The examined object has a view and is unmarked: mark propagation from it. -/
theorem Inv1.view {G done rest : Heap} {cur : Obj} (h : Inv1 G done (cur :: rest))
    (hv : cur.views > 0) :
    Inv1 G (setMarks (markFrom (done ++ cur :: rest) cur.id) done ++
              [markObj (markFrom (done ++ cur :: rest) cur.id) cur])
           (setMarks (markFrom (done ++ cur :: rest) cur.id) rest) := by
  have hcur : cur ∈ done ++ cur :: rest := by simp
  have hreach : Reach G cur.id := by
    have := Reach.root (H := G) (h.core.orig cur hcur) (Or.inl (by simpa using hv))
    simpa using this
  obtain ⟨hcore, hx⟩ := h.core.mark hcur hreach
  generalize markFrom (done ++ cur :: rest) cur.id = R at hcore hx ⊢
  have heq : (setMarks R done ++ [markObj R cur]) ++ setMarks R rest
      = setMarks R (done ++ cur :: rest) := by
    simp [setMarks]
  refine ⟨by rw [heq]; exact hcore, ?_, ?_⟩
  · intro o' ho' hv'
    rcases List.mem_append.mp ho' with ho' | ho'
    · obtain ⟨o, ho, rfl⟩ := mem_setMarks.mp ho'
      rw [markObj_mark]; left
      exact h.viewsDone o ho (by simpa using hv')
    · rw [List.mem_singleton.mp ho', markObj_mark]; exact Or.inr hx
  · intro o' ho'
    rw [heq] at ho'
    obtain ⟨o, ho, rfl⟩ := mem_setMarks.mp ho'
    have := h.sandwich o ho
    have hmk : (markObj R cur).mark = true := (markObj_mark R cur).mpr (Or.inr hx)
    rw [unmarkedIn_append, inDeg_append, unmarkedIn_single, hmk, inDeg_setMarks]
    have hle := unmarkedIn_setMarks_le R done o.id
    simp only [markObj_id, markObj_visits, if_true]
    omega

/-- The examined object has no view and weak count 0: destroyed directly. -/
theorem Inv1.destroy {G done rest : Heap} {cur : Obj} (hG : WF G) (h : Inv1 G done (cur :: rest))
    (hv : cur.views = 0) (hw : weakCount (done ++ cur :: rest) cur = 0) : Inv1 G done rest := by
  refine ⟨h.core.remove hG hv hw, h.viewsDone, ?_⟩
  intro o ho
  apply h.sandwich o
  rcases List.mem_append.mp ho with ho | ho
  · exact List.mem_append_left _ ho
  · exact List.mem_append_right _ (List.mem_cons_of_mem _ ho)

/-- The examined object has no view, some handle, and is unmarked: its handles are counted. -/
theorem Inv1.count {G done rest : Heap} {cur : Obj} (h : Inv1 G done (cur :: rest))
    (hv : cur.views = 0) (hm : cur.mark = false) :
    Inv1 G (bump cur.edges done ++ [bumpObj cur.edges cur]) (bump cur.edges rest) := by
  have heq : (bump cur.edges done ++ [bumpObj cur.edges cur]) ++ bump cur.edges rest
      = bump cur.edges (done ++ cur :: rest) := by
    simp [bump]
  refine ⟨by rw [heq]; exact h.core.bump _, ?_, ?_⟩
  · intro o' ho' hv'
    rcases List.mem_append.mp ho' with ho' | ho'
    · obtain ⟨o, ho, rfl⟩ := mem_bump.mp ho'
      exact h.viewsDone o ho hv'
    · rw [List.mem_singleton.mp ho'] at hv'
      simp only [bumpObj_views] at hv'; omega
  · intro o' ho'
    rw [heq] at ho'
    obtain ⟨o, ho, rfl⟩ := mem_bump.mp ho'
    have := h.sandwich o ho
    rw [unmarkedIn_append, inDeg_append, unmarkedIn_single, unmarkedIn_bump, inDeg_bump]
    simp only [bumpObj_mark, hm, bumpObj_id, bumpObj_visits, bumpObj_edges, inDeg]
    simp only [Bool.false_eq_true, if_false]
    omega

/-- **Phase 1 establishes the invariant for the whole heap.** -/
theorem phase1_inv {G : Heap} (hG : WF G) (n : Nat) (done todo : Heap) (known : Nat)
    (h : Inv1 G done todo) (hn : todo.length ≤ n) :
    Inv1 G (phase1 n done todo known) [] := by
  induction n generalizing done todo known with
  | zero =>
    have : todo = [] := List.eq_nil_of_length_eq_zero (by omega)
    subst this
    simpa [phase1] using h
  | succ n ih =>
    cases todo with
    | nil => simpa [phase1] using h
    | cons cur rest =>
      have hn' : rest.length ≤ n := by simp only [List.length_cons] at hn; omega
      simp only [phase1]
      by_cases hv : cur.views > 0
      · rw [if_pos hv]
        by_cases hm : cur.mark = true
        · -- already marked: `ms = []`
          simp only [hm, if_true, setMarks_nil, markObj_nil]
          have hs := h.skip hm
          cases hk : done[known]? with
          | some old =>
            exact ih _ _ _ (hs.perm (swap_perm hk).symm (List.Perm.refl _)) hn'
          | none => exact ih _ _ _ hs hn'
        · have hm' : cur.mark = false := by simpa using hm
          simp only [hm', Bool.false_eq_true, if_false]
          have hs := h.view hv
          have hlen : ∀ ms, (setMarks ms rest).length ≤ n := by
            intro ms; simpa [setMarks] using hn'
          cases hk : (setMarks (markFrom (done ++ cur :: rest) cur.id) done)[known]? with
          | some old =>
            exact ih _ _ _ (hs.perm (swap_perm hk).symm (List.Perm.refl _)) (hlen _)
          | none => exact ih _ _ _ hs (hlen _)
      · rw [if_neg hv]
        have hv0 : cur.views = 0 := by omega
        by_cases hw : weakCount (done ++ cur :: rest) cur = 0
        · rw [if_pos hw]
          have hd := h.destroy hG hv0 hw
          refine ih _ _ _ (hd.perm (List.Perm.refl _) (rotate_perm rest).symm) ?_
          rw [(rotate_perm rest).length_eq]; exact hn'
        · rw [if_neg hw]
          by_cases hm : cur.mark = true
          · simp only [hm, Bool.not_true, Bool.false_eq_true, if_false]
            exact ih _ _ _ (h.skip hm) hn'
          · have hm' : cur.mark = false := by simpa using hm
            simp only [hm', Bool.not_false, if_true]
            refine ih _ _ _ (h.count hv0 hm') ?_
            simpa [bump] using hn'

end Rsj.Gc
