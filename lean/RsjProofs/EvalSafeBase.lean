import RsjProofs.EvalSafeShape
/-!
  C01 on the evaluator model: every identifier stored anywhere in the store is in range, every
  stored expression has the shape the front end guarantees (`Safe`); sizes only grow and a thunk in
  progress stays in progress (`Le`).
-/
namespace Rsj.Eval.Safe
open Rsj.Core Rsj.Eval Rsj.Eval.Scope

/-! ### Ranges -/

/-- the identifiers in a value are below the given sizes (thunks, objects, functions) -/
def ValOk (nt no nf : Nat) : Value → Prop
  | .arr items => ∀ t ∈ items, t < nt
  | .obj o => o < no
  | .func f => f < nf
  | _ => True

theorem ValOk.mono {nt no nf nt' no' nf' : Nat} {v : Value} (h : ValOk nt no nf v) (h1 : nt ≤ nt')
    (h2 : no ≤ no') (h3 : nf ≤ nf') : ValOk nt' no' nf' v := by
  cases v with
  | arr items => exact fun t ht => Nat.lt_of_lt_of_le (h t ht) h1
  | obj o => exact Nat.lt_of_lt_of_le h h2
  | func f => exact Nat.lt_of_lt_of_le h h3
  | _ => trivial

def PendRng (nt ne nf : Nat) : Pending → Prop
  | .expr e env => env < ne ∧ CoreShaped e
  | .plus e _ env => env < ne ∧ CoreShaped e
  | .call f args => f < nf ∧ ∀ a ∈ args, a < nt

theorem PendRng.mono {nt ne nf nt' ne' nf' : Nat} {p : Pending} (h : PendRng nt ne nf p) (h1 : nt ≤ nt')
    (h2 : ne ≤ ne') (h3 : nf ≤ nf') : PendRng nt' ne' nf' p := by
  cases p with
  | expr e env => exact ⟨Nat.lt_of_lt_of_le h.1 h2, h.2⟩
  | plus e f env => exact ⟨Nat.lt_of_lt_of_le h.1 h2, h.2⟩
  | call f args => exact ⟨Nat.lt_of_lt_of_le h.1 h3, fun a ha => Nat.lt_of_lt_of_le (h.2 a ha) h1⟩

def TSRng (nt ne no nf : Nat) : TState → Prop
  | .pending p => PendRng nt ne nf p
  | .inProgress p => PendRng nt ne nf p
  | .done v => ValOk nt no nf v

theorem TSRng.mono {nt ne no nf nt' ne' no' nf' : Nat} {x : TState} (h : TSRng nt ne no nf x)
    (h1 : nt ≤ nt') (h2 : ne ≤ ne') (h3 : no ≤ no') (h4 : nf ≤ nf') : TSRng nt' ne' no' nf' x := by
  cases x with
  | pending p => exact PendRng.mono h h1 h2 h4
  | inProgress p => exact PendRng.mono h h1 h2 h4
  | done v => exact ValOk.mono h h1 h3 h4

/-- variables are bound to existing thunks, the object reference to existing objects -/
def EnvRng (nt no : Nat) (env : Env) : Prop :=
  (∀ v ∈ env.vars, v.2 < nt) ∧ (∀ r, env.obj = some r → r.obj < no ∧ r.top < no)

theorem EnvRng.mono {nt no nt' no' : Nat} {env : Env} (h : EnvRng nt no env) (h1 : nt ≤ nt') (h2 : no ≤ no') :
    EnvRng nt' no' env :=
  ⟨fun v hv => Nat.lt_of_lt_of_le (h.1 v hv) h1,
   fun r hr => ⟨Nat.lt_of_lt_of_le (h.2 r hr).1 h2, Nat.lt_of_lt_of_le (h.2 r hr).2 h2⟩⟩

def FuncRng (ne : Nat) (fn : Func) : Prop :=
  fn.env < ne ∧ CoreShaped fn.body ∧ ∀ p ∈ fn.params, CoreShapedOpt p.2

theorem FuncRng.mono {ne ne' : Nat} {fn : Func} (h : FuncRng ne fn) (h1 : ne ≤ ne') : FuncRng ne' fn :=
  ⟨Nat.lt_of_lt_of_le h.1 h1, h.2⟩

def FieldRng (nt ne : Nat) (f : Field) : Prop :=
  (∀ b, f.baseEnv = some b → b < ne) ∧ (∀ t, f.thunk = some t → t < nt) ∧
  (∀ ep, f.expr = some ep → CoreShaped ep.1)

theorem FieldRng.mono {nt ne nt' ne' : Nat} {f : Field} (h : FieldRng nt ne f) (h1 : nt ≤ nt') (h2 : ne ≤ ne') :
    FieldRng nt' ne' f :=
  ⟨fun b hb => Nat.lt_of_lt_of_le (h.1 b hb) h2, fun t ht => Nat.lt_of_lt_of_le (h.2.1 t ht) h1, h.2.2⟩

def LayerRng (nt ne : Nat) (l : Layer) : Prop :=
  (∀ b, l.baseEnv = some b → b < ne) ∧ (∀ e, l.env = some e → e < ne) ∧
  (∀ p ∈ l.locals, CoreShaped p.2) ∧ (∀ a ∈ l.asserts, CoreShaped a.1 ∧ CoreShapedOpt a.2) ∧
  ∀ f ∈ l.fields, FieldRng nt ne f

theorem LayerRng.mono {nt ne nt' ne' : Nat} {l : Layer} (h : LayerRng nt ne l) (h1 : nt ≤ nt') (h2 : ne ≤ ne') :
    LayerRng nt' ne' l :=
  ⟨fun b hb => Nat.lt_of_lt_of_le (h.1 b hb) h2, fun e he => Nat.lt_of_lt_of_le (h.2.1 e he) h2,
   h.2.2.1, h.2.2.2.1, fun f hf => (h.2.2.2.2 f hf).mono h1 h2⟩

/-- the store invariant: all identifiers in range, all expressions shaped -/
structure Safe (st : St) : Prop where
  thunks : ∀ (t : Nat) (x : TState), st.thunks[t]? = some x →
    TSRng st.thunks.size st.envs.size st.objs.size st.funcs.size x
  envs : ∀ (e : Nat) (env : Env), st.envs[e]? = some env → EnvRng st.thunks.size st.objs.size env
  funcs : ∀ (f : Nat) (fn : Func), st.funcs[f]? = some fn → FuncRng st.envs.size fn
  objs : ∀ (o : Nat) (ob : Obj), st.objs[o]? = some ob → ∀ l ∈ ob.layers, LayerRng st.thunks.size st.envs.size l

/-- sizes only grow -/
def SzLe (a b : St) : Prop :=
  a.thunks.size ≤ b.thunks.size ∧ a.envs.size ≤ b.envs.size ∧ a.objs.size ≤ b.objs.size ∧
  a.funcs.size ≤ b.funcs.size

/-- a thunk in progress stays in progress -/
def Prog (a b : St) : Prop :=
  ∀ (t : Nat) (p : Pending), a.thunks[t]? = some (.inProgress p) → b.thunks[t]? = some (.inProgress p)

theorem Prog.refl (a : St) : Prog a a := fun _ _ h => h
theorem Prog.trans {a b c : St} (h1 : Prog a b) (h2 : Prog b c) : Prog a c :=
  fun t p h => h2 t p (h1 t p h)

/-- the store order of this development -/
def Le (a b : St) : Prop := SzLe a b ∧ Prog a b

/-- a store whose entries are old entries or in range at the new sizes -/
theorem Safe.of {s s' : St} (h : Safe s) (hle : SzLe s s')
    (ht : ∀ (t : Nat) (x : TState), s'.thunks[t]? = some x → s.thunks[t]? = some x ∨
      TSRng s'.thunks.size s'.envs.size s'.objs.size s'.funcs.size x)
    (he : ∀ (e : Nat) (env : Env), s'.envs[e]? = some env → s.envs[e]? = some env ∨ EnvRng s'.thunks.size s'.objs.size env)
    (hf : ∀ (f : Nat) (fn : Func), s'.funcs[f]? = some fn → s.funcs[f]? = some fn ∨ FuncRng s'.envs.size fn)
    (ho : ∀ (o : Nat) (ob : Obj), s'.objs[o]? = some ob → s.objs[o]? = some ob ∨
      ∀ l ∈ ob.layers, LayerRng s'.thunks.size s'.envs.size l) : Safe s' := by
  obtain ⟨h1, h2, h3, h4⟩ := hle
  refine ⟨?_, ?_, ?_, ?_⟩
  · intro t x hx
    rcases ht t x hx with g | g
    · exact (h.thunks t x g).mono h1 h2 h3 h4
    · exact g
  · intro e env hx
    rcases he e env hx with g | g
    · exact (h.envs e env g).mono h1 h3
    · exact g
  · intro f fn hx
    rcases hf f fn hx with g | g
    · exact (h.funcs f fn g).mono h2
    · exact g
  · intro o ob hx
    rcases ho o ob hx with g | g
    · exact fun l hl => (h.objs o ob g l hl).mono h1 h2
    · exact g

theorem Safe_empty : Safe {} :=
  ⟨fun t x h => by simp at h, fun e env h => by simp at h, fun f fn h => by simp at h,
   fun o ob h => by simp at h⟩

/-- `Evaluator::eval` failing: putting the thunks in progress back to pending keeps the ranges -/
theorem Safe.restore {st : St} (h : Safe st) : Safe (restoreInProgress st) := by
  refine ⟨?_, ?_, ?_, ?_⟩
  · intro t x hx
    simp only [restoreInProgress, Array.getElem?_map, Option.map_eq_some_iff] at hx
    obtain ⟨y, hy, rfl⟩ := hx
    have := h.thunks t y hy
    simp only [restoreInProgress, Array.size_map]
    cases y <;> exact this
  · intro e env hx
    simpa [restoreInProgress] using h.envs e env hx
  · intro f fn hx
    simpa [restoreInProgress] using h.funcs f fn hx
  · intro o ob hx l hl
    simp only [restoreInProgress, Array.getElem?_map, Option.map_eq_some_iff] at hx
    obtain ⟨y, hy, rfl⟩ := hx
    have := h.objs o y hy l
    simp only [restoreInProgress, Array.size_map]
    split at hl <;> exact this hl

/-! ### Errors -/

/-- the error is not one of the modelled panics this development excludes: if it is a modelled
    panic at all, it is one of those the scoping development (`Scope.Good`) excludes, or the
    comparison of a NaN -/
def Good2 : Err → Prop
  | .internal m => m = "variable not found" ∨ m = "get_object on an environment without object" ∨
      m = "get_top_object on an environment without object" ∨ m = "env data not set" ∨
      m = "bad layer index" ∨ m = "layer without base env" ∨ m = "field without expression" ∨
      m = "visible field without thunk" ∨ m = "partial_cmp of NaN"
  | _ => True

end Rsj.Eval.Safe
