/-
  Request-level lemmas of the thunk machine (C11): the invariant `Cons` of a
  long-lived store, its preservation by requests, and request-level forms of
  the two simulations.
-/
import RsjProofs.ThunkLe
namespace Rsj.Thunk

/-- **Consistent store**: quiescent, and memoisation-consistent. This is the
    invariant of a long-lived program state between requests. -/
structure Cons (c : Code) (s : St) : Prop where
  quiet : Quiet s
  just : Justified c s

theorem st_init (n u : Nat) : (init n).st u = if u < n then some .pending else none := by
  unfold St.st init; simp [List.getElem?_replicate]

theorem rn_init (n u : Nat) : (init n).rn u = if u < n then some 0 else none := by
  unfold St.rn init; simp [List.getElem?_replicate]

theorem Cons.init (c : Code) (n : Nat) : Cons c (init n) := by
  refine ⟨fun u h => ?_, ⟨fun _ => 0, fun u v h => ?_⟩⟩ <;>
  · rw [st_init] at h; split at h <;> cases h

theorem Le.trans {a b d : St} (h1 : Le a b) (h2 : Le b d) : Le a d := by
  refine ⟨h2.1.trans h1.1, fun x => ?_⟩
  rcases h2.2 x with e2 | ⟨p2, v, d2⟩
  · rcases h1.2 x with e1 | ⟨p1, v, d1⟩
    · exact .inl (e2.trans e1)
    · exact .inr ⟨p1, v, by rw [e2]; exact d1⟩
  · rcases h1.2 x with e1 | ⟨p1, v', d1⟩
    · exact .inr ⟨by rw [← e1]; exact p2, v, d2⟩
    · rw [d1] at p2; cases p2

theorem Le.restore {s m : St} (h : Le s m) : Le (restore s) (restore m) := by
  refine ⟨by simpa using h.1, fun x => ?_⟩
  rw [st_restore, st_restore]
  rcases h.2 x with e | ⟨p, v, d⟩
  · exact .inl (by rw [e])
  · exact .inr ⟨by rw [p]; rfl, v, by rw [d]; rfl⟩

theorem Quiet.restore (s : St) : Quiet (restore s) := by
  intro u h
  rw [st_restore] at h
  rcases st_cases s u with e | e | e | ⟨v, e⟩ <;> rw [e] at h <;> simp [unmark] at h

/-- A monotone step from a quiescent store followed by `restore` only memoises. -/
theorem Mono.le_restore {s s' : St} (hq : Quiet s) (hm : Mono s s') : Le s (restore s') := by
  refine ⟨by simpa using hm.len, fun x => ?_⟩
  rw [st_restore]
  by_cases hx : s.st x = some .pending
  · rcases hm.pend x hx with ⟨p, _⟩ | ⟨p | ⟨v, d⟩, _⟩
    · exact .inl (by rw [p, hx]; rfl)
    · exact .inl (by rw [p, hx]; rfl)
    · exact .inr ⟨hx, v, by rw [d]; rfl⟩
  · rw [(hm.frozen x hx).1]
    rcases st_cases s x with e | e | e | ⟨v, e⟩
    · exact .inl (by rw [e]; rfl)
    · exact absurd e hx
    · exact absurd e (hq x)
    · exact .inl (by rw [e]; rfl)

theorem Mono.le_of_clean {s s' : St} (hq : Quiet s) (hm : Mono s s')
    (hc : ∀ u, s'.st u = some .inProgress → s.st u = some .inProgress) : Le s s' := by
  refine ⟨hm.len, fun x => ?_⟩
  by_cases hx : s.st x = some .pending
  · rcases hm.pend x hx with ⟨p, _⟩ | ⟨p | ⟨v, d⟩, _⟩
    · exact .inl (by rw [p, hx])
    · exact absurd (hc x p) (hq x)
    · exact .inr ⟨hx, v, d⟩
  · exact .inl (hm.frozen x hx).1

/-- What one `eval` request does to a consistent store. -/
theorem evalReq_cons {c : Code} {limit t : Nat} {s : St} (hs : Cons c s) :
    Cons c (evalReq c limit t s).2 ∧ Le s (evalReq c limit t s).2 := by
  unfold evalReq
  have hm := force_mono_st c limit t s
  have hc := force_clean c limit t s
  have hj := force_justified c limit t s hs.just
  rcases res_cases (force c limit t s) with ⟨v, s1, e⟩ | ⟨e', s1, e⟩
  · rw [e] at hm hc hj ⊢
    have hcl := hc v rfl
    exact ⟨⟨fun u hu => hs.quiet u (hcl u hu), hj⟩, hm.le_of_clean hs.quiet hcl⟩
  · rw [e] at hm hj ⊢
    exact ⟨⟨Quiet.restore s1, hj.restore⟩, hm.le_restore hs.quiet⟩

theorem runReq_cons {c : Code} {limit : Nat} {q : Req} {s : St} (hs : Cons c s) :
    Cons c (runReq c limit q s).2 ∧ Le s (runReq c limit q s).2 := by
  cases q with
  | eval t => exact evalReq_cons hs
  | gc => exact ⟨hs, Le.refl s⟩

theorem runHistory_cons {c : Code} {limit : Nat} : ∀ (qs : List Req) {s : St}, Cons c s →
    Cons c (runHistory c limit qs s).2 ∧ Le s (runHistory c limit qs s).2 := by
  intro qs
  induction qs with
  | nil => intro s hs; exact ⟨hs, Le.refl s⟩
  | cons q qs ih =>
    intro s hs
    obtain ⟨h1, l1⟩ := runReq_cons (limit := limit) (q := q) hs
    obtain ⟨h2, l2⟩ := ih h1
    exact ⟨h2, l1.trans l2⟩

/-- Request-level form of `force_le`. -/
theorem evalReq_le {c : Code} {limit t : Nat} {s m : St} (hjm : Justified c m) (hle : Le s m)
    (hr : (evalReq c limit t s).1 ≠ .error .stackOverflow) :
    (evalReq c limit t m).1 = (evalReq c limit t s).1 := by
  unfold evalReq at *
  rcases res_cases (force c limit t s) with ⟨v, s1, e⟩ | ⟨e', s1, e⟩
  · obtain ⟨m', em, _⟩ := force_le c limit t s m _ _ hjm hle e (by simp)
    rw [e, em]; rfl
  · rw [e] at hr
    obtain ⟨m', em, _⟩ := force_le c limit t s m _ _ hjm hle e (by simpa using hr)
    rw [e, em]; rfl

/-- Request-level form of `force_ge`. -/
theorem evalReq_ge {c : Code} {limit t : Nat} {s m : St} (hjm : Justified c m) (hle : Le s m)
    (hr : (evalReq c limit t m).1 ≠ .error .stackOverflow) :
    ∃ H, ∀ l, H ≤ l → (evalReq c l t s).1 = (evalReq c limit t m).1 := by
  unfold evalReq at *
  rcases res_cases (force c limit t m) with ⟨v, m1, e⟩ | ⟨e', m1, e⟩
  · obtain ⟨H, hH⟩ := force_ge c limit t s m _ _ hjm hle e (by simp)
    refine ⟨H, fun l hl => ?_⟩
    obtain ⟨s', es, _⟩ := hH l hl
    rw [e, es]; rfl
  · rw [e] at hr
    obtain ⟨H, hH⟩ := force_ge c limit t s m _ _ hjm hle e (by simpa using hr)
    refine ⟨H, fun l hl => ?_⟩
    obtain ⟨s', es, _⟩ := hH l hl
    rw [e, es]; rfl

theorem runHistory_append (c : Code) (limit : Nat) : ∀ (q1 q2 : List Req) (s : St),
    runHistory c limit (q1 ++ q2) s =
      ((runHistory c limit q1 s).1 ++ (runHistory c limit q2 (runHistory c limit q1 s).2).1,
       (runHistory c limit q2 (runHistory c limit q1 s).2).2) := by
  intro q1
  induction q1 with
  | nil => intro q2 s; rfl
  | cons q qs ih =>
    intro q2 s
    simp only [List.cons_append, runHistory, ih]

/-- Outcome of the `i`-th request of a history on store `m`, compared with the
    outcome on a less evaluated store `s0`. -/
theorem history_le {c : Code} {limit : Nat} {s0 : St} : ∀ (qs : List Req) (m : St) (i : Nat) (q : Req),
    Cons c m → Le s0 m → qs[i]? = some q →
    (runReq c limit q s0).1 ≠ some (.error .stackOverflow) →
    (runHistory c limit qs m).1[i]? = some (runReq c limit q s0).1 := by
  intro qs
  induction qs with
  | nil => intro m i q _ _ h; cases h
  | cons q0 qs ih =>
    intro m i q hm hle hq hr
    cases i with
    | zero =>
      simp only [List.getElem?_cons_zero, Option.some.injEq] at hq
      subst hq
      simp only [runHistory, List.getElem?_cons_zero, Option.some.injEq]
      cases q0 with
      | gc => rfl
      | eval t =>
        simp only [runReq, Option.some.injEq] at hr ⊢
        exact evalReq_le hm.just hle (by intro h; exact hr (by rw [h]))
    | succ j =>
      simp only [List.getElem?_cons_succ] at hq
      simp only [runHistory, List.getElem?_cons_succ]
      obtain ⟨h1, l1⟩ := runReq_cons (limit := limit) (q := q0) hm
      exact ih _ j q h1 (hle.trans l1) hq hr

theorem history_ge {c : Code} {limit : Nat} {s0 : St} : ∀ (qs : List Req) (m : St) (i : Nat) (q : Req),
    Cons c m → Le s0 m → qs[i]? = some q →
    ∃ o, (runHistory c limit qs m).1[i]? = some o ∧
      (o = some (.error .stackOverflow) ∨ ∃ H, ∀ l, H ≤ l → (runReq c l q s0).1 = o) := by
  intro qs
  induction qs with
  | nil => intro m i q _ _ h; cases h
  | cons q0 qs ih =>
    intro m i q hm hle hq
    cases i with
    | zero =>
      simp only [List.getElem?_cons_zero, Option.some.injEq] at hq
      subst hq
      refine ⟨(runReq c limit q0 m).1, by simp [runHistory], ?_⟩
      cases q0 with
      | gc => exact .inr ⟨0, fun _ _ => rfl⟩
      | eval t =>
        simp only [runReq]
        by_cases hso : (evalReq c limit t m).1 = .error .stackOverflow
        · exact .inl (by rw [hso])
        · obtain ⟨H, hH⟩ := evalReq_ge hm.just hle hso
          exact .inr ⟨H, fun l hl => by rw [hH l hl]⟩
    | succ j =>
      simp only [List.getElem?_cons_succ] at hq
      simp only [runHistory, List.getElem?_cons_succ]
      obtain ⟨h1, l1⟩ := runReq_cons (limit := limit) (q := q0) hm
      exact ih _ j q h1 (hle.trans l1) hq

end Rsj.Thunk
