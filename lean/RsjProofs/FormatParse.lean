/-
  Helper lemmas for C19: `parse_format_codes` always terminates (every directive
  consumes input), so the model's fuel is never exhausted.
-/
import RsjModel.Format
namespace Rsj.Format

theorem splitAt1_length {c : Char} {l a b : List Char} (h : splitAt1 c l = some (a, b)) :
    a.length + 1 + b.length = l.length := by
  induction l generalizing a b with
  | nil => cases h
  | cons x xs ih =>
    unfold splitAt1 at h
    split at h
    · cases h; simp; omega
    · split at h
      · cases h
      · next a' b' hrec =>
        cases h
        have := ih hrec
        simp only [List.length_cons]; omega

theorem splitAt1_none {c : Char} {l : List Char} (h : c ∉ l) : splitAt1 c l = none := by
  induction l with
  | nil => rfl
  | cons x xs ih =>
    unfold splitAt1
    have hx : ¬ x = c := fun e => h (by rw [e]; exact List.mem_cons_self ..)
    rw [if_neg hx, ih (fun hm => h (List.mem_cons_of_mem _ hm))]

theorem parseMkey_len {rem r : List Char} {k : Option (List Char)}
    (h : parseMkey rem = .ok (k, r)) : r.length ≤ rem.length := by
  unfold parseMkey at h
  split at h
  · cases h; exact Nat.le_refl _
  · split at h
    · split at h
      · cases h
      · next key rest hs =>
        cases h
        have := splitAt1_length hs
        simp only [List.length_cons]; omega
    · cases h; exact Nat.le_refl _

theorem parseMkey_ne_fuel (rem : List Char) : parseMkey rem ≠ .error .fuel := by
  unfold parseMkey
  split
  · simp
  · split
    · split <;> simp
    · simp

theorem parseFlags_len (r : List Char) (f : Flags) : (parseFlags r f).2.length ≤ r.length := by
  induction r generalizing f with
  | nil => simp [parseFlags]
  | cons c r ih =>
    unfold parseFlags
    repeat' split
    all_goals first
      | exact Nat.le_trans (ih _) (by simp)
      | simp

theorem takeDigits_len (l : List Char) : (takeDigits l).2.length ≤ l.length := by
  induction l with
  | nil => simp [takeDigits]
  | cons c cs ih =>
    unfold takeDigits
    split
    · simp only [List.length_cons]; omega
    · simp

theorem parseWidth_len {rem r : List Char} {w : Option FW}
    (h : parseWidth rem = .ok (w, r)) : r.length ≤ rem.length := by
  unfold parseWidth at h
  split at h
  · cases h; exact Nat.le_refl _
  · next c r' =>
    split at h
    · cases h; simp
    · simp only at h
      split at h
      · cases h; exact Nat.le_refl _
      · split at h
        · cases h
        · cases h; exact takeDigits_len _

theorem parseWidth_ne_fuel (rem : List Char) : parseWidth rem ≠ .error .fuel := by
  unfold parseWidth
  split
  · simp
  · split
    · simp
    · simp only
      split
      · simp
      · split <;> simp

theorem parsePrec_len {rem r : List Char} {w : Option FW}
    (h : parsePrec rem = .ok (w, r)) : r.length ≤ rem.length := by
  unfold parsePrec at h
  split at h
  · cases h; exact Nat.le_refl _
  · next c r' =>
    split at h
    · split at h
      · cases h
      · next c2 r2 =>
        split at h
        · cases h; simp; omega
        · simp only at h
          split at h
          · cases h
          · split at h
            · cases h
            · cases h
              have := takeDigits_len (c2 :: r2)
              simp only [List.length_cons] at this ⊢; omega
    · cases h; exact Nat.le_refl _

theorem parsePrec_ne_fuel (rem : List Char) : parsePrec rem ≠ .error .fuel := by
  unfold parsePrec
  split
  · simp
  · split
    · split
      · simp
      · split
        · simp
        · simp only
          split
          · simp
          · split <;> simp
    · simp

theorem parseLenMod_len (rem : List Char) : (parseLenMod rem).2.length ≤ rem.length := by
  unfold parseLenMod
  split
  · simp
  · split <;> simp

theorem parseConv_len {rem r : List Char} {k : Conv}
    (h : parseConv rem = .ok (k, r)) : r.length < rem.length := by
  unfold parseConv at h
  split at h
  · cases h
  · split at h
    · cases h; simp
    · cases h

theorem parseConv_ne_fuel (rem : List Char) : parseConv rem ≠ .error .fuel := by
  unfold parseConv
  split
  · simp
  · split <;> simp

theorem parseCode_len {rem r : List Char} {c : Code}
    (h : parseCode rem = .ok (c, r)) : r.length < rem.length := by
  unfold parseCode at h
  split at h
  · cases h
  · next mkey r1 h1 =>
    simp only at h
    split at h
    · cases h
    · next fw r3 h3 =>
      split at h
      · cases h
      · next prec r4 h4 =>
        split at h
        · cases h
        · next conv r6 h6 =>
          cases h
          have a1 := parseMkey_len h1
          have a2 := parseFlags_len r1 {}
          have a3 := parseWidth_len h3
          have a4 := parsePrec_len h4
          have a5 := parseLenMod_len r4
          have a6 := parseConv_len h6
          omega

theorem parseCode_ne_fuel (rem : List Char) : parseCode rem ≠ .error .fuel := by
  intro h
  unfold parseCode at h
  split at h
  · next e h1 => cases h; exact parseMkey_ne_fuel _ h1
  · simp only at h
    split at h
    · next e h3 => cases h; exact parseWidth_ne_fuel _ h3
    · split at h
      · next e h4 => cases h; exact parsePrec_ne_fuel _ h4
      · split at h
        · next e h6 => cases h; exact parseConv_ne_fuel _ h6
        · cases h

theorem parseParts_ne_fuel (fuel : Nat) (rem : List Char) (hf : rem.length < fuel) :
    parseParts fuel rem ≠ .error .fuel := by
  induction fuel generalizing rem with
  | zero => omega
  | succ f ih =>
    intro h
    unfold parseParts at h
    split at h
    · cases h
    · split at h
      · cases h
      · next pre rest hs =>
        split at h
        · next e he => cases h; exact parseCode_ne_fuel _ he
        · next c rest' hc =>
          have l1 := splitAt1_length hs
          have l2 := parseCode_len hc
          split at h
          · next e he => cases h; exact ih rest' (by omega) he
          · cases h

theorem splitAt1_append {c : Char} {pre rest : List Char} (h : c ∉ pre) :
    splitAt1 c (pre ++ c :: rest) = some (pre, rest) := by
  induction pre with
  | nil => simp [splitAt1]
  | cons x xs ih =>
    have hx : ¬ x = c := fun e => h (by rw [e]; exact List.mem_cons_self ..)
    have := ih (fun hm => h (List.mem_cons_of_mem _ hm))
    simp [splitAt1, hx, this]

/-- enough fuel is as good as any other amount of enough fuel -/
theorem parseParts_fuel_irrel (f1 f2 : Nat) (rem : List Char) (h1 : rem.length < f1)
    (h2 : rem.length < f2) : parseParts f1 rem = parseParts f2 rem := by
  induction f1 generalizing f2 rem with
  | zero => omega
  | succ f ih =>
    cases f2 with
    | zero => omega
    | succ g =>
      unfold parseParts
      split
      · rfl
      · split
        · rfl
        · next pre rest hs =>
          split
          · rfl
          · next c rest' hc =>
            have l1 := splitAt1_length hs
            have l2 := parseCode_len hc
            rw [ih g rest' (by omega) (by omega)]

/-- Left-to-right structure of `parse_format_codes`: literal text up to the first
    `%`, then one directive, then the rest of the string; the first malformed
    directive determines the error. -/
theorem parseFormat_first (pre rest : List Char) (hp : '%' ∉ pre) :
    parseFormat (pre ++ '%' :: rest) =
      match parseCode rest with
      | .error e => .error e
      | .ok (c, rest') =>
        match parseFormat rest' with
        | .error e => .error e
        | .ok ps => .ok ((if pre = [] then [] else [Part.lit pre]) ++ Part.code c :: ps) := by
  unfold parseFormat
  rw [parseParts]
  have hne : ¬ (pre ++ '%' :: rest = []) := by simp
  rw [if_neg hne, splitAt1_append hp]
  simp only
  cases hc : parseCode rest with
  | error e => rfl
  | ok p =>
    obtain ⟨c, rest'⟩ := p
    have l2 := parseCode_len hc
    simp only
    rw [parseParts_fuel_irrel (pre ++ '%' :: rest).length (rest'.length + 1) rest'
      (by simp only [List.length_append, List.length_cons]; omega) (by omega)]
    rfl

end Rsj.Format
