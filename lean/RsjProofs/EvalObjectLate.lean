/-
  Object algebra of the evaluator model, part 8: late binding of `self` in the monad.

  `fieldThunk` on a field that has no cached thunk, in a layer that has no cached
  environment (the situation right after `extendObject`), allocates a pending thunk whose
  environment carries the object reference `(o, li)` of the object the field was looked up
  in.  Symbolic execution with `mvcgen` against a frame (`Frame`: the environments and
  thunks present before are still there, the objects are known), ghost parameters are
  theorem-level variables.
-/
import RsjProofs.EvalObjectWF
open Std.Do
set_option mvcgen.warning false
set_option linter.unusedSimpArgs false
set_option linter.unusedVariables false
namespace Rsj.Eval
open Rsj.Core

/-- postcondition on normal exit only (errors, panics and running out of fuel promise nothing) -/
def QP {α} (P : α → St → Prop) : PostCond α WPS :=
  ⟨fun a st => ⌜P a st⌝, fun _ _ => ⌜True⌝, fun _ => ⌜True⌝, ()⟩

/-- `n` environments, those of `E` among them; the objects are `O`; the thunks extend `T` -/
def Frame (n : Nat) (E : Array Env) (O : Array Obj) (T : Array TState) (st : St) : Prop :=
  st.envs.size = n ∧ (∀ (i : Nat) (x : Env), E[i]? = some x → st.envs[i]? = some x) ∧ st.objs = O ∧
  ∀ (i : Nat) (x : TState), T[i]? = some x → st.thunks[i]? = some x

theorem getElem?_push_of_some {α} {a : Array α} {i : Nat} {x : α} (y : α) (h : a[i]? = some x) :
    (a.push y)[i]? = some x := by
  have hi : i < a.size := by
    rcases Nat.lt_or_ge i a.size with h' | h'
    · exact h'
    · rw [Array.getElem?_eq_none h'] at h; cases h
  rw [Array.getElem?_push]
  have : i ≠ a.size := by omega
  simp [this, h]

theorem Frame.pushThunk {n E O T} {st : St} (h : Frame n E O T st) (x : TState) (r : Array Nat) (f : Array Func) :
    Frame n E O T { st with thunks := st.thunks.push x, runs := r, funcs := f } :=
  ⟨h.1, h.2.1, h.2.2.1, fun i y hy => getElem?_push_of_some _ (h.2.2.2 i y hy)⟩

/-- the environment `env` belongs to layer `li` of the object `o`: `self` is `o` -/
def GoodEnv (st : St) (env : EId) (o : OId) (li : Nat) : Prop :=
  ∃ p vars top, st.envs[env]? = some { parent := p, vars := vars, obj := some { obj := o, layer := li, top := top } }

theorem newThunk_frame (e : Expr) (env : EId) (n : Nat) (E : Array Env) (O : Array Obj) (T : Array TState) :
    ⦃fun st => ⌜Frame n E O T st⌝⦄ newThunk e env ⦃QP (fun _ st => Frame n E O T st)⦄ := by
  unfold newThunk allocFunc allocThunk
  mvcgen
  all_goals (rename_i h; exact h.pushThunk _ _ _)

theorem Frame.pushEnv {n E O T} {st : St} (h : Frame n E O T st) (x : Env) :
    Frame (n + 1) E O T { st with envs := st.envs.push x } :=
  ⟨by simp [h.1], fun i y hy => getElem?_push_of_some _ (h.2.1 i y hy), h.2.2.1, h.2.2.2⟩

theorem Frame.setEnv {n E O T} {st : St} (h : Frame n E O T st) (k : Nat) (hk : E.size ≤ k) (x : Env) :
    Frame n E O T { st with envs := st.envs.setIfInBounds k x } := by
  refine ⟨by simp [h.1], ?_, h.2.2.1, h.2.2.2⟩
  intro i y hy
  have hi : i < E.size := by
    rcases Nat.lt_or_ge i E.size with h' | h'
    · exact h'
    · rw [Array.getElem?_eq_none h'] at hy; cases hy
  simp only [Array.getElem?_setIfInBounds]
  have : k ≠ i := by omega
  simp only [this, if_false]
  exact h.2.1 i y hy

theorem QP_ok {α} (P : α → St → Prop) (a : α) (st : St) : ((QP P).1 a st).down ↔ P a st := Iff.rfl

theorem initEnv_final {n : Nat} {E : Array Env} {O : Array Obj} {T : Array TState} {s0 s : St} (hE : E.size ≤ n)
    (h0 : Frame n E O T s0) (hI : Frame (n + 1) E O T s) (o : OId) (li : Nat) (p : Option EId)
    (vs : List (String × TId)) (top : OId) :
    Frame (n + 1) E O T { s with envs := (s.envs.setIfInBounds s0.envs.size
        { parent := p, vars := vs, obj := some { obj := o, layer := li, top := top } }) } ∧
    s0.envs.size = n ∧
    GoodEnv { s with envs := (s.envs.setIfInBounds s0.envs.size
        { parent := p, vars := vs, obj := some { obj := o, layer := li, top := top } }) } s0.envs.size o li := by
  refine ⟨hI.setEnv _ (by rw [h0.1]; exact hE) _, h0.1, ⟨p, vs, top, ?_⟩⟩
  simp only [Array.getElem?_setIfInBounds, hI.1, h0.1]
  simp

theorem initObjectEnv_late (o : OId) (li : Nat) (b : EId) (n : Nat) (E : Array Env) (O : Array Obj) (T : Array TState)
    (hE : E.size ≤ n) :
    ⦃fun st => ⌜Frame n E O T st⌝⦄ initObjectEnv o li b
    ⦃QP (fun env st => Frame (n + 1) E O T st ∧ env = n ∧ GoodEnv st env o li)⦄ := by
  have hn := fun e env => newThunk_frame e env (n + 1) E O T
  unfold initObjectEnv getObj getEnv allocEnv setEnv
  mvcgen [hn]
  case inv1 => exact QP (fun _ st => Frame (n + 1) E O T st)
  all_goals try (first | assumption | (intros; trivial) | exact Frame.pushEnv (by assumption) _)
  all_goals exact initEnv_final hE (by assumption) (by assumption) _ _ _ _ _

/-- the environments of `E` and the thunks of `T` are still there -/
def ExtET (E : Array Env) (T : Array TState) (st : St) : Prop :=
  (∀ (i : Nat) (x : Env), E[i]? = some x → st.envs[i]? = some x) ∧
  ∀ (i : Nat) (x : TState), T[i]? = some x → st.thunks[i]? = some x

theorem Frame.ext {n E O T} {st : St} (h : Frame n E O T st) : ExtET E T st := ⟨h.2.1, h.2.2.2⟩

theorem frame_obj_eq {n : Nat} {E : Array Env} {O : Array Obj} {T : Array TState} {s : St} (h : Frame n E O T s)
    {o : OId} {ob0 ob : Obj} (hO : O[o]? = some ob0) (hx : s.objs[o]? = some ob) : ob = ob0 := by
  rw [h.2.2.1, hO] at hx; exact (Option.some.inj hx).symm

theorem layerEnv_contra {n : Nat} {E : Array Env} {O : Array Obj} {T : Array TState} {s : St} (h : Frame n E O T s)
    {o : OId} {ob0 ob : Obj} {li : Nat} {layer : Layer} {p : EId} (hO : O[o]? = some ob0)
    (hx : s.objs[o]? = some ob) (hl : ob.layers[li]? = some layer)
    (hnone : ∀ layer, ob0.layers[li]? = some layer → layer.env = none) (he : layer.env = some p) : False := by
  have := frame_obj_eq h hO hx
  subst this
  rw [hnone layer hl] at he; cases he

theorem layerEnv_final {n : Nat} {E : Array Env} {O : Array Obj} {T : Array TState} {s1 : St} {r : EId} {o : OId}
    {li : Nat} (h : Frame (n + 1) E O T s1 ∧ r = n ∧ GoodEnv s1 r o li) (objs' : Array Obj) :
    ExtET E T { s1 with objs := objs' } ∧ GoodEnv { s1 with objs := objs' } r o li :=
  ⟨⟨h.1.2.1, h.1.2.2.2⟩, h.2.2⟩

theorem layerEnv_late (o : OId) (li : Nat) (n : Nat) (E : Array Env) (O : Array Obj) (T : Array TState)
    (hE : E.size ≤ n) (ob0 : Obj) (hO : O[o]? = some ob0)
    (hnone : ∀ layer, ob0.layers[li]? = some layer → layer.env = none) :
    ⦃fun st => ⌜Frame n E O T st⌝⦄ layerEnv o li
    ⦃QP (fun env st => ExtET E T st ∧ GoodEnv st env o li)⦄ := by
  have hi := fun b => initObjectEnv_late o li b n E O T hE
  unfold layerEnv getObj setObj
  mvcgen [hi]
  all_goals try (first | assumption | (intros; trivial))
  · exact (layerEnv_contra (by assumption) hO (by assumption) (by assumption) hnone (by assumption)).elim
  · exact layerEnv_final (by assumption) _

theorem ft_same {n : Nat} {E : Array Env} {O : Array Obj} {T : Array TState} {s : St} (h : Frame n E O T s)
    {o : OId} {ob0 ob : Obj} (hO : O[o]? = some ob0) (hx : s.objs[o]? = some ob)
    {start : Nat} {name : String} {li li' : Nat} {f f' : Field}
    (hf : findField ob0 start name = some (li, f)) (hf' : findField ob start name = some (li', f')) :
    li' = li ∧ f' = f := by
  have := frame_obj_eq h hO hx
  subst this
  rw [hf] at hf'
  cases hf'; exact ⟨rfl, rfl⟩

theorem ft_none {n : Nat} {E : Array Env} {O : Array Obj} {T : Array TState} {s : St} (h : Frame n E O T s)
    {o : OId} {ob0 ob : Obj} (hO : O[o]? = some ob0) (hx : s.objs[o]? = some ob)
    {start : Nat} {name : String} {li : Nat} {f : Field}
    (hf : findField ob0 start name = some (li, f)) (hf' : findField ob start name = none) : False := by
  have := frame_obj_eq h hO hx
  subst this
  rw [hf] at hf'; cases hf'

theorem thunk_contra {f : Field} {t : TId} (h1 : f.thunk = none) (h2 : f.thunk = some t) : False := by
  rw [h1] at h2; cases h2

/-- what the first access to a field leaves behind -/
def LateBound (st : St) (r : Option TId) (name : String) (o : OId) (li : Nat) (f : Field) : Prop :=
  ∃ t env e plus, f.expr = some (e, plus) ∧ r = some t ∧
    st.thunks[t]? = some (.pending (if plus then .plus e name env else .expr e env)) ∧
    GoodEnv st env o li

theorem ft_final {E : Array Env} {T : Array TState} {s1 : St} {r : EId} {o : OId} {li : Nat} {f : Field}
    {e : Expr} {plus : Bool} {name : String}
    (hext : ExtET E T s1) (hg : GoodEnv s1 r o li) (hexpr : f.expr = some (e, plus))
    (runs' : Array Nat) (objs' : Array Obj) :
    (plus = true →
      LateBound { s1 with thunks := s1.thunks.push (.pending (.plus e name r)), runs := runs', objs := objs' }
        (some s1.thunks.size) name o li f ∧
      ExtET E T { s1 with thunks := s1.thunks.push (.pending (.plus e name r)), runs := runs', objs := objs' }) ∧
    (¬ plus = true →
      LateBound { s1 with thunks := s1.thunks.push (.pending (.expr e r)), runs := runs', objs := objs' }
        (some s1.thunks.size) name o li f ∧
      ExtET E T { s1 with thunks := s1.thunks.push (.pending (.expr e r)), runs := runs', objs := objs' }) := by
  constructor
  · intro hp
    exact ⟨⟨s1.thunks.size, r, e, plus, hexpr, rfl, by simp [hp], hg⟩, hext.1,
      fun i y hy => getElem?_push_of_some _ (hext.2 i y hy)⟩
  · intro hp
    exact ⟨⟨s1.thunks.size, r, e, plus, hexpr, rfl, by simp [hp], hg⟩, hext.1,
      fun i y hy => getElem?_push_of_some _ (hext.2 i y hy)⟩

theorem ft_a {n : Nat} {E : Array Env} {O : Array Obj} {T : Array TState} {s1 : St} {r : EId} {o : OId} {li : Nat}
    (hP : ((QP fun env st => Frame (n + 1) E O T st ∧ env = n ∧ GoodEnv st env o li).1 r s1).down) :
    ExtET E T s1 ∧ GoodEnv s1 r o li := ⟨hP.1.ext, hP.2.2⟩

theorem ft_b {E : Array Env} {T : Array TState} {s1 : St} {r : EId} {o : OId} {li : Nat}
    (hP : ((QP fun env st => ExtET E T st ∧ GoodEnv st env o li).1 r s1).down) :
    ExtET E T s1 ∧ GoodEnv s1 r o li := hP

/-- **Late binding of `self`, in the monad.**  The first access to a field of an object
    whose field has no cached thunk and whose layer has no cached environment (as after
    `extendObject`, see `C07_eval_clone_forgets_caches`) creates a pending thunk whose
    environment carries the object reference `(o, li)`: `self` is `o`, the object the
    field was looked up in, `super` starts below layer `li` of `o`. -/
theorem fieldThunk_late (o : OId) (start : Nat) (name : String) (n : Nat) (E : Array Env) (O : Array Obj)
    (T : Array TState) (hE : E.size ≤ n) (ob0 : Obj) (hO : O[o]? = some ob0)
    (li : Nat) (f : Field)
    (hf : findField ob0 start name = some (li, f)) (ht : f.thunk = none)
    (hnone : ∀ layer, ob0.layers[li]? = some layer → layer.env = none) :
    ⦃fun st => ⌜Frame n E O T st⌝⦄ fieldThunk o start name
    ⦃QP (fun r st => LateBound st r name o li f ∧ ExtET E T st)⦄ := by
  have hi := fun li b => initObjectEnv_late o li b n E O T hE
  have hl := fun li' (hli : li' = li) => layerEnv_late o li' n E O T hE ob0 hO (by subst hli; exact hnone)
  unfold fieldThunk getObj setObj allocThunk
  mvcgen [hi, hl]
  all_goals try (first | assumption | (intros; trivial))
  all_goals try (exact (ft_none (by assumption) hO (by assumption) hf (by assumption)).elim)
  all_goals
    have hF : Frame n E O T _ := ‹Frame n E O T _›
    obtain ⟨rfl, rfl⟩ := ft_same hF hO (by assumption) hf (by assumption)
  all_goals first
    | rfl
    | exact (thunk_contra ht (by assumption)).elim
    | exact ((ft_final (ft_a (by assumption)).1 (ft_a (by assumption)).2 (by assumption) _ _).1 (by assumption))
    | exact ((ft_final (ft_a (by assumption)).1 (ft_a (by assumption)).2 (by assumption) _ _).2 (by assumption))
    | exact ((ft_final (ft_b (by assumption)).1 (ft_b (by assumption)).2 (by assumption) _ _).1 (by assumption))
    | exact ((ft_final (ft_b (by assumption)).1 (ft_b (by assumption)).2 (by assumption) _ _).2 (by assumption))

/-! ### Plain statements -/

/-- the success outcome satisfies `P` (errors, panics, out of fuel: nothing is claimed) -/
def okOutcome {α} (P : α → St → Prop) : Option (Except Err α × St) → Prop
  | some (.ok a, s') => P a s'
  | _ => True

theorem wp_QP {α} (x : M α) (P : α → St → Prop) (st : St) :
    (wp⟦x⟧ (QP P) st).down ↔ okOutcome P (x st) := by
  cases h : x st with
  | none =>
    simp only [okOutcome, iff_true]
    simp only [wp, PredTrans.apply, PredTrans.pushExcept, PredTrans.pushArg, ExceptT.run, StateT.run, h]
    exact True.intro
  | some p =>
    obtain ⟨r, s'⟩ := p
    simp only [wp, PredTrans.apply, PredTrans.pushExcept, PredTrans.pushArg, ExceptT.run, StateT.run, h]
    cases r
    · simp only [okOutcome]; exact Iff.rfl
    · simp only [okOutcome]; exact Iff.rfl

theorem frame_self (st : St) : Frame st.envs.size st.envs st.objs st.thunks st :=
  ⟨rfl, fun _ _ h => h, rfl, fun _ _ h => h⟩

/-- `fieldThunk_late`, applied to a store -/
theorem fieldThunk_late_apply (st : St) (o : OId) (start : Nat) (name : String) (ob0 : Obj)
    (hO : st.objs[o]? = some ob0) (li : Nat) (f : Field)
    (hf : findField ob0 start name = some (li, f)) (ht : f.thunk = none)
    (hnone : ∀ layer, ob0.layers[li]? = some layer → layer.env = none) :
    okOutcome (fun r st' => LateBound st' r name o li f ∧ ExtET st.envs st.thunks st')
      (fieldThunk o start name st) :=
  (wp_QP _ _ st).1
    (fieldThunk_late o start name st.envs.size st.envs st.objs st.thunks (Nat.le_refl _) ob0 hO li f hf ht hnone
      st (frame_self st))

/-- a field found in a sum that has an expression has no cached thunk, and its layer no
    cached environment -/
theorem found_in_sum_is_fresh (a b : Obj) (start : Nat) (name : String) (li : Nat) (f : Field)
    (hf : findField (extendObject a b) start name = some (li, f)) :
    (f.expr.isSome = true → f.thunk = none) ∧
    (∀ layer, (extendObject a b).layers[li]? = some layer → layer.env = none) := by
  obtain ⟨_, ⟨l, hl, hfind⟩, _⟩ := (findField_some_iff _ _ _ _ _).mp hf
  constructor
  · intro he
    have hm : f ∈ l.fields := List.mem_of_find?_eq_some hfind
    have hlm : l ∈ (extendObject a b).layers := List.mem_of_getElem? hl
    rw [extendObject_layers, List.mem_map] at hlm
    obtain ⟨l0, _, rfl⟩ := hlm
    rw [cloneLayer_fields, List.mem_map] at hm
    obtain ⟨f0, _, rfl⟩ := hm
    exact cloneField_thunk_of_expr f0 he
  · intro layer hlayer
    have hlm : layer ∈ (extendObject a b).layers := List.mem_of_getElem? hlayer
    rw [extendObject_layers, List.mem_map] at hlm
    obtain ⟨l0, _, rfl⟩ := hlm
    rfl

end Rsj.Eval
