import RsjProofs.EvalEmbStepC
/-!
  The fundamental lemma: the evaluator model is invariant under store embeddings (`run_rel`), and its
  consequences for whole requests.
-/
set_option linter.unusedVariables false
namespace Rsj.Eval
open Rsj.Core
set_option linter.unusedSectionVars false
variable [Mode]

/-- one level of the evaluator is invariant under store embeddings if the recursive calls are -/
theorem step_rel {cfg cfg' : Cfg} [RCfg cfg cfg'] {rec rec' : Task → M Value} (hrec : RecRel rec rec')
    {ρ : Emb} {t t' : Task} (ht : RTask ρ t t') : MRel ρ RVal (step cfg rec t) (step cfg' rec' t') := by
  cases ht with
  | force d h hd => exact step_force_rel hrec d h
  | manifest d canon h hd => exact step_manifest_rel hrec d canon h
  | equals d ha hb hd => exact step_equals_rel hrec d ha hb
  | compare d ha hb hd => exact step_compare_rel hrec d ha hb
  | deep d h hd => exact step_deep_rel hrec d h
  | asserts d h hd => exact step_asserts_rel hrec d h
  | eval e tail d he hd htl =>
    cases e with
    | null => exact step_eval_null_rel hrec tail d he
    | true_ => exact step_eval_true_rel hrec tail d he
    | false_ => exact step_eval_false_rel hrec tail d he
    | self_ => exact step_eval_self_rel hrec tail d he
    | dollar => exact step_eval_dollar_rel hrec tail d he
    | str s => exact step_eval_str_rel hrec s tail d he
    | num f => exact step_eval_num_rel hrec f tail d he
    | paren e => exact step_eval_paren_rel hrec e tail d he
    | object ms => exact step_eval_object_rel hrec ms tail d he
    | objectComp l n p b s => exact step_eval_objectComp_rel hrec l n p b s tail d he
    | array items => exact step_eval_array_rel hrec items tail d he
    | arrayComp b s => exact step_eval_arrayComp_rel hrec b s tail d he
    | field oe n => exact step_eval_field_rel hrec oe n tail d he
    | index oe ie => exact step_eval_index_rel hrec oe ie tail d he
    | slice oe a b c => exact step_eval_slice_rel hrec oe a b c tail d he
    | superField n => exact step_eval_superField_rel hrec n tail d he
    | superIndex ie => exact step_eval_superIndex_rel hrec ie tail d he
    | call ce args ts => exact step_eval_call_rel hrec ce args ts tail d he
    | var n => exact step_eval_var_rel hrec n tail d he
    | local_ bs body => exact step_eval_local_rel hrec bs body tail d he
    | if_ c t el => exact step_eval_if_rel hrec c t el tail d he
    | binary op a b => exact step_eval_binary_rel hrec op a b tail d he
    | unary op a => exact step_eval_unary_rel hrec op a tail d he
    | objExt oe ms => exact step_eval_objExt_rel hrec oe ms tail d he
    | func ps body => exact step_eval_func_rel hrec ps body tail d he
    | assert_ c m inner => exact step_eval_assert_rel hrec c m inner tail d he
    | error_ me => exact step_eval_error_rel hrec me tail d he
    | inSuper le => exact step_eval_inSuper_rel hrec le tail d he
    | importLit s => exact step_eval_importLit_rel hrec s tail d he
    | importTextBlock k => exact step_eval_importTextBlock_rel hrec k tail d he
    | importComputed k e => exact step_eval_importComputed_rel hrec k e tail d he
    | builtin b args => exact step_eval_builtin_rel hrec b args tail d he

theorem stepN_rel {cfg cfg' : Cfg} [RCfg cfg cfg'] {rec rec' : Task → M Value} (hrec : RecRel rec rec')
    {ρ : Emb} {t t' : Task} (ht : RTask ρ t t') : MRel ρ RVal (stepN cfg rec t) (stepN cfg' rec' t') := by
  unfold stepN
  mbind (noteDepth_rel' _ _) with u u' hu
  exact step_rel hrec ht

/-- when the left run being out of fuel is excused, "out of fuel" on the left is related to anything -/
theorem MRel_bottom_left {α β : Type} {ρ : Emb} {Q : Emb → α → β → Prop} (h : Mode.gasOk) (y : M β) :
    MRel ρ Q (bottom : M α) y := fun _ _ _ _ _ => .inl h

/-- **Fundamental lemma.** The evaluator is invariant under store embeddings: from related stores,
    with the same depth budget and the same fuel (in the modes where an out-of-fuel left run is excused:
    at least as much fuel on the right), related tasks have the same outcome (both out of fuel / the same
    error / related values) and lead to related stores. -/
theorem run_rel_le (cfg cfg' : Cfg) [RCfg cfg cfg'] : ∀ (n n' : Nat), n ≤ n' → (n = n' ∨ Mode.gasOk) →
    RecRel (run cfg n) (run cfg' n') := by
  intro n
  induction n with
  | zero =>
    intro n' _ h ρ t t' _
    rcases h with h | h
    · subst h; exact MRel_bottom
    · exact MRel_bottom_left h _
  | succ k ih =>
    intro n' hle h ρ t t' ht
    cases n' with
    | zero => omega
    | succ m =>
      exact stepN_rel (ih m (by omega) (h.imp (by omega) id)) ht

/-- without a depth shift a limit is related to itself -/
theorem RCfg.refl (h0 : Mode.shift = 0) (cfg : Cfg) : RCfg cfg cfg :=
  ⟨by rw [h0]; exact Nat.le_refl _, fun _ => by rw [h0]; rfl⟩

theorem RDep.refl (h0 : Mode.shift = 0) (d : Nat) : RDep d d := by
  show d = d + _; rw [h0]; rfl

theorem run_rel (h0 : Mode.shift = 0) (cfg : Cfg) (n : Nat) : RecRel (run cfg n) (run cfg n) :=
  haveI := RCfg.refl h0 cfg
  run_rel_le cfg cfg n n (Nat.le_refl n) (.inl rfl)

theorem requestProg_rel_le {ρ : Emb} (h0 : Mode.shift = 0) (cfg cfg' : Cfg) [RCfg cfg cfg'] {fuel fuel' : Nat}
    (hle : fuel ≤ fuel') (hg : fuel = fuel' ∨ Mode.gasOk) {t t' : TId} (ht : RT ρ t t') :
    MRel ρ REq (requestProg cfg fuel t) (requestProg cfg' fuel' t') := by
  have hd := RDep.refl h0 0
  unfold requestProg
  mbind (run_rel_le cfg cfg' fuel fuel' hle hg _ _ _ (.force 0 ht)) with v v' hv
  mbind (run_rel_le cfg cfg' fuel fuel' hle hg _ _ _ (.deep 0 hv)) with w w' hw
  mbind (run_rel_le cfg cfg' fuel fuel' hle hg _ _ _ (.manifest 0 true hv)) with s s' hs
  cases hs <;> first | exact MRel_throw rfl | exact MRel_pure rfl

theorem requestProg_rel {ρ : Emb} (h0 : Mode.shift = 0) (cfg : Cfg) (fuel : Nat) {t t' : TId} (ht : RT ρ t t') :
    MRel ρ REq (requestProg cfg fuel t) (requestProg cfg fuel t') :=
  haveI := RCfg.refl h0 cfg
  requestProg_rel_le h0 cfg cfg (Nat.le_refl fuel) (.inl rfl) ht

/-! ### `restoreInProgress` (a failed request) -/

theorem ArrSim.map {α : Type} {m : Nat → Option Nat} {R R' : α → α → Prop} {xs ys : Array α}
    (h : ArrSim m R xs ys) (f : α → α) (hf : ∀ x y, R x y → R' (f x) (f y)) :
    ArrSim m R' (xs.map f) (ys.map f) :=
  ⟨h.inj, fun i k hik => by
    obtain ⟨x, y, h1, h2, h3⟩ := h.cell i k hik
    exact ⟨f x, f y, by simp [Array.getElem?_map, h1], by simp [Array.getElem?_map, h2], hf _ _ h3⟩⟩

theorem runRequest_eq (cfg : Cfg) (fuel : Nat) (t : TId) (st : St) :
    runRequest cfg fuel t st = match requestProg cfg fuel t st with
      | none => ("gas", st)
      | some (.ok s, st') => ("ok " ++ s, st')
      | some (.error er, st') => (showErr er, restoreInProgress st') := rfl

end Rsj.Eval

/-! ### Exact equivalence (`Mode.exact`) -/
namespace Rsj.Eval
open Rsj.Core
attribute [local instance] Mode.exact

/-- in the exact mode related outcomes are: both out of fuel, the same error, or related values -/
theorem ORel.exact_cases {α β : Type} {ρ : Emb} {ta tb : List String} {Q : Emb → α → β → Prop}
    {r : Option (Except Err α × St)} {r' : Option (Except Err β × St)} (h : ORel ρ ta tb Q r r') :
    (r = none ∧ r' = none) ∨
    (∃ v a' w b', r = some (.ok v, a') ∧ r' = some (.ok w, b') ∧ ∃ ρ', ρ ≤ ρ' ∧ Sim ρ' ta tb a' b' ∧ Q ρ' v w) ∨
    (∃ e a' b', r = some (.error e, a') ∧ r' = some (.error e, b') ∧ ∃ ρ', ρ ≤ ρ' ∧ Sim ρ' ta tb a' b') := by
  match r, h with
  | none, h =>
    rcases h with h | h
    · exact absurd h (fun x => x)
    · exact .inl ⟨rfl, h⟩
  | some (.ok v, a'), ⟨w, b', e, ρ', h1, h2, h3⟩ => exact .inr (.inl ⟨v, a', w, b', rfl, e, ρ', h1, h2, h3⟩)
  | some (.error e, a'), h =>
    rcases h with h | ⟨b', e', ρ', h1, h2⟩
    · exact absurd h (fun x => x)
    · exact .inr (.inr ⟨e, a', b', rfl, e', ρ', h1, h2⟩)

theorem restoreInProgress_sim {ρ : Emb} {ta tb : List String} {a b : St} (h : Sim ρ ta tb a b) :
    Sim ρ ta tb (restoreInProgress a) (restoreInProgress b) where
  thunks := h.thunks.map _ (fun x y hxy => by
    cases hxy with
    | pending hp => exact .pending hp
    | inProgress hp => exact .pending hp
    | inProgressLoose hp => exact absurd hp (fun x => x)
    | done hv => exact .done hv)
  envs := h.envs
  objs := h.objs.map _ (fun x y hxy => by
    rw [hxy.assertsInProgress]
    split
    · exact ⟨hxy.layers, rfl, rfl⟩
    · exact hxy)
  funcs := h.funcs
  traces := h.traces
  wkcell := h.wkcell
  rsvok := fun t ht => by simpa [restoreInProgress] using h.rsvok t ht

/-- one whole request (`runRequest`): the same answer text, related stores afterwards -/
theorem runRequest_rel {ρ : Emb} {ta tb : List String} {a b : St} (cfg : Cfg) (fuel : Nat) {t t' : TId}
    (hs : Sim ρ ta tb a b) (ht : RT ρ t t') :
    (runRequest cfg fuel t a).1 = (runRequest cfg fuel t' b).1 ∧
      ∃ ρ', ρ ≤ ρ' ∧ Sim ρ' ta tb (runRequest cfg fuel t a).2 (runRequest cfg fuel t' b).2 := by
  have h := (requestProg_rel rfl cfg fuel ht ta tb a b hs).exact_cases
  rw [runRequest_eq, runRequest_eq]
  rcases h with ⟨h1, h2⟩ | ⟨v, a', w, b', h1, h2, ρ', h3, h4, h5⟩ | ⟨e, a', b', h1, h2, ρ', h3, h4⟩
  · rw [h1, h2]; exact ⟨rfl, ρ, Emb.le_refl ρ, hs⟩
  · rw [h1, h2]; cases h5; exact ⟨rfl, ρ', h3, h4⟩
  · rw [h1, h2]; exact ⟨rfl, ρ', h3, restoreInProgress_sim h4⟩

end Rsj.Eval
