/-
  Collections are invisible to a client of `GcContext` (the scripted mutator): wherever `gc`
  operations are inserted, the answers to all other operations are the same.
  Simulation between a run with collections (`s`) and the run without any (`t`).
-/
import RsjProofs.GcScript
namespace Rsj.Gc

def Op.isGc : Op → Bool
  | .gc => true
  | _ => false

/-- Like `runScript`, but the answers of the `gc` operations themselves are not recorded. -/
def runQuiet : List Op → St → List String → Option (List String)
  | [], s, out => some (("end#" ++ toString s.finish) :: out).reverse
  | op :: ops, s, out =>
    match s.step op with
    | some (s', r) => runQuiet ops s' (if op.isGc then out else r :: out)
    | none => none

structure Sim (s t : St) : Prop where
  vs : Valid s
  vt : Valid t
  held : s.held = t.held
  /-- the collected heap is a part of the never-collected one ... -/
  sub : ∀ o ∈ s.heap, o ∈ t.heap
  /-- ... that contains everything reachable -/
  sup : ∀ o ∈ t.heap, Reach t.heap o.id → o ∈ s.heap

theorem Sim.reach {s t : St} (h : Sim s t) {j : Nat} (hr : Reach t.heap j) : Reach s.heap j := by
  induction hr with
  | @root o ho hroot => exact Reach.root (h.sup o ho (Reach.root ho hroot)) hroot
  | @step o j ho hr hj hjt ih =>
    obtain ⟨p, hp, hpid⟩ := mem_ids.mp hjt
    have hrj : Reach t.heap j := Reach.step ho hr hj hjt
    have hps : p ∈ s.heap := h.sup p hp (by rw [hpid]; exact hrj)
    exact Reach.step (h.sup o ho hr) ih hj (mem_ids.mpr ⟨p, hps, hpid⟩)

theorem Sim.gc {s t : St} (h : Sim s t) : Sim { s with heap := collect s.heap } t := by
  have hex := collect_exact h.vs.wf h.vs.clean
  refine ⟨h.vs.collect, h.vt, h.held, ?_, ?_⟩
  · intro o ho; exact h.sub o ((hex o).mp ho).1
  · intro o ho hr
    exact (hex o).mpr ⟨h.sup o ho hr, h.reach hr⟩

/-- An edit of node `i` that creates no new reachability. -/
theorem reach_updObj_sub {T : Heap} {i : Nat} {f : Obj → Obj} (hfid : ∀ o, (f o).id = o.id)
    (H1 : ∀ o ∈ T, o.id = i → IsRoot (f o) → Reach T i)
    (H2 : ∀ o ∈ T, o.id = i → ∀ j ∈ (f o).edges, j ∈ ids T → j ∈ o.edges ∨ Reach T j)
    {x : Nat} (hr : Reach (updObj T i f) x) : Reach T x := by
  induction hr with
  | @root o' ho' hroot =>
    obtain ⟨o, ho, rfl⟩ := mem_updObj.mp ho'
    by_cases hi : o.id = i
    · have hb : (o.id == i) = true := by simpa using hi
      simp only [hb, if_true, hfid] at hroot ⊢
      rw [hi]; exact H1 o ho hi hroot
    · have hb : (o.id == i) = false := by simpa using hi
      simp only [hb, Bool.false_eq_true, if_false] at hroot ⊢
      exact Reach.root ho hroot
  | @step o' j ho' _ hj hjT ih =>
    obtain ⟨o, ho, rfl⟩ := mem_updObj.mp ho'
    rw [ids_updObj hfid] at hjT
    by_cases hi : o.id = i
    · have hb : (o.id == i) = true := by simpa using hi
      simp only [hb, if_true, hfid] at hj ih
      rcases H2 o ho hi j hj hjT with h | h
      · exact Reach.step ho ih h hjT
      · exact h
    · have hb : (o.id == i) = false := by simpa using hi
      simp only [hb, Bool.false_eq_true, if_false] at hj ih
      exact Reach.step ho ih hj hjT

/-- The same consistent edit of node `i` on both sides. -/
theorem Sim.update {s t : St} (h : Sim s t) (i : Nat) (f : Obj → Obj) (held' : List Held)
    (g : Held → Held)
    (hfid : ∀ o, (f o).id = o.id) (hfv : ∀ o, (f o).visits = o.visits)
    (hfm : ∀ o, (f o).mark = o.mark)
    (hlen : held'.length = s.held.length)
    (hother : ∀ k, k ≠ i → held'[k]? = s.held[k]?)
    (hat : held'[i]? = (s.held[i]?).map g)
    (hsync : ∀ o, g ⟨o.ext, o.views⟩ = ⟨(f o).ext, (f o).views⟩)
    (hpos : ∀ hd, s.held[i]? = some hd → (g hd).pos → hd.pos)
    (hreach : ∀ x, Reach (updObj t.heap i f) x → Reach t.heap x) :
    Sim { heap := updObj s.heap i f, held := held' } { heap := updObj t.heap i f, held := held' } := by
  have hheld := h.held
  refine ⟨?_, ?_, rfl, ?_, ?_⟩
  · exact h.vs.update i f held' g hfid hfv hfm hlen hother hat hsync
      (fun hd h1 h2 => h.vs.present i hd h1 (hpos hd h1 h2))
  · exact h.vt.update i f held' g hfid hfv hfm (by rw [← hheld]; exact hlen)
      (by rw [← hheld]; exact hother) (by rw [← hheld]; exact hat) hsync
      (fun hd h1 h2 => h.vt.present i hd h1 (hpos hd (by rw [hheld]; exact h1) h2))
  · intro o' ho'
    obtain ⟨o, ho, rfl⟩ := mem_updObj.mp ho'
    exact mem_updObj.mpr ⟨o, h.sub o ho, rfl⟩
  · intro o' ho' hr
    obtain ⟨o, ho, rfl⟩ := mem_updObj.mp ho'
    have hid : (if o.id == i then f o else o).id = o.id := by split <;> simp [hfid]
    have := hreach _ hr
    rw [hid] at this
    exact mem_updObj.mpr ⟨o, h.sup o ho this, rfl⟩

theorem St.arg_congr {s t : St} (h : s.held = t.held) (a : Option Nat) : s.arg a = t.arg a := by
  unfold St.arg; rw [h]

theorem St.canReach_congr {s t : St} (h : s.held = t.held) (i : Nat) :
    s.canReach i = t.canReach i := by
  unfold St.canReach; rw [h]

/-- A node the driver can reach is a root of the (uncollected) heap. -/
theorem Valid.root_of_canReach {t : St} (v : Valid t) {i : Nat} (hc : t.canReach i = true) :
    ∃ o ∈ t.heap, o.id = i ∧ IsRoot o ∧ Reach t.heap i := by
  obtain ⟨hd, h1, h2⟩ := St.canReach_true hc
  obtain ⟨o, ho, hid⟩ := mem_ids.mp (v.present i hd h1 h2)
  have hs := v.sync o ho
  rw [hid, h1] at hs
  cases hs
  have hroot : IsRoot o := by
    unfold IsRoot; unfold Held.pos at h2; simp only at h2; omega
  exact ⟨o, ho, hid, hroot, hid ▸ Reach.root ho hroot⟩

theorem Sim.find_eq {s t : St} (h : Sim s t) {i : Nat} (hc : t.canReach i = true) :
    ∃ o, find s.heap i = some o ∧ find t.heap i = some o := by
  obtain ⟨o, ho, hid, _, hr⟩ := h.vt.root_of_canReach hc
  refine ⟨o, ?_, ?_⟩
  · rw [← hid]; exact find_of_mem h.vs.wf (h.sup o ho (by rw [hid]; exact hr))
  · rw [← hid]; exact find_of_mem h.vt.wf ho

/-- Reachability after appending a fresh node without out-edges. -/
theorem reach_append_new {T : Heap} {nw : Obj} (hE : nw.edges = [])
    (hfresh : ∀ o ∈ T, o.id ≠ nw.id) {x : Nat} (hx : Reach (T ++ [nw]) x) :
    x = nw.id ∨ Reach T x := by
  induction hx with
  | @root o' ho' hroot =>
    rcases List.mem_append.mp ho' with h' | h'
    · exact Or.inr (Reach.root h' hroot)
    · rw [List.mem_singleton.mp h']; exact Or.inl rfl
  | @step o' j ho' _ hj hjT ih =>
    rcases List.mem_append.mp ho' with h' | h'
    · rcases ih with ih | ih
      · exact absurd ih (hfresh o' h')
      · rw [ids_append] at hjT
        rcases List.mem_append.mp hjT with hjT | hjT
        · exact Or.inr (Reach.step h' ih hj hjT)
        · left; simpa [ids] using hjT
    · rw [List.mem_singleton.mp h', hE] at hj; cases hj

theorem Sim.alloc {sh th : Heap} {hd : List Held} (h : Sim ⟨sh, hd⟩ ⟨th, hd⟩) (e vw : Nat) :
    Sim { heap := sh ++ [{ id := hd.length, edges := [], views := vw, ext := e,
                           visits := 0, mark := false }],
          held := hd ++ [{ handles := e, views := vw }] }
        { heap := th ++ [{ id := hd.length, edges := [], views := vw, ext := e,
                           visits := 0, mark := false }],
          held := hd ++ [{ handles := e, views := vw }] } := by
  refine ⟨h.vs.alloc e vw, h.vt.alloc e vw, rfl, ?_, ?_⟩
  · intro o ho
    simp only at ho ⊢
    rcases List.mem_append.mp ho with ho | ho
    · exact List.mem_append_left _ (h.sub o ho)
    · exact List.mem_append_right _ ho
  · intro o ho hr
    simp only at ho hr ⊢
    rcases List.mem_append.mp ho with ho' | ho'
    · have hb := h.vt.bound o ho'
      simp only at hb
      rcases reach_append_new rfl (fun o' ho'' => Nat.ne_of_lt (h.vt.bound o' ho'')) hr with hk | hk
      · simp only at hk; omega
      · exact List.mem_append_left _ (h.sup o ho' hk)
    · exact List.mem_append_right _ ho'

/-- Every operation other than `gc` gives the same answer on both sides and keeps them related. -/
theorem Sim.step {s t : St} (h : Sim s t) (op : Op) (hop : op.isGc = false) :
    ∃ s' t' r, s.step op = some (s', r) ∧ t.step op = some (t', r) ∧ Sim s' t' := by
  obtain ⟨sh, shd⟩ := s
  obtain ⟨th, hd⟩ := t
  have hheld := h.held
  simp only at hheld
  subst hheld
  have harg : ∀ a, St.arg ⟨sh, shd⟩ a = St.arg ⟨th, shd⟩ a := fun a => St.arg_congr rfl a
  have hcan : ∀ i, St.canReach ⟨sh, shd⟩ i = St.canReach ⟨th, shd⟩ i := fun i => St.canReach_congr rfl i
  cases op with
  | gc => cases hop
  | bad => exact ⟨_, _, _, rfl, rfl, h⟩
  | alloc => exact ⟨_, _, _, rfl, rfl, h.alloc 1 0⟩
  | allocView => exact ⟨_, _, _, rfl, rfl, h.alloc 0 1⟩
  | handle a =>
    simp only [St.step, harg]
    cases ha : St.arg ⟨th, shd⟩ a with
    | none => exact ⟨_, _, _, rfl, rfl, h⟩
    | some i =>
      simp only [hcan]
      cases hc : St.canReach ⟨th, shd⟩ i with
      | false => exact ⟨_, _, _, rfl, rfl, h⟩
      | true =>
        simp only [if_true]
        refine ⟨_, _, _, rfl, rfl, ?_⟩
        obtain ⟨_, _, _, _, hri⟩ := h.vt.root_of_canReach hc
        obtain ⟨hd, h1, h2⟩ := St.canReach_true hc
        exact h.update i (fun o => { o with ext := o.ext + 1 }) _
          (fun h => { h with handles := h.handles + 1 })
          (fun _ => rfl) (fun _ => rfl) (fun _ => rfl)
          (updHeld_length _ _ _) (fun k hk => updHeld_ne _ _ hk) (updHeld_self _ _ _)
          (fun _ => rfl)
          (fun hd' hh _ => by simp only at h1 hh; rw [h1] at hh; cases hh; exact h2)
          (fun x => reach_updObj_sub (f := fun o => { o with ext := o.ext + 1 })
            (fun _ => rfl) (fun _ _ _ _ => hri) (fun _ _ _ j hj _ => Or.inl hj))
  | view a =>
    simp only [St.step, harg]
    cases ha : St.arg ⟨th, shd⟩ a with
    | none => exact ⟨_, _, _, rfl, rfl, h⟩
    | some i =>
      simp only [hcan]
      cases hc : St.canReach ⟨th, shd⟩ i with
      | false => exact ⟨_, _, _, rfl, rfl, h⟩
      | true =>
        simp only [if_true]
        obtain ⟨o, hfs, hft⟩ := h.find_eq hc
        simp only at hfs hft
        rw [hfs, hft]
        refine ⟨_, _, _, rfl, rfl, ?_⟩
        obtain ⟨_, _, _, _, hri⟩ := h.vt.root_of_canReach hc
        obtain ⟨hd, h1, h2⟩ := St.canReach_true hc
        exact h.update i (fun o => { o with views := o.views + 1 }) _
          (fun h => { h with views := h.views + 1 })
          (fun _ => rfl) (fun _ => rfl) (fun _ => rfl)
          (updHeld_length _ _ _) (fun k hk => updHeld_ne _ _ hk) (updHeld_self _ _ _)
          (fun _ => rfl)
          (fun hd' hh _ => by simp only at h1 hh; rw [h1] at hh; cases hh; exact h2)
          (fun x => reach_updObj_sub (f := fun o => { o with views := o.views + 1 })
            (fun _ => rfl) (fun _ _ _ _ => hri) (fun _ _ _ j hj _ => Or.inl hj))
  | dropHandle a =>
    simp only [St.step, harg]
    cases ha : St.arg ⟨th, shd⟩ a with
    | none => exact ⟨_, _, _, rfl, rfl, h⟩
    | some i =>
      simp only
      cases hh : shd[i]? with
      | none => exact ⟨_, _, _, rfl, rfl, h⟩
      | some hd =>
        simp only
        by_cases hpos : hd.handles > 0
        · simp only [if_pos hpos]
          refine ⟨_, _, _, rfl, rfl, ?_⟩
          exact h.update i (fun o => { o with ext := o.ext - 1 }) _
            (fun h => { h with handles := h.handles - 1 })
            (fun _ => rfl) (fun _ => rfl) (fun _ => rfl)
            (updHeld_length _ _ _) (fun k hk => updHeld_ne _ _ hk) (updHeld_self _ _ _)
            (fun _ => rfl)
            (fun hd' _ hp => by unfold Held.pos at hp ⊢; simp only at hp; omega)
            (fun x => reach_updObj_sub (f := fun o => { o with ext := o.ext - 1 }) (fun _ => rfl)
              (fun o ho hid hroot => by
                have : IsRoot o := by unfold IsRoot at hroot ⊢; simp only at hroot; omega
                exact hid ▸ Reach.root ho this)
              (fun _ _ _ j hj _ => Or.inl hj))
        · simp only [if_neg hpos]; exact ⟨_, _, _, rfl, rfl, h⟩
  | dropView a =>
    simp only [St.step, harg]
    cases ha : St.arg ⟨th, shd⟩ a with
    | none => exact ⟨_, _, _, rfl, rfl, h⟩
    | some i =>
      simp only
      cases hh : shd[i]? with
      | none => exact ⟨_, _, _, rfl, rfl, h⟩
      | some hd =>
        simp only
        by_cases hpos : hd.views > 0
        · simp only [if_pos hpos]
          refine ⟨_, _, _, rfl, rfl, ?_⟩
          exact h.update i (fun o => { o with views := o.views - 1 }) _
            (fun h => { h with views := h.views - 1 })
            (fun _ => rfl) (fun _ => rfl) (fun _ => rfl)
            (updHeld_length _ _ _) (fun k hk => updHeld_ne _ _ hk) (updHeld_self _ _ _)
            (fun _ => rfl)
            (fun hd' _ hp => by unfold Held.pos at hp ⊢; simp only at hp; omega)
            (fun x => reach_updObj_sub (f := fun o => { o with views := o.views - 1 }) (fun _ => rfl)
              (fun o ho hid hroot => by
                have : IsRoot o := by unfold IsRoot at hroot ⊢; simp only at hroot; omega
                exact hid ▸ Reach.root ho this)
              (fun _ _ _ j hj _ => Or.inl hj))
        · simp only [if_neg hpos]; exact ⟨_, _, _, rfl, rfl, h⟩
  | edge a b =>
    simp only [St.step, harg]
    cases ha : St.arg ⟨th, shd⟩ a with
    | none => exact ⟨_, _, _, rfl, rfl, h⟩
    | some i =>
      cases hb : St.arg ⟨th, shd⟩ b with
      | none => exact ⟨_, _, _, rfl, rfl, h⟩
      | some j =>
        simp only [hcan]
        cases hc : (St.canReach ⟨th, shd⟩ i && St.canReach ⟨th, shd⟩ j) with
        | false => exact ⟨_, _, _, rfl, rfl, h⟩
        | true =>
          simp only [if_true]
          have hci : St.canReach ⟨th, shd⟩ i = true := by
            simp only [Bool.and_eq_true] at hc; exact hc.1
          have hcj : St.canReach ⟨th, shd⟩ j = true := by
            simp only [Bool.and_eq_true] at hc; exact hc.2
          obtain ⟨o, hfs, hft⟩ := h.find_eq hci
          simp only at hfs hft
          rw [hfs, hft]
          refine ⟨_, _, _, rfl, rfl, ?_⟩
          obtain ⟨_, _, _, _, hrj⟩ := h.vt.root_of_canReach hcj
          exact h.update i (fun o => { o with edges := o.edges ++ [j] }) shd id
            (fun _ => rfl) (fun _ => rfl) (fun _ => rfl)
            rfl (fun k hk => rfl) (by simp)
            (fun _ => rfl) (fun hd' _ hp => hp)
            (fun x => reach_updObj_sub (f := fun o => { o with edges := o.edges ++ [j] })
              (fun _ => rfl)
              (fun o ho hid hroot => hid ▸ Reach.root ho hroot)
              (fun o _ _ j' hj' _ => by
                simp only [List.mem_append, List.mem_singleton] at hj'
                rcases hj' with hj' | hj'
                · exact Or.inl hj'
                · right; rw [hj']; exact hrj))
  | delEdge a b =>
    simp only [St.step, harg]
    cases ha : St.arg ⟨th, shd⟩ a with
    | none => exact ⟨_, _, _, rfl, rfl, h⟩
    | some i =>
      cases hb : St.arg ⟨th, shd⟩ b with
      | none => exact ⟨_, _, _, rfl, rfl, h⟩
      | some j =>
        simp only [hcan]
        cases hc : St.canReach ⟨th, shd⟩ i with
        | false => exact ⟨_, _, _, rfl, rfl, h⟩
        | true =>
          simp only [if_true]
          obtain ⟨o, hfs, hft⟩ := h.find_eq hc
          simp only at hfs hft
          rw [hfs, hft]
          simp only
          cases he : o.edges.contains j with
          | false => exact ⟨_, _, _, rfl, rfl, h⟩
          | true =>
            simp only [if_true]
            refine ⟨_, _, _, rfl, rfl, ?_⟩
            exact h.update i (fun o => { o with edges := o.edges.erase j }) shd id
              (fun _ => rfl) (fun _ => rfl) (fun _ => rfl)
              rfl (fun k hk => rfl) (by simp)
              (fun _ => rfl) (fun hd' _ hp => hp)
              (fun x => reach_updObj_sub (f := fun o => { o with edges := o.edges.erase j })
                (fun _ => rfl)
                (fun o ho hid hroot => hid ▸ Reach.root ho hroot)
                (fun o _ _ j' hj' _ => Or.inl (List.mem_of_mem_erase hj')))

theorem runQuiet_sim (ops : List Op) (s t : St) (out : List String) (h : Sim s t) :
    runQuiet ops s out = runScript (ops.filter (fun op => !op.isGc)) t out := by
  induction ops generalizing s t out with
  | nil =>
    simp only [runQuiet, List.filter_nil, runScript, h.vs.finish, h.vt.finish]
  | cons op ops ih =>
    cases hop : op.isGc with
    | true =>
      have : op = .gc := by cases op <;> simp [Op.isGc] at hop ⊢
      subst this
      simp only [runQuiet, St.step, Op.isGc, if_true, List.filter_cons, Bool.not_true,
        Bool.false_eq_true, if_false]
      exact ih _ _ _ h.gc
    | false =>
      obtain ⟨s', t', r, hs, ht, hsim⟩ := h.step op hop
      simp only [runQuiet, hs, hop, Bool.false_eq_true, if_false, List.filter_cons, Bool.not_false,
        if_true, runScript, ht]
      exact ih _ _ _ hsim

theorem Sim.init : Sim { heap := [], held := [] } { heap := [], held := [] } :=
  ⟨Valid.init, Valid.init, rfl, fun _ h => h, fun _ h _ => h⟩

theorem gc_invisible_script (ops : List Op) :
    runQuiet ops { heap := [], held := [] } [] =
      runScript (ops.filter (fun op => !op.isGc)) { heap := [], held := [] } [] :=
  runQuiet_sim ops _ _ [] Sim.init

end Rsj.Gc
