/-
  C08: the equality / ordering machines refine `structEq` / `lexCompare`
  with balanced stacks.
-/
import RsjProofs.CompareOrd
set_option linter.unusedSectionVars false
namespace Rsj.Compare
section
variable {ν : Type} [DecidableEq ν] [NumOrd ν]

/-! ### running -/

/-- `s'` is reached from `s` after some number of loop iterations. -/
def Reaches (s s' : M ν) : Prop := ∃ n, stepN n s = .ok s'
/-- The loop started in `s` aborts with `f`. -/
def FailsWith (s : M ν) (f : Fault) : Prop := ∃ n, stepN n s = .error f

theorem stepN_add (n m : Nat) (s : M ν) :
    stepN (n + m) s = match stepN n s with
      | .ok s' => stepN m s'
      | .error f => .error f := by
  induction n generalizing s with
  | zero => simp [stepN]
  | succ n ih =>
    have : n + 1 + m = (n + m) + 1 := by omega
    rw [this]
    simp only [stepN]
    cases step1 s with
    | error f => rfl
    | ok s' => exact ih s'

theorem Reaches.refl (s : M ν) : Reaches s s := ⟨0, rfl⟩

theorem Reaches.trans {a b c : M ν} (h1 : Reaches a b) (h2 : Reaches b c) : Reaches a c := by
  obtain ⟨n, hn⟩ := h1
  obtain ⟨m, hm⟩ := h2
  exact ⟨n + m, by rw [stepN_add, hn]; exact hm⟩

theorem Reaches.fails {a b : M ν} {f : Fault} (h1 : Reaches a b) (h2 : FailsWith b f) :
    FailsWith a f := by
  obtain ⟨n, hn⟩ := h1
  obtain ⟨m, hm⟩ := h2
  exact ⟨n + m, by rw [stepN_add, hn]; exact hm⟩

theorem Reaches.one {a b : M ν} (h : step1 a = .ok b) : Reaches a b := ⟨1, by simp [stepN, h]⟩

theorem FailsWith.one {a : M ν} {f : Fault} (h : step1 a = .error f) : FailsWith a f :=
  ⟨1, by simp [stepN, h]⟩

/-- The machine started in `s` behaves like the specification result `r`:
    it reaches `fin x` when `r = ok x`, it reports `e` when `r = error e`. -/
def Terminates {α : Type} (s : M ν) (r : Except Err α) (fin : α → M ν) : Prop :=
  match r with
  | .ok x => Reaches s (fin x)
  | .error e => FailsWith s (.err e)

theorem Terminates.after {α : Type} {s s' : M ν} {r : Except Err α} {fin : α → M ν}
    (h1 : Reaches s s') (h2 : Terminates s' r fin) : Terminates s r fin := by
  cases r with
  | ok x => exact h1.trans h2
  | error e => exact h1.fails h2

/-! ### the equality loop, generically (arrays and objects) -/

/-- Control flow of `EqualsArray{index}` / `EqualsObject{rem_fields}`: `L i` is the
    loop state while pair `i` of `ps` is being compared. -/
theorem eqLoop_terminates (L : Nat → St ν) (ps : List (Thunk ν × Thunk ν))
    (hS1 : ∀ i p ks vs bs os tl, ps[i + 1]? = some p →
      exec (L i) ⟨ks, vs, true :: bs, os, tl⟩ =
        .ok ⟨.doThunk p.1 :: .doThunk p.2 :: .equalsValue :: .traceItem :: L (i + 1) :: ks,
             vs, bs, os, tl + 1⟩)
    (hS2 : ∀ i ks vs bs os tl, i + 1 < ps.length →
      exec (L i) ⟨ks, vs, false :: bs, os, tl⟩ = .ok ⟨ks, vs, false :: bs, os, tl⟩)
    (hS3 : ∀ i m, i + 1 = ps.length → exec (L i) m = .ok m)
    (hE : ∀ a b, (Thunk.val a, Thunk.val b) ∈ ps → ∀ ks vs bs os tl,
      Terminates ⟨.equalsValue :: ks, b :: a :: vs, bs, os, tl⟩ (structEq a b)
        (fun r => ⟨ks, vs, r :: bs, os, tl⟩)) :
    ∀ k i p, ps[i]? = some p → ps.length = i + 1 + k → ∀ ks vs bs os tl,
      Terminates
        ⟨.doThunk p.1 :: .doThunk p.2 :: .equalsValue :: .traceItem :: L i :: ks, vs, bs, os, tl + 1⟩
        (eqList ((ps.drop i).map (·.1)) ((ps.drop i).map (·.2)))
        (fun r => ⟨ks, vs, r :: bs, os, tl⟩) := by
  intro k
  induction k with
  | zero =>
    intro i p hp hlen ks vs bs os tl
    have hi : i < ps.length := by omega
    have hpe : ps[i] = p := by
      rw [List.getElem?_eq_getElem hi] at hp; exact Option.some.inj hp
    have hdrop : ps.drop i = [p] := by
      rw [List.drop_eq_getElem_cons hi, hpe, List.drop_eq_nil_of_le (by omega)]
    rw [hdrop]
    obtain ⟨t1, t2⟩ := p
    have hmem : (t1, t2) ∈ ps := hpe ▸ List.getElem_mem hi
    cases t1 with
    | fail e => exact FailsWith.one rfl
    | val a =>
      cases t2 with
      | fail e =>
        exact (Reaches.one rfl).fails (FailsWith.one rfl)
      | val b =>
        refine Terminates.after ((Reaches.one rfl).trans (Reaches.one rfl)) ?_
        have he := hE a b hmem (.traceItem :: L i :: ks) vs bs os (tl + 1)
        simp only [List.map_cons, List.map_nil, eqList]
        cases hab : structEq a b with
        | error e => rw [hab] at he; exact he
        | ok r =>
          rw [hab] at he
          have fin : Reaches (ν := ν) ⟨.traceItem :: L i :: ks, vs, r :: bs, os, tl + 1⟩
              ⟨ks, vs, r :: bs, os, tl⟩ :=
            (Reaches.one rfl).trans (Reaches.one (by
              show exec (L i) _ = _
              exact hS3 i _ (by omega)))
          cases r with
          | true => exact (he.trans fin)
          | false => exact (he.trans fin)
  | succ k ih =>
    intro i p hp hlen ks vs bs os tl
    have hi : i < ps.length := by omega
    have hi1 : i + 1 < ps.length := by omega
    have hpe : ps[i] = p := by
      rw [List.getElem?_eq_getElem hi] at hp; exact Option.some.inj hp
    have hdrop : ps.drop i = p :: ps.drop (i + 1) := by
      rw [List.drop_eq_getElem_cons hi, hpe]
    rw [hdrop]
    obtain ⟨t1, t2⟩ := p
    have hmem : (t1, t2) ∈ ps := hpe ▸ List.getElem_mem hi
    cases t1 with
    | fail e => exact FailsWith.one rfl
    | val a =>
      cases t2 with
      | fail e =>
        exact (Reaches.one rfl).fails (FailsWith.one rfl)
      | val b =>
        refine Terminates.after ((Reaches.one rfl).trans (Reaches.one rfl)) ?_
        have he := hE a b hmem (.traceItem :: L i :: ks) vs bs os (tl + 1)
        simp only [List.map_cons, eqList]
        cases hab : structEq a b with
        | error e => rw [hab] at he; exact he
        | ok r =>
          rw [hab] at he
          refine Terminates.after (he.trans (Reaches.one rfl)) ?_
          cases r with
          | false =>
            exact Reaches.one (by
              show exec (L i) _ = _
              exact hS2 i ks vs bs os tl hi1)
          | true =>
            have hp' : ps[i + 1]? = some ps[i + 1] := List.getElem?_eq_getElem hi1
            refine Terminates.after (Reaches.one (by
              show exec (L i) _ = _
              exact hS1 i _ ks vs bs os tl hp')) ?_
            exact ih (i + 1) ps[i + 1] hp' (by omega) ks vs bs os tl

/-! ### arrays -/

theorem eqArray_terminates (xs ys : List (Thunk ν)) (hl : xs.length = ys.length)
    (hE : ∀ a b, (Thunk.val a, Thunk.val b) ∈ xs.zip ys → ∀ ks vs bs os tl,
      Terminates ⟨.equalsValue :: ks, b :: a :: vs, bs, os, tl⟩ (structEq a b)
        (fun r => ⟨ks, vs, r :: bs, os, tl⟩)) :
    ∀ ks vs bs os tl,
      Terminates ⟨.equalsValue :: ks, .arr ys :: .arr xs :: vs, bs, os, tl⟩ (eqList xs ys)
        (fun r => ⟨ks, vs, r :: bs, os, tl⟩) := by
  intro ks vs bs os tl
  cases hxs : xs with
  | nil =>
    subst hxs
    have : ys = [] := by cases ys <;> simp_all
    subst this
    exact Reaches.one rfl
  | cons x xs' =>
    cases hys : ys with
    | nil => subst hxs hys; simp at hl
    | cons y ys' =>
      rw [← hxs, ← hys]
      have hne : xs.length ≠ 0 := by rw [hxs]; simp
      have hzl : (xs.zip ys).length = xs.length := by rw [List.length_zip]; omega
      have h0 : (xs.zip ys)[0]? = some (x, y) := by rw [hxs, hys]; rfl
      -- first iteration: `EqualsValue` on the two arrays
      have hstep : step1 (ν := ν) ⟨.equalsValue :: ks, .arr ys :: .arr xs :: vs, bs, os, tl⟩ =
          .ok ⟨.doThunk x :: .doThunk y :: .equalsValue :: .traceItem :: .equalsArray xs ys 0 :: ks,
               vs, bs, os, tl + 1⟩ := by
        simp only [step1, exec]
        rw [if_neg (by simpa using hl), if_neg hne]
        rw [hxs, hys]; rfl
      refine Terminates.after (Reaches.one hstep) ?_
      have main := eqLoop_terminates (fun i => .equalsArray xs ys i) (xs.zip ys)
        (by
          intro i p ks vs bs os tl hp
          have hp' := List.getElem?_zip_eq_some.mp hp
          have hi : i + 1 < xs.length := by
            have := (List.getElem?_eq_some_iff.mp hp'.1).1; exact this
          simp only [exec]
          rw [if_neg (by simpa using hl), if_neg hne, if_pos (by omega)]
          simp only [if_true, hp'.1, hp'.2, M.pushItem])
        (by
          intro i ks vs bs os tl hi
          simp only [exec]
          rw [if_neg (by simpa using hl), if_neg hne, if_pos (by omega)]
          simp)
        (by
          intro i m hi
          simp only [exec]
          rw [if_neg (by simpa using hl), if_neg hne, if_neg (by omega)])
        hE (xs.length - 1) 0 (x, y) h0 (by omega) ks vs bs os tl
      simp only [List.drop_zero] at main
      have e1 : (xs.zip ys).map (·.1) = xs := List.map_fst_zip (by omega)
      have e2 : (xs.zip ys).map (·.2) = ys := List.map_snd_zip (by omega)
      rw [e1, e2] at main
      exact main

/-! ### objects -/

omit [DecidableEq ν] [NumOrd ν] in
theorem lookupField_nodup : ∀ {fs : List (String × Thunk ν)} {i : Nat} {k : String} {t : Thunk ν},
    (fs.map (·.1)).Nodup → fs[i]? = some (k, t) → lookupField k fs = some t
  | [], _, _, _, _, h => by simp at h
  | (k', t') :: fs, 0, k, t, _, h => by
    simp only [List.getElem?_cons_zero, Option.some.injEq, Prod.mk.injEq] at h
    obtain ⟨rfl, rfl⟩ := h
    simp [lookupField]
  | (k', t') :: fs, i + 1, k, t, hnd, h => by
    simp only [List.getElem?_cons_succ] at h
    simp only [List.map_cons, List.nodup_cons] at hnd
    have hk : k ∈ fs.map (·.1) :=
      List.mem_map.mpr ⟨(k, t), List.mem_of_getElem? h, rfl⟩
    have hne : k' ≠ k := fun e => hnd.1 (e ▸ hk)
    simp only [lookupField, if_neg hne]
    exact lookupField_nodup hnd.2 h

theorem eqObject_terminates (fs gs : List (String × Thunk ν)) (hk : fs.map (·.1) = gs.map (·.1))
    (hnd : (fs.map (·.1)).Nodup)
    (hE : ∀ a b, (Thunk.val a, Thunk.val b) ∈ (fs.map (·.2)).zip (gs.map (·.2)) →
      ∀ ks vs bs os tl,
      Terminates ⟨.equalsValue :: ks, b :: a :: vs, bs, os, tl⟩ (structEq a b)
        (fun r => ⟨ks, vs, r :: bs, os, tl⟩)) :
    ∀ ks vs bs os tl,
      Terminates ⟨.equalsValue :: ks, .obj gs :: .obj fs :: vs, bs, os, tl⟩
        (eqList (fs.map (·.2)) (gs.map (·.2))) (fun r => ⟨ks, vs, r :: bs, os, tl⟩) := by
  intro ks vs bs os tl
  have hl : fs.length = gs.length := by
    have := congrArg List.length hk; simpa using this
  have hndg : (gs.map (·.1)).Nodup := hk ▸ hnd
  cases hfs : fs with
  | nil =>
    subst hfs
    have : gs = [] := by cases gs <;> simp_all
    subst this
    exact Reaches.one rfl
  | cons f fs' =>
    cases hgs : gs with
    | nil => subst hfs hgs; simp at hl
    | cons g gs' =>
      rw [← hfs, ← hgs]
      obtain ⟨kf, tf⟩ := f
      obtain ⟨kg, tg⟩ := g
      have hkk : kf = kg := by rw [hfs, hgs] at hk; simpa using (List.cons.inj hk).1
      subst hkk
      let keys := fs.map (·.1)
      let ps := (fs.map (·.2)).zip (gs.map (·.2))
      have hzl : ps.length = fs.length := by
        simp only [ps, List.length_zip, List.length_map]; omega
      have h0 : ps[0]? = some (tf, tg) := by simp only [ps]; rw [hfs, hgs]; rfl
      -- facts about position `j`
      have hpos : ∀ (j : Nat) (p : Thunk ν × Thunk ν), ps[j]? = some p →
          ∃ k, keys[j]? = some k ∧ lookupField k fs = some p.1 ∧ lookupField k gs = some p.2 := by
        intro j p hp
        have hp' := List.getElem?_zip_eq_some.mp hp
        simp only [List.getElem?_map, Option.map_eq_some_iff] at hp'
        obtain ⟨⟨⟨k1, t1⟩, h1, e1⟩, ⟨⟨k2, t2⟩, h2, e2⟩⟩ := hp'
        simp only at e1 e2
        have hk1 : keys[j]? = some k1 := by simp [keys, List.getElem?_map, h1]
        have hk2 : keys[j]? = some k2 := by
          have : keys = gs.map (·.1) := hk
          rw [this]; simp [List.getElem?_map, h2]
        have : k1 = k2 := by rw [hk1] at hk2; exact Option.some.inj hk2
        subst this
        exact ⟨k1, hk1, e1 ▸ lookupField_nodup hnd h1, e2 ▸ lookupField_nodup hndg h2⟩
      have hkeys0 : keys = kf :: keys.drop 1 := by
        simp only [keys]; rw [hfs]; rfl
      have hstep : step1 (ν := ν) ⟨.equalsValue :: ks, .obj gs :: .obj fs :: vs, bs, os, tl⟩ =
          .ok ⟨.doThunk tf :: .doThunk tg :: .equalsValue :: .traceItem ::
                .equalsObject fs gs (keys.drop 1) :: ks, vs, bs, os, tl + 1⟩ := by
        obtain ⟨k, hk0, hl1, hl2⟩ := hpos 0 (tf, tg) h0
        have : k = kf := by
          rw [hkeys0] at hk0; simpa using hk0.symm
        subst this
        simp only [step1, exec]
        rw [if_pos hk]
        show (match keys with
          | first :: rem =>
            match lookupField first fs, lookupField first gs with
            | some l, some r => _
            | _, _ => _
          | [] => _) = _
        rw [hkeys0]
        simp only [hl1, hl2, M.pushItem, List.drop_succ_cons, List.drop_zero]
      refine Terminates.after (Reaches.one hstep) ?_
      have hkl : keys.length = fs.length := by simp [keys]
      have main := eqLoop_terminates (fun i => .equalsObject fs gs (keys.drop (i + 1))) ps
        (by
          intro i p ks vs bs os tl hp
          obtain ⟨k, hki, hl1, hl2⟩ := hpos (i + 1) p hp
          have hi : i + 1 < keys.length := (List.getElem?_eq_some_iff.mp hki).1
          have hd : keys.drop (i + 1) = k :: keys.drop (i + 1 + 1) := by
            rw [List.drop_eq_getElem_cons hi]
            rw [List.getElem?_eq_getElem hi] at hki
            rw [Option.some.inj hki]
          simp only [exec]
          rw [hd]
          simp only [if_true, hl1, hl2, M.pushItem])
        (by
          intro i ks vs bs os tl hi
          have hi' : i + 1 < keys.length := by omega
          have hd : keys.drop (i + 1) = keys[i + 1] :: keys.drop (i + 1 + 1) :=
            List.drop_eq_getElem_cons hi'
          simp only [exec]
          rw [hd]
          simp)
        (by
          intro i m hi
          have hd : keys.drop (i + 1) = [] := List.drop_eq_nil_of_le (by omega)
          simp only [exec]
          rw [hd])
        hE (fs.length - 1) 0 (tf, tg) h0 (by rw [hfs] at hzl ⊢; simp at hzl ⊢; omega) ks vs bs os tl
      simp only [List.drop_zero, Nat.zero_add] at main
      have e1 : ps.map (·.1) = fs.map (·.2) := List.map_fst_zip (by simp; omega)
      have e2 : ps.map (·.2) = gs.map (·.2) := List.map_snd_zip (by simp; omega)
      rw [e1, e2] at main
      exact main

/-! ### `EqualsValue` -/

/-- Objects list each visible field name once (they come out of a `BTreeMap`), hereditarily. -/
inductive WF : Value ν → Prop
  | null : WF .null
  | bool (b : Bool) : WF (.bool b)
  | num (n : ν) : WF (.num n)
  | str (s : List Nat) : WF (.str s)
  | func : WF .func
  | arr (xs : List (Thunk ν)) : (∀ v, Thunk.val v ∈ xs → WF v) → WF (.arr xs)
  | obj (fs : List (String × Thunk ν)) : (fs.map (·.1)).Nodup →
      (∀ k v, (k, Thunk.val v) ∈ fs → WF v) → WF (.obj fs)

/-- The machine started on `EqualsValue` with `a`, `b` on the value stack ends with
    exactly `structEq a b` on the bool stack, everything else restored — or reports
    the same error. -/
theorem equalsValue_terminates {a : Value ν} (ha : WF a) : ∀ b ks vs bs os tl,
    Terminates ⟨.equalsValue :: ks, b :: a :: vs, bs, os, tl⟩ (structEq a b)
      (fun r => ⟨ks, vs, r :: bs, os, tl⟩) := by
  induction ha with
  | null => intro b ks vs bs os tl; cases b <;> exact Reaches.one rfl
  | bool x => intro b ks vs bs os tl; cases b <;> exact Reaches.one rfl
  | num x => intro b ks vs bs os tl; cases b <;> exact Reaches.one rfl
  | str x => intro b ks vs bs os tl; cases b <;> exact Reaches.one rfl
  | func =>
    intro b ks vs bs os tl
    cases b with
    | func => exact FailsWith.one rfl
    | _ => exact Reaches.one rfl
  | arr xs _ ih =>
    intro b ks vs bs os tl
    cases b with
    | arr ys =>
      rw [structEq_arr]
      by_cases hl : xs.length = ys.length
      · rw [if_pos hl]
        exact eqArray_terminates xs ys hl
          (fun a b hm => ih a (List.of_mem_zip hm).1 b) ks vs bs os tl
      · rw [if_neg hl]
        exact Reaches.one (by
          simp only [step1, exec]
          rw [if_pos (by simpa using hl)]; rfl)
    | _ => exact Reaches.one rfl
  | obj fs hnd _ ih =>
    intro b ks vs bs os tl
    cases b with
    | obj gs =>
      rw [structEq_obj]
      by_cases hk : fs.map (·.1) = gs.map (·.1)
      · rw [if_pos hk]
        refine eqObject_terminates fs gs hk hnd ?_ ks vs bs os tl
        intro a b hm
        obtain ⟨k, hk'⟩ := mem_map_snd (List.of_mem_zip hm).1
        exact ih k a hk' b
      · rw [if_neg hk]
        exact Reaches.one (by
          simp only [step1, exec]
          rw [if_neg hk]; rfl)
    | _ => exact Reaches.one rfl

/-! ### the ordering machine -/

theorem cmpLoop_terminates (xs ys : List (Thunk ν))
    (hE : ∀ a b, Thunk.val a ∈ xs → ∀ ks vs bs os tl,
      Terminates ⟨.compareValue :: ks, b :: a :: vs, bs, os, tl⟩ (lexCompare a b)
        (fun o => ⟨ks, vs, bs, o :: os, tl⟩)) :
    ∀ k i l r, xs[i]? = some l → ys[i]? = some r → xs.length = i + 1 + k → ∀ ks vs bs os tl,
      Terminates
        ⟨.doThunk l :: .doThunk r :: .compareValue :: .traceItem :: .compareArray xs ys i :: ks,
         vs, bs, os, tl + 1⟩
        (cmpThunks (xs.drop i) (ys.drop i)) (fun o => ⟨ks, vs, bs, o :: os, tl⟩) := by
  intro k
  induction k with
  | zero =>
    intro i l r hl hr hlen ks vs bs os tl
    have hi : i < xs.length := by omega
    have hj : i < ys.length := (List.getElem?_eq_some_iff.mp hr).1
    have hle : xs[i] = l := by rw [List.getElem?_eq_getElem hi] at hl; exact Option.some.inj hl
    have hre : ys[i] = r := by rw [List.getElem?_eq_getElem hj] at hr; exact Option.some.inj hr
    have hdx : xs.drop i = [l] := by
      rw [List.drop_eq_getElem_cons hi, hle, List.drop_eq_nil_of_le (by omega)]
    have hdy : ys.drop i = r :: ys.drop (i + 1) := by rw [List.drop_eq_getElem_cons hj, hre]
    rw [hdx, hdy]
    have hmem : l ∈ xs := hle ▸ List.getElem_mem hi
    cases l with
    | fail e => exact FailsWith.one rfl
    | val a =>
      cases r with
      | fail e => exact (Reaches.one rfl).fails (FailsWith.one rfl)
      | val b =>
        refine Terminates.after ((Reaches.one rfl).trans (Reaches.one rfl)) ?_
        have he := hE a b hmem (.traceItem :: .compareArray xs ys i :: ks) vs bs os (tl + 1)
        simp only [cmpThunks]
        cases hab : lexCompare a b with
        | error e => rw [hab] at he; exact he
        | ok p =>
          rw [hab] at he
          refine Terminates.after (he.trans (Reaches.one rfl)) ?_
          have hx0 : ¬ (xs.length = 0 ∨ ys.length = 0) := by omega
          cases p with
          | lt => exact Reaches.one (by simp [step1, exec])
          | gt => exact Reaches.one (by simp [step1, exec])
          | eq =>
            by_cases hj1 : i + 1 < ys.length
            · have : ys.drop (i + 1) = ys[i + 1] :: ys.drop (i + 1 + 1) :=
                List.drop_eq_getElem_cons hj1
              rw [this]
              simp only [cmpThunks]
              exact Reaches.one (by
                simp only [step1, exec, if_true]
                rw [if_neg hx0]
                have d1 : decide (i = xs.length - 1) = true := by simp; omega
                have d2 : decide (i = ys.length - 1) = false := by simp; omega
                rw [d1, d2])
            · have : ys.drop (i + 1) = [] := List.drop_eq_nil_of_le (by omega)
              rw [this]
              simp only [cmpThunks]
              exact Reaches.one (by
                simp only [step1, exec, if_true]
                rw [if_neg hx0]
                have d1 : decide (i = xs.length - 1) = true := by simp; omega
                have d2 : decide (i = ys.length - 1) = true := by simp; omega
                rw [d1, d2])
  | succ k ih =>
    intro i l r hl hr hlen ks vs bs os tl
    have hi : i < xs.length := by omega
    have hi1 : i + 1 < xs.length := by omega
    have hj : i < ys.length := (List.getElem?_eq_some_iff.mp hr).1
    have hle : xs[i] = l := by rw [List.getElem?_eq_getElem hi] at hl; exact Option.some.inj hl
    have hre : ys[i] = r := by rw [List.getElem?_eq_getElem hj] at hr; exact Option.some.inj hr
    have hdx : xs.drop i = l :: xs.drop (i + 1) := by rw [List.drop_eq_getElem_cons hi, hle]
    have hdy : ys.drop i = r :: ys.drop (i + 1) := by rw [List.drop_eq_getElem_cons hj, hre]
    rw [hdx, hdy]
    have hmem : l ∈ xs := hle ▸ List.getElem_mem hi
    cases l with
    | fail e => exact FailsWith.one rfl
    | val a =>
      cases r with
      | fail e => exact (Reaches.one rfl).fails (FailsWith.one rfl)
      | val b =>
        refine Terminates.after ((Reaches.one rfl).trans (Reaches.one rfl)) ?_
        have he := hE a b hmem (.traceItem :: .compareArray xs ys i :: ks) vs bs os (tl + 1)
        simp only [cmpThunks]
        cases hab : lexCompare a b with
        | error e => rw [hab] at he; exact he
        | ok p =>
          rw [hab] at he
          refine Terminates.after (he.trans (Reaches.one rfl)) ?_
          have hx0 : ¬ (xs.length = 0 ∨ ys.length = 0) := by omega
          cases p with
          | lt => exact Reaches.one (by simp [step1, exec])
          | gt => exact Reaches.one (by simp [step1, exec])
          | eq =>
            have hdx1 : xs.drop (i + 1) = xs[i + 1] :: xs.drop (i + 1 + 1) :=
              List.drop_eq_getElem_cons hi1
            by_cases hj1 : i + 1 < ys.length
            · have hx' : xs[i + 1]? = some xs[i + 1] := List.getElem?_eq_getElem hi1
              have hy' : ys[i + 1]? = some ys[i + 1] := List.getElem?_eq_getElem hj1
              refine Terminates.after (Reaches.one (by
                simp only [step1, exec, if_true]
                rw [if_neg hx0]
                have d1 : decide (i = xs.length - 1) = false := by simp; omega
                have d2 : decide (i = ys.length - 1) = false := by simp; omega
                rw [d1, d2]
                simp only [hx', hy', M.pushItem]
                rfl)) ?_
              exact ih (i + 1) _ _ hx' hy' (by omega) ks vs bs os tl
            · have : ys.drop (i + 1) = [] := List.drop_eq_nil_of_le (by omega)
              rw [this, hdx1]
              simp only [cmpThunks]
              exact Reaches.one (by
                simp only [step1, exec, if_true]
                rw [if_neg hx0]
                have d1 : decide (i = xs.length - 1) = false := by simp; omega
                have d2 : decide (i = ys.length - 1) = true := by simp; omega
                rw [d1, d2])

/-- The machine started on `CompareValue` with `a`, `b` on the value stack ends with
    exactly `lexCompare a b` on the ordering stack, everything else restored — or
    reports the same error. -/
theorem compareValue_terminates (a : Value ν) : ∀ b ks vs bs os tl,
    Terminates ⟨.compareValue :: ks, b :: a :: vs, bs, os, tl⟩ (lexCompare a b)
      (fun o => ⟨ks, vs, bs, o :: os, tl⟩) := by
  induction a using Value.induct' with
  | null => intro b ks vs bs os tl; cases b <;> exact FailsWith.one rfl
  | bool x => intro b ks vs bs os tl; cases b <;> exact FailsWith.one rfl
  | func => intro b ks vs bs os tl; cases b <;> exact FailsWith.one rfl
  | obj fs _ => intro b ks vs bs os tl; cases b <;> exact FailsWith.one rfl
  | num x =>
    intro b ks vs bs os tl
    cases b with
    | num y => exact Reaches.one rfl
    | _ => exact FailsWith.one rfl
  | str x =>
    intro b ks vs bs os tl
    cases b with
    | str y => exact Reaches.one rfl
    | _ => exact FailsWith.one rfl
  | arr xs ih =>
    intro b ks vs bs os tl
    cases b with
    | arr ys =>
      simp only [lexCompare]
      cases hxs : xs with
      | nil => cases ys <;> exact Reaches.one rfl
      | cons x xs' =>
        cases hys : ys with
        | nil => exact Reaches.one rfl
        | cons y ys' =>
          rw [← hxs, ← hys]
          have hstep : step1 (ν := ν) ⟨.compareValue :: ks, .arr ys :: .arr xs :: vs, bs, os, tl⟩ =
              .ok ⟨.doThunk x :: .doThunk y :: .compareValue :: .traceItem ::
                    .compareArray xs ys 0 :: ks, vs, bs, os, tl + 1⟩ := by
            rw [hxs, hys]; rfl
          refine Terminates.after (Reaches.one hstep) ?_
          have := cmpLoop_terminates xs ys (fun a b hm => ih a hm b) (xs.length - 1) 0 x y
            (by rw [hxs]; rfl) (by rw [hys]; rfl) (by rw [hxs]; simp; omega) ks vs bs os tl
          simpa using this
    | _ => exact FailsWith.one rfl

/-! ### the nine operations, run with fuel -/

theorem stepN_halted (n : Nat) (s : M ν) (h : s.states = []) : stepN n s = .ok s := by
  induction n with
  | zero => rfl
  | succ n ih =>
    simp only [stepN]
    have : step1 s = .ok s := by simp [step1, h]
    rw [this]; exact ih

theorem run_of_reaches : ∀ (n : Nat) (s s' : M ν), stepN n s = .ok s' → s'.states = [] →
    ∀ fuel, n ≤ fuel → run fuel s = .ok (some s') := by
  intro n
  induction n with
  | zero =>
    intro s s' h he fuel _
    simp only [stepN, Except.ok.injEq] at h
    subst h
    cases fuel <;> simp [run, he]
  | succ n ih =>
    intro s s' h he fuel hf
    cases fuel with
    | zero => omega
    | succ f =>
      simp only [run]
      by_cases hs : s.states = []
      · rw [stepN_halted _ s hs] at h
        cases h
        simp [hs]
      · have hne : s.states.isEmpty = false := by
          cases hss : s.states with
          | nil => exact absurd hss hs
          | cons _ _ => rfl
        rw [hne]
        simp only [stepN] at h
        cases hst : step1 s with
        | error e => rw [hst] at h; cases h
        | ok s1 =>
          rw [hst] at h
          simp only [Bool.false_eq_true, if_false]
          exact ih s1 s' h he f (by omega)

theorem run_of_fails : ∀ (n : Nat) (s : M ν) (e : Fault), stepN n s = .error e →
    ∀ fuel, n ≤ fuel → run fuel s = .error e := by
  intro n
  induction n with
  | zero => intro s e h; simp [stepN] at h
  | succ n ih =>
    intro s e h fuel hf
    cases fuel with
    | zero => omega
    | succ f =>
      simp only [run]
      by_cases hs : s.states = []
      · rw [stepN_halted _ s hs] at h; cases h
      · have hne : s.states.isEmpty = false := by
          cases hss : s.states with
          | nil => exact absurd hss hs
          | cons _ _ => rfl
        rw [hne]
        simp only [stepN] at h
        simp only [Bool.false_eq_true, if_false]
        cases hst : step1 s with
        | error e' => rw [hst] at h; cases h; rfl
        | ok s1 =>
          rw [hst] at h
          exact ih s1 e h f (by omega)

theorem Terminates.map {α β : Type} {s : M ν} {r : Except Err α} {fin : α → M ν}
    {fin' : β → M ν} (f : α → β) (h : Terminates s r fin)
    (hk : ∀ x, Reaches (fin x) (fin' (f x))) : Terminates s (r.map f) fin' := by
  cases r with
  | ok x => exact Reaches.trans h (hk x)
  | error e => exact h

def Res.toValue : Res ν → Value ν
  | .bool b => .bool b
  | .num n => .num n

/-- The final machine of an operation that answered `r`: all stacks restored,
    exactly the answer on the value stack. -/
def finalM (r : Res ν) : M ν := ⟨[], [r.toValue], [], [], 0⟩

theorem initM_terminates (op : Op) (a b : Thunk ν) (hw : ∀ x, a = .val x → WF x) :
    Terminates (initM op a b) (specOp op a b) finalM := by
  cases a with
  | fail e => exact FailsWith.one rfl
  | val x =>
    cases b with
    | fail e => exact (Reaches.one rfl).fails (FailsWith.one rfl)
    | val y =>
      have hx : WF x := hw x rfl
      refine Terminates.after ((Reaches.one rfl).trans (Reaches.one rfl)) ?_
      cases op with
      | eq =>
        exact Terminates.map _ (equalsValue_terminates hx y _ [] [] [] 1)
          (fun r => (Reaches.one rfl).trans (Reaches.one rfl))
      | stdEquals =>
        exact Terminates.map _ (equalsValue_terminates hx y _ [] [] [] 0)
          (fun r => Reaches.one rfl)
      | ne =>
        exact Terminates.map _ (equalsValue_terminates hx y _ [] [] [] 1)
          (fun r => ((Reaches.one rfl).trans (Reaches.one rfl)).trans (Reaches.one rfl))
      | lt =>
        exact Terminates.map _ (compareValue_terminates x y _ [] [] [] 1)
          (fun r => (Reaches.one rfl).trans (Reaches.one rfl))
      | le =>
        exact Terminates.map _ (compareValue_terminates x y _ [] [] [] 1)
          (fun r => (Reaches.one rfl).trans (Reaches.one rfl))
      | gt =>
        exact Terminates.map _ (compareValue_terminates x y _ [] [] [] 1)
          (fun r => (Reaches.one rfl).trans (Reaches.one rfl))
      | ge =>
        exact Terminates.map _ (compareValue_terminates x y _ [] [] [] 1)
          (fun r => (Reaches.one rfl).trans (Reaches.one rfl))
      | stdCompare =>
        exact Terminates.map _ (compareValue_terminates x y _ [] [] [] 0)
          (fun r => Reaches.one rfl)
      | stdCompareArray =>
        cases x with
        | arr xs =>
          cases y with
          | arr ys =>
            refine Terminates.after (Reaches.one rfl) ?_
            exact Terminates.map _ (compareValue_terminates (.arr xs) (.arr ys) _ [] [] [] 0)
              (fun r => Reaches.one rfl)
          | _ => exact FailsWith.one rfl
        | _ => cases y <;> exact FailsWith.one rfl

/-- For sufficient fuel each of the nine operations, run on the machine, gives exactly
    the specified result (a value with all stacks restored, or the specified error). -/
theorem machineOp_refines (op : Op) (a b : Thunk ν) (hw : ∀ x, a = .val x → WF x) :
    ∃ n, ∀ fuel, n ≤ fuel → machineOp fuel op a b =
      match specOp op a b with
      | .ok r => .res r
      | .error e => .err e := by
  have h := initM_terminates op a b hw
  cases hs : specOp op a b with
  | error e =>
    rw [hs] at h
    obtain ⟨n, hn⟩ := h
    refine ⟨n, fun fuel hf => ?_⟩
    simp only [machineOp, run_of_fails n _ _ hn fuel hf]
  | ok r =>
    rw [hs] at h
    obtain ⟨n, hn⟩ := h
    refine ⟨n, fun fuel hf => ?_⟩
    simp only [machineOp, run_of_reaches n _ _ hn rfl fuel hf]
    cases r <;> rfl

/-- Boolean negation of an answer (errors and other outcomes unchanged). -/
def Outcome.negate : Outcome ν → Outcome ν
  | .res (.bool b) => .res (.bool (!b))
  | o => o

end

/-- A well-formed, pure, nested value with an object (used by the non-vacuity examples). -/
def exA : Value Int :=
  .arr [.val (.num 1), .val (.obj [("a", .val (.str [97])), ("b", .val (.arr []))])]

end Rsj.Compare
