/-
  Helper lemmas for C17 (part 3): the two-index walks of std.setInter / setUnion /
  setDiff.  Layer 1: the index/fuel state machines of the model equal plain list
  recursions (`interL`, `unionL`, `diffL`) and never fail.  Layer 2: on strictly
  key-sorted inputs these compute intersection / union / difference by key.
-/
import RsjProofs.Sort
namespace Rsj.Sort

variable {α κ : Type}

section defs
variable (O : KeyOrd κ) (key : α → κ)

def interL : List α → List α → List α
  | [], _ => []
  | _ :: _, [] => []
  | x :: xs, y :: ys =>
    match O.cmp (key x) (key y) with
    | .lt => interL xs (y :: ys)
    | .eq => x :: interL xs ys
    | .gt => interL (x :: xs) ys
termination_by a b => a.length + b.length

def unionL : List α → List α → List α
  | [], b => b
  | x :: xs, [] => x :: xs
  | x :: xs, y :: ys =>
    match O.cmp (key x) (key y) with
    | .lt => x :: unionL xs (y :: ys)
    | .eq => x :: unionL xs ys
    | .gt => y :: unionL (x :: xs) ys
termination_by a b => a.length + b.length

def diffL : List α → List α → List α
  | [], _ => []
  | x :: xs, [] => x :: xs
  | x :: xs, y :: ys =>
    match O.cmp (key x) (key y) with
    | .lt => x :: diffL xs (y :: ys)
    | .eq => diffL xs ys
    | .gt => diffL (x :: xs) ys
termination_by a b => a.length + b.length

/-- `x` has a key-equal element in `b`. -/
def inB (b : List α) (x : α) : Bool := b.any (fun y => O.cmp (key x) (key y) == .eq)

/-- Strictly key-sorted = "is a set". -/
def StrictSorted (l : List α) : Prop := l.Pairwise (fun x y => O.cmp (key x) (key y) = .lt)

end defs

variable {O : KeyOrd κ} {key : α → κ}

theorem interL_nil_right (a : List α) : interL O key a [] = [] := by
  cases a <;> simp [interL]

theorem unionL_nil_right (a : List α) : unionL O key a [] = a := by
  cases a <;> simp [unionL]

theorem diffL_nil_right (a : List α) : diffL O key a [] = a := by
  cases a <;> simp [diffL]

/-! ### Layer 1: index walks = list recursions -/

theorem drop_cons_of_lt {l : List α} {i : Nat} (hi : i < l.length) :
    l.drop i = l[i] :: l.drop (i + 1) := List.drop_eq_getElem_cons hi

theorem interAux_eq (a b : List α) : ∀ (fuel i j : Nat) (acc : List α),
    i < a.length → j < b.length → (a.length - i) + (b.length - j) ≤ fuel →
    interAux O key a b fuel i j acc = .ok (acc ++ interL O key (a.drop i) (b.drop j)) := by
  intro fuel
  induction fuel with
  | zero => intro i j acc hi hj hf; omega
  | succ fuel ih =>
    intro i j acc hi hj hf
    simp only [interAux, List.getElem?_eq_getElem hi, List.getElem?_eq_getElem hj]
    rw [drop_cons_of_lt hi, drop_cons_of_lt hj, interL]
    cases hc : O.cmp (key a[i]) (key b[j]) <;> simp only
    · -- lt
      by_cases he : i + 1 = a.length ∨ j = b.length
      · rw [if_pos he]
        have : a.drop (i + 1) = [] := List.drop_of_length_le (by omega)
        rw [this]; simp [interL]
      · rw [if_neg he, ih _ _ _ (by omega) hj (by omega), drop_cons_of_lt hj]
    · -- eq
      by_cases he : i + 1 = a.length ∨ j + 1 = b.length
      · rw [if_pos he]
        rcases he with he | he
        · have : a.drop (i + 1) = [] := List.drop_of_length_le (by omega)
          rw [this]; simp [interL]
        · have : b.drop (j + 1) = [] := List.drop_of_length_le (by omega)
          rw [this, interL_nil_right]
      · rw [if_neg he, ih _ _ _ (by omega) (by omega) (by omega)]; simp
    · -- gt
      by_cases he : i = a.length ∨ j + 1 = b.length
      · rw [if_pos he]
        have : b.drop (j + 1) = [] := List.drop_of_length_le (by omega)
        rw [this, interL_nil_right]; simp
      · rw [if_neg he, ih _ _ _ hi (by omega) (by omega), drop_cons_of_lt hi]

theorem setInter_eq (a b : List α) : setInter O key a b = .ok (interL O key a b) := by
  unfold setInter
  by_cases he : a.isEmpty ∨ b.isEmpty
  · rw [if_pos he]
    rcases he with he | he
    · rw [List.isEmpty_iff.mp he]; simp [interL]
    · rw [List.isEmpty_iff.mp he, interL_nil_right]
  · rw [if_neg he]
    have ha : 0 < a.length := by
      cases a with
      | nil => simp at he
      | cons _ _ => simp
    have hb : 0 < b.length := by
      cases b with
      | nil => simp at he
      | cons _ _ => simp
    rw [interAux_eq a b _ 0 0 [] ha hb (by omega)]; simp

theorem unionAux_eq (a b : List α) : ∀ (fuel i j : Nat) (acc : List α),
    i < a.length → j < b.length → (a.length - i) + (b.length - j) ≤ fuel →
    unionAux O key a b fuel i j acc = .ok (acc ++ unionL O key (a.drop i) (b.drop j)) := by
  intro fuel
  induction fuel with
  | zero => intro i j acc hi hj hf; omega
  | succ fuel ih =>
    intro i j acc hi hj hf
    simp only [unionAux, List.getElem?_eq_getElem hi, List.getElem?_eq_getElem hj]
    rw [drop_cons_of_lt hi, drop_cons_of_lt hj, unionL]
    cases hc : O.cmp (key a[i]) (key b[j]) <;> simp only
    · -- lt
      by_cases he : i + 1 = a.length
      · rw [if_pos he]
        have : a.drop (i + 1) = [] := List.drop_of_length_le (by omega)
        rw [this, ← drop_cons_of_lt hj]; simp [unionL]
      · rw [if_neg he, if_neg (by omega), ih _ _ _ (by omega) hj (by omega), drop_cons_of_lt hj]
        simp
    · -- eq
      by_cases he : i + 1 = a.length
      · rw [if_pos he]
        have : a.drop (i + 1) = [] := List.drop_of_length_le (by omega)
        rw [this]; simp [unionL]
      · rw [if_neg he]
        by_cases he' : j + 1 = b.length
        · rw [if_pos he']
          have : b.drop (j + 1) = [] := List.drop_of_length_le (by omega)
          rw [this, unionL_nil_right]; simp
        · rw [if_neg he', ih _ _ _ (by omega) (by omega) (by omega)]; simp
    · -- gt
      rw [if_neg (by omega)]
      by_cases he' : j + 1 = b.length
      · rw [if_pos he']
        have : b.drop (j + 1) = [] := List.drop_of_length_le (by omega)
        rw [this, unionL_nil_right, ← drop_cons_of_lt hi]; simp
      · rw [if_neg he', ih _ _ _ hi (by omega) (by omega), drop_cons_of_lt hi]; simp

theorem setUnion_eq (a b : List α) : setUnion O key a b = .ok (unionL O key a b) := by
  unfold setUnion
  by_cases ha : a.isEmpty
  · rw [if_pos ha, List.isEmpty_iff.mp ha]; simp [unionL]
  · rw [if_neg ha]
    by_cases hb : b.isEmpty
    · rw [if_pos hb, List.isEmpty_iff.mp hb, unionL_nil_right]
    · rw [if_neg hb]
      have ha' : 0 < a.length := by
        cases a with
        | nil => simp at ha
        | cons _ _ => simp
      have hb' : 0 < b.length := by
        cases b with
        | nil => simp at hb
        | cons _ _ => simp
      rw [unionAux_eq a b _ 0 0 [] ha' hb' (by omega)]; simp

theorem diffAux_eq (a b : List α) : ∀ (fuel i j : Nat) (acc : List α),
    i < a.length → j < b.length → (a.length - i) + (b.length - j) ≤ fuel →
    diffAux O key a b fuel i j acc = .ok (acc ++ diffL O key (a.drop i) (b.drop j)) := by
  intro fuel
  induction fuel with
  | zero => intro i j acc hi hj hf; omega
  | succ fuel ih =>
    intro i j acc hi hj hf
    simp only [diffAux, List.getElem?_eq_getElem hi, List.getElem?_eq_getElem hj]
    rw [drop_cons_of_lt hi, drop_cons_of_lt hj, diffL]
    cases hc : O.cmp (key a[i]) (key b[j]) <;> simp only
    · -- lt
      by_cases he : i + 1 = a.length
      · rw [if_pos he]
        have : a.drop (i + 1) = [] := List.drop_of_length_le (by omega)
        rw [this]; simp [diffL]
      · rw [if_neg he, if_neg (by omega), ih _ _ _ (by omega) hj (by omega), drop_cons_of_lt hj]
        simp
    · -- eq
      by_cases he : i + 1 = a.length
      · rw [if_pos he]
        have : a.drop (i + 1) = [] := List.drop_of_length_le (by omega)
        rw [this]; simp [diffL]
      · rw [if_neg he]
        by_cases he' : j + 1 = b.length
        · rw [if_pos he']
          have : b.drop (j + 1) = [] := List.drop_of_length_le (by omega)
          rw [this, diffL_nil_right]
        · rw [if_neg he', ih _ _ _ (by omega) (by omega) (by omega)]
    · -- gt
      rw [if_neg (by omega)]
      by_cases he' : j + 1 = b.length
      · rw [if_pos he']
        have : b.drop (j + 1) = [] := List.drop_of_length_le (by omega)
        rw [this, diffL_nil_right, ← drop_cons_of_lt hi]
      · rw [if_neg he', ih _ _ _ hi (by omega) (by omega), drop_cons_of_lt hi]

theorem setDiff_eq (a b : List α) : setDiff O key a b = .ok (diffL O key a b) := by
  unfold setDiff
  by_cases he : a.isEmpty ∨ b.isEmpty
  · rw [if_pos he]
    rcases he with he | he
    · rw [List.isEmpty_iff.mp he]; simp [diffL]
    · rw [List.isEmpty_iff.mp he, diffL_nil_right]
  · rw [if_neg he]
    have ha : 0 < a.length := by
      cases a with
      | nil => simp at he
      | cons _ _ => simp
    have hb : 0 < b.length := by
      cases b with
      | nil => simp at he
      | cons _ _ => simp
    rw [diffAux_eq a b _ 0 0 [] ha hb (by omega)]; simp

/-! ### Layer 2: on sets the list recursions are the set operations by key -/

theorem inB_nil (x : α) : inB O key [] x = false := rfl

theorem inB_cons (y : α) (ys : List α) (x : α) :
    inB O key (y :: ys) x = (O.cmp (key x) (key y) == .eq || inB O key ys x) := by
  simp [inB]

theorem inB_eq_true {b : List α} {x : α} :
    inB O key b x = true ↔ ∃ y ∈ b, O.cmp (key x) (key y) = .eq := by
  simp [inB]

theorem inB_eq_false {b : List α} {x : α} :
    inB O key b x = false ↔ ∀ y ∈ b, O.cmp (key x) (key y) ≠ .eq := by
  rw [← Bool.not_eq_true, inB_eq_true]; simp

theorem StrictSorted.head {x : α} {xs : List α} (hs : StrictSorted O key (x :: xs)) :
    ∀ x' ∈ xs, O.cmp (key x) (key x') = .lt := (List.pairwise_cons.mp hs).1

theorem StrictSorted.tail {x : α} {xs : List α} (hs : StrictSorted O key (x :: xs)) :
    StrictSorted O key xs := (List.pairwise_cons.mp hs).2

/-- `x < y` and `y :: ys` sorted: `x` is below everything in `y :: ys`. -/
theorem lt_all_of_lt_head (h : Lawful O) {x y : α} {ys : List α}
    (hc : O.cmp (key x) (key y) = .lt) (hb : StrictSorted O key (y :: ys)) :
    ∀ y' ∈ y :: ys, O.cmp (key x) (key y') = .lt := by
  intro y' hy'
  rcases List.mem_cons.mp hy' with rfl | hy'
  · exact hc
  · exact h.lt_trans hc (hb.head y' hy')

theorem inB_false_of_lt_head (h : Lawful O) {x y : α} {ys : List α}
    (hc : O.cmp (key x) (key y) = .lt) (hb : StrictSorted O key (y :: ys)) :
    inB O key (y :: ys) x = false := by
  rw [inB_eq_false]
  intro y' hy'
  rw [lt_all_of_lt_head h hc hb y' hy']; simp

/-- `x ≈ y`, `x :: xs` sorted: nothing in `xs` matches `y`. -/
theorem inB_cons_of_eq_head (h : Lawful O) {x y : α} {xs : List α} (ys : List α)
    (hc : O.cmp (key x) (key y) = .eq) (ha : StrictSorted O key (x :: xs)) :
    ∀ x' ∈ xs, inB O key (y :: ys) x' = inB O key ys x' := by
  intro x' hx'
  have h1 : O.cmp (key x') (key x) = .gt := h.lt_iff_gt.mp (ha.head x' hx')
  have h2 : O.cmp (key x') (key y) = .gt := h.gt_of_gt_of_ge h1 (by rw [hc]; simp)
  rw [inB_cons, h2]; rfl

/-- `y < x`, `x :: xs` sorted: nothing in `x :: xs` matches `y`. -/
theorem inB_cons_of_gt_head (h : Lawful O) {x y : α} {xs : List α} (ys : List α)
    (hc : O.cmp (key x) (key y) = .gt) (ha : StrictSorted O key (x :: xs)) :
    ∀ x' ∈ x :: xs, inB O key (y :: ys) x' = inB O key ys x' := by
  intro x' hx'
  have h2 : O.cmp (key x') (key y) = .gt := by
    rcases List.mem_cons.mp hx' with rfl | hx'
    · exact hc
    · exact h.gt_of_gt_of_ge (h.lt_iff_gt.mp (ha.head x' hx')) (by rw [hc]; simp)
  rw [inB_cons, h2]; rfl

theorem interL_spec (h : Lawful O) (a b : List α) (ha : StrictSorted O key a)
    (hb : StrictSorted O key b) : interL O key a b = a.filter (inB O key b) := by
  fun_induction interL O key a b with
  | case1 b => rfl
  | case2 x xs => simp [inB]
  | case3 x xs y ys hc ih =>
    rw [List.filter_cons, inB_false_of_lt_head h hc hb]
    exact ih ha.tail hb
  | case4 x xs y ys hc ih =>
    have hx : inB O key (y :: ys) x = true := inB_eq_true.mpr ⟨y, List.mem_cons_self, hc⟩
    rw [List.filter_cons, hx, ih ha.tail hb.tail]
    simp only [↓reduceIte, List.cons.injEq, true_and]
    exact (List.filter_congr (inB_cons_of_eq_head h ys hc ha)).symm
  | case5 x xs y ys hc ih =>
    rw [ih ha hb.tail]
    exact (List.filter_congr (inB_cons_of_gt_head h ys hc ha)).symm

theorem diffL_spec (h : Lawful O) (a b : List α) (ha : StrictSorted O key a)
    (hb : StrictSorted O key b) : diffL O key a b = a.filter (fun x => !inB O key b x) := by
  fun_induction diffL O key a b with
  | case1 b => rfl
  | case2 x xs =>
    refine (List.filter_eq_self.mpr ?_).symm
    intro a _; simp [inB]
  | case3 x xs y ys hc ih =>
    rw [List.filter_cons, inB_false_of_lt_head h hc hb, ih ha.tail hb]
    simp
  | case4 x xs y ys hc ih =>
    have hx : inB O key (y :: ys) x = true := inB_eq_true.mpr ⟨y, List.mem_cons_self, hc⟩
    rw [List.filter_cons, hx, ih ha.tail hb.tail]
    simp only [Bool.not_true, Bool.false_eq_true, ↓reduceIte]
    refine (List.filter_congr ?_).symm
    intro x' hx'; rw [inB_cons_of_eq_head h ys hc ha x' hx']
  | case5 x xs y ys hc ih =>
    rw [ih ha hb.tail]
    refine (List.filter_congr ?_).symm
    intro x' hx'; rw [inB_cons_of_gt_head h ys hc ha x' hx']

theorem mem_unionL_sub (a b : List α) : ∀ z ∈ unionL O key a b, z ∈ a ∨ z ∈ b := by
  fun_induction unionL O key a b with
  | case1 b => intro z hz; exact .inr hz
  | case2 x xs => intro z hz; exact .inl hz
  | case3 x xs y ys hc ih =>
    intro z hz
    rcases List.mem_cons.mp hz with rfl | hz
    · exact .inl List.mem_cons_self
    · rcases ih z hz with h1 | h1
      · exact .inl (List.mem_cons_of_mem _ h1)
      · exact .inr h1
  | case4 x xs y ys hc ih =>
    intro z hz
    rcases List.mem_cons.mp hz with rfl | hz
    · exact .inl List.mem_cons_self
    · rcases ih z hz with h1 | h1
      · exact .inl (List.mem_cons_of_mem _ h1)
      · exact .inr (List.mem_cons_of_mem _ h1)
  | case5 x xs y ys hc ih =>
    intro z hz
    rcases List.mem_cons.mp hz with rfl | hz
    · exact .inr List.mem_cons_self
    · rcases ih z hz with h1 | h1
      · exact .inl h1
      · exact .inr (List.mem_cons_of_mem _ h1)

theorem unionL_sorted (h : Lawful O) (a b : List α) (ha : StrictSorted O key a)
    (hb : StrictSorted O key b) : StrictSorted O key (unionL O key a b) := by
  fun_induction unionL O key a b with
  | case1 b => exact hb
  | case2 x xs => exact ha
  | case3 x xs y ys hc ih =>
    refine List.pairwise_cons.mpr ⟨?_, ih ha.tail hb⟩
    intro z hz
    rcases mem_unionL_sub _ _ z hz with h1 | h1
    · exact ha.head z h1
    · exact lt_all_of_lt_head h hc hb z h1
  | case4 x xs y ys hc ih =>
    refine List.pairwise_cons.mpr ⟨?_, ih ha.tail hb.tail⟩
    intro z hz
    rcases mem_unionL_sub _ _ z hz with h1 | h1
    · exact ha.head z h1
    · exact h.lt_of_eq_of_lt hc (hb.head z h1)
  | case5 x xs y ys hc ih =>
    refine List.pairwise_cons.mpr ⟨?_, ih ha hb.tail⟩
    intro z hz
    rcases mem_unionL_sub _ _ z hz with h1 | h1
    · exact lt_all_of_lt_head h (h.gt_iff_lt.mp hc) ha z h1
    · exact hb.head z h1

theorem mem_unionL (h : Lawful O) (a b : List α) (ha : StrictSorted O key a)
    (hb : StrictSorted O key b) (z : α) :
    z ∈ unionL O key a b ↔ z ∈ a ∨ (z ∈ b ∧ inB O key a z = false) := by
  fun_induction unionL O key a b with
  | case1 b => simp [inB]
  | case2 x xs => simp
  | case3 x xs y ys hc ih =>
    -- x < y: x is taken; x matches nothing in y :: ys
    have hrw : ∀ z ∈ y :: ys, inB O key (x :: xs) z = inB O key xs z :=
      inB_cons_of_gt_head h xs (h.lt_iff_gt.mp hc) hb
    rw [List.mem_cons, ih ha.tail hb]
    constructor
    · rintro (rfl | h1 | ⟨h1, h2⟩)
      · exact .inl List.mem_cons_self
      · exact .inl (List.mem_cons_of_mem _ h1)
      · exact .inr ⟨h1, by rw [hrw z h1]; exact h2⟩
    · rintro (h1 | ⟨h1, h2⟩)
      · rcases List.mem_cons.mp h1 with rfl | h1
        · exact .inl rfl
        · exact .inr (.inl h1)
      · exact .inr (.inr ⟨h1, by rw [← hrw z h1]; exact h2⟩)
  | case4 x xs y ys hc ih =>
    -- x ≈ y: x is taken, y is skipped
    have hy : inB O key (x :: xs) y = true :=
      inB_eq_true.mpr ⟨x, List.mem_cons_self, h.eq_symm hc⟩
    have hrw : ∀ z ∈ ys, inB O key (x :: xs) z = inB O key xs z :=
      inB_cons_of_eq_head h xs (h.eq_symm hc) hb
    rw [List.mem_cons, ih ha.tail hb.tail]
    constructor
    · rintro (rfl | h1 | ⟨h1, h2⟩)
      · exact .inl List.mem_cons_self
      · exact .inl (List.mem_cons_of_mem _ h1)
      · exact .inr ⟨List.mem_cons_of_mem _ h1, by rw [hrw z h1]; exact h2⟩
    · rintro (h1 | ⟨h1, h2⟩)
      · rcases List.mem_cons.mp h1 with rfl | h1
        · exact .inl rfl
        · exact .inr (.inl h1)
      · rcases List.mem_cons.mp h1 with rfl | h1
        · rw [hy] at h2; cases h2
        · exact .inr (.inr ⟨h1, by rw [← hrw z h1]; exact h2⟩)
  | case5 x xs y ys hc ih =>
    -- y < x: y is taken; y matches nothing in x :: xs
    have hy : inB O key (x :: xs) y = false :=
      inB_false_of_lt_head h (h.gt_iff_lt.mp hc) ha
    rw [List.mem_cons, ih ha hb.tail]
    constructor
    · rintro (rfl | h1 | ⟨h1, h2⟩)
      · exact .inr ⟨List.mem_cons_self, hy⟩
      · exact .inl h1
      · exact .inr ⟨List.mem_cons_of_mem _ h1, h2⟩
    · rintro (h1 | ⟨h1, h2⟩)
      · exact .inr (.inl h1)
      · rcases List.mem_cons.mp h1 with rfl | h1
        · exact .inl rfl
        · exact .inr (.inr ⟨h1, h2⟩)

end Rsj.Sort
