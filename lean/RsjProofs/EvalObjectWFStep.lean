/-
  Object algebra of the evaluator model, part 6: `StoreWF` (every stored object lists each
  name at most once per layer) through the helper functions of the evaluator that take the
  recursive-call function `rec` as a parameter.  `step` / `run` follow in
  RsjProofs/EvalObjectWFRun.lean.
-/
import RsjProofs.EvalObjectWF
open Std.Do
set_option mvcgen.warning false
set_option linter.unusedSimpArgs false
set_option linter.unusedVariables false
namespace Rsj.Eval
open Rsj.Core

attribute [local spec] allocThunk_w allocEnv_w allocFunc_w allocObj_w getThunk_w getEnv_w getFunc_w getObj_w
  setEnv_w setObj_w noteDepth_w pushTrace_w switchState_w finishThunk_w
  newEnv_w getVar_w getObjRef_w checkNum_w newThunk_w checkDepth_w sliceNum_w safeInt_w
  numText_w sliceRange_w bindThunkArgs_w initObjectEnv_w layerEnv_w fieldThunk_w addField_w

/-- what is assumed of the recursive-call function, and proved of `step` -/
abbrev RecW (rec : Task → M Value) : Prop :=
  ∀ (t : Task), ⦃fun st => ⌜StoreWF st⌝⦄ rec t ⦃QT⦄

/-- side conditions: well-formedness of the object that is stored -/
macro "wobj" : tactic => `(tactic| (intros; wflat; first
  | assumption
  | exact objWF_extendObject (by assumption) (by assumption)
  | exact objWF_single (by assumption) _ _
  | wlayers))

macro "wfin" : tactic => `(tactic| (w_assign_invs QT; all_goals (first | wclose | wobj)))

section
variable (cfg : Cfg) (rec : Task → M Value) (hrec : RecW rec)
include hrec

theorem rec_w (t : Task) : ⦃fun st => ⌜StoreWF st⌝⦄ rec t ⦃QT⦄ := hrec t

theorem recStr_w (t : Task) : ⦃fun st => ⌜StoreWF st⌝⦄ recStr rec t ⦃QT⦄ := by
  have h := rec_w rec hrec
  unfold recStr; mvcgen [h]; wfin

theorem wantThunk_w (t : TId) (d : Nat) : ⦃fun st => ⌜StoreWF st⌝⦄ wantThunk cfg rec t d ⦃QT⦄ := by
  have h := rec_w rec hrec
  unfold wantThunk; mvcgen [h]; wfin

theorem wantField_w (o : OId) (n : String) (d : Nat) : ⦃fun st => ⌜StoreWF st⌝⦄ wantField cfg rec o n d ⦃QT⦄ := by
  have h2 := wantThunk_w cfg rec hrec
  have h := rec_w rec hrec
  unfold wantField; mvcgen [h, h2]; wfin

theorem wantSuperField_w (e : EId) (n : String) (d : Nat) :
    ⦃fun st => ⌜StoreWF st⌝⦄ wantSuperField cfg rec e n d ⦃QT⦄ := by
  have h2 := wantThunk_w cfg rec hrec
  have h := rec_w rec hrec
  unfold wantSuperField; mvcgen [h, h2]; wfin

theorem coerceToString_w (v : Value) (d : Nat) : ⦃fun st => ⌜StoreWF st⌝⦄ coerceToString rec v d ⦃QT⦄ := by
  have h2 := recStr_w rec hrec
  have h := rec_w rec hrec
  unfold coerceToString; mvcgen [h, h2]; wfin

theorem evalSpecs_w (specs : List (Option String × Expr)) (env : EId) (d : Nat) :
    ⦃fun st => ⌜StoreWF st⌝⦄ evalSpecs rec specs env d ⦃QT⦄ := by
  have h := rec_w rec hrec
  unfold evalSpecs; mvcgen [h]; wfin

theorem binaryOp_w (op : BinOp) (l r : Value) (d : Nat) (hs : Bool) :
    ⦃fun st => ⌜StoreWF st⌝⦄ binaryOp cfg rec op l r d hs ⦃QT⦄ := by
  have h2 := recStr_w rec hrec
  have h3 := coerceToString_w rec hrec
  have h := rec_w rec hrec
  unfold binaryOp; mvcgen [h, h2, h3]; wfin

theorem objectMember_w (env : EId) (d : Nat) (layer : Layer) (m : Members) (hl : LayerNodup layer) :
    ⦃fun st => ⌜StoreWF st⌝⦄ objectMember rec env d layer m ⦃QW LayerNodup⦄ := by
  have h := rec_w rec hrec
  cases m <;> (unfold objectMember; mvcgen [h]; wfin)

theorem sliceArg_w (env : EId) (d : Nat) (x : OptExpr) :
    ⦃fun st => ⌜StoreWF st⌝⦄ sliceArg rec env d x ⦃QT⦄ := by
  have h := rec_w rec hrec
  cases x <;> (unfold sliceArg; mvcgen [h]; wfin)

theorem std_length_w (t : TId) (d1 : Nat) : ⦃fun st => ⌜StoreWF st⌝⦄ std_length rec t d1 ⦃QT⦄ := by
  have h := rec_w rec hrec
  unfold std_length; mvcgen [h]; wfin

theorem std_type_w (t : TId) (d1 : Nat) : ⦃fun st => ⌜StoreWF st⌝⦄ std_type rec t d1 ⦃QT⦄ := by
  have h := rec_w rec hrec
  unfold std_type; mvcgen [h]; wfin

theorem std_trace_w (t0 t1 : TId) (d1 : Nat) : ⦃fun st => ⌜StoreWF st⌝⦄ std_trace rec t0 t1 d1 ⦃QT⦄ := by
  have h := rec_w rec hrec
  unfold std_trace; mvcgen [h]; wfin

theorem std_objectHasEx_w (t0 t1 t2 : TId) (d1 : Nat) :
    ⦃fun st => ⌜StoreWF st⌝⦄ std_objectHasEx rec t0 t1 t2 d1 ⦃QT⦄ := by
  have h := rec_w rec hrec
  unfold std_objectHasEx; mvcgen [h]; wfin

theorem std_objectFieldsEx_w (t0 t1 : TId) (d1 : Nat) :
    ⦃fun st => ⌜StoreWF st⌝⦄ std_objectFieldsEx rec t0 t1 d1 ⦃QT⦄ := by
  have h := rec_w rec hrec
  unfold std_objectFieldsEx; mvcgen [h]; wfin

theorem std_map_w (t0 t1 : TId) (d1 : Nat) : ⦃fun st => ⌜StoreWF st⌝⦄ std_map rec t0 t1 d1 ⦃QT⦄ := by
  have h := rec_w rec hrec
  unfold std_map; mvcgen [h]; wfin

set_option maxRecDepth 4096 in
theorem std_makeArray_w (t0 t1 : TId) (d1 : Nat) : ⦃fun st => ⌜StoreWF st⌝⦄ std_makeArray rec t0 t1 d1 ⦃QT⦄ := by
  have h := rec_w rec hrec
  unfold std_makeArray; mvcgen [h]; wfin

theorem builtinCall_w (b : Builtin) (ts : List TId) (d1 : Nat) :
    ⦃fun st => ⌜StoreWF st⌝⦄ builtinCall rec b ts d1 ⦃QT⦄ := by
  have g0 := std_length_w rec hrec
  have g1 := std_type_w rec hrec
  have g2 := std_trace_w rec hrec
  have g3 := std_objectHasEx_w rec hrec
  have g4 := std_objectFieldsEx_w rec hrec
  have g5 := std_map_w rec hrec
  have g6 := std_makeArray_w rec hrec
  unfold builtinCall
  mvcgen [g0, g1, g2, g3, g4, g5, g6]; wfin

theorem compareLists_w (d : Nat) (xs ys : List TId) :
    ⦃fun st => ⌜StoreWF st⌝⦄ compareLists cfg rec d xs ys ⦃QT⦄ := by
  have h := rec_w rec hrec
  induction xs generalizing ys with
  | nil => cases ys <;> (unfold compareLists; mvcgen; wfin)
  | cons x xs ih =>
    cases ys with
    | nil => unfold compareLists; mvcgen; wfin
    | cons y ys =>
      have ih' := ih ys
      unfold compareLists
      mvcgen [h, ih']; wfin

theorem thunkBody_w (p : Pending) (d : Nat) :
    ⦃fun st => ⌜StoreWF st⌝⦄ thunkBody cfg rec p d ⦃QT⦄ := by
  have h := rec_w rec hrec
  have h2 := wantThunk_w cfg rec hrec
  have h7 := binaryOp_w cfg rec hrec
  cases p <;> (unfold thunkBody; mvcgen [h, h2, h7]; wfin)

end
end Rsj.Eval
