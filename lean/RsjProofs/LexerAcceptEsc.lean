/-
  Acceptance of escape sequences: whenever the escape branch of
  `lex_quoted_string` pushes a character, the bytes it consumed after the
  backslash satisfy `EscSpec` (inversion of `lexEscape`).
-/
import RsjProofs.LexerQuoted
import RsjProofs.LexerAcceptKinds
namespace Rsj.Lexer
open Rsj.Utf8

theorem eatMapByte_inv {α : Type} {p : Nat} {r : List Nat} {f : Nat → Option α} {d : α} {c1 : Cur}
    (h : Cur.eatMapByte ⟨p, r⟩ f = some (d, c1)) :
    ∃ x t, r = x :: t ∧ f x = some d ∧ c1 = ⟨p + 1, t⟩ := by
  cases r with
  | nil => simp [Cur.eatMapByte] at h
  | cons x t =>
    simp only [Cur.eatMapByte] at h
    split at h
    · next v hv => cases h; exact ⟨x, t, rfl, hv, rfl⟩
    · cases h

theorem eatCodeunit_inv {p : Nat} {r : List Nat} {cu : Nat} {c1 : Cur}
    (h : eatCodeunit ⟨p, r⟩ = (some cu, c1)) :
    ∃ hex, Hex4 hex cu ∧ r = hex ++ c1.rest ∧ c1.pos = p + 4 := by
  unfold eatCodeunit at h
  split at h
  · cases h
  next d0 c1' h0 =>
  obtain ⟨b0, t0, rfl, hd0, rfl⟩ := eatMapByte_inv h0
  try simp only at h
  split at h
  · cases h
  next d1 c2' h1 =>
  obtain ⟨b1, t1, rfl, hd1, rfl⟩ := eatMapByte_inv h1
  try simp only at h
  split at h
  · cases h
  next d2 c3' h2 =>
  obtain ⟨b2, t2, rfl, hd2, rfl⟩ := eatMapByte_inv h2
  try simp only at h
  split at h
  · cases h
  next d3 c4' h3 =>
  obtain ⟨b3, t3, rfl, hd3, rfl⟩ := eatMapByte_inv h3
  simp only [Prod.mk.injEq, Option.some.injEq] at h
  obtain ⟨hcu, rfl⟩ := h
  refine ⟨[b0, b1, b2, b3], ⟨b0, b1, b2, b3, d0, d1, d2, d3, rfl, hd0, hd1, hd2, hd3, ?_⟩, rfl, rfl⟩
  rw [← hcu]
  exact codeunit_eq (hexFromDigit_lt hd1) (hexFromDigit_lt hd2) (hexFromDigit_lt hd3)

theorem decodeUtf16Pair_inv {hi lo chr : Nat} (h : decodeUtf16Pair hi lo = some chr)
    (hs : isSurrogate hi = true) :
    (0xD800 ≤ hi ∧ hi ≤ 0xDBFF) ∧ (0xDC00 ≤ lo ∧ lo ≤ 0xDFFF) ∧
      chr = 0x10000 + (hi - 0xD800) * 0x400 + (lo - 0xDC00) := by
  unfold decodeUtf16Pair at h
  simp only [isSurrogate, Bool.and_eq_true, decide_eq_true_eq] at hs
  split at h
  · cases h
  split at h
  · cases h
  have a1 : hi &&& 0x3FF = hi % 1024 := Nat.and_two_pow_sub_one_eq_mod hi 10
  have a2 : lo &&& 0x3FF = lo % 1024 := Nat.and_two_pow_sub_one_eq_mod lo 10
  rw [a1, a2, Utf8.or_shift _ _ 10 (by omega)] at h
  simp only [Option.some.injEq] at h
  refine ⟨by omega, by omega, ?_⟩
  omega

theorem eatSlice_inv {p : Nat} {r s : List Nat} {c2 : Cur} (h : Cur.eatSlice ⟨p, r⟩ s = some c2) :
    ∃ t, r = s ++ t ∧ c2 = ⟨p + s.length, t⟩ := by
  unfold Cur.eatSlice at h
  try simp only at h
  split at h
  · next hp =>
    cases h
    obtain ⟨t, rfl⟩ := List.isPrefixOf_iff_prefix.mp hp
    exact ⟨t, rfl, by simp⟩
  · cases h

/-- Inversion of `\uXXXX` handling. -/
theorem lexUnicodeEscape_inv {es p : Nat} {r : List Nat} {chr : Nat} {c2 : Cur}
    (h : lexUnicodeEscape es ⟨p, r⟩ = .push chr c2) :
    ∃ bytes, EscSpec (117 :: bytes) chr ∧ r = bytes ++ c2.rest ∧ c2.pos = p + bytes.length := by
  unfold lexUnicodeEscape at h
  split at h
  · cases h
  next cu1 c1 hc1 =>
  obtain ⟨hex1, hh1, hr1, hp1⟩ := eatCodeunit_inv hc1
  split at h
  · next c2' hsl =>
    split at hsl
    · next hsur =>
      obtain ⟨t, hrt, rfl⟩ := eatSlice_inv (p := c1.pos) (r := c1.rest) hsl
      split at h
      · cases h
      next cu2 c3 hc3 =>
      obtain ⟨hex2, hh2, hr2, hp2⟩ := eatCodeunit_inv hc3
      split at h
      · next chr' hpair =>
        cases h
        obtain ⟨g1, g2, g3⟩ := decodeUtf16Pair_inv hpair hsur
        refine ⟨hex1 ++ 92 :: 117 :: hex2, Or.inr (Or.inr ⟨hex1, hex2, cu1, cu2, rfl, hh1, hh2, g1, g2, g3⟩),
          ?_, ?_⟩
        · rw [hr1, hrt, hr2]; simp
        · simp only [List.length_append, List.length_cons, hh1.length, hh2.length]
          simp only [List.length_cons, List.length_nil] at hp2
          omega
      · cases h
    · cases hsl
  · split at h
    · next hsc =>
      cases h
      rw [isScalar_iff] at hsc
      exact ⟨hex1, Or.inr (Or.inl ⟨hex1, rfl, hh1, by omega⟩), hr1, by rw [hp1, hh1.length]⟩
    · cases h

/-- Inversion of the escape branch: whenever an escape pushes `chr`, the bytes it
    consumed (after the backslash) satisfy `EscSpec … chr`. -/
theorem lexEscape_inv {start p : Nat} {r : List Nat} {chr : Nat} {c2 : Cur}
    (h : lexEscape start ⟨p, r⟩ = .push chr c2) :
    ∃ bytes, EscSpec bytes chr ∧ r = bytes ++ c2.rest ∧ c2.pos = p + bytes.length := by
  unfold lexEscape at h
  try simp only at h
  split at h
  · next chr' c1 hm =>
    cases h
    obtain ⟨x, t, rfl, hl, rfl⟩ := eatMapByte_inv hm
    refine ⟨[x], Or.inl ⟨x, rfl, ?_⟩, rfl, rfl⟩
    revert hl
    simp only [simpleEscapes, List.lookup]
    repeat' split
    all_goals simp_all
  · split at h
    · next c1 he =>
      obtain ⟨u, rfl, rfl⟩ := eatByte_inv he
      obtain ⟨bytes, hs, hr, hp⟩ := lexUnicodeEscape_inv h
      exact ⟨117 :: bytes, hs, by rw [hr]; rfl, by rw [hp]; simp; omega⟩
    · split at h <;> cases h

end Rsj.Lexer
