import RsjProofs.EvalNoNaNBase
/-!
  "partial_cmp of NaN": the helper functions of the evaluator keep the store NaN-free and return
  NaN-free values whenever the recursive calls do.
-/
open Std.Do
set_option mvcgen.warning false
namespace Rsj.Eval.NoNaN
open Rsj.Core Rsj.Eval Rsj.Eval.Scope

/-- what a task needs: the operands of a comparison are not NaN -/
def TaskNN : Task → Prop
  | .compare a b _ => VNN a ∧ VNN b
  | .deep v _ => VNN v
  | _ => True

/-- what is assumed of the recursive-call function, and proved of `step` -/
abbrev RecOk3 (rec : Task → M Value) : Prop :=
  ∀ (t : Task), TaskNN t → ⦃fun st => ⌜NN st⌝⦄ rec t ⦃Q3 VNN⦄

theorem literalValue_nn (F : FloatNaNFacts) {e : Expr} {v : Value} (h : literalValue e = some v) : VNN v := by
  unfold literalValue at h
  split at h <;> (try cases h) <;> try trivial
  split at h
  · cases h; exact F.finite _ (by assumption)
  · cases h

theorem intToFloat_nn (F : FloatNaNFacts) (i : Int) : (intToFloat i).isNaN = false := by
  unfold intToFloat
  split
  · exact F.ofNat _
  · exact F.neg _ (F.ofNat _)

theorem Good3_bindErr (e : Bind.BindErr) : Good3 (bindErr e) := by
  cases e <;> simp [bindErr, Good3]

/-- generic: verification conditions, trivial invariants, closers -/
macro "nnauto" : tactic => `(tactic|
  (mvcgen
   on_invs exact inv3 (fun _ => True)
   all_goals vcp
   all_goals nclose))

@[spec] theorem newThunk_nn (F : FloatNaNFacts) (e : Expr) (env : EId) :
    ⦃fun st => ⌜NN st⌝⦄ newThunk e env ⦃Q3 (fun _ => True)⦄ := by
  unfold newThunk; mvcgen; all_goals vcp
  all_goals first | nclose | exact literalValue_nn F (by assumption)

@[spec] theorem initObjectEnv_nn (F : FloatNaNFacts) (o : OId) (li : Nat) (b : EId) :
    ⦃fun st => ⌜NN st⌝⦄ initObjectEnv o li b ⦃Q3 (fun _ => True)⦄ := by
  unfold initObjectEnv; nnauto

@[spec] theorem layerEnv_nn (F : FloatNaNFacts) (o : OId) (li : Nat) :
    ⦃fun st => ⌜NN st⌝⦄ layerEnv o li ⦃Q3 (fun _ => True)⦄ := by
  unfold layerEnv; nnauto

@[spec] theorem fieldThunk_nn (F : FloatNaNFacts) (o : OId) (start : Nat) (name : String) :
    ⦃fun st => ⌜NN st⌝⦄ fieldThunk o start name ⦃Q3 (fun _ => True)⦄ := by
  unfold fieldThunk; nnauto

@[spec] theorem addField_nn (F : FloatNaNFacts) (layer : Layer) (name : String) (plus : Bool) (vis : Vis)
    (value : Expr) (baseEnv : Option EId) :
    ⦃fun st => ⌜NN st⌝⦄ addField layer name plus vis value baseEnv ⦃Q3 (fun _ => True)⦄ := by
  unfold addField; mvcgen; all_goals vcp
  all_goals first | nclose | exact literalValue_nn F (by assumption)

@[spec] theorem bindThunkArgs_nn (F : FloatNaNFacts) (fn : Func) (pos : List TId) :
    ⦃fun st => ⌜NN st⌝⦄ bindThunkArgs fn pos ⦃Q3 (fun _ => True)⦄ := by
  unfold bindThunkArgs; mvcgen
  on_invs exact inv3 (fun _ => True)
  all_goals vcp
  all_goals first | nclose | exact Good3_bindErr _

@[spec] theorem sliceRange_nn (len : Nat) (a b c : Option Float) :
    ⦃fun st => ⌜NN st⌝⦄ sliceRange len a b c ⦃Q3 (fun _ => True)⦄ := by
  unfold sliceRange; nnauto

section
variable (F : FloatNaNFacts) (cfg : Cfg) (rec : Task → M Value) (hrec : RecOk3 rec)
include F hrec

@[spec] theorem rec_nn (t : Task) (ht : TaskNN t) : ⦃fun st => ⌜NN st⌝⦄ rec t ⦃Q3 VNN⦄ := hrec t ht

set_option hygiene false in
/-- the same with the recursive calls -/
macro "nnrec" : tactic => `(tactic|
  (have hr := rec_nn F rec hrec
   mvcgen [hr]
   on_invs exact inv3 (fun _ => True)
   all_goals (try clear hr)
   all_goals vcp
   all_goals nclose))

@[spec] theorem recStr_nn (t : Task) (ht : TaskNN t) :
    ⦃fun st => ⌜NN st⌝⦄ recStr rec t ⦃Q3 (fun _ => True)⦄ := by
  unfold recStr; nnrec

@[spec] theorem wantThunk_nn (t : TId) (d : Nat) :
    ⦃fun st => ⌜NN st⌝⦄ wantThunk cfg rec t d ⦃Q3 VNN⦄ := by
  unfold wantThunk; nnrec

@[spec] theorem wantField_nn (o : OId) (name : String) (d : Nat) :
    ⦃fun st => ⌜NN st⌝⦄ wantField cfg rec o name d ⦃Q3 VNN⦄ := by
  unfold wantField; nnrec

@[spec] theorem wantSuperField_nn (env : EId) (name : String) (d : Nat) :
    ⦃fun st => ⌜NN st⌝⦄ wantSuperField cfg rec env name d ⦃Q3 VNN⦄ := by
  unfold wantSuperField; nnrec

@[spec] theorem coerceToString_nn (v : Value) (d : Nat) :
    ⦃fun st => ⌜NN st⌝⦄ coerceToString rec v d ⦃Q3 (fun _ => True)⦄ := by
  unfold coerceToString; nnrec

@[spec] theorem evalSpecs_nn (specs : List (Option String × Expr)) (env : EId) (d : Nat) :
    ⦃fun st => ⌜NN st⌝⦄ evalSpecs rec specs env d ⦃Q3 (fun _ => True)⦄ := by
  unfold evalSpecs; nnrec

end
end Rsj.Eval.NoNaN
